package main

import (
	"fmt"
	"go/ast"
	"go/constant"
	"go/token"
	"go/types"
	"golang.org/x/tools/go/packages"
	"sort"
	"strings"

	"golang.org/x/tools/go/cfg"
	"golang.org/x/tools/go/ssa"
)

// ---------------------------------------------------------------------------
// scopeless-loader (C04): a rollback scope - a private DAO layer plus the notification baseline - is opened for a
// called frame in exactly one place, the function that loads a contract method and installs the unload callback
// (contract.callExFromNative). Every other loader site of the execution closure creates a frame *without* a scope of
// its own, so whatever that frame (and anything it calls without a try block of its own) writes lands directly in
// the enclosing layer and survives when the frame throws and an outer frame catches. Such a site is sound only if the
// flags it hands to the loader cannot contain WriteStates or AllowNotify. The rule computes an upper bound of the
// flags argument from the syntax tree: constants come from the type checker, `&` intersects bounds, `&^ const` clears
// bits, `|` unites, a local is the union of the definitions that reach the call (reverse walk over the CFG), anything
// else is "all bits".
func ruleScopelessLoader(c *Ctx) {
	regs := c.P.Regs()
	if regs.Bits.WriteStates == 0 || regs.Bits.AllowNotify == 0 {
		c.Lost("callflag-bits", "call flag constants not found")
		return
	}
	effectBits := regs.Bits.WriteStates | regs.Bits.AllowNotify
	g := c.P.MRG()
	loaders := map[string]int{"LoadNEFMethod": 4, "LoadScriptWithFlags": 1, "LoadScriptWithHash": 2, "LoadDynamicScript": 1, "LoadScriptWithCallingHash": 4}
	via := g.Reach(c.P.HandlerRoots(), nil)
	var fns []*ssa.Function
	for fn := range via {
		fns = append(fns, fn)
	}
	sort.Slice(fns, func(i, j int) bool { return FnKey(fns[i]) < FnKey(fns[j]) })
	nScoped, nBare := 0, 0
	for _, fn := range fns {
		if fn.Pkg == nil || pkgRel(fn.Pkg.Pkg) == "pkg/vm" || fn.Parent() != nil {
			continue
		}
		hasLoader := false
		for _, e := range g.Nodes[fn].Out {
			cf := e.Callee.Fn
			if cf.Pkg != nil && pkgRel(cf.Pkg.Pkg) == "pkg/vm" && cf.Signature.Recv() != nil {
				if _, ok := loaders[cf.Name()]; ok {
					hasLoader = true
				}
			}
		}
		if !hasLoader {
			continue
		}
		obj, _ := fn.Object().(*types.Func)
		fd := c.P.DeclOf(obj)
		if fd == nil || fd.Decl.Body == nil {
			c.Lost("scopeless-loader."+FnKey(fn), "loader site in a function without a declaration")
			continue
		}
		f := c.P.NewFuncCFG(fd)
		// does this function open a rollback scope? (a private DAO layer and an unload callback taking the commit flag)
		opensLayer := len(f.CallSites("pkg/core/dao.(*Simple).GetPrivate")) > 0
		hasUnload := false
		ast.Inspect(fd.Decl.Body, func(n ast.Node) bool {
			if lit, ok := n.(*ast.FuncLit); ok {
				if sig, ok := fd.Pkg.TypesInfo.TypeOf(lit).(*types.Signature); ok && sig.Params().Len() == 3 {
					if b, ok := sig.Params().At(2).Type().Underlying().(*types.Basic); ok && b.Kind() == types.Bool {
						hasUnload = true
					}
				}
			}
			return true
		})
		for name, idx := range loaders {
			for _, s := range f.CallSites("pkg/vm.(*VM)." + name) {
				key := "scopeless-loader." + FnKey(fn) + "->" + name
				if opensLayer && hasUnload {
					nScoped++
					c.OK(key, c.P.Pos(s.call.Pos()), "the loading function opens a private DAO layer and installs the unload callback: the frame has a rollback scope")
					continue
				}
				nBare++
				if idx >= len(s.call.Args) {
					c.Lost(key, "flags argument not found")
					continue
				}
				ub, why := flagUpperBound(f, s, s.call.Args[idx], 0)
				if ub&effectBits != 0 {
					c.Fail(key, c.P.Pos(s.call.Pos()), fmt.Sprintf("%s loads a frame without a rollback scope of its own, and the flags it passes may contain WriteStates/AllowNotify (upper bound %#x; %s): what the frame writes survives when it throws and an outer frame catches", FnKey(fn), ub, why))
				} else {
					c.OK(key, c.P.Pos(s.call.Pos()), fmt.Sprintf("frame without a rollback scope gets flags bounded by %#x: neither WriteStates nor AllowNotify", ub))
				}
			}
		}
	}
	c.Floor("loader sites with a rollback scope", nScoped, 1)
	c.Floor("loader sites without a rollback scope", nBare, 1)
}

// flagUpperBound over-approximates the bits e can have at site s.
func flagUpperBound(f *FuncCFG, s site, e ast.Expr, depth int) (uint64, string) {
	const all = uint64(0xff)
	if depth > 6 {
		return all, "derivation too deep"
	}
	e = ast.Unparen(e)
	if tv, ok := f.Info.Types[e]; ok && tv.Value != nil && tv.Value.Kind() == constant.Int {
		if v, ok := constant.Uint64Val(tv.Value); ok {
			return v & all, "constant"
		}
	}
	switch x := e.(type) {
	case *ast.BinaryExpr:
		a, wa := flagUpperBound(f, s, x.X, depth+1)
		switch x.Op {
		case token.AND:
			b, _ := flagUpperBound(f, s, x.Y, depth+1)
			return a & b, "intersection"
		case token.OR:
			b, wb := flagUpperBound(f, s, x.Y, depth+1)
			return a | b, wa + " | " + wb
		case token.AND_NOT:
			if tv, ok := f.Info.Types[ast.Unparen(x.Y)]; ok && tv.Value != nil {
				if v, ok := constant.Uint64Val(tv.Value); ok {
					return a &^ v, wa + " with constant bits cleared"
				}
			}
			return a, wa
		}
		return all, "operator " + x.Op.String()
	case *ast.CallExpr:
		// a conversion keeps the bits
		if tv, ok := f.Info.Types[x.Fun]; ok && tv.IsType() && len(x.Args) == 1 {
			return flagUpperBound(f, s, x.Args[0], depth+1)
		}
		return all, "result of " + trunc(types.ExprString(x.Fun), 40)
	case *ast.Ident:
		o := f.Info.ObjectOf(x)
		if o == nil {
			return all, "unresolved"
		}
		if _, isParam := f.paramIdx[o]; isParam && len(f.defs[o]) == 0 {
			return all, "parameter " + x.Name + " (caller-chosen)"
		}
		// definitions reaching the site: reverse walk
		var ub uint64
		why := ""
		seen := map[*cfg.Block]bool{}
		var walk func(b *cfg.Block, before int)
		found := false
		walk = func(b *cfg.Block, before int) {
			for i := before - 1; i >= 0; i-- {
				if rhs := assignsTo(f, b.Nodes[i], o); rhs != nil {
					found = true
					v, w := flagUpperBound(f, site{blk: b, idx: i, node: b.Nodes[i]}, rhs, depth+1)
					ub |= v
					if why == "" || v&^0 != 0 {
						why = x.Name + " = " + trunc(types.ExprString(rhs), 60) + " [" + w + "]"
					}
					return
				} else if definesOpaque(f, b.Nodes[i], o) {
					found = true
					ub = all
					why = x.Name + " assigned from a multi-value expression"
					return
				}
			}
			preds := f.preds[b]
			if len(preds) == 0 {
				// reached the entry without a definition: parameter or zero value
				if _, isParam := f.paramIdx[o]; isParam {
					ub = all
					why = "parameter " + x.Name + " (caller-chosen)"
				}
				return
			}
			for _, p := range preds {
				if !seen[p] {
					seen[p] = true
					walk(p, len(p.Nodes))
				}
			}
		}
		if s.blk == nil {
			return all, "site without a block"
		}
		walk(s.blk, s.idx)
		if !found && why == "" {
			return 0, "zero value"
		}
		return ub, why
	}
	return all, "expression " + trunc(types.ExprString(e), 40)
}

// assignsTo returns the right-hand side if node n is a single-value assignment/definition of o.
func assignsTo(f *FuncCFG, n ast.Node, o types.Object) ast.Expr {
	switch x := n.(type) {
	case *ast.AssignStmt:
		if len(x.Lhs) == len(x.Rhs) {
			for i, l := range x.Lhs {
				if id, ok := l.(*ast.Ident); ok && f.Info.ObjectOf(id) == o {
					switch x.Tok {
					case token.ASSIGN, token.DEFINE:
						return x.Rhs[i]
					case token.AND_ASSIGN:
						return &ast.BinaryExpr{X: l, Op: token.AND, Y: x.Rhs[i]}
					case token.AND_NOT_ASSIGN:
						return &ast.BinaryExpr{X: l, Op: token.AND_NOT, Y: x.Rhs[i]}
					case token.OR_ASSIGN:
						return &ast.BinaryExpr{X: l, Op: token.OR, Y: x.Rhs[i]}
					}
				}
			}
		}
	case *ast.ValueSpec:
		if len(x.Names) == len(x.Values) {
			for i, id := range x.Names {
				if f.Info.ObjectOf(id) == o {
					return x.Values[i]
				}
			}
		}
	}
	return nil
}

func definesOpaque(f *FuncCFG, n ast.Node, o types.Object) bool {
	if x, ok := n.(*ast.AssignStmt); ok && len(x.Lhs) != len(x.Rhs) {
		for _, l := range x.Lhs {
			if id, ok := l.(*ast.Ident); ok && f.Info.ObjectOf(id) == o {
				return true
			}
		}
	}
	return false
}

// ---------------------------------------------------------------------------
// multimap-merge (generic): a map whose values are slices is a multimap. Merging one multimap into another that
// outlives the merge (a field, or a local declared outside the loop the merge sits in) must *append* to the list
// already stored under a key: `maps.Copy(dst, src)` and `for k, v := range src { dst[k] = v }` replace it, so of
// several contributions for one key only the last survives (statesync: the paths of a node that hangs off the trie
// more than once; mempool: the transactions naming one conflicting hash).
func ruleMultimapMerge(c *Ctx, pkgs ...string) {
	want := map[string]bool{}
	for _, p := range pkgs {
		want[p] = true
	}
	isMulti := func(t types.Type) bool {
		if t == nil {
			return false
		}
		m, ok := t.Underlying().(*types.Map)
		if !ok {
			return false
		}
		_, ok = m.Elem().Underlying().(*types.Slice)
		return ok
	}
	nMerge := 0
	for _, fd := range c.P.AllFuncDecls() {
		if !want[pkgRel(fd.Pkg.Types)] || fd.Decl.Body == nil {
			continue
		}
		info := fd.Pkg.TypesInfo
		// loops enclosing each node
		var stack []ast.Node
		var skipLoop ast.Node // the loop that performs the merge itself does not make the destination outlive it
		outlives := func(dst ast.Expr) bool {
			// a field / package variable always outlives; a local outlives if some enclosing loop does not contain its declaration
			id, ok := ast.Unparen(dst).(*ast.Ident)
			if !ok {
				return true
			}
			o := info.ObjectOf(id)
			if o == nil {
				return false
			}
			for _, n := range stack {
				if n == skipLoop {
					continue
				}
				switch n.(type) {
				case *ast.ForStmt, *ast.RangeStmt:
					if !(n.Pos() <= o.Pos() && o.Pos() < n.End()) {
						return true
					}
				}
			}
			return false
		}
		ast.Inspect(fd.Decl.Body, func(n ast.Node) bool {
			if n == nil {
				stack = stack[:len(stack)-1]
				return true
			}
			stack = append(stack, n)
			switch x := n.(type) {
			case *ast.CallExpr:
				if f := calleeFunc(info, x); f != nil && f.Pkg() != nil && f.Pkg().Path() == "maps" && f.Name() == "Copy" && len(x.Args) == 2 {
					if isMulti(info.TypeOf(x.Args[0])) && isMulti(info.TypeOf(x.Args[1])) {
						nMerge++
						key := "multimap-merge." + FuncKey(fd.Obj) + ".maps.Copy." + trunc(types.ExprString(x.Args[0]), 30)
						// outlives: the destination is not created inside the innermost enclosing loop (or there is no loop but it is a field)
						st := stack
						stack = stack[:len(stack)-1]
						ol := outlives(x.Args[0])
						stack = st
						if ol {
							c.Fail(key, c.P.Pos(x.Pos()), fmt.Sprintf("%s merges a multimap with maps.Copy: the list already stored under a key is replaced, not extended", FuncKey(fd.Obj)))
						} else {
							c.OK(key, c.P.Pos(x.Pos()), "destination multimap is created for this merge only")
						}
					}
				}
			case *ast.RangeStmt:
				// for k, v := range src { dst[k] = ... }
				if !isMulti(info.TypeOf(x.X)) || x.Key == nil {
					return true
				}
				kid, ok := x.Key.(*ast.Ident)
				if !ok {
					return true
				}
				kobj := info.ObjectOf(kid)
				skipLoop = x
				for _, s := range x.Body.List {
					as, ok := s.(*ast.AssignStmt)
					if !ok || len(as.Lhs) != 1 || len(as.Rhs) != 1 {
						continue
					}
					ie, ok := ast.Unparen(as.Lhs[0]).(*ast.IndexExpr)
					if !ok || !isMulti(info.TypeOf(ie.X)) {
						continue
					}
					if iid, ok := ast.Unparen(ie.Index).(*ast.Ident); !ok || info.ObjectOf(iid) != kobj {
						continue
					}
					nMerge++
					key := "multimap-merge." + FuncKey(fd.Obj) + ".range." + trunc(types.ExprString(ie.X), 30)
					// does the stored value derive from the element it replaces?
					derives := false
					dstStr := types.ExprString(ie)
					var derivesFrom func(e ast.Node, depth int)
					derivesFrom = func(e ast.Node, depth int) {
						ast.Inspect(e, func(y ast.Node) bool {
							if ie2, ok := y.(*ast.IndexExpr); ok && types.ExprString(ie2) == dstStr {
								derives = true
							}
							if id, ok := y.(*ast.Ident); ok && depth < 3 {
								if o := info.ObjectOf(id); o != nil {
									// definitions of the local inside the merging loop
									ast.Inspect(x.Body, func(z ast.Node) bool {
										if d, ok := z.(*ast.AssignStmt); ok && d != as && len(d.Lhs) == len(d.Rhs) {
											for i, l := range d.Lhs {
												if lid, ok := l.(*ast.Ident); ok && info.ObjectOf(lid) == o {
													derivesFrom(d.Rhs[i], depth+1)
												}
											}
										}
										return true
									})
								}
							}
							return true
						})
					}
					derivesFrom(as.Rhs[0], 0)
					if derives {
						c.OK(key, c.P.Pos(as.Pos()), "the merged list extends the one already stored under the key")
					} else if !outlives(ie.X) {
						c.OK(key, c.P.Pos(as.Pos()), "destination multimap is created for this merge only")
					} else {
						c.Fail(key, c.P.Pos(as.Pos()), fmt.Sprintf("%s merges a multimap key by key with a plain store: the list already stored under a key is replaced, not extended", FuncKey(fd.Obj)))
					}
				}
			}
			return true
		})
	}
	c.Floor("multimap merges", nMerge, 2)
}

// ---------------------------------------------------------------------------
// refs-handover (C12): the VM's reference counter is kept by the Stack operations: Push/InsertAt/PushItem count an
// element, Pop/RemoveAt/Clear un-count it, pushNoRef/popNoRef/Peek/Top/Back leave the counter alone. An element that
// is read from a stack S without un-counting it (Peek, Top, Back) and stored elsewhere without counting it
// (pushNoRef) keeps the one count it had: S must then be abandoned as it is. Un-counting S afterwards in the same
// function (Clear, Pop, RemoveAt) releases items that are still reachable from where they were handed to - the counter
// under-counts and the item limit can be exceeded.
func ruleRefsHandover(c *Ctx) {
	pk := c.P.Pkg("pkg/vm")
	if pk == nil {
		c.Lost("refs-handover.anchor", "package vm not found")
		return
	}
	uncounting := map[string]bool{"Clear": true, "Pop": true, "RemoveAt": true}
	peeking := map[string]bool{"Peek": true, "Top": true, "Back": true}
	n := 0
	for _, fd := range c.P.AllFuncDecls() {
		if fd.Pkg != pk || fd.Decl.Body == nil {
			continue
		}
		info := fd.Pkg.TypesInfo
		f := c.P.NewFuncCFG(fd)
		isStackMethod := func(call *ast.CallExpr, names map[string]bool) (ast.Expr, bool) {
			se, ok := ast.Unparen(call.Fun).(*ast.SelectorExpr)
			if !ok || !names[se.Sel.Name] {
				return nil, false
			}
			m, ok := info.ObjectOf(se.Sel).(*types.Func)
			if !ok {
				return nil, false
			}
			sig := m.Type().(*types.Signature)
			if sig.Recv() == nil || !namedTypeIs(sig.Recv().Type(), "pkg/vm", "Stack") {
				return nil, false
			}
			return se.X, true
		}
		// scope: the innermost case clause (execute is one huge switch) or the function body
		var scopes []ast.Node
		var visit func(nd ast.Node)
		visit = func(nd ast.Node) {
			if cc, ok := nd.(*ast.CaseClause); ok {
				scopes = append(scopes, cc)
				defer func() { scopes = scopes[:len(scopes)-1] }()
			}
			if call, ok := nd.(*ast.CallExpr); ok {
				if _, ok := isStackMethod(call, map[string]bool{"pushNoRef": true}); ok && len(call.Args) == 1 {
					// where does the element come from?
					var src ast.Expr
					var probe func(e ast.Expr, depth int)
					probe = func(e ast.Expr, depth int) {
						if depth > 3 || src != nil {
							return
						}
						switch x := ast.Unparen(e).(type) {
						case *ast.CallExpr:
							if recv, ok := isStackMethod(x, peeking); ok {
								src = recv
							}
						case *ast.Ident:
							for _, d := range f.defs[info.ObjectOf(x)] {
								for _, r := range d.rhs {
									probe(r, depth+1)
								}
							}
						}
					}
					probe(call.Args[0], 0)
					if src != nil {
						n++
						var scope ast.Node = fd.Decl.Body
						if len(scopes) > 0 {
							scope = scopes[len(scopes)-1]
						}
						key := fmt.Sprintf("refs-handover.%s#%d", FuncKey(fd.Obj), n)
						srcStr := types.ExprString(src)
						var srcObj types.Object
						if id, ok := ast.Unparen(src).(*ast.Ident); ok {
							srcObj = info.ObjectOf(id)
						}
						bad := token.NoPos
						badName := ""
						ast.Inspect(scope, func(y ast.Node) bool {
							if c2, ok := y.(*ast.CallExpr); ok {
								if recv, ok := isStackMethod(c2, uncounting); ok {
									same := types.ExprString(recv) == srcStr
									if id, ok := ast.Unparen(recv).(*ast.Ident); ok && srcObj != nil {
										same = info.ObjectOf(id) == srcObj
									}
									if same && bad == token.NoPos {
										bad = c2.Pos()
										badName = c2.Fun.(*ast.SelectorExpr).Sel.Name
									}
								}
							}
							return true
						})
						if bad != token.NoPos {
							c.Fail(key, c.P.Pos(bad), fmt.Sprintf("%s hands elements of %s over with pushNoRef (they keep their one count) and also un-counts that stack with %s: items still reachable from the receiving stack lose their reference count", FuncKey(fd.Obj), srcStr, badName))
						} else {
							c.OK(key, c.P.Pos(call.Pos()), fmt.Sprintf("elements peeked from %s are handed over uncounted and %s is not un-counted afterwards", srcStr, srcStr))
						}
					}
				}
			}
			for _, ch := range childNodes(nd) {
				visit(ch)
			}
		}
		visit(fd.Decl.Body)
	}
	c.Floor("uncounted hand-overs between stacks", n, 1)
}

// ---------------------------------------------------------------------------
// record-kind (C10, C17, C20): a node *record* - what the trie stores under a hash, what a peer sends as MPT data, what
// a proof lists - is a branch, an extension or a leaf. The decoder of records (NodeObject.DecodeBinary) is also the
// decoder of children and therefore accepts the two child-only kinds: a hash node (0x03 + 32 bytes) and the empty
// node (0x04). Neither can be used as a record: EmptyNode has no cache to fill (`n.Node.(flushedNode)` panics) and
// panics in Hash(); a HashNode given setCache(data, h) takes the hash of its own record and points at itself, so the
// walk that loaded it recurses until the stack overflows. Every function that decodes a record must therefore refuse
// both kinds before it uses the node. Sibling: Billet.RestoreHashNode refuses both (sync-guards).
func ruleRecordKind(c *Ctx, pkgs ...string) {
	want := map[string]bool{}
	for _, p := range pkgs {
		want[p] = true
	}
	n := 0
	for _, fd := range c.P.AllFuncDecls() {
		if !want[pkgRel(fd.Pkg.Types)] || fd.Decl.Body == nil {
			continue
		}
		f := c.P.NewFuncCFG(fd)
		if f == nil || len(f.CallSites("pkg/core/mpt.(*NodeObject).DecodeBinary")) == 0 {
			continue
		}
		info := fd.Pkg.TypesInfo
		isNodeField := func(e ast.Expr) bool {
			se, ok := ast.Unparen(e).(*ast.SelectorExpr)
			if !ok {
				return false
			}
			v, ok := info.ObjectOf(se.Sel).(*types.Var)
			return ok && v.IsField() && symOf(v) == "pkg/core/mpt#Node"
		}
		// uses of <obj>.Node that need a real record: returned, passed on, asserted without comma-ok, or a method
		// other than Type() called on it
		var uses []site
		for _, b := range f.G.Blocks {
			if !b.Live {
				continue
			}
			for i, nd := range b.Nodes {
				used := false
				commaOK := map[ast.Expr]bool{}
				inspectNoLit(nd, func(x ast.Node) bool {
					switch y := x.(type) {
					case *ast.AssignStmt:
						if len(y.Lhs) == 2 && len(y.Rhs) == 1 {
							if ta, ok := ast.Unparen(y.Rhs[0]).(*ast.TypeAssertExpr); ok {
								commaOK[ta] = true
							}
						}
					case *ast.TypeSwitchStmt:
						return false
					case *ast.ReturnStmt:
						for _, r := range y.Results {
							if isNodeField(r) {
								used = true
							}
						}
					case *ast.TypeAssertExpr:
						if isNodeField(y.X) && !commaOK[y] && y.Type != nil {
							used = true
						}
					case *ast.CallExpr:
						for _, a := range y.Args {
							if isNodeField(a) {
								if cs := f.calleeSym(y); cs != "pkg/core/mpt.isEmpty" {
									used = true
								}
							}
						}
						if se, ok := ast.Unparen(y.Fun).(*ast.SelectorExpr); ok && isNodeField(se.X) && se.Sel.Name != "Type" {
							used = true
						}
					}
					return true
				})
				if used {
					uses = append(uses, site{blk: b, idx: i, node: nd})
				}
			}
		}
		if len(uses) == 0 {
			continue
		}
		n++
		base := "record-kind." + FuncKey(fd.Obj)
		for _, k := range []struct {
			id, doc string
			alts    [][]string
		}{
			{"not-hash-node", "a hash node is not a record", [][]string{{"type:pkg/core/mpt.HashNode"}, {"pkg/core/mpt.HashT"}}},
			{"not-empty-node", "the empty node is not a record", [][]string{{"type:pkg/core/mpt.EmptyNode"}, {"pkg/core/mpt.EmptyT"}, {"pkg/core/mpt.isEmpty"}}},
		} {
			if k.id == "not-hash-node" && pkgRel(fd.Pkg.Types) != "pkg/core/mpt" {
				// outside package mpt a decoded record is handed to Billet.RestoreHashNode, which refuses hash nodes itself
				// (sync-guards); the self-reference arises only where the record's own hash is given to setCache
				continue
			}
			ok := false
			var last GateResult
			for _, alt := range k.alts {
				last = f.CheckGate(f.Entry(), blocksOf(uses), Guard{ID: k.id, Doc: k.doc, Alts: [][]string{alt}}, nil)
				if last.OK {
					ok = true
					break
				}
			}
			if ok {
				c.OK(base+"."+k.id, c.P.Pos(fd.Decl.Pos()), last.Msg)
			} else {
				c.Fail(base+"."+k.id, c.P.Pos(uses[0].node.Pos()), fmt.Sprintf("%s decodes a node record and uses it without refusing the child-only kind (%s): such a record makes the node panic (EmptyNode has no cache and no hash) or point at itself (a HashNode given its own record's hash)", FuncKey(fd.Obj), k.doc), last.Path...)
			}
		}
	}
	c.Floor("functions decoding node records", n, 2)
}

// ---------------------------------------------------------------------------
// stage-gated-accessor (C20): statesync.Module.BlockHeight panics ("program bug") unless the module is inactive or
// its MPT stage is complete. A P2P message is not a program bug: every way from the message handler to that accessor
// must pass, in some function on the way, a call site that is unreachable in the world where the accessor panics
// (IsActive() true and NeedBlocks() false; inside the module: a test of syncStage itself). The call graph is walked from each command handler; an edge is
// cut when the calling function gates the call site by such a predicate; what is still reachable is reported with
// its path. One data-gated site is tabled.
var stageGateTabled = map[string]string{
	"pkg/network.(*Server).requestBlocksOrHeaders": "the queuer asked for its height is the state-sync module only when NeedBlocks() answered true two statements earlier (the module is selected by data, not by a branch around the call)",
}

func ruleStageGatedAccessor(c *Ctx) {
	g := c.P.MRG()
	hm := c.P.Func("pkg/network", "Server", "handleMessage")
	tgt := c.P.Func("pkg/core/statesync", "Module", "BlockHeight")
	if hm == nil || tgt == nil {
		c.Lost("stage-gated-accessor.anchor", "Server.handleMessage or statesync.Module.BlockHeight not found")
		return
	}
	tfn := c.P.SSAFunc(tgt.Obj)
	// the accessor must still be the panicking one
	hasPanic := false
	for _, b := range tfn.Blocks {
		for _, ins := range b.Instrs {
			if _, ok := ins.(*ssa.Panic); ok {
				hasPanic = true
			}
		}
	}
	if !hasPanic {
		c.OK("stage-gated-accessor.accessor", c.P.Pos(tgt.Decl.Pos()), "Module.BlockHeight no longer panics on an early stage: nothing to gate")
		return
	}
	gatedCache := map[*MEdge]bool{}
	cfgCache := map[*ssa.Function]*FuncCFG{}
	gated := func(e *MEdge) bool {
		if v, ok := gatedCache[e]; ok {
			return v
		}
		res := false
		fn := e.Caller.Fn
		f, ok := cfgCache[fn]
		if !ok {
			if obj, _ := fn.Object().(*types.Func); obj != nil {
				if fd := c.P.DeclOf(obj); fd != nil {
					f = c.P.NewFuncCFG(fd)
				}
			}
			cfgCache[fn] = f
		}
		if f != nil && e.Site != nil && e.Site.Pos().IsValid() {
			// the block holding the call site
			var tb []*cfg.Block
			for _, b := range f.G.Blocks {
				if !b.Live {
					continue
				}
				for _, nd := range b.Nodes {
					if nd.Pos() <= e.Site.Pos() && e.Site.Pos() < nd.End() {
						tb = append(tb, b)
					}
				}
			}
			if len(tb) > 0 {
				tm := map[*cfg.Block]bool{}
				for _, b := range tb {
					tm[b] = true
				}
				// the world in which the accessor panics: the module is active and does not need blocks yet. A call
				// site that cannot be reached in that world (it needs NeedBlocks() to be true or IsActive() to be
				// false) is gated with the right polarity.
				unsafe := symAssume("pkg/network.(StateSync).NeedBlocks", false, "pkg/core/statesync.(*Module).NeedBlocks", false,
					"pkg/network.(StateSync).IsActive", true, "pkg/core/statesync.(*Module).IsActive", true,
					// the answers bound to locals first (`needBlocks := s.stateSync.NeedBlocks()`)
					"local<-pkg/network.(StateSync).NeedBlocks", false, "local<-pkg/core/statesync.(*Module).NeedBlocks", false,
					"local<-pkg/network.(StateSync).IsActive", true, "local<-pkg/core/statesync.(*Module).IsActive", true)
				live := f.reach(f.Entry(), nil, unsafe)
				res = true
				for b := range tm {
					if _, ok := live[b]; ok {
						res = false
					}
				}
				// inside the module itself the stage field is tested directly
				if !res {
					if r := f.CheckGate(f.Entry(), tm, Guard{ID: "stage", Doc: "stage field", Alts: [][]string{{"pkg/core/statesync#syncStage"}}, WholeOpen: true}, nil); r.OK {
						res = true
					}
				}
			}
		}
		gatedCache[e] = res
		return res
	}
	nh := 0
	root := c.P.SSAFunc(hm.Obj)
	var handlers []*MEdge
	seenH := map[*ssa.Function]bool{}
	for _, e := range g.Nodes[root].Out {
		if e.Kind == "static" && e.Callee.Fn.Pkg != nil && pkgRel(e.Callee.Fn.Pkg.Pkg) == "pkg/network" && strings.HasPrefix(e.Callee.Fn.Name(), "handle") && !seenH[e.Callee.Fn] {
			seenH[e.Callee.Fn] = true
			handlers = append(handlers, e)
		}
	}
	sort.Slice(handlers, func(i, j int) bool { return handlers[i].Callee.Fn.Name() < handlers[j].Callee.Fn.Name() })
	for _, he := range handlers {
		h := he.Callee.Fn
		nh++
		via := g.Reach([]*ssa.Function{h}, gated)
		key := "stage-gated-accessor." + h.Name()
		if _, ok := via[tfn]; !ok {
			c.OK(key, c.P.Pos(h.Pos()), "every way from this command handler to Module.BlockHeight passes a branch on the module's stage, or there is none")
			continue
		}
		// the direct caller on the recorded path
		path := g.PathTo(via, tfn)
		direct := ""
		if e := via[tfn]; e != nil {
			direct = FnKey(e.Caller.Fn)
		}
		tabled := false
		for cur := tfn; cur != nil; {
			e := via[cur]
			if e == nil {
				break
			}
			if _, ok := stageGateTabled[FnKey(e.Caller.Fn)]; ok {
				tabled = true
				direct = FnKey(e.Caller.Fn)
			}
			cur = e.Caller.Fn
		}
		if tabled {
			c.OK(key, c.P.Pos(h.Pos()), "tabled: "+stageGateTabled[direct])
			continue
		}
		c.Fail(key, c.P.Pos(h.Pos()), fmt.Sprintf("a %s message reaches statesync.Module.BlockHeight (through %s) without any branch on the module's stage on the way: while headers or MPT data are still being synchronised the accessor panics (\"block height is not yet initialized since MPT is not in sync\") and a peer's ordinary message stops the node", strings.TrimPrefix(strings.TrimSuffix(h.Name(), "Cmd"), "handle"), shortSym(direct)), path...)
	}
	c.Floor("P2P command handlers", nh, 15)
}

// ---------------------------------------------------------------------------
// trie-copy-shares (C11): mpt.Trie holds its nodes through an interface (`root`) and its pending reference-count
// deltas in a map (`refcount`). A value copy of a Trie (`t := *p`) shares both with the original: PutBatch/Put/Delete
// restructure the shared node objects in place and Flush folds and rewrites the shared counter entries. If the copy
// is then discarded - a block that was computed and dropped - the original, still installed, is no longer the trie
// of its root: the next block panics on a negative count or computes a wrong root. A value copy of a Trie may be
// read, re-rooted and handed on, but not mutated through.
func ruleTrieCopyShares(c *Ctx) {
	mut := map[string]bool{"Put": true, "PutBatch": true, "Delete": true, "Flush": true, "Collapse": true}
	ncopy := 0
	for _, fd := range c.P.AllFuncDecls() {
		if fd.Decl.Body == nil || !strings.HasPrefix(pkgRel(fd.Pkg.Types), "pkg/") {
			continue
		}
		info := fd.Pkg.TypesInfo
		copies := map[types.Object]ast.Node{}
		ast.Inspect(fd.Decl.Body, func(n ast.Node) bool {
			as, ok := n.(*ast.AssignStmt)
			if !ok || len(as.Lhs) != len(as.Rhs) {
				return true
			}
			for i, r := range as.Rhs {
				st, ok := ast.Unparen(r).(*ast.StarExpr)
				if !ok || !namedTypeIs(info.TypeOf(st), "pkg/core/mpt", "Trie") {
					continue
				}
				if id, ok := as.Lhs[i].(*ast.Ident); ok {
					if o := info.ObjectOf(id); o != nil {
						copies[o] = as
					}
				}
			}
			return true
		})
		// keyed by the order of the copies in the function, not by the name of the local (a rename is not a change)
		var objs []types.Object
		for o := range copies {
			objs = append(objs, o)
		}
		sort.Slice(objs, func(i, j int) bool { return copies[objs[i]].Pos() < copies[objs[j]].Pos() })
		for oi, o := range objs {
			at := copies[o]
			ncopy++
			key := fmt.Sprintf("trie-copy-shares.%s.copy#%d", FuncKey(fd.Obj), oi+1)
			var bad *ast.CallExpr
			ast.Inspect(fd.Decl.Body, func(n ast.Node) bool {
				call, ok := n.(*ast.CallExpr)
				if !ok {
					return true
				}
				se, ok := ast.Unparen(call.Fun).(*ast.SelectorExpr)
				if !ok || !mut[se.Sel.Name] {
					return true
				}
				x := ast.Unparen(se.X)
				if u, ok := x.(*ast.UnaryExpr); ok && u.Op == token.AND {
					x = ast.Unparen(u.X)
				}
				if id, ok := x.(*ast.Ident); ok && info.ObjectOf(id) == o && bad == nil {
					if m, ok := info.ObjectOf(se.Sel).(*types.Func); ok && m.Pkg() != nil && pkgRel(m.Pkg()) == "pkg/core/mpt" {
						bad = call
					}
				}
				return true
			})
			if bad != nil {
				c.Fail(key, c.P.Pos(bad.Pos()), fmt.Sprintf("%s mutates a value copy of a Trie (%s, copied at %s): the copy shares the node objects under `root` and the `refcount` map with the original, so when the result is dropped the original - still installed - has been restructured and re-counted behind its back", FuncKey(fd.Obj), types.ExprString(bad.Fun), c.P.Pos(at.Pos())))
			} else {
				c.OK(key, c.P.Pos(at.Pos()), "the value copy of the Trie is not mutated through")
			}
		}
	}
	c.Floor("value copies of mpt.Trie", ncopy, 1)
}

// ---------------------------------------------------------------------------
// limit-scale (C12): the VM keeps its gas limit in picoGAS, i.e. the Datoshi limit it is given times a constant.
// A product of a caller-chosen 64-bit quantity and a constant wraps for large operands; a wrapped limit is negative
// and a negative limit means "unlimited" to the per-instruction check - a transaction whose system fee exceeds
// MaxInt64/multiplier would run without any gas bound. Every write of the limit field whose value is such a product
// is gated by a comparison of the operand with a bound derived from math.MaxInt64.
func ruleLimitScale(c *Ctx) {
	pk := c.P.Pkg("pkg/vm")
	if pk == nil {
		c.Lost("limit-scale.anchor", "package vm not found")
		return
	}
	n := 0
	for _, fd := range c.P.AllFuncDecls() {
		if fd.Pkg != pk || fd.Decl.Body == nil {
			continue
		}
		f := c.P.NewFuncCFG(fd)
		info := fd.Pkg.TypesInfo
		for _, w := range f.WriteSites("pkg/vm#gasLimit") {
			as, ok := w.node.(*ast.AssignStmt)
			if !ok {
				continue
			}
			scaled := as.Tok == token.MUL_ASSIGN
			for _, r := range as.Rhs {
				ast.Inspect(r, func(x ast.Node) bool {
					if be, ok := x.(*ast.BinaryExpr); ok && be.Op == token.MUL {
						if tv, ok := info.Types[be]; !ok || tv.Value == nil {
							scaled = true
						}
					}
					return true
				})
			}
			if !scaled {
				continue
			}
			n++
			key := fmt.Sprintf("limit-scale.%s#%d", FuncKey(fd.Obj), n)
			// clamp idiom: an operand of the multiplication is min(x, <bound derived from MaxInt64>); a product formed
			// *inside* the arguments of min has already wrapped when min sees it
			clamped := false
			for _, r := range as.Rhs {
				nMul, nClamped := 0, 0
				ast.Inspect(r, func(x ast.Node) bool {
					be, ok := x.(*ast.BinaryExpr)
					if !ok || be.Op != token.MUL {
						return true
					}
					if tv, ok := info.Types[be]; ok && tv.Value != nil {
						return true
					}
					nMul++
					for _, op := range []ast.Expr{be.X, be.Y} {
						if call, ok := ast.Unparen(op).(*ast.CallExpr); ok {
							if id, ok := ast.Unparen(call.Fun).(*ast.Ident); ok {
								if b, ok := info.ObjectOf(id).(*types.Builtin); ok && b.Name() == "min" && f.Mentions(call, w.blk)["math.MaxInt64"] {
									// the arguments of min must not contain a non-constant product themselves
									inner := false
									for _, a := range call.Args {
										ast.Inspect(a, func(y ast.Node) bool {
											if ib, ok := y.(*ast.BinaryExpr); ok && ib.Op == token.MUL {
												if tv, ok := info.Types[ib]; !ok || tv.Value == nil {
													inner = true
												}
											}
											return true
										})
									}
									if !inner {
										nClamped++
									}
								}
							}
						}
					}
					return true
				})
				if nMul > 0 && nMul == nClamped {
					clamped = true
				}
			}
			if clamped {
				c.OK(key, c.P.Pos(as.Pos()), "the operand is clamped with min(x, bound derived from math.MaxInt64) before it is scaled")
				continue
			}
			res := f.CheckGate(f.Entry(), map[*cfg.Block]bool{w.blk: true}, Guard{ID: "no-wrap", Doc: "the operand is compared with a bound derived from math.MaxInt64", Alts: [][]string{{"math.MaxInt64"}}, WholeOpen: true}, nil)
			if res.OK {
				c.OK(key, c.P.Pos(as.Pos()), "the scaled gas limit cannot wrap: "+res.Msg)
			} else {
				c.Fail(key, c.P.Pos(as.Pos()), FuncKey(fd.Obj)+" multiplies a caller-chosen 64-bit gas limit by a constant without bounding it: above MaxInt64/multiplier the product wraps negative, and a negative limit switches the per-instruction gas check off")
			}
		}
	}
	c.Floor("scaled writes of the VM gas limit", n, 1)
}

// ---------------------------------------------------------------------------
// serctx-alias (C17, C01): SerializationContext.Serialize returns its own buffer, "only valid until the [next] call
// to Serialize"; one context is shared by everything an execution does through its DAO. The bytes may be measured,
// copied, written out or handed to a sink that copies (the stores clone on Put), but they must not be *kept*: wrapped
// into a stack item, put into a struct, appended or returned to a caller that keeps them - the next serialisation in
// the same execution would rewrite what the contract (or the record) holds.
var serctxCopyingSinks = map[string]string{
	"bytes.Clone":                            "copy",
	"slices.Clone":                           "copy",
	"builtin.len":                            "length only",
	"pkg/core/dao.(*Simple).PutStorageItem":  "MemCachedStore.Put clones the value",
	"pkg/core/storage.(*MemCachedStore).Put": "clones the value",
	"pkg/io.(*BinWriter).WriteBytes":         "copies into the writer",
	"pkg/io.(*BinWriter).WriteVarBytes":      "copies into the writer",
	"pkg/core/state.NewContractInvocation":   "callers pass a clone (checked at the call site: the argument is bytes.Clone(...))",
}

var serctxKeepers = map[string]bool{
	"pkg/vm/stackitem.NewByteArray": true, "pkg/vm/stackitem.NewBuffer": true, "pkg/vm/stackitem.Make": true, "builtin.append": true,
}

func ruleSerCtxAlias(c *Ctx) {
	n := 0
	for _, fd := range c.P.AllFuncDecls() {
		if fd.Decl.Body == nil || !strings.HasPrefix(pkgRel(fd.Pkg.Types), "pkg/core") {
			continue
		}
		f := c.P.NewFuncCFG(fd)
		if f == nil {
			continue
		}
		info := fd.Pkg.TypesInfo
		for _, st := range f.CallSites("pkg/vm/stackitem.(*SerializationContext).Serialize") {
			// the variable receiving the buffer
			var obj types.Object
			ast.Inspect(fd.Decl.Body, func(x ast.Node) bool {
				if as, ok := x.(*ast.AssignStmt); ok && len(as.Rhs) == 1 && ast.Unparen(as.Rhs[0]) == ast.Expr(st.call) && len(as.Lhs) >= 1 {
					if id, ok := as.Lhs[0].(*ast.Ident); ok {
						obj = info.ObjectOf(id)
					}
				}
				return true
			})
			n++
			key := fmt.Sprintf("serctx-alias.%s#%d", FuncKey(fd.Obj), n)
			if obj == nil {
				c.Unclassified(key, c.P.Pos(st.call.Pos()), "the serialisation buffer is not bound to a variable")
				continue
			}
			// position after which the variable holds a private copy (`data = bytes.Clone(data)`)
			cloneFrom := token.Pos(-1)
			ast.Inspect(fd.Decl.Body, func(x ast.Node) bool {
				if as, ok := x.(*ast.AssignStmt); ok && len(as.Lhs) == 1 && len(as.Rhs) == 1 {
					if id, ok := as.Lhs[0].(*ast.Ident); ok && info.ObjectOf(id) == obj {
						if call, ok := ast.Unparen(as.Rhs[0]).(*ast.CallExpr); ok && as.Pos() > st.call.Pos() {
							if cs := f.calleeSym(call); cs == "bytes.Clone" || cs == "slices.Clone" {
								if cloneFrom < 0 || as.End() < cloneFrom {
									cloneFrom = as.End()
								}
							}
						}
					}
				}
				return true
			})
			bad, unk := "", ""
			var stack []ast.Node
			ast.Inspect(fd.Decl.Body, func(x ast.Node) bool {
				if x == nil {
					stack = stack[:len(stack)-1]
					return true
				}
				stack = append(stack, x)
				id, ok := x.(*ast.Ident)
				if !ok || info.ObjectOf(id) != obj || id.Pos() <= st.call.Pos() || (cloneFrom >= 0 && id.Pos() > cloneFrom) {
					return true
				}
				if len(stack) < 2 {
					return true
				}
				switch p := stack[len(stack)-2].(type) {
				case *ast.CallExpr:
					isArg := false
					for _, a := range p.Args {
						if a == ast.Expr(id) {
							isArg = true
						}
					}
					if !isArg {
						return true
					}
					cs := f.calleeSym(p)
					if tv, ok := info.Types[p.Fun]; ok && tv.IsType() {
						bad = "converted and kept: " + types.ExprString(p)
					} else if _, ok := serctxCopyingSinks[cs]; ok {
						// fine
					} else if serctxKeepers[cs] {
						bad = "handed to " + shortSym(cs) + ", which keeps the slice"
					} else {
						unk = "passed to " + cs
					}
				case *ast.ReturnStmt:
					unk = "returned to the caller"
				case *ast.AssignStmt:
					for i, r := range p.Rhs {
						if r == ast.Expr(id) && i < len(p.Lhs) {
							if _, isIdent := p.Lhs[i].(*ast.Ident); !isIdent {
								bad = "stored into " + types.ExprString(p.Lhs[i])
							}
						}
					}
				case *ast.KeyValueExpr, *ast.CompositeLit:
					bad = "placed into a composite value"
				case *ast.BinaryExpr, *ast.IndexExpr, *ast.SliceExpr, *ast.IfStmt:
					// compared / indexed / re-sliced: reads
					if se, ok := p.(*ast.SliceExpr); ok && se.X == ast.Expr(id) {
						unk = "re-sliced"
					}
				}
				return true
			})
			switch {
			case bad != "":
				c.Fail(key, c.P.Pos(st.call.Pos()), fmt.Sprintf("%s keeps the buffer of the shared serialisation context (%s): the next Serialize of the same execution overwrites the bytes that were handed out", FuncKey(fd.Obj), bad))
			case unk != "":
				c.Unclassified(key, c.P.Pos(st.call.Pos()), "the buffer leaves the function ("+unk+"): not followed")
			default:
				c.OK(key, c.P.Pos(st.call.Pos()), "the serialisation buffer is only measured, copied or handed to copying sinks")
			}
		}
	}
	c.Floor("uses of the shared serialisation context", n, 6)
}

// ---------------------------------------------------------------------------
// sticky-error (C17): io.BinReader carries the first decoding error in its Err field; every read after it is a no-op
// and the caller looks at Err once at the end. A decoder that assigns the result of a validation or hashing call to
// Err (`br.Err = t.isValid()`) replaces whatever is there - also with nil: truncated or oversized input that a
// later field rejected is then accepted. Such an assignment is made only behind a test of the same Err field.
func ruleStickyError(c *Ctx) {
	n := 0
	for _, fd := range c.P.AllFuncDecls() {
		if fd.Decl.Body == nil || !strings.HasPrefix(pkgRel(fd.Pkg.Types), "pkg/") || pkgRel(fd.Pkg.Types) == "pkg/io" {
			continue
		}
		f := c.P.NewFuncCFG(fd)
		if f == nil {
			continue
		}
		info := fd.Pkg.TypesInfo
		for _, w := range f.WriteSites("pkg/io#Err") {
			as, ok := w.node.(*ast.AssignStmt)
			if !ok || len(as.Lhs) != 1 || len(as.Rhs) != 1 {
				continue
			}
			se, ok := ast.Unparen(as.Lhs[0]).(*ast.SelectorExpr)
			if !ok || !namedTypeIs(info.TypeOf(se.X), "pkg/io", "BinReader") {
				continue
			}
			call, ok := ast.Unparen(as.Rhs[0]).(*ast.CallExpr)
			if !ok {
				continue // a named error value or nil literal: not a maybe-nil result
			}
			cs := f.calleeSym(call)
			if cs == "errors.New" || cs == "fmt.Errorf" || cs == "" {
				continue
			}
			if tv, ok := info.Types[call.Fun]; ok && tv.IsType() {
				continue // a conversion to an error type: a fresh, non-nil error
			}
			n++
			key := fmt.Sprintf("sticky-error.%s#%d", FuncKey(fd.Obj), n)
			// the test has to be the last thing that happens to the reader before the assignment: either the assignment
			// sits in the body of `if <reader>.Err == nil && ...` with no use of the reader in front of it, or the
			// statement right before it is `if <reader>.Err != nil { return }`
			rdr := types.ExprString(se.X)
			usesReader := func(n ast.Node) bool {
				found := false
				ast.Inspect(n, func(y ast.Node) bool {
					if e, ok := y.(ast.Expr); ok && types.ExprString(e) == rdr {
						found = true
					}
					return !found
				})
				return found
			}
			errTest := func(cond ast.Expr, op token.Token) bool {
				for _, at := range condAtoms(cond) {
					if be, ok := ast.Unparen(at.e).(*ast.BinaryExpr); ok && be.Op == op {
						if types.ExprString(ast.Unparen(be.X)) == rdr+".Err" && types.ExprString(ast.Unparen(be.Y)) == "nil" {
							return true
						}
					}
				}
				return false
			}
			guarded := false
			var path []ast.Node
			ast.Inspect(fd.Decl.Body, func(y ast.Node) bool {
				if y == nil {
					path = path[:len(path)-1]
					return true
				}
				path = append(path, y)
				if y != ast.Node(as) {
					return true
				}
				for k := len(path) - 2; k >= 0; k-- {
					blk, ok := path[k].(*ast.BlockStmt)
					if !ok {
						continue
					}
					// statements of blk before the one leading to the assignment
					idx := -1
					for i, st := range blk.List {
						if st == path[k+1] {
							idx = i
						}
					}
					clean := true
					for i := idx - 1; i >= 0 && clean; i-- {
						if is, ok := blk.List[i].(*ast.IfStmt); ok && is.Init == nil && errTest(is.Cond, token.NEQ) && leavesLoop(is.Body) {
							guarded = true
							break
						}
						if usesReader(blk.List[i]) {
							clean = false
						}
					}
					if guarded || !clean {
						break
					}
					if k == 0 {
						break
					}
					if is, ok := path[k-1].(*ast.IfStmt); ok && is.Body == blk {
						if errTest(is.Cond, token.EQL) {
							guarded = true
							break
						}
						if usesReader(is.Cond) || (is.Init != nil && usesReader(is.Init)) {
							break
						}
						// an if about something else: keep looking in the block that contains it
					}
				}
				return true
			})
			if guarded {
				c.OK(key, c.P.Pos(as.Pos()), "the result of "+shortSym(cs)+" replaces the reader's error only behind a test of that error")
			} else {
				c.Fail(key, c.P.Pos(as.Pos()), fmt.Sprintf("%s assigns the result of %s to the reader's Err without testing Err first: an earlier decoding error (truncated or oversized input) is replaced, by nil when the call succeeds, and the malformed value is accepted", FuncKey(fd.Obj), shortSym(cs)))
			}
		}
	}
	c.Floor("maybe-nil results assigned to a reader's error", n, 4)
}

// ---------------------------------------------------------------------------
// modpow-sign (C13): big.Int.Exp gives the Euclidean remainder (never negative); NeoVM's MODPOW is .NET's
// BigInteger.ModPow, whose result takes the sign of base**exponent. The value has to be shifted by |modulus| exactly
// when base**exponent is negative and the remainder is not zero: negative base AND odd exponent AND non-zero
// result. The correcting subtraction in the MODPOW arm is gated by all three tests.
func ruleModPowSign(c *Ctx) {
	runGates(c, []GateSpec{{
		ID: "MODPOW.sign-correction", Fn: fnExecute, Arm: "MODPOW", Target: "call:math/big.(*Int).Sub",
		Guards: []Guard{
			{ID: "odd-exponent", Doc: "the correction applies only for an odd exponent (an even power of a negative base is positive)", Alts: [][]string{{"math/big.(*Int).Bit"}}},
			{ID: "sign-tests", Doc: "the correction applies only for a negative base and a non-zero remainder", Alts: [][]string{{"math/big.(*Int).Sign"}}},
		},
	}})
}

// ---------------------------------------------------------------------------
// array-max (C17): BinReader.ReadArray allocates the whole slice for the announced count before it reads the first
// element; without an explicit maximum the count may be anything up to MaxArraySize (16M), i.e. a few bytes of input
// buy hundreds of megabytes (2.5 GB for NEF method tokens). Every ReadArray of the node's decoders names the maximum
// its format allows; the sites that read the node's own database records are tabled.
var arrayMaxTabled = map[string]string{
	"pkg/core/dao.(*Simple).GetHeaderHashes":       "header hash pages are written by the node itself (StoreHeaderHashes) and read back from its own database",
	"pkg/core/state.(*AppExecResult).DecodeBinary": "application logs are written by the node itself and read back from its own database (RPC getapplicationlog)",
	"pkg/crypto/keys.(*PublicKeys).DecodeBytes":    "exported helper without a caller in the node (the node keeps key lists as stack items)",
}

func ruleArrayMax(c *Ctx) {
	n, nb := 0, 0
	for _, fd := range c.P.AllFuncDecls() {
		rel := pkgRel(fd.Pkg.Types)
		if fd.Decl.Body == nil || !strings.HasPrefix(rel, "pkg/") || strings.HasPrefix(rel, "pkg/rpcclient") || rel == "pkg/io" {
			continue
		}
		f := c.P.NewFuncCFG(fd)
		if f == nil {
			continue
		}
		for _, st := range f.CallSites("pkg/io.(*BinReader).ReadArray") {
			n++
			key := fmt.Sprintf("array-max.%s#%d", FuncKey(fd.Obj), n)
			switch {
			case len(st.call.Args) >= 2:
				nb++
				c.OK(key, c.P.Pos(st.call.Pos()), "explicit maximum: "+trunc(types.ExprString(st.call.Args[1]), 50))
			case arrayMaxTabled[FuncKey(fd.Obj)] != "":
				c.OK(key, c.P.Pos(st.call.Pos()), "tabled: "+arrayMaxTabled[FuncKey(fd.Obj)])
			default:
				c.Fail(key, c.P.Pos(st.call.Pos()), fmt.Sprintf("%s reads an array of %s without a maximum: the slice for any announced count up to 16M elements is allocated before the first element is read", FuncKey(fd.Obj), trunc(types.ExprString(st.call.Args[0]), 40)))
			}
		}
	}
	c.Floor("ReadArray sites", n, 15)
	c.Floor("ReadArray sites with an explicit maximum", nb, 9)
}

// ---------------------------------------------------------------------------
// decoded-loop (C17): a loop whose trip count is an integer the decoder has just read (`for range r.ReadVarUint()`)
// runs as long as the *input says*: once the reader has failed every read returns at once, so a count of 2^64-1 in
// nine bytes of input keeps the loop appending empty elements until memory is exhausted. Such a loop is entered only
// behind an ordering comparison of the count with a limit, or tests the reader's error inside its body and leaves.
func ruleDecodedLoop(c *Ctx) {
	readers := map[string]bool{"pkg/io.(*BinReader).ReadVarUint": true, "pkg/io.(*BinReader).ReadU64LE": true, "pkg/io.(*BinReader).ReadU32LE": true, "pkg/io.(*BinReader).ReadU16LE": true}
	n := 0
	for _, fd := range c.P.AllFuncDecls() {
		rel := pkgRel(fd.Pkg.Types)
		if fd.Decl.Body == nil || !strings.HasPrefix(rel, "pkg/") || strings.HasPrefix(rel, "pkg/rpcclient") || rel == "pkg/io" {
			continue
		}
		f := c.P.NewFuncCFG(fd)
		if f == nil {
			continue
		}
		hasReader := false
		for r := range readers {
			if len(f.CallSites(r)) > 0 {
				hasReader = true
			}
		}
		if !hasReader {
			continue
		}
		info := fd.Pkg.TypesInfo
		fromReader := func(e ast.Expr) bool {
			for m := range f.DirectMentions(e) {
				if readers[m] || (strings.HasPrefix(m, "local<-") && readers[strings.TrimPrefix(m, "local<-")]) {
					return true
				}
			}
			return false
		}
		ast.Inspect(fd.Decl.Body, func(x ast.Node) bool {
			var bound ast.Expr
			var body *ast.BlockStmt
			switch l := x.(type) {
			case *ast.RangeStmt:
				if t := info.TypeOf(l.X); t != nil {
					if b, ok := t.Underlying().(*types.Basic); ok && b.Info()&types.IsInteger != 0 {
						bound, body = l.X, l.Body
					}
				}
			case *ast.ForStmt:
				if be, ok := l.Cond.(*ast.BinaryExpr); ok && (be.Op == token.LSS || be.Op == token.LEQ) {
					bound, body = be.Y, l.Body
				}
			}
			if bound == nil || !fromReader(bound) {
				return true
			}
			n++
			key := fmt.Sprintf("decoded-loop.%s#%d", FuncKey(fd.Obj), n)
			// (b) the body tests the reader's error and leaves
			errExit := false
			ast.Inspect(body, func(y ast.Node) bool {
				if is, ok := y.(*ast.IfStmt); ok && leavesLoop(is.Body) && f.DirectMentions(is.Cond)["pkg/io#Err"] {
					errExit = true
				}
				return true
			})
			// (a) the count is compared with a limit before the loop
			limited := false
			var bobj types.Object
			if id, ok := ast.Unparen(bound).(*ast.Ident); ok {
				bobj = info.ObjectOf(id)
			}
			if bobj != nil {
				ast.Inspect(fd.Decl.Body, func(y ast.Node) bool {
					be, ok := y.(*ast.BinaryExpr)
					if !ok || be.Pos() >= x.Pos() {
						return true
					}
					switch be.Op {
					case token.LSS, token.LEQ, token.GTR, token.GEQ:
						for _, side := range []ast.Expr{be.X, be.Y} {
							ast.Inspect(side, func(z ast.Node) bool {
								if id, ok := z.(*ast.Ident); ok && info.ObjectOf(id) == bobj {
									limited = true
								}
								return true
							})
						}
					}
					return true
				})
			}
			switch {
			case limited:
				c.OK(key, c.P.Pos(x.Pos()), "the decoded count is compared with a limit before the loop")
			case errExit:
				c.OK(key, c.P.Pos(x.Pos()), "the loop leaves as soon as the reader has failed")
			default:
				c.Fail(key, c.P.Pos(x.Pos()), fmt.Sprintf("%s loops as many times as a count read from the input says, without a limit on the count and without looking at the reader's error inside the loop: nine bytes announcing 2^64-1 elements keep it appending until memory runs out", FuncKey(fd.Obj)))
			}
			return true
		})
	}
	c.Floor("loops bounded by a decoded count", n, 3)
}

// ---------------------------------------------------------------------------
// limit-used (C17): a constant that a wire package declares as a maximum (Max*/max*) and that no non-test code of the
// module mentions is a limit nobody enforces: the format documents a bound, the decoder reads with the reader's
// default (16 MB for byte strings, 16M elements for arrays).
var limitUsedTabled = map[string]string{}

func ruleLimitUsed(c *Ctx, pkgs ...string) {
	want := map[string]bool{}
	for _, p := range pkgs {
		want[p] = true
	}
	used := map[types.Object]bool{}
	for _, pk := range c.P.Pkgs {
		for _, o := range pk.TypesInfo.Uses {
			if cn, ok := o.(*types.Const); ok {
				used[cn] = true
			}
		}
	}
	n := 0
	for _, pk := range c.P.Pkgs {
		rel := pkgRel(pk.Types)
		if !want[rel] {
			continue
		}
		sc := pk.Types.Scope()
		for _, name := range sc.Names() {
			cn, ok := sc.Lookup(name).(*types.Const)
			if !ok || !(strings.HasPrefix(name, "Max") || strings.HasPrefix(name, "max")) {
				continue
			}
			n++
			key := "limit-used." + rel + "." + name
			switch {
			case used[cn]:
				c.OK(key, c.P.Pos(cn.Pos()), "the declared maximum is used by the module's code")
			case limitUsedTabled[rel+"."+name] != "":
				c.OK(key, c.P.Pos(cn.Pos()), "tabled: "+limitUsedTabled[rel+"."+name])
			default:
				c.Fail(key, c.P.Pos(cn.Pos()), fmt.Sprintf("%s.%s is declared as a maximum of the wire format and no code of the module mentions it: the bound is not enforced by any decoder", rel, name))
			}
		}
	}
	c.Floor("declared maxima in wire packages", n, 20)
}

// ---------------------------------------------------------------------------
// ext-next (C10): the trie is canonical only if no extension node sits directly above another extension (they would
// have to be merged) or above the empty node. Extensions are created in two places, NewExtensionNode(key, next) and
// Trie.newSubTrie(path, val, _) (an extension over val when the path is not empty). For every such call in the
// structural code of package mpt the `next` argument must be known not to be an extension or empty:
//   - its static type is a concrete leaf or branch (or it is NewLeafNode/NewBranchNode),
//   - it is the `next` field of an existing extension (the invariant of the node it is taken from),
//   - the call is guarded by a failed *ExtensionNode assertion / a type switch that took extensions and empty nodes
//     elsewhere (mergeExtension's default arm, the tail of deleteFromBranch),
//   - or it is a parameter, and every call site of the enclosing function passes an argument that qualifies
//     (followed through the module, cycles are closed co-inductively).
//
// Anything else - in particular the result of a restructuring call (putBatchInto*, addToBranch, deleteFrom*), which
// may have collapsed into an extension or into nothing - has to go through mergeExtension.
func ruleExtNext(c *Ctx) {
	pk := c.P.Pkg("pkg/core/mpt")
	if pk == nil {
		c.Lost("ext-next.anchor", "package mpt not found")
		return
	}
	info := pk.TypesInfo
	extDecoderRefusesEmptyNext(c)
	ctorIdx := map[string]int{"pkg/core/mpt.NewExtensionNode": 1, "pkg/core/mpt.(*Trie).newSubTrie": 1}
	type argRef struct {
		fd   *FuncDecl
		call *ast.CallExpr
		arg  ast.Expr
	}
	concreteOK := func(t types.Type) (bool, bool) { // (known, ok)
		if t == nil {
			return false, false
		}
		if p, ok := t.(*types.Pointer); ok {
			t = p.Elem()
		}
		if nt, ok := t.(*types.Named); ok && nt.Obj().Pkg() != nil && pkgRel(nt.Obj().Pkg()) == "pkg/core/mpt" {
			switch nt.Obj().Name() {
			case "LeafNode", "BranchNode":
				return true, true
			case "ExtensionNode", "EmptyNode", "HashNode":
				return true, false
			}
		}
		return false, false
	}
	var funcsOfPkg []*FuncDecl
	for _, fd := range c.P.AllFuncDecls() {
		if fd.Pkg == pk && fd.Decl.Body != nil {
			funcsOfPkg = append(funcsOfPkg, fd)
		}
	}
	visiting := map[string]bool{}
	var qualifies func(r argRef, depth int) (bool, string)
	qualifies = func(r argRef, depth int) (bool, string) {
		if depth > 8 {
			return false, "derivation too deep"
		}
		e := ast.Unparen(r.arg)
		if known, ok := concreteOK(info.TypeOf(e)); known {
			if ok {
				return true, ""
			}
			return false, "its static type is " + types.TypeString(info.TypeOf(e), nil)
		}
		f := c.P.NewFuncCFG(r.fd)
		switch x := e.(type) {
		case *ast.CallExpr:
			switch f.calleeSym(x) {
			case "pkg/core/mpt.NewLeafNode", "pkg/core/mpt.NewBranchNode":
				return true, ""
			}
			return false, "it is the result of " + trunc(types.ExprString(x.Fun), 50)
		case *ast.SelectorExpr:
			if v, ok := info.ObjectOf(x.Sel).(*types.Var); ok && v.IsField() && symOf(v) == "pkg/core/mpt#next" {
				return true, ""
			}
			return false, "it is " + types.ExprString(x)
		case *ast.Ident:
			o := info.ObjectOf(x)
			// guarded by a failed extension assertion / type switch on this variable?
			for _, st := range f.CallSites(f.calleeSym(r.call)) {
				if st.call == r.call {
					if res := f.CheckGate(f.Entry(), map[*cfg.Block]bool{st.blk: true}, Guard{ID: "not-extension", Doc: "extensions were taken elsewhere", Alts: [][]string{{"type:pkg/core/mpt.ExtensionNode"}}}, nil); res.OK {
						return true, ""
					}
				}
			}
			// ... or by the arm of a type switch over this variable that does not take extensions while another arm does
			inSafeArm := false
			var stack []ast.Node
			ast.Inspect(r.fd.Decl.Body, func(y ast.Node) bool {
				if y == nil {
					stack = stack[:len(stack)-1]
					return true
				}
				stack = append(stack, y)
				if y != ast.Node(r.call) {
					return true
				}
				for k := len(stack) - 1; k >= 1; k-- {
					cc, ok := stack[k].(*ast.CaseClause)
					if !ok {
						continue
					}
					var ts *ast.TypeSwitchStmt
					for m := k - 1; m >= 0 && ts == nil; m-- {
						ts, _ = stack[m].(*ast.TypeSwitchStmt)
					}
					if ts == nil {
						continue
					}
					var subj ast.Expr
					switch a := ts.Assign.(type) {
					case *ast.AssignStmt:
						if ta, ok := a.Rhs[0].(*ast.TypeAssertExpr); ok {
							subj = ta.X
						}
					case *ast.ExprStmt:
						if ta, ok := a.X.(*ast.TypeAssertExpr); ok {
							subj = ta.X
						}
					}
					sid, ok := ast.Unparen(subj).(*ast.Ident)
					if !ok || info.ObjectOf(sid) != o {
						continue
					}
					lists := func(cl *ast.CaseClause, name string) bool {
						for _, te := range cl.List {
							if tv := info.TypeOf(te); tv != nil {
								t := tv
								if p, ok := t.(*types.Pointer); ok {
									t = p.Elem()
								}
								if nt, ok := t.(*types.Named); ok && nt.Obj().Name() == name {
									return true
								}
							}
						}
						return false
					}
					extElsewhere, emptyElsewhere := false, false
					for _, cl := range ts.Body.List {
						if cl2 := cl.(*ast.CaseClause); cl2 != cc {
							extElsewhere = extElsewhere || lists(cl2, "ExtensionNode")
							emptyElsewhere = emptyElsewhere || lists(cl2, "EmptyNode")
						}
					}
					if extElsewhere && emptyElsewhere && !lists(cc, "ExtensionNode") && !lists(cc, "EmptyNode") && !lists(cc, "HashNode") {
						inSafeArm = true
					}
				}
				return true
			})
			if inSafeArm {
				return true, ""
			}
			// a parameter: all callers must qualify
			if pi, isParam := f.paramIdx[o]; isParam && pi >= 0 && len(f.defs[o]) == 0 {
				key := FuncKey(r.fd.Obj) + "#" + fmt.Sprint(pi)
				if visiting[key] {
					return true, "" // co-inductive: a cycle adds no new source
				}
				visiting[key] = true
				defer delete(visiting, key)
				ncall := 0
				for _, cfd := range funcsOfPkg {
					cf := c.P.NewFuncCFG(cfd)
					for _, st := range cf.CallSites(FuncKey(r.fd.Obj)) {
						if pi >= len(st.call.Args) {
							continue
						}
						ncall++
						if ok, why := qualifies(argRef{cfd, st.call, st.call.Args[pi]}, depth+1); !ok {
							return false, fmt.Sprintf("%s passes %s (%s)", FuncKey(cfd.Obj), trunc(types.ExprString(st.call.Args[pi]), 30), why)
						}
					}
				}
				if ncall == 0 {
					return false, "a parameter of a function without callers in the package"
				}
				return true, ""
			}
			// a local: every definition must qualify
			ds := f.defs[o]
			if len(ds) == 0 {
				return false, "a variable without a visible definition"
			}
			for _, d := range ds {
				if len(d.rhs) != 1 {
					return false, "it comes from a multi-value expression: " + trunc(types.ExprString(d.rhs[0]), 50)
				}
				// a multi-value assignment `sub, n, err := f()` has one rhs too: a call whose result is a Node is not known
				if ok, why := qualifies(argRef{r.fd, r.call, d.rhs[0]}, depth+1); !ok {
					return false, why
				}
			}
			return true, ""
		}
		return false, "it is " + trunc(types.ExprString(e), 40)
	}
	n := 0
	for _, fd := range funcsOfPkg {
		if fd.Decl.Name.Name == "UnmarshalJSON" || strings.HasPrefix(fd.Decl.Name.Name, "decode") || strings.HasPrefix(fd.Decl.Name.Name, "Decode") {
			continue // decoders rebuild what the input dictates and are validated by hash
		}
		if FuncKey(fd.Obj) == "pkg/core/mpt.(*Trie).newSubTrie" {
			continue // its own NewExtensionNode call is covered through its callers
		}
		f := c.P.NewFuncCFG(fd)
		for sym, idx := range ctorIdx {
			for _, st := range f.CallSites(sym) {
				if idx >= len(st.call.Args) {
					continue
				}
				n++
				key := fmt.Sprintf("ext-next.%s#%d", FuncKey(fd.Obj), n)
				if ok, why := qualifies(argRef{fd, st.call, st.call.Args[idx]}, 0); ok {
					c.OK(key, c.P.Pos(st.call.Pos()), "the node placed under the new extension cannot be an extension or empty")
				} else {
					c.Fail(key, c.P.Pos(st.call.Pos()), fmt.Sprintf("%s puts %s under a new extension node, and %s: if it is an extension (or empty) the trie holds an extension above an extension - the same contents as a trie built another way, with a different root; the result of a restructuring step has to go through mergeExtension", FuncKey(fd.Obj), trunc(types.ExprString(st.call.Args[idx]), 30), why))
				}
			}
		}
	}
	c.Floor("extension construction sites in the structural code", n, 8)
}

// ---------------------------------------------------------------------------
// ring-slot-index (C20): the block queue is a ring indexed by `indexToPosition(index)`. Wherever a slot is computed
// for an index expression E and the element found in that slot is compared with an index expression F, E and F are
// the same quantity (same base, same constant offset): a clean-up that looks at the slot of i+1 and compares the
// element's index with i never matches, the element stays counted in `len`, the free capacity reported to the
// block requester shrinks with every block consensus adds itself, and at zero the node stops asking for blocks.
// ringModulus: the ring has as many slots as the queue was created with (make(..., cacheSize)), and the admission
// window of Put is measured with the same field; the position of an index is the index modulo *that* number. Folded
// with another modulus - the package's default capacity - a queue created larger (the NeoFS fetcher queues are) maps
// two indexes inside its window to one slot: the one that arrives second is dropped as a duplicate, the first is
// offered to the ledger as the wrong block. Every `%` of the package has the field the ring is allocated with, or the
// ring's length, on its right.
func ringModulus(c *Ctx, pk *packages.Package) {
	info := pk.TypesInfo
	// the field the ring is allocated with: make(<slice>, <x>) assigned to / used for the field `queue`
	sizeFields := map[types.Object]bool{}
	for _, fd := range c.P.AllFuncDecls() {
		if fd.Pkg != pk || fd.Decl.Body == nil {
			continue
		}
		ast.Inspect(fd.Decl.Body, func(x ast.Node) bool {
			kv, ok := x.(*ast.KeyValueExpr)
			if !ok {
				return true
			}
			// composite literal of the queue: queue: make([]Q, cacheSize), cacheSize: cacheSize
			if id, ok := kv.Key.(*ast.Ident); ok {
				if v, ok := info.ObjectOf(id).(*types.Var); ok && v.IsField() && v.Name() == "cacheSize" {
					sizeFields[v] = true
				}
			}
			return true
		})
	}
	n := 0
	for _, fd := range c.P.AllFuncDecls() {
		if fd.Pkg != pk || fd.Decl.Body == nil {
			continue
		}
		k := 0
		ast.Inspect(fd.Decl.Body, func(x ast.Node) bool {
			be, ok := x.(*ast.BinaryExpr)
			if !ok || be.Op != token.REM {
				return true
			}
			n++
			k++
			key := fmt.Sprintf("ring-modulus.%s#%d", shortSym(FuncKey(fd.Obj)), k)
			good := false
			switch r := ast.Unparen(be.Y).(type) {
			case *ast.SelectorExpr:
				if v, ok := info.ObjectOf(r.Sel).(*types.Var); ok && sizeFields[v] {
					good = true
				}
			case *ast.CallExpr:
				if id, ok := r.Fun.(*ast.Ident); ok && id.Name == "len" && len(r.Args) == 1 {
					if se, ok := ast.Unparen(r.Args[0]).(*ast.SelectorExpr); ok && se.Sel.Name == "queue" {
						good = true
					}
				}
			}
			if good {
				c.OK(key, c.P.Pos(be.Pos()), "a position in the ring is the index modulo the number of slots the ring has")
			} else {
				c.Fail(key, c.P.Pos(be.Pos()), fmt.Sprintf("%s folds an index into the ring with `%% %s`, which is not the number of slots this queue was created with (its cacheSize): in a queue larger than that modulus two indexes inside the admission window share a slot - the block that arrives second is dropped as a duplicate and the one that came first is handed to the ledger in place of the other, so the node never reaches the highest contiguous block it was given", FuncKey(fd.Obj), types.ExprString(be.Y)))
			}
			return true
		})
	}
	c.Floor("ring positions computed in package bqueue", n, 1)
}

func ruleRingSlotIndex(c *Ctx) {
	pk := c.P.Pkg("pkg/network/bqueue")
	if pk == nil {
		c.Lost("ring-slot-index.anchor", "package bqueue not found")
		return
	}
	slotCountAgreement(c, pk)
	ringModulus(c, pk)
	n := 0
	for _, fd := range c.P.AllFuncDecls() {
		if fd.Pkg != pk || fd.Decl.Body == nil {
			continue
		}
		f := c.P.NewFuncCFG(fd)
		info := fd.Pkg.TypesInfo
		// slot locals: p := <recv>.indexToPosition(E)
		slots := map[types.Object]ast.Expr{}
		ast.Inspect(fd.Decl.Body, func(x ast.Node) bool {
			as, ok := x.(*ast.AssignStmt)
			if !ok || len(as.Lhs) != 1 || len(as.Rhs) != 1 {
				return true
			}
			call, ok := ast.Unparen(as.Rhs[0]).(*ast.CallExpr)
			if !ok || len(call.Args) != 1 {
				return true
			}
			if se, ok := ast.Unparen(call.Fun).(*ast.SelectorExpr); !ok || se.Sel.Name != "indexToPosition" {
				return true
			}
			if id, ok := as.Lhs[0].(*ast.Ident); ok {
				if o := info.ObjectOf(id); o != nil {
					slots[o] = call.Args[0]
				}
			}
			return true
		})
		if len(slots) == 0 {
			continue
		}
		ast.Inspect(fd.Decl.Body, func(x ast.Node) bool {
			be, ok := x.(*ast.BinaryExpr)
			if !ok {
				return true
			}
			switch be.Op {
			case token.EQL, token.NEQ, token.LSS, token.GTR, token.LEQ, token.GEQ:
			default:
				return true
			}
			for _, pair := range [][2]ast.Expr{{be.X, be.Y}, {be.Y, be.X}} {
				call, ok := ast.Unparen(pair[0]).(*ast.CallExpr)
				if !ok {
					continue
				}
				se, ok := ast.Unparen(call.Fun).(*ast.SelectorExpr)
				if !ok || se.Sel.Name != "GetIndex" {
					continue
				}
				ie, ok := ast.Unparen(se.X).(*ast.IndexExpr)
				if !ok {
					continue
				}
				pid, ok := ast.Unparen(ie.Index).(*ast.Ident)
				if !ok {
					continue
				}
				slotExpr, ok := slots[info.ObjectOf(pid)]
				if !ok {
					continue
				}
				// the other side must not itself be an element's index (element vs element comparisons are about order)
				if oc, ok := ast.Unparen(pair[1]).(*ast.CallExpr); ok {
					if ose, ok := ast.Unparen(oc.Fun).(*ast.SelectorExpr); ok && ose.Sel.Name == "GetIndex" {
						// compare with the slot expression if that is the same call
						if types.ExprString(slotExpr) == types.ExprString(pair[1]) {
							n++
							c.OK(fmt.Sprintf("ring-slot-index.%s#%d", FuncKey(fd.Obj), n), c.P.Pos(be.Pos()), "the slot was computed from the very index the element is compared with")
						}
						continue
					}
				}
				b1, o1, ok1 := linearForm(f, slotExpr, 0)
				b2, o2, ok2 := linearForm(f, pair[1], 0)
				if !ok1 || !ok2 || b1 != b2 {
					continue // not comparable as base+offset of one quantity
				}
				n++
				key := fmt.Sprintf("ring-slot-index.%s#%d", FuncKey(fd.Obj), n)
				if o1 == o2 {
					c.OK(key, c.P.Pos(be.Pos()), "the element in the slot of "+types.ExprString(slotExpr)+" is compared with the same index")
				} else {
					c.Fail(key, c.P.Pos(be.Pos()), fmt.Sprintf("%s looks at the ring slot of index %s and compares the element's index with %s: the two differ by %d, the comparison can never hold for the element that belongs there", FuncKey(fd.Obj), types.ExprString(slotExpr), types.ExprString(pair[1]), o1-o2))
				}
			}
			return true
		})
	}
	c.Floor("slot/index comparisons in the block queue", n, 1)
}

// ---------------------------------------------------------------------------
// fee-sum-cumulative (C08): mempool.checkBalance answers two questions at once - "can the payer afford this
// transaction on top of what it already has pooled" and "what is its pooled total then". RemoveStale rebuilds the
// per-payer totals from that second answer (tryAddSendersFee with needCheck). The value returned on the success exit
// must therefore derive from the payer's previous total (utilityBalanceAndFees.feeSum) as well as from the
// transaction's fees; returning the transaction's own fee leaves every payer with the fee of its last kept
// transaction, and the solvency check of the next Add compares against almost nothing.
func ruleFeeSumCumulative(c *Ctx) {
	fd := c.P.Func("pkg/core/mempool", "", "checkBalance")
	if fd == nil {
		c.Lost("fee-sum-cumulative.anchor", "mempool.checkBalance not found")
		return
	}
	f := c.P.NewFuncCFG(fd)
	info := fd.Pkg.TypesInfo
	// sources of a local: right-hand sides of its assignments plus the arguments of the in-place arithmetic methods
	// called on it (uint256.Int / big.Int style: x.Add(a, b) defines x from a and b)
	sources := func(o types.Object) map[string]bool {
		out := map[string]bool{}
		ast.Inspect(fd.Decl.Body, func(x ast.Node) bool {
			switch y := x.(type) {
			case *ast.AssignStmt:
				for i, l := range y.Lhs {
					if id, ok := l.(*ast.Ident); ok && info.ObjectOf(id) == o && i < len(y.Rhs) {
						for m := range f.DirectMentions(y.Rhs[i]) {
							out[m] = true
						}
					}
				}
			case *ast.CallExpr:
				if se, ok := ast.Unparen(y.Fun).(*ast.SelectorExpr); ok {
					recv := ast.Unparen(se.X)
					if u, ok := recv.(*ast.UnaryExpr); ok && u.Op == token.AND {
						recv = ast.Unparen(u.X)
					}
					if id, ok := recv.(*ast.Ident); ok && info.ObjectOf(id) == o {
						for _, a := range y.Args {
							for m := range f.DirectMentions(a) {
								out[m] = true
							}
						}
					}
				}
			}
			return true
		})
		return out
	}
	n := 0
	for _, r := range f.OKReturns() {
		ret, ok := r.node.(*ast.ReturnStmt)
		if !ok || len(ret.Results) < 2 {
			continue
		}
		n++
		key := fmt.Sprintf("fee-sum-cumulative.checkBalance#%d", n)
		m := f.DirectMentions(ret.Results[0])
		if id, ok := ast.Unparen(ret.Results[0]).(*ast.Ident); ok {
			for k := range sources(info.ObjectOf(id)) {
				m[k] = true
			}
		}
		if m["pkg/core/mempool#feeSum"] {
			c.OK(key, c.P.Pos(ret.Pos()), "the total returned on success includes the payer's previous pooled total")
		} else {
			c.Fail(key, c.P.Pos(ret.Pos()), "mempool.checkBalance returns on success a value that does not derive from the payer's previous pooled total (feeSum): RemoveStale rebuilds the per-payer totals from it, so after a block every payer is left with the fee of one transaction and the next Add checks solvency against that")
		}
	}
	c.Floor("success exits of checkBalance", n, 1)
}

// ---------------------------------------------------------------------------
// vm-bytes-retained (C09, C04): Element.Bytes()/BytesOrNil() and Item.TryBytes() hand out the item's own memory; for
// a Buffer - what a contract's []byte compiles to - that memory stays writable by the contract. A system call or a
// native method that *keeps* such a slice beyond the call (in an iterator, a struct, a map) sees it change under its
// feet: a storage iterator created with a buffer prefix reports keys that are not in the store once the contract
// writes to the buffer. Kept bytes are cloned first. "Keeps" is summarised per function: a []byte parameter that is
// put un-cloned into a composite literal, a field, a map or an appended slice.
func ruleVMBytesRetained(c *Ctx, pkgs ...string) {
	want := map[string]bool{}
	for _, p := range pkgs {
		want[p] = true
	}
	srcSyms := map[string]bool{"pkg/vm.(Element).Bytes": true, "pkg/vm.(Element).BytesOrNil": true, "pkg/vm/stackitem.(Item).TryBytes": true}
	isBytes := func(t types.Type) bool {
		if t == nil {
			return false
		}
		s, ok := t.Underlying().(*types.Slice)
		if !ok {
			return false
		}
		b, ok := s.Elem().Underlying().(*types.Basic)
		return ok && b.Kind() == types.Byte
	}
	// keeps(fd) -> indices of []byte parameters the function keeps
	type keepInfo struct{ where map[int]string }
	keeps := map[*types.Func]*keepInfo{}
	var fds []*FuncDecl
	for _, fd := range c.P.AllFuncDecls() {
		if fd.Decl.Body != nil && want[pkgRel(fd.Pkg.Types)] {
			fds = append(fds, fd)
		}
	}
	keptUse := func(fd *FuncDecl, o types.Object) string {
		info := fd.Pkg.TypesInfo
		res := ""
		var stack []ast.Node
		ast.Inspect(fd.Decl.Body, func(x ast.Node) bool {
			if x == nil {
				stack = stack[:len(stack)-1]
				return true
			}
			stack = append(stack, x)
			id, ok := x.(*ast.Ident)
			if !ok || info.ObjectOf(id) != o || len(stack) < 2 || res != "" {
				return true
			}
			switch p := stack[len(stack)-2].(type) {
			case *ast.KeyValueExpr:
				if p.Value == ast.Expr(id) {
					// a literal built only to be passed to a call is the callee's business (dao.SeekAsync clones the
					// prefix of the range it is given); a literal that is returned, assigned or stored is kept
					passed := false
					if len(stack) >= 4 {
						if cl, ok := stack[len(stack)-3].(*ast.CompositeLit); ok {
							if call, ok := stack[len(stack)-4].(*ast.CallExpr); ok {
								for _, a := range call.Args {
									if a == ast.Expr(cl) {
										passed = true
									}
								}
							}
						}
					}
					if !passed {
						res = "stored in a composite literal (" + types.ExprString(p.Key) + ")"
					}
				}
			case *ast.AssignStmt:
				for i, r := range p.Rhs {
					if r == ast.Expr(id) && i < len(p.Lhs) {
						switch ast.Unparen(p.Lhs[i]).(type) {
						case *ast.SelectorExpr, *ast.IndexExpr:
							res = "stored into " + types.ExprString(p.Lhs[i])
						}
					}
				}
			case *ast.CallExpr:
				if fid, ok := ast.Unparen(p.Fun).(*ast.Ident); ok {
					if b, ok := info.ObjectOf(fid).(*types.Builtin); ok && b.Name() == "append" && len(p.Args) > 1 {
						for _, a := range p.Args[1:] {
							if a == ast.Expr(id) && !p.Ellipsis.IsValid() {
								res = "appended as an element"
							}
						}
					}
				}
			}
			return true
		})
		return res
	}
	for _, fd := range fds {
		sig := fd.Obj.Type().(*types.Signature)
		ki := &keepInfo{where: map[int]string{}}
		for i := 0; i < sig.Params().Len(); i++ {
			pv := sig.Params().At(i)
			if !isBytes(pv.Type()) {
				continue
			}
			if w := keptUse(fd, pv); w != "" {
				ki.where[i] = w
			}
		}
		if len(ki.where) > 0 {
			keeps[fd.Obj] = ki
		}
	}
	nsrc := 0
	for _, fd := range fds {
		info := fd.Pkg.TypesInfo
		f := c.P.NewFuncCFG(fd)
		// locals bound directly to VM-owned bytes
		owned := map[types.Object]ast.Node{}
		ast.Inspect(fd.Decl.Body, func(x ast.Node) bool {
			as, ok := x.(*ast.AssignStmt)
			if !ok || len(as.Lhs) != len(as.Rhs) {
				return true
			}
			for i, r := range as.Rhs {
				call, ok := ast.Unparen(r).(*ast.CallExpr)
				if !ok || !srcSyms[f.calleeSym(call)] {
					continue
				}
				if id, ok := as.Lhs[i].(*ast.Ident); ok {
					if o := info.ObjectOf(id); o != nil {
						owned[o] = as
					}
				}
			}
			return true
		})
		for o, at := range owned {
			nsrc++
			key := fmt.Sprintf("vm-bytes-retained.%s.%s", FuncKey(fd.Obj), o.Name())
			bad := keptUse(fd, o)
			if bad == "" {
				// handed to a function that keeps the parameter?
				ast.Inspect(fd.Decl.Body, func(x ast.Node) bool {
					call, ok := x.(*ast.CallExpr)
					if !ok || bad != "" {
						return true
					}
					callee := calleeFunc(info, call)
					if callee == nil {
						return true
					}
					ki := keeps[callee.Origin()]
					if ki == nil {
						return true
					}
					for i, a := range call.Args {
						if id, ok := ast.Unparen(a).(*ast.Ident); ok && info.ObjectOf(id) == o {
							if w, ok := ki.where[i]; ok {
								bad = "handed to " + FuncKey(callee) + ", where it is " + w
							}
						}
					}
					return true
				})
			}
			if bad != "" {
				c.Fail(key, c.P.Pos(at.Pos()), fmt.Sprintf("%s keeps bytes that belong to a VM item (%s is %s): for a Buffer argument the contract can rewrite them while they are in use", FuncKey(fd.Obj), o.Name(), bad))
			} else {
				c.OK(key, c.P.Pos(at.Pos()), "VM-owned bytes are used within the call only, or cloned before they are kept")
			}
		}
	}
	c.Floor("locals bound to VM-owned bytes", nsrc, 10)
}

// ---------------------------------------------------------------------------
// flag-guarded-value (C09): a cursor variable that travels with a validity flag (`kv, have = list[i], true` ...
// `have = false` when the list is exhausted) keeps its last value after the flag went false. Reading it then compares
// against an element that was already consumed - and, where the consumed element was trimmed in place, against a key
// that means something else. Every read of such a variable sits where the flag is known to be true: on the right
// of `flag && ...`, in the then-branch of a condition that implies the flag (also through a local defined as
// `flag && ...`), or after an assignment of the variable in the same block.
func ruleFlagGuardedValue(c *Ctx, pkgs ...string) {
	want := map[string]bool{}
	for _, p := range pkgs {
		want[p] = true
	}
	npairs := 0
	for _, fd := range c.P.AllFuncDecls() {
		if !want[pkgRel(fd.Pkg.Types)] || fd.Decl.Body == nil {
			continue
		}
		info := fd.Pkg.TypesInfo
		// flags: bool locals assigned both true and false
		type fl struct {
			trueBlocks  []*ast.BlockStmt
			falseBlocks []*ast.BlockStmt
		}
		flags := map[types.Object]*fl{}
		var blockOf func(n ast.Node) *ast.BlockStmt
		parents := map[ast.Node]ast.Node{}
		var stack []ast.Node
		ast.Inspect(fd.Decl.Body, func(x ast.Node) bool {
			if x == nil {
				stack = stack[:len(stack)-1]
				return true
			}
			if len(stack) > 0 {
				parents[x] = stack[len(stack)-1]
			}
			stack = append(stack, x)
			return true
		})
		blockOf = func(n ast.Node) *ast.BlockStmt {
			for p := parents[n]; p != nil; p = parents[p] {
				if b, ok := p.(*ast.BlockStmt); ok {
					return b
				}
				if cc, ok := p.(*ast.CaseClause); ok {
					return &ast.BlockStmt{List: cc.Body}
				}
				if cc, ok := p.(*ast.CommClause); ok {
					return &ast.BlockStmt{List: cc.Body, Lbrace: cc.Pos(), Rbrace: cc.End()}
				}
			}
			return nil
		}
		ast.Inspect(fd.Decl.Body, func(x ast.Node) bool {
			as, ok := x.(*ast.AssignStmt)
			if !ok || as.Tok != token.ASSIGN || len(as.Lhs) != len(as.Rhs) {
				return true
			}
			for i, l := range as.Lhs {
				id, ok := l.(*ast.Ident)
				if !ok {
					continue
				}
				v, isC := boolConst(info, as.Rhs[i])
				if !isC {
					continue
				}
				o := info.ObjectOf(id)
				if o == nil {
					continue
				}
				if flags[o] == nil {
					flags[o] = &fl{}
				}
				if v {
					flags[o].trueBlocks = append(flags[o].trueBlocks, blockOf(as))
				} else {
					flags[o].falseBlocks = append(flags[o].falseBlocks, blockOf(as))
				}
			}
			return true
		})
		for fo, fi := range flags {
			if len(fi.trueBlocks) < 2 || len(fi.falseBlocks) < 1 {
				continue
			}
			// partner: a local assigned (plain `=`) in every block that sets the flag true, and in no block that sets it false
			assignedIn := func(b *ast.BlockStmt, o types.Object) bool {
				if b == nil {
					return false
				}
				for _, st := range b.List {
					if as, ok := st.(*ast.AssignStmt); ok {
						for _, l := range as.Lhs {
							if id, ok := l.(*ast.Ident); ok && info.ObjectOf(id) == o {
								return true
							}
						}
					}
				}
				return false
			}
			cands := map[types.Object]bool{}
			if fi.trueBlocks[0] != nil {
				for _, st := range fi.trueBlocks[0].List {
					if as, ok := st.(*ast.AssignStmt); ok && as.Tok == token.ASSIGN {
						for _, l := range as.Lhs {
							if id, ok := l.(*ast.Ident); ok {
								if o := info.ObjectOf(id); o != nil && o != fo {
									if _, isBool := o.Type().Underlying().(*types.Basic); !isBool {
										cands[o] = true
									}
								}
							}
						}
					}
				}
			}
			for vo := range cands {
				okPair := true
				for _, b := range fi.trueBlocks {
					if !assignedIn(b, vo) {
						okPair = false
					}
				}
				for _, b := range fi.falseBlocks {
					if assignedIn(b, vo) {
						okPair = false
					}
				}
				if !okPair {
					continue
				}
				npairs++
				nread := 0
				// implies(cond): cond true => flag true
				var implies func(e ast.Expr, depth int) bool
				implies = func(e ast.Expr, depth int) bool {
					e = ast.Unparen(e)
					switch y := e.(type) {
					case *ast.Ident:
						o := info.ObjectOf(y)
						if o == fo {
							return true
						}
						if depth < 3 && o != nil {
							// a local all of whose definitions imply the flag
							ndef, all := 0, true
							ast.Inspect(fd.Decl.Body, func(z ast.Node) bool {
								switch d := z.(type) {
								case *ast.AssignStmt:
									for i, l := range d.Lhs {
										if id, ok := l.(*ast.Ident); ok && info.ObjectOf(id) == o && i < len(d.Rhs) {
											ndef++
											if !implies(d.Rhs[i], depth+1) {
												all = false
											}
										}
									}
								case *ast.ValueSpec:
									for i, id := range d.Names {
										if info.ObjectOf(id) == o && i < len(d.Values) {
											ndef++
											if !implies(d.Values[i], depth+1) {
												all = false
											}
										}
									}
								}
								return true
							})
							return ndef > 0 && all
						}
					case *ast.BinaryExpr:
						if y.Op == token.LAND {
							return implies(y.X, depth) || implies(y.Y, depth)
						}
					}
					return false
				}
				// negImplies(cond): cond false => flag true
				var negImplies func(e ast.Expr) bool
				negImplies = func(e ast.Expr) bool {
					e = ast.Unparen(e)
					switch y := e.(type) {
					case *ast.UnaryExpr:
						if y.Op == token.NOT {
							return implies(y.X, 0)
						}
					case *ast.BinaryExpr:
						if y.Op == token.LOR {
							return negImplies(y.X) || negImplies(y.Y)
						}
					}
					return false
				}
				// examine every read of the value
				ast.Inspect(fd.Decl.Body, func(x ast.Node) bool {
					id, ok := x.(*ast.Ident)
					if !ok || info.ObjectOf(id) != vo || info.Defs[id] != nil {
						return true
					}
					// skip pure assignment targets
					if as, ok := parents[id].(*ast.AssignStmt); ok {
						for _, l := range as.Lhs {
							if l == ast.Expr(id) {
								return true
							}
						}
					}
					guarded := false
					var prev ast.Node = id
					for p := parents[id]; p != nil && !guarded; prev, p = p, parents[p] {
						switch y := p.(type) {
						case *ast.BinaryExpr:
							if y.Op == token.LAND && y.Y == prev && implies(y.X, 0) {
								guarded = true
							}
							if y.Op == token.LOR && y.Y == prev && negImplies(y.X) {
								guarded = true // `!flag || <read>`: the right side is evaluated only when the flag is true
							}
						case *ast.IfStmt:
							if y.Body == prev && implies(y.Cond, 0) {
								guarded = true
							}
							if y.Else == prev && negImplies(y.Cond) {
								guarded = true
							}
						case *ast.ForStmt:
							if y.Body == prev && y.Cond != nil && implies(y.Cond, 0) {
								guarded = true
							}
						case *ast.BlockStmt:
							// an assignment of the value earlier in this block (re-validates it)
							for _, st := range y.List {
								if st == prev {
									break
								}
								if as, ok := st.(*ast.AssignStmt); ok {
									for _, l := range as.Lhs {
										if lid, ok := l.(*ast.Ident); ok && info.ObjectOf(lid) == vo {
											guarded = true
										}
									}
								}
							}
						case *ast.CaseClause:
							for _, st := range y.Body {
								if st == prev {
									break
								}
								if as, ok := st.(*ast.AssignStmt); ok {
									for _, l := range as.Lhs {
										if lid, ok := l.(*ast.Ident); ok && info.ObjectOf(lid) == vo {
											guarded = true
										}
									}
								}
							}
						}
					}
					nread++
					key := fmt.Sprintf("flag-guarded-value.%s.%s.read#%d", FuncKey(fd.Obj), vo.Name(), nread)
					if guarded {
						c.OK(key, c.P.Pos(id.Pos()), fmt.Sprintf("%s is read where %s is known to be true", vo.Name(), fo.Name()))
					} else {
						c.Fail(key, c.P.Pos(id.Pos()), fmt.Sprintf("%s reads %s where its validity flag %s may be false: the variable then still holds the element consumed last (possibly trimmed in place), and the comparison made with it is about an element that is no longer current", FuncKey(fd.Obj), vo.Name(), fo.Name()))
					}
					return true
				})
			}
		}
	}
	c.Floor("cursor/validity-flag pairs", npairs, 1)
}

// ---------------------------------------------------------------------------
// conflict-stub-refreshed (C07): for every Conflicts attribute of a stored transaction dao.StoreAsTransaction writes a
// stub under the conflicting hash (the *latest* height at which somebody conflicted with it) and one record per
// signer. HasTransaction trusts the stub: when its height is no longer traceable it answers "no conflict" without
// looking at the signers. The stub therefore has to be rewritten in every iteration that writes signer records:
// within the loop over the attributes, every path from the top of the body to a per-signer Put passes the stub's Put.
//
// witness-budget-siblings (C07): the gas a transaction may spend on witness verification is what is left of its
// network fee after the size part and the attribute fees. The quantity is computed in two places - verifyAndPoolTx
// (admission) and verifyTxWitnesses' own branch (re-verification of pooled transactions) - and both must subtract the
// same things, or a pooled transaction survives a re-check with a budget that admission and in-block verification
// would not give it.
func ruleConflictStubAndBudget(c *Ctx) {
	if fd := c.P.Func("pkg/core/dao", "Simple", "StoreAsTransaction"); fd == nil {
		c.Lost("conflict-stub-refreshed.anchor", "dao.(*Simple).StoreAsTransaction not found")
	} else {
		f := c.P.NewFuncCFG(fd)
		info := fd.Pkg.TypesInfo
		var outer, inner *ast.RangeStmt
		ast.Inspect(fd.Decl.Body, func(x ast.Node) bool {
			rs, ok := x.(*ast.RangeStmt)
			if !ok {
				return true
			}
			m := f.DirectMentions(rs.X)
			if outer == nil && (m["pkg/core/transaction.(*Transaction).GetAttributes"] || m["local<-pkg/core/transaction.(*Transaction).GetAttributes"]) {
				outer = rs
			} else if outer != nil && containsNode(outer, rs) && m["pkg/core/transaction#Signers"] {
				inner = rs
			}
			return true
		})
		if outer == nil || inner == nil {
			c.Lost("conflict-stub-refreshed.loops", "the loops over Conflicts attributes / signers were not found in StoreAsTransaction")
		} else {
			var stub, signer []site
			for _, st := range f.CallSites("pkg/core/storage.(*MemCachedStore).Put", "pkg/core/storage.(Store).Put") {
				if !containsNode(outer.Body, st.call) {
					continue
				}
				if containsNode(inner, st.call) {
					signer = append(signer, st)
				} else {
					stub = append(stub, st)
				}
			}
			_ = info
			if len(stub) == 0 || len(signer) == 0 {
				c.Fail("conflict-stub-refreshed.StoreAsTransaction", c.P.Pos(outer.Pos()), fmt.Sprintf("StoreAsTransaction: %d stub writes and %d per-signer writes inside the loop over Conflicts attributes: a conflict record needs both", len(stub), len(signer)))
			} else if ok, path := f.mustBefore(f.regionEntries(outer.Body), signer, stub, nil); ok {
				c.OK("conflict-stub-refreshed.StoreAsTransaction", c.P.Pos(stub[0].call.Pos()), "every iteration that writes signer records rewrites the stub first")
			} else {
				c.Fail("conflict-stub-refreshed.StoreAsTransaction", c.P.Pos(signer[0].call.Pos()), "dao.StoreAsTransaction can write the per-signer conflict records of an attribute without rewriting the stub under the conflicting hash: the stub keeps the height of the first conflict, HasTransaction takes it for untraceable later on and answers 'no conflict' although the victim's own signer conflicted with it recently", path...)
			}
		}
	}
	// witness budget siblings
	want := []string{fldTxNetFee, symTxSize, symBC + "FeePerByte", symBC + "CalculateAttributesFee"}
	n := 0
	for _, name := range []string{"verifyTxWitnesses"} {
		fd := c.P.Func("pkg/core", "Blockchain", name)
		if fd == nil {
			c.Lost("witness-budget-siblings."+name, "function not found")
			continue
		}
		f := c.P.NewFuncCFG(fd)
		ast.Inspect(fd.Decl.Body, func(x ast.Node) bool {
			as, ok := x.(*ast.AssignStmt)
			if !ok || len(as.Rhs) != 1 {
				return true
			}
			m := f.DirectMentions(as.Rhs[0])
			if !m[fldTxNetFee] {
				return true
			}
			n++
			key := fmt.Sprintf("witness-budget-siblings.%s#%d", name, n)
			var missing []string
			for _, w := range want {
				if !m[w] {
					missing = append(missing, shortSym(w))
				}
			}
			if len(missing) == 0 {
				c.OK(key, c.P.Pos(as.Pos()), "the re-verification budget subtracts the size part and the attribute fees, as admission does")
			} else {
				c.Fail(key, c.P.Pos(as.Pos()), fmt.Sprintf("%s computes the witness verification budget from the network fee without %s: verifyAndPoolTx subtracts it at admission, so a pooled transaction is re-verified with a larger budget than a block verifier gives it", FuncKey(fd.Obj), strings.Join(missing, ", ")))
			}
			return true
		})
	}
	c.Floor("witness budget computations outside admission", n, 1)
}

// ---------------------------------------------------------------------------
// cache-latest (C01, C02): RoleManagement keeps its node lists in storage under the height from which they are in force
// (a designation made in block N is stored under N+1) and caches, per role, the *latest* record. A running node's cache
// always holds the latest one because DesignateAsRole refreshes it after every write. The cache a restarted, reset or
// state-jumped node rebuilds must be the same: whatever fills a DesignationCache field from storage asks for the
// newest record (index MaxUint32), never for "the record in force at the current height" - that misses a designation
// made in the very block the node restarted at, and the two nodes answer getDesignatedByRole differently from the
// next block on.
func ruleCacheLatest(c *Ctx) {
	n := 0
	for _, fd := range c.P.AllFuncDecls() {
		if fd.Decl.Body == nil || pkgRel(fd.Pkg.Types) != "pkg/core/native" {
			continue
		}
		f := c.P.NewFuncCFG(fd)
		sites := f.CallSites("pkg/core/native.(*Designate).getDesignatedByRoleFromStorage")
		if len(sites) == 0 {
			continue
		}
		// does this function fill the cache? (writes a field of roleData / DesignationCache)
		fills := false
		for _, w := range nodeWrites(fd.Pkg.TypesInfo, fd.Decl.Body, true) {
			if w.Field == "pkg/core/native#nodes" || w.Field == "pkg/core/native#addr" || w.Field == "pkg/core/native#height" {
				fills = true
			}
		}
		if !fills {
			continue
		}
		for _, st := range sites {
			if len(st.call.Args) < 3 {
				continue
			}
			n++
			key := fmt.Sprintf("cache-latest.%s#%d", FuncKey(fd.Obj), n)
			tv, ok := fd.Pkg.TypesInfo.Types[st.call.Args[2]]
			if ok && tv.Value != nil && tv.Value.String() == "4294967295" {
				c.OK(key, c.P.Pos(st.call.Pos()), "the cache is filled with the newest record (index MaxUint32)")
			} else {
				c.Fail(key, c.P.Pos(st.call.Pos()), fmt.Sprintf("%s fills the RoleManagement cache with the record in force at `%s` instead of the newest one: a node that rebuilds its cache at the height of a block containing a designation keeps the old node list, while the node that executed that block already caches the new one", FuncKey(fd.Obj), trunc(types.ExprString(st.call.Args[2]), 40)))
			}
		}
	}
	c.Floor("storage lookups that fill the RoleManagement cache", n, 1)
}

// ---------------------------------------------------------------------------
// witness-covered-shortcut (C06): the hash of a header does not cover its witness, the hash of a transaction does not
// cover its witnesses. Blockchain.AddBlock has two shortcuts keyed by a hash: when the header of the block is known
// already it only compares the block hash with the known one, and a transaction that is in the node's pool is put
// into the scratch pool without verification. Both skip the witness check on the strength of a value that says
// nothing about the witness: the same block (transaction) with any other witness has the same hash, is accepted and
// is what gets stored. A shortcut keyed by a hash has to look at the witness it is about to store - compare it with
// the verified copy, or verify it.
// proposalShortcutLooksAtWitness: the consensus service's verifyBlock has the same shortcut as AddBlock - a
// transaction of the proposal that the node's pool holds is not verified again - and the same trap: the pool is asked
// by hash, and the hash covers no witness. The transactions of a proposal are fetched from peers and reach dBFT
// before anybody verified them (Server.txHandlerLoop), so a copy with a garbage witness is approved once the valid
// copy is pooled, M validators sign a block that every ledger - their own included - refuses (finding 104). The
// condition under which verifyBlock puts a transaction into its scratch pool without Chain.PoolTx reads the
// witnesses (Scripts), itself or through the function it calls.
func proposalShortcutLooksAtWitness(c *Ctx) {
	fd := c.P.Func("pkg/consensus", "service", "verifyBlock")
	if fd == nil {
		c.Lost("witness-covered-shortcut.verifyBlock.anchor", "service.verifyBlock not found")
		return
	}
	f := c.P.NewFuncCFG(fd)
	info := f.Info
	mentionsScripts := func(n ast.Node, inf *types.Info) bool {
		hit := false
		ast.Inspect(n, func(x ast.Node) bool {
			if se, ok := x.(*ast.SelectorExpr); ok && se.Sel.Name == "Scripts" {
				if v, ok := inf.ObjectOf(se.Sel).(*types.Var); ok && v.IsField() {
					hit = true
				}
			}
			return true
		})
		return hit
	}
	found := false
	ast.Inspect(fd.Decl.Body, func(x ast.Node) bool {
		is, ok := x.(*ast.IfStmt)
		if !ok || is.Else == nil {
			return true
		}
		// the if whose body adds to the scratch pool directly and whose else goes through PoolTx
		direct, full := false, false
		ast.Inspect(is.Body, func(y ast.Node) bool {
			if ce, ok := y.(*ast.CallExpr); ok && strings.HasSuffix(f.calleeSym(ce), "mempool.(*Pool).Add") {
				direct = true
			}
			return true
		})
		ast.Inspect(is.Else, func(y ast.Node) bool {
			if ce, ok := y.(*ast.CallExpr); ok {
				if fn := calleeFunc(info, ce); fn != nil && fn.Name() == "PoolTx" {
					full = true
				}
			}
			return true
		})
		if !direct || !full {
			return true
		}
		found = true
		looks := mentionsScripts(is.Cond, info)
		// a condition that is a local bound to one expression is that expression
		var condExprs []ast.Node
		condExprs = append(condExprs, is.Cond)
		ast.Inspect(is.Cond, func(y ast.Node) bool {
			if id, ok := y.(*ast.Ident); ok {
				if v, ok := info.ObjectOf(id).(*types.Var); ok && !v.IsField() && len(f.defs[v]) == 1 {
					for _, r := range f.defs[v][0].rhs {
						condExprs = append(condExprs, r)
						if mentionsScripts(r, info) {
							looks = true
						}
					}
				}
			}
			return true
		})
		for _, ce := range condExprs[1:] {
			ast.Inspect(ce, func(y ast.Node) bool {
				if call, ok := y.(*ast.CallExpr); ok {
					if fn := calleeFunc(info, call); fn != nil {
						if d := c.P.DeclOf(fn); d != nil && d.Decl.Body != nil && mentionsScripts(d.Decl.Body, d.Pkg.TypesInfo) {
							looks = true
						}
					}
				}
				return true
			})
		}
		ast.Inspect(is.Cond, func(y ast.Node) bool {
			if ce, ok := y.(*ast.CallExpr); ok {
				if fn := calleeFunc(info, ce); fn != nil {
					if d := c.P.DeclOf(fn); d != nil && d.Decl.Body != nil && mentionsScripts(d.Decl.Body, d.Pkg.TypesInfo) {
						looks = true
					}
				}
			}
			return true
		})
		if looks {
			c.OK("witness-covered-shortcut.verifyBlock", c.P.Pos(is.Pos()), "a transaction of the proposal skips verification only if the pooled copy has the same witnesses")
		} else {
			c.Fail("witness-covered-shortcut.verifyBlock", c.P.Pos(is.Pos()), fmt.Sprintf("service.verifyBlock takes a transaction of the proposal for verified under `%s`, which asks the pool by hash: the hash of a transaction does not cover its witnesses, and the copies dBFT works with were fetched from peers and never verified. With the valid copy in the pool, a copy carrying a garbage witness is approved, the block is committed by M validators and refused by every ledger, their own included", types.ExprString(is.Cond)))
		}
		return true
	})
	if !found {
		c.Lost("witness-covered-shortcut.verifyBlock.shape", "the pooled-transaction shortcut of verifyBlock (scratch pool Add vs Chain.PoolTx) was not found")
	}
}

func ruleWitnessCoveredShortcut(c *Ctx) {
	if c.Property == "C19" || c.Property == "C07" || c.Property == "C06" {
		proposalShortcutLooksAtWitness(c)
		if c.Property != "C06" {
			return
		}
	}
	fd := c.P.Func("pkg/core", "Blockchain", "AddBlock")
	if fd == nil {
		c.Lost("witness-covered-shortcut.anchor", "Blockchain.AddBlock not found")
		return
	}
	f := c.P.NewFuncCFG(fd)
	store := f.CallSites(symStoreBlock)
	if len(store) == 0 {
		c.Lost("witness-covered-shortcut.storeBlock", "AddBlock no longer calls storeBlock")
		return
	}
	// (1) the known-header branch: the if statement comparing the block index with HeaderHeight()+1
	var hdrIf *ast.IfStmt
	ast.Inspect(fd.Decl.Body, func(x ast.Node) bool {
		if is, ok := x.(*ast.IfStmt); ok && hdrIf == nil {
			m := f.DirectMentions(is.Cond)
			if (m["pkg/core.(*Blockchain).HeaderHeight"] || m["pkg/core.(*HeaderHashes).HeaderHeight"]) && m[fldBlockIndex] {
				hdrIf = is
			}
		}
		return true
	})
	if hdrIf == nil {
		c.Lost("witness-covered-shortcut.known-header.anchor", "the branch on `block.Index == HeaderHeight()+1` was not found in AddBlock")
	} else {
		looks := false
		// the code that handles a header somebody else recorded: the else branch, or - when the comparison is made on
		// every path - whatever follows the if statement
		var region ast.Node = hdrIf.Else
		if region == nil {
			region = fd.Decl.Body
		}
		ast.Inspect(region, func(x ast.Node) bool {
			if x == ast.Node(hdrIf.Body) {
				return false
			}
			switch y := x.(type) {
			case *ast.SelectorExpr:
				if v, ok := f.Info.ObjectOf(y.Sel).(*types.Var); ok && v.IsField() && symOf(v) == "pkg/core/block#Script" {
					looks = true
				}
			case *ast.CallExpr:
				if cs := f.calleeSym(y); cs == symBC+"verifyHeaderWitnesses" || cs == symBC+"verifyHeader" || cs == symBC+"addHeaders" {
					looks = true
				}
			}
			return true
		})
		if looks {
			c.OK("witness-covered-shortcut.known-header", c.P.Pos(hdrIf.Pos()), "the known-header branch looks at the block's witness (compares or verifies it)")
		} else {
			c.Fail("witness-covered-shortcut.known-header", c.P.Pos(hdrIf.Pos()), "Blockchain.AddBlock: when the header of the block is already known only the block hash is compared with the known one; the hash does not cover the witness, so a copy of the block with any other witness (unsigned, `PUSH1`) is accepted and StoreAsBlock overwrites the verified header with it")
		}
	}
	// (2) the pooled-transaction shortcut: the if statement whose body hands the transaction to the scratch pool
	// directly (Pool.Add) while its else branch goes through verifyAndPoolTx
	var poolIf *ast.IfStmt
	ast.Inspect(fd.Decl.Body, func(x ast.Node) bool {
		is, ok := x.(*ast.IfStmt)
		if !ok || poolIf != nil || is.Else == nil {
			return true
		}
		adds, verifies := false, false
		ast.Inspect(is.Body, func(y ast.Node) bool {
			if call, ok := y.(*ast.CallExpr); ok && f.calleeSym(call) == symPoolAdd {
				adds = true
			}
			return true
		})
		ast.Inspect(is.Else, func(y ast.Node) bool {
			if call, ok := y.(*ast.CallExpr); ok && f.calleeSym(call) == symVerifyPool {
				verifies = true
			}
			return true
		})
		if adds && verifies {
			poolIf = is
		}
		return true
	})
	if poolIf == nil {
		c.OK("witness-covered-shortcut.pooled-tx", c.P.Pos(fd.Decl.Pos()), "AddBlock has no shortcut for pooled transactions")
	} else {
		mentionsScripts := func(n ast.Node, info *types.Info) bool {
			hit := false
			ast.Inspect(n, func(x ast.Node) bool {
				if se, ok := x.(*ast.SelectorExpr); ok {
					if v, ok := info.ObjectOf(se.Sel).(*types.Var); ok && v.IsField() && symOf(v) == "pkg/core/transaction#Scripts" {
						hit = true
					}
				}
				return true
			})
			return hit
		}
		looks := mentionsScripts(poolIf.Cond, f.Info)
		// or through a helper of the ledger called in the condition (one level)
		ast.Inspect(poolIf.Cond, func(x ast.Node) bool {
			if call, ok := x.(*ast.CallExpr); ok {
				if cf := calleeFunc(f.Info, call); cf != nil {
					if hd := c.P.DeclOf(cf); hd != nil && hd.Decl.Body != nil && pkgRel(hd.Pkg.Types) == "pkg/core" && mentionsScripts(hd.Decl.Body, hd.Pkg.TypesInfo) {
						looks = true
					}
				}
			}
			return true
		})
		if looks {
			c.OK("witness-covered-shortcut.pooled-tx", c.P.Pos(poolIf.Pos()), "the pooled-transaction shortcut looks at the witnesses of the block's copy")
		} else {
			c.Fail("witness-covered-shortcut.pooled-tx", c.P.Pos(poolIf.Pos()), "Blockchain.AddBlock skips the verification of a transaction whose hash is in the node's pool; the hash does not cover the witnesses, so a relayed copy of a valid block in which a pooled transaction's witness was replaced is accepted (block hash and Merkle root are unchanged) and the garbage witness is stored")
		}
	}
	// (3) the second acceptor: statesync.Module.AddBlock stores the blocks below the sync point; it knows their headers
	// (verified when they were added) and compares hashes - the same shortcut, the same obligation
	if sd := c.P.Func("pkg/core/statesync", "Module", "AddBlock"); sd != nil {
		sf := c.P.NewFuncCFG(sd)
		stores := sf.CallSites("pkg/core/dao.(*Simple).StoreAsBlock")
		var looks []site
		for _, b := range sf.G.Blocks {
			if !b.Live {
				continue
			}
			for k, nd := range b.Nodes {
				hit := false
				inspectNoLit(nd, func(x ast.Node) bool {
					switch y := x.(type) {
					case *ast.SelectorExpr:
						if v, ok := sf.Info.ObjectOf(y.Sel).(*types.Var); ok && v.IsField() && symOf(v) == "pkg/core/block#Script" {
							hit = true
						}
					case *ast.CallExpr:
						if strings.HasSuffix(sf.calleeSym(y), ".VerifyWitness") {
							hit = true
						}
					}
					return true
				})
				if hit {
					looks = append(looks, site{blk: b, idx: k, node: nd})
				}
			}
		}
		switch {
		case len(stores) == 0:
			c.Lost("witness-covered-shortcut.statesync.store", "statesync.Module.AddBlock no longer calls StoreAsBlock")
		case len(looks) == 0:
			c.Fail("witness-covered-shortcut.statesync", c.P.Pos(sd.Decl.Pos()), "statesync.Module.AddBlock compares the block hash with the known header's and stores the block: the hash does not cover the witness, so a copy of the block with any other witness replaces the verified header in the database and is what the node serves")
		default:
			if ok, path := sf.mustBefore(sf.Entry(), stores, looks, symAssume("pkg/config#SkipBlockVerification", false)); ok {
				c.OK("witness-covered-shortcut.statesync", c.P.Pos(looks[0].node.Pos()), "the block's witness is compared with the verified header's (or verified) before the block is stored")
			} else {
				c.Fail("witness-covered-shortcut.statesync", c.P.Pos(stores[0].call.Pos()), "a path of statesync.Module.AddBlock stores the block without looking at its witness", path...)
			}
		}
	} else {
		c.Lost("witness-covered-shortcut.statesync.anchor", "statesync.Module.AddBlock not found")
	}
}

// ---------------------------------------------------------------------------
// context-height (C03, C01): an execution happens *at a height* - the block being processed, the tip for a test
// invocation, an earlier block for a historic one - and interop.Context knows it (Context.BlockHeight, CurrentBlockHash).
// Native contracts and system calls that ask the live ledger instead (ic.Chain.BlockHeight()) give the right answer in
// block processing and at the tip, where the two coincide, and a drifting one in historic invocations: the
// traceability window of Ledger.getBlock would follow the tip, and a call that returned a block at height h returns
// null when replayed for h later. Inside the natives and the interop layer only interop.Context's own accessors may
// read the ledger's current height or tip hash.
// historicContextInputs (context-height, C03/C01): the same for the ledger's side of a historic invocation. What
// Blockchain.GetTestHistoricVM puts into the context it builds - the fake next block, the DAO - is derived from the
// state of the requested height. A zero-parameter getter of Blockchain that hands bc.dao (the *current* state) to a
// native (GetMillisecondsPerBlock, GetMaxValidUntilBlockIncrement, ...) may be consulted there in a condition only (is
// the requested height still retained?), never for a value: System.Runtime.GetTime of a historic invocation would
// follow the committee's later changes of the block time (finding 90).
func historicContextInputs(c *Ctx) {
	root := c.P.Func("pkg/core", "Blockchain", "GetTestHistoricVM")
	if root == nil {
		c.Lost("historic-context-inputs.anchor", "Blockchain.GetTestHistoricVM not found")
		return
	}
	isBC := func(fn *types.Func) bool {
		sig, _ := fn.Type().(*types.Signature)
		if sig == nil || sig.Recv() == nil {
			return false
		}
		return namedTypeIsPtr(sig.Recv().Type(), "github.com/nspcc-dev/neo-go/pkg/core", "Blockchain")
	}
	// getters of the current state: zero-parameter methods of *Blockchain that pass the receiver's dao on
	getters := map[*types.Func]bool{}
	for _, fd := range c.P.AllFuncDecls() {
		if fd.Decl.Body == nil || fd.Decl.Recv == nil || !isBC(fd.Obj) || len(fd.Decl.Recv.List[0].Names) == 0 {
			continue
		}
		if fd.Obj.Type().(*types.Signature).Params().Len() != 0 {
			continue
		}
		info := fd.Pkg.TypesInfo
		recv := info.ObjectOf(fd.Decl.Recv.List[0].Names[0])
		ast.Inspect(fd.Decl.Body, func(x ast.Node) bool {
			call, ok := x.(*ast.CallExpr)
			if !ok {
				return true
			}
			for _, a := range call.Args {
				if se, ok := ast.Unparen(a).(*ast.SelectorExpr); ok && se.Sel.Name == "dao" {
					if id, ok := ast.Unparen(se.X).(*ast.Ident); ok && info.ObjectOf(id) == recv {
						getters[fd.Obj] = true
					}
				}
			}
			return true
		})
	}
	c.Floor("zero-parameter getters of Blockchain over the current DAO", len(getters), 5)
	seen := map[*FuncDecl]bool{}
	n := 0
	var visit func(fd *FuncDecl, depth int, via string)
	visit = func(fd *FuncDecl, depth int, via string) {
		if fd == nil || fd.Decl.Body == nil || seen[fd] || depth > 2 {
			return
		}
		seen[fd] = true
		info := fd.Pkg.TypesInfo
		inCond := map[ast.Node]bool{}
		ast.Inspect(fd.Decl.Body, func(x ast.Node) bool {
			if is, ok := x.(*ast.IfStmt); ok {
				for _, part := range []ast.Node{is.Init, is.Cond} {
					if part != nil {
						ast.Inspect(part, func(y ast.Node) bool {
							if y != nil {
								inCond[y] = true
							}
							return true
						})
					}
				}
			}
			return true
		})
		inspectNoLit(fd.Decl.Body, func(x ast.Node) bool {
			call, ok := x.(*ast.CallExpr)
			if !ok {
				return true
			}
			fn := calleeFunc(info, call)
			if fn == nil || !isBC(fn) {
				return true
			}
			if getters[fn] {
				n++
				key := fmt.Sprintf("historic-context-inputs.%s#%d", shortSym(FuncKey(fd.Obj)), n)
				condOnly := inCond[call]
				if !condOnly {
					// bound to locals that are mentioned in conditions only
					ast.Inspect(fd.Decl.Body, func(y ast.Node) bool {
						as, ok := y.(*ast.AssignStmt)
						if !ok || len(as.Lhs) != len(as.Rhs) {
							return true
						}
						for i, r := range as.Rhs {
							if ast.Unparen(r) != ast.Expr(call) {
								continue
							}
							id, ok := as.Lhs[i].(*ast.Ident)
							if !ok {
								continue
							}
							v := info.ObjectOf(id)
							uses, inConds := 0, 0
							ast.Inspect(fd.Decl.Body, func(z ast.Node) bool {
								if u, ok := z.(*ast.Ident); ok && u != id && info.ObjectOf(u) == v {
									uses++
									if inCond[u] {
										inConds++
									}
								}
								return true
							})
							if uses > 0 && uses == inConds {
								condOnly = true
							}
						}
						return true
					})
				}
				if condOnly {
					c.OK(key, c.P.Pos(call.Pos()), shortSym(FuncKey(fn))+" consulted in a condition (what the node retains now)")
				} else {
					c.Fail(key, c.P.Pos(call.Pos()), fmt.Sprintf("%s%s takes a value from %s, which reads the *current* state (bc.dao), while building the context of a historic invocation: what the script sees (the time of the block it runs in) follows later changes of the chain's settings instead of those in force at the requested height - the invocation no longer returns what the live node returned at that height", FuncKey(fd.Obj), via, shortSym(FuncKey(fn))))
				}
				return true
			}
			visit(c.P.DeclOf(fn), depth+1, " (reached from "+shortSym(FuncKey(fd.Obj))+")")
			return true
		})
	}
	visit(root, 0, "")
	if n == 0 {
		c.OK("historic-context-inputs", c.P.Pos(root.Decl.Pos()), "GetTestHistoricVM and the Blockchain methods it calls consult no getter of the current state")
	}
	// The native caches of the historic DAO are initialised for the height whose state the DAO holds: the argument
	// of initializeNativeCache is the height the state root was asked for (finding 91: the caches were initialised
	// for the *next* height, so at a hardfork height natives expected settings that block has not written yet).
	f := c.P.NewFuncCFG(root)
	var rootArg, cacheArg ast.Expr
	inspectNoLit(root.Decl.Body, func(x ast.Node) bool {
		call, ok := x.(*ast.CallExpr)
		if !ok || len(call.Args) == 0 {
			return true
		}
		switch sym := f.calleeSym(call); {
		case strings.HasSuffix(sym, ".GetStateRoot"):
			rootArg = call.Args[0]
		case strings.HasSuffix(sym, "(*Blockchain).initializeNativeCache"):
			cacheArg = call.Args[0]
		}
		return true
	})
	switch {
	case rootArg == nil || cacheArg == nil:
		c.Lost("historic-context-inputs.cache-height", "GetTestHistoricVM no longer calls GetStateRoot and initializeNativeCache")
	default:
		rb, ro, ok1 := linearForm(f, rootArg, 0)
		cb, co, ok2 := linearForm(f, cacheArg, 0)
		switch {
		case !ok1 || !ok2:
			c.Unclassified("historic-context-inputs.cache-height", c.P.Pos(cacheArg.Pos()), "the height arguments of GetStateRoot / initializeNativeCache are not of the form base+constant")
		case rb == cb && ro == co:
			c.OK("historic-context-inputs.cache-height", c.P.Pos(cacheArg.Pos()), fmt.Sprintf("native caches are initialised for the height of the state the DAO holds (%s%+d)", rb, ro))
		default:
			c.Fail("historic-context-inputs.cache-height", c.P.Pos(cacheArg.Pos()), fmt.Sprintf("GetTestHistoricVM opens the state of height %s%+d and initialises the native caches over it for height %s%+d: at a hardfork height the natives (and native settings) that the block of that height introduces are taken for present, InitializeCache looks for records that block has not written yet and the historic invocation fails where the live node at that height answered", rb, ro, cb, co))
		}
	}
}

func ruleContextHeight(c *Ctx) {
	historicContextInputs(c)
	live := []string{"pkg/core/interop.(Ledger).BlockHeight", "pkg/core/interop.(Ledger).CurrentBlockHash", "pkg/core/interop.(Ledger).HeaderHeight"}
	n, nAcc := 0, 0
	for _, fd := range c.P.AllFuncDecls() {
		rel := pkgRel(fd.Pkg.Types)
		if fd.Decl.Body == nil || !(rel == "pkg/core/native" || strings.HasPrefix(rel, "pkg/core/interop")) {
			continue
		}
		f := c.P.NewFuncCFG(fd)
		sites := f.CallSites(live...)
		if len(sites) == 0 {
			continue
		}
		isAccessor := false
		if sig := fd.Obj.Type().(*types.Signature); sig.Recv() != nil && namedTypeIs(sig.Recv().Type(), "pkg/core/interop", "Context") {
			isAccessor = true
		}
		for _, st := range sites {
			n++
			key := fmt.Sprintf("context-height.%s#%d", FuncKey(fd.Obj), n)
			if isAccessor {
				nAcc++
				c.OK(key, c.P.Pos(st.call.Pos()), "interop.Context's own accessor: falls back to the ledger only when the context carries no block")
			} else {
				c.Fail(key, c.P.Pos(st.call.Pos()), fmt.Sprintf("%s asks the live ledger for the current height/tip (%s) instead of the execution context: in a historic invocation the answer follows the tip, not the height the invocation is made for", FuncKey(fd.Obj), trunc(types.ExprString(st.call.Fun), 40)))
			}
		}
	}
	c.Floor("reads of the ledger's height inside interop.Context's accessors", nAcc, 3)
}

// ---------------------------------------------------------------------------
// historic-resolves-historic (C03): an RPC helper that takes an optional state root answers for *that* root when it is
// given. Resolving the contract (hash -> id) through the live contract state there is right as long as the contract
// still exists; after ContractManagement.destroy the live lookup fails (or, after a redeploy under the same hash,
// answers with another id) while the root still commits to the contract's storage. In every function of the RPC
// server with a variadic state-root parameter, a call of the live contract-state accessor is control-dependent on
// the absence of the root.
func ruleHistoricResolvesHistoric(c *Ctx) {
	mptSessionSameHeight(c)
	n := 0
	for _, fd := range c.P.AllFuncDecls() {
		if fd.Decl.Body == nil || pkgRel(fd.Pkg.Types) != "pkg/services/rpcsrv" {
			continue
		}
		sig := fd.Obj.Type().(*types.Signature)
		rootIdx := -1
		if sig.Variadic() && sig.Params().Len() > 0 {
			last := sig.Params().At(sig.Params().Len() - 1)
			if sl, ok := last.Type().(*types.Slice); ok && namedTypeIs(sl.Elem(), "pkg/util", "Uint256") {
				rootIdx = sig.Params().Len() - 1
			}
		}
		if rootIdx < 0 {
			continue
		}
		f := c.P.NewFuncCFG(fd)
		n++
		sites := f.CallSites("pkg/services/rpcsrv.(Ledger).GetContractState", "pkg/core.(*Blockchain).GetContractState")
		key := "historic-resolves-historic." + FuncKey(fd.Obj)
		if len(sites) == 0 {
			c.OK(key, c.P.Pos(fd.Decl.Pos()), "no live contract-state lookup in a function that takes a state root")
			continue
		}
		res := f.CheckGate(f.Entry(), blocksOf(sites), Guard{ID: "no-root", Doc: "the live lookup is made only when no root was given", Alts: [][]string{{fmt.Sprintf("param#%d", rootIdx)}}, WholeOpen: true}, nil)
		if res.OK {
			c.OK(key, c.P.Pos(sites[0].call.Pos()), "the live contract state is consulted only when no state root was given")
		} else {
			c.Fail(key, c.P.Pos(sites[0].call.Pos()), FuncKey(fd.Obj)+" resolves the contract through the live contract state although a state root may have been given: historic storage requests by hash fail ('Unknown contract') for a contract destroyed after that root, whose storage the root still commits to")
		}
	}
	c.Floor("RPC helpers with an optional state root", n, 1)
}

// ---------------------------------------------------------------------------
// publish-atomic (C04, C02, C09): storeBlock hands the two private layers of a block - the block with its application
// logs and height pointer, and the state changes with MPT nodes and state root - to MemCachedStore.PersistPrivate in
// one call; the flush goroutine is synchronised with it through the store's lock only. All layers given to one
// PersistPrivate call are merged inside one critical section: the store's lock is taken before the loop over the
// layers and released after it, never per layer - a flush landing between two layers would write "transaction HALTed"
// without any of its effects.
func rulePublishAtomic(c *Ctx) {
	fd := c.P.Func("pkg/core/storage", "MemCachedStore", "PersistPrivate")
	if fd == nil {
		c.Lost("publish-atomic.anchor", "MemCachedStore.PersistPrivate not found")
		return
	}
	f := c.P.NewFuncCFG(fd)
	var loop *ast.RangeStmt
	mergeSites := f.CallSites("pkg/core/storage.(*MemoryStore).putChangeSet")
	ast.Inspect(fd.Decl.Body, func(x ast.Node) bool {
		if rs, ok := x.(*ast.RangeStmt); ok && loop == nil {
			if _, ok := f.Info.TypeOf(rs.X).Underlying().(*types.Slice); ok && f.DirectMentions(rs.X)["param#0"] {
				for _, st := range mergeSites {
					if containsNode(rs, st.call) {
						loop = rs
					}
				}
			}
		}
		return true
	})
	if loop == nil {
		c.Lost("publish-atomic.loop", "the loop over the private layers was not found in PersistPrivate")
		return
	}
	merges := 0
	for _, st := range f.CallSites("pkg/core/storage.(*MemoryStore).putChangeSet") {
		if containsNode(loop, st.call) {
			merges++
		}
	}
	var lockIn, lockOut, unlockIn int
	for _, st := range f.CallSites("pkg/core/storage.(*MemCachedStore).lock", "sync.(*RWMutex).Lock") {
		if containsNode(loop, st.call) {
			lockIn++
		} else if st.call.Pos() < loop.Pos() {
			lockOut++
		}
	}
	for _, st := range f.CallSites("pkg/core/storage.(*MemCachedStore).unlock", "sync.(*RWMutex).Unlock") {
		if containsNode(loop, st.call) {
			unlockIn++
		}
	}
	switch {
	case merges == 0:
		c.Lost("publish-atomic.merge", "no putChangeSet call inside the loop over the private layers")
	case lockIn > 0 || unlockIn > 0 || lockOut == 0:
		c.Fail("publish-atomic.PersistPrivate", c.P.Pos(loop.Pos()), "MemCachedStore.PersistPrivate takes or releases the store's lock inside the loop over the private layers: the layers of one block (block + logs + height pointer; state changes + MPT + state root) are published in separate critical sections, and a flush between them persists a block whose halted transactions have no effects")
	default:
		c.OK("publish-atomic.PersistPrivate", c.P.Pos(loop.Pos()), "all layers of one call are merged inside one critical section")
	}
}

// ---------------------------------------------------------------------------
// oracle-requests-reconciled (C04): Oracle.newRequests is the one piece of execution state kept outside every DAO
// layer (tabled by exec-confinement): PutRequestInternal records a request there whether or not the transaction that
// made it survives. The table entry is sound only because the map is reconciled against contract storage before it
// is handed to the oracle service: every path of Oracle.updateCache to AddRequests passes the storage lookup of the
// request keys (requests of faulted or rolled-back executions are not in storage and are dropped).
func ruleOracleRequestsReconciled(c *Ctx) {
	fd := c.P.Func("pkg/core/native", "Oracle", "updateCache")
	if fd == nil {
		c.Lost("oracle-requests-reconciled.anchor", "Oracle.updateCache not found")
		return
	}
	f := c.P.NewFuncCFG(fd)
	var adds []site
	for _, b := range f.G.Blocks {
		if !b.Live {
			continue
		}
		for i, nd := range b.Nodes {
			inspectNoLit(nd, func(x ast.Node) bool {
				if call, ok := x.(*ast.CallExpr); ok {
					if se, ok := ast.Unparen(call.Fun).(*ast.SelectorExpr); ok && se.Sel.Name == "AddRequests" {
						adds = append(adds, site{blk: b, idx: i, node: nd, call: call})
					}
				}
				return true
			})
		}
	}
	if len(adds) == 0 {
		c.Lost("oracle-requests-reconciled.sink", "Oracle.updateCache no longer hands requests to the service (AddRequests)")
		return
	}
	lookups := f.CallSites("pkg/core/dao.(*Simple).GetStorageItem")
	hasDelete := false
	ast.Inspect(fd.Decl.Body, func(x ast.Node) bool {
		if call, ok := x.(*ast.CallExpr); ok {
			if id, ok := ast.Unparen(call.Fun).(*ast.Ident); ok {
				if b, ok := f.Info.ObjectOf(id).(*types.Builtin); ok && b.Name() == "delete" {
					hasDelete = true
				}
			}
		}
		return true
	})
	if len(lookups) == 0 || !hasDelete {
		c.Fail("oracle-requests-reconciled.updateCache", c.P.Pos(adds[0].call.Pos()), "Oracle.updateCache hands the collected requests to the oracle service without checking them against contract storage: a request made by a transaction that FAULTed, or by a callee whose exception was caught, was never stored and still reaches the service - with the id the next real request will get")
		return
	}
	// the lookup and the delete sit in a loop over the very map that is handed over, in front of the hand-over
	good := false
	for _, ad := range adds {
		if len(ad.call.Args) != 1 {
			continue
		}
		aid, ok := ast.Unparen(ad.call.Args[0]).(*ast.Ident)
		if !ok {
			continue
		}
		ast.Inspect(fd.Decl.Body, func(x ast.Node) bool {
			rs, ok := x.(*ast.RangeStmt)
			if !ok || rs.Pos() > ad.call.Pos() {
				return true
			}
			rid, ok := ast.Unparen(rs.X).(*ast.Ident)
			if !ok || f.Info.ObjectOf(rid) != f.Info.ObjectOf(aid) {
				return true
			}
			for _, lk := range lookups {
				if containsNode(rs, lk.call) {
					good = true
				}
			}
			return true
		})
	}
	if good {
		c.OK("oracle-requests-reconciled.updateCache", c.P.Pos(adds[0].call.Pos()), "requests are checked against contract storage, in a loop over the map that is handed over, before they reach the service")
	} else {
		c.Fail("oracle-requests-reconciled.updateCache", c.P.Pos(adds[0].call.Pos()), "Oracle.updateCache does not check the map it hands to the oracle service against contract storage (no loop over that map with the storage lookup in front of AddRequests)")
	}
}

// ---------------------------------------------------------------------------
// amount-exact (C05): token amounts are arbitrary-precision integers from the argument stack to the balance record.
// The deltas handed to the balance updaters (updateAccBalance, addTokens) never pass through a 64-bit narrowing
// (big.Int.Int64/Uint64): an amount of 2^64+7 debited as 7 and credited in full creates tokens from nothing while the
// supply item stays unchanged. Definitions are followed through locals and through in-place big.Int arithmetic
// (`x.SetInt64(y)` defines x from y).
func ruleAmountExact(c *Ctx) {
	narrow := map[string]bool{"math/big.(*Int).Int64": true, "math/big.(*Int).Uint64": true}
	sinks := map[string][]int{"pkg/core/native.(*nep17TokenNative).updateAccBalance": {2, 3}, "pkg/core/native.(*nep17TokenNative).addTokens": {2}}
	n := 0
	for _, fd := range c.P.AllFuncDecls() {
		if fd.Decl.Body == nil || pkgRel(fd.Pkg.Types) != "pkg/core/native" {
			continue
		}
		f := c.P.NewFuncCFG(fd)
		info := fd.Pkg.TypesInfo
		var srcOf func(e ast.Expr, depth int, seen map[types.Object]bool) string
		srcOf = func(e ast.Expr, depth int, seen map[types.Object]bool) string {
			if depth > 4 {
				return ""
			}
			bad := ""
			ast.Inspect(e, func(x ast.Node) bool {
				if bad != "" {
					return false
				}
				switch y := x.(type) {
				case *ast.CallExpr:
					if narrow[f.calleeSym(y)] {
						bad = types.ExprString(y)
					}
				case *ast.Ident:
					o := info.ObjectOf(y)
					v, ok := o.(*types.Var)
					if !ok || v.IsField() || seen[o] {
						return true
					}
					seen[o] = true
					ast.Inspect(fd.Decl.Body, func(z ast.Node) bool {
						if bad != "" {
							return false
						}
						switch d := z.(type) {
						case *ast.AssignStmt:
							for i, l := range d.Lhs {
								if id, ok := l.(*ast.Ident); ok && info.ObjectOf(id) == o && i < len(d.Rhs) {
									if b := srcOf(d.Rhs[i], depth+1, seen); b != "" {
										bad = b
									}
								}
							}
						case *ast.CallExpr:
							if se, ok := ast.Unparen(d.Fun).(*ast.SelectorExpr); ok {
								if id, ok := ast.Unparen(se.X).(*ast.Ident); ok && info.ObjectOf(id) == o {
									for _, a := range d.Args {
										if b := srcOf(a, depth+1, seen); b != "" {
											bad = b
										}
									}
								}
							}
						}
						return true
					})
				}
				return true
			})
			return bad
		}
		for sym, idxs := range sinks {
			for _, st := range f.CallSites(sym) {
				for _, ix := range idxs {
					if ix >= len(st.call.Args) {
						continue
					}
					n++
					key := fmt.Sprintf("amount-exact.%s#%d", FuncKey(fd.Obj), n)
					if bad := srcOf(st.call.Args[ix], 0, map[types.Object]bool{}); bad != "" {
						c.Fail(key, c.P.Pos(st.call.Pos()), fmt.Sprintf("%s hands %s an amount that went through a 64-bit narrowing (%s): amounts beyond int64 are debited or credited truncated while the other side of the movement uses the full value", FuncKey(fd.Obj), shortSym(sym), bad))
					} else {
						c.OK(key, c.P.Pos(st.call.Pos()), "the amount reaches the balance updater without a 64-bit narrowing")
					}
				}
			}
		}
	}
	c.Floor("amounts handed to the balance updaters", n, 4)
}

// ---------------------------------------------------------------------------
// page-tail-bound (C02): HeaderHashes keeps the header hashes in pages of headerBatchCount: `storedHeaderCount` hashes
// are in complete pages in the database, the rest - fewer than one page - in `latest`; a page is written exactly
// when `latest` reaches a full page (tryStoreBatch). HeaderHashes.init recomputes storedHeaderCount from the persisted
// header height h; with h+1 hashes in all, the value has to be a multiple of the page size with
// 0 <= (h+1) - storedHeaderCount < page size. The assignment is folded (go/constant arithmetic over the syntax tree,
// nothing is executed) for heights around the first three page borders. An off-by-one here leaves a full page in
// `latest` after a restart at a border: the writer's `len == page` test then never fires again and the node stops
// storing pages for good.
func rulePageTailBound(c *Ctx) {
	fd := c.P.Func("pkg/core", "HeaderHashes", "init")
	if fd == nil {
		c.Lost("page-tail-bound.anchor", "HeaderHashes.init not found")
		return
	}
	pk := c.P.Pkg("pkg/core")
	bc, ok := pk.Types.Scope().Lookup("headerBatchCount").(*types.Const)
	if !ok {
		c.Lost("page-tail-bound.const", "headerBatchCount not found")
		return
	}
	B, _ := constant.Int64Val(constant.ToInt(bc.Val()))
	f := c.P.NewFuncCFG(fd)
	info := fd.Pkg.TypesInfo
	// the height variable: first result of GetCurrentHeaderHeight
	var hObj types.Object
	ast.Inspect(fd.Decl.Body, func(x ast.Node) bool {
		as, ok := x.(*ast.AssignStmt)
		if !ok || len(as.Rhs) != 1 || len(as.Lhs) < 1 {
			return true
		}
		if call, ok := ast.Unparen(as.Rhs[0]).(*ast.CallExpr); ok && f.calleeSym(call) == "pkg/core/dao.(*Simple).GetCurrentHeaderHeight" {
			if id, ok := as.Lhs[0].(*ast.Ident); ok {
				hObj = info.ObjectOf(id)
			}
		}
		return true
	})
	if hObj == nil {
		c.Lost("page-tail-bound.height", "init no longer reads the persisted header height")
		return
	}
	n := 0
	for _, w := range f.WriteSites("pkg/core#storedHeaderCount") {
		as, ok := w.node.(*ast.AssignStmt)
		if !ok || len(as.Rhs) != 1 {
			continue
		}
		n++
		key := fmt.Sprintf("page-tail-bound.init#%d", n)
		bad := ""
		for _, h := range []int64{0, 1, B - 2, B - 1, B, B + 1, 2*B - 2, 2*B - 1, 2 * B, 3*B - 1, 3 * B} {
			m := &miniEval{info: info, env: map[types.Object]constant.Value{hObj: constant.MakeInt64(h)}, tr: &miniTrace{stores: map[int64]constant.Value{}}}
			v := m.eval(as.Rhs[0])
			if v == nil {
				bad = "not foldable"
				break
			}
			S, _ := constant.Int64Val(constant.ToInt(v))
			tail := h + 1 - S
			if S%B != 0 || tail < 0 || tail >= B {
				bad = fmt.Sprintf("at persisted header height %d (%d hashes) it gives %d, leaving %d hashes for `latest`", h, h+1, S, tail)
				break
			}
		}
		switch {
		case bad == "not foldable":
			c.Unclassified(key, c.P.Pos(as.Pos()), "the page count is not a constant-foldable function of the persisted height")
		case bad != "":
			c.Fail(key, c.P.Pos(as.Pos()), fmt.Sprintf("HeaderHashes.init computes the number of hashes stored in complete pages wrongly: %s - a full page (or a negative tail) in memory; tryStoreBatch stores a page only when `latest` holds exactly one page, so after this restart no page is ever stored again", bad))
		default:
			c.OK(key, c.P.Pos(as.Pos()), "storedHeaderCount is the number of hashes rounded down to whole pages: the in-memory tail is shorter than a page at every height")
		}
	}
	c.Floor("assignments of storedHeaderCount in init", n, 1)
}

// ---------------------------------------------------------------------------
// notification-immutable (C04): System.Runtime.GetNotifications pushes the item of every recorded notification - the
// very object the application log will be built from - onto the caller's stack. A recorded notification therefore has
// to be immutable: a contract (a callee that later throws and is rolled back included) could otherwise rewrite an
// event emitted before it ran, and the rewrite is not undone with its layer. Either Context.AddNotification stores
// stackitem.DeepCopy(item, true), or every caller hands it such a copy.
func ruleNotificationImmutable(c *Ctx) {
	deepCopyPassesFlag(c)
	fd := c.P.Func("pkg/core/interop", "Context", "AddNotification")
	if fd == nil {
		c.Lost("notification-immutable.anchor", "interop.Context.AddNotification not found")
		return
	}
	immutableCopy := func(f *FuncCFG, e ast.Expr) bool {
		ok := false
		ast.Inspect(e, func(x ast.Node) bool {
			if call, isCall := x.(*ast.CallExpr); isCall && f.calleeSym(call) == "pkg/vm/stackitem.DeepCopy" && len(call.Args) == 2 {
				if v, isC := boolConst(f.Info, call.Args[1]); isC && v {
					ok = true
				}
			}
			return true
		})
		return ok
	}
	f := c.P.NewFuncCFG(fd)
	central := false
	ast.Inspect(fd.Decl.Body, func(x ast.Node) bool {
		if kv, ok := x.(*ast.KeyValueExpr); ok {
			if id, ok := kv.Key.(*ast.Ident); ok && id.Name == "Item" && immutableCopy(f, kv.Value) {
				central = true
			}
		}
		return true
	})
	if central {
		c.OK("notification-immutable.AddNotification", c.P.Pos(fd.Decl.Pos()), "AddNotification records an immutable deep copy of the item")
		return
	}
	n, bad := 0, 0
	for _, cd := range c.P.AllFuncDecls() {
		if cd.Decl.Body == nil || !strings.HasPrefix(pkgRel(cd.Pkg.Types), "pkg/core") {
			continue
		}
		cf := c.P.NewFuncCFG(cd)
		for _, st := range cf.CallSites("pkg/core/interop.(*Context).AddNotification") {
			if len(st.call.Args) < 3 {
				continue
			}
			n++
			key := fmt.Sprintf("notification-immutable.%s#%d", FuncKey(cd.Obj), n)
			if immutableCopy(cf, st.call.Args[2]) {
				c.OK(key, c.P.Pos(st.call.Pos()), "the recorded item is an immutable deep copy")
			} else {
				bad++
				c.Fail("notification-immutable."+FuncKey(cd.Obj), c.P.Pos(st.call.Pos()), fmt.Sprintf("%s records a notification whose item stays mutable: System.Runtime.GetNotifications hands the recorded object to any contract, which can rewrite the event (a native Transfer's amount) after it was emitted - also from a callee whose own effects are rolled back", FuncKey(cd.Obj)))
			}
		}
	}
	c.Floor("callers of AddNotification", n, 8)
}

// ---------------------------------------------------------------------------
// param-used (C17, C19): restricted to functions that report a size (name contains "Size", integer result) - the
// unrestricted rule flags nine handlers and callbacks of the pinned tree whose signature is dictated by a table. A
// named parameter that the body never mentions is a value the caller supplies and the function answers without: `GetExpectedBlockSizeWithoutTransactions(txCount)` that sizes the count prefix from
// the receiver's own transaction list reports the size of another block than the one asked about. Methods that
// implement an interface of the module (where the signature is imposed) and parameters named `_` are exempt.
func ruleParamUsed(c *Ctx, pkgs ...string) {
	want := map[string]bool{}
	for _, p := range pkgs {
		want[p] = true
	}
	// interface method names declared in the module (signature imposed on implementers)
	ifaceMethods := map[string]bool{}
	for _, pk := range c.P.Pkgs {
		sc := pk.Types.Scope()
		for _, name := range sc.Names() {
			if tn, ok := sc.Lookup(name).(*types.TypeName); ok {
				if it, ok := tn.Type().Underlying().(*types.Interface); ok {
					for i := 0; i < it.NumMethods(); i++ {
						ifaceMethods[it.Method(i).Name()] = true
					}
				}
			}
		}
	}
	n := 0
	for _, fd := range c.P.AllFuncDecls() {
		if !want[pkgRel(fd.Pkg.Types)] || fd.Decl.Body == nil || fd.Decl.Type.Params == nil {
			continue
		}
		if fd.Decl.Recv != nil && ifaceMethods[fd.Decl.Name.Name] {
			continue
		}
		// size computations only: a function that reports a size (name contains "Size", integer result)
		if !strings.Contains(fd.Decl.Name.Name, "Size") {
			continue
		}
		if res := fd.Obj.Type().(*types.Signature).Results(); res.Len() == 0 {
			continue
		} else if b, ok := res.At(0).Type().Underlying().(*types.Basic); !ok || b.Info()&types.IsInteger == 0 {
			continue
		}
		info := fd.Pkg.TypesInfo
		used := map[types.Object]bool{}
		ast.Inspect(fd.Decl.Body, func(x ast.Node) bool {
			if id, ok := x.(*ast.Ident); ok {
				if o := info.Uses[id]; o != nil {
					used[o] = true
				}
			}
			return true
		})
		for _, fld := range fd.Decl.Type.Params.List {
			for _, nm := range fld.Names {
				if nm.Name == "_" {
					continue
				}
				o := info.Defs[nm]
				if o == nil {
					continue
				}
				n++
				if used[o] {
					continue
				}
				key := "param-used." + FuncKey(fd.Obj) + "." + nm.Name
				if why, ok := paramUnusedOK[FuncKey(fd.Obj)+"."+nm.Name]; ok {
					c.OK(key, c.P.Pos(nm.Pos()), "tabled: "+why)
					continue
				}
				c.Fail(key, c.P.Pos(nm.Pos()), fmt.Sprintf("%s never uses its parameter %s: the answer does not depend on what the caller asked about", FuncKey(fd.Obj), nm.Name))
			}
		}
	}
	c.OK("param-used.scope", "", fmt.Sprintf("%d named parameters examined in %s", n, strings.Join(pkgs, ", ")))
	c.Floor("named parameters of size functions", n, 3)
}

var paramUnusedOK = map[string]string{}

// ---------------------------------------------------------------------------
// sibling-arms (C12, C13): Array and Struct are the same container with one difference (structs are cloned on
// assignment). Wherever an instruction's type switch gives each of them an arm of its own and both arms perform the
// same container operation (call the same methods on the item), they also maintain the same bookkeeping: the set of
// variables an arm assigns is the same in both. An arm that removes the element but forgets to note whether the
// container is referenced leaves the removed element counted (or releases it twice).
func ruleSiblingArms(c *Ctx) {
	pk := c.P.Pkg("pkg/vm")
	if pk == nil {
		c.Lost("sibling-arms.anchor", "package vm not found")
		return
	}
	info := pk.TypesInfo
	kindOf := func(e ast.Expr) string {
		t := info.TypeOf(e)
		if p, ok := t.(*types.Pointer); ok {
			t = p.Elem()
		}
		if nt, ok := t.(*types.Named); ok && nt.Obj().Pkg() != nil && pkgRel(nt.Obj().Pkg()) == "pkg/vm/stackitem" {
			return nt.Obj().Name()
		}
		return ""
	}
	n := 0
	for _, fd := range c.P.AllFuncDecls() {
		if fd.Pkg != pk || fd.Decl.Body == nil {
			continue
		}
		ast.Inspect(fd.Decl.Body, func(x ast.Node) bool {
			ts, ok := x.(*ast.TypeSwitchStmt)
			if !ok {
				return true
			}
			var arr, str *ast.CaseClause
			for _, cl := range ts.Body.List {
				cc := cl.(*ast.CaseClause)
				if len(cc.List) != 1 {
					continue
				}
				switch kindOf(cc.List[0]) {
				case "Array":
					arr = cc
				case "Struct":
					str = cc
				}
			}
			if arr == nil || str == nil || len(arr.Body) == 0 || len(str.Body) == 0 {
				return true
			}
			summary := func(cc *ast.CaseClause) (assigned, called map[string]bool) {
				assigned, called = map[string]bool{}, map[string]bool{}
				for _, st := range cc.Body {
					ast.Inspect(st, func(y ast.Node) bool {
						switch z := y.(type) {
						case *ast.AssignStmt:
							for _, l := range z.Lhs {
								if id, ok := l.(*ast.Ident); ok && id.Name != "_" && z.Tok == token.ASSIGN {
									assigned[id.Name] = true
								}
							}
						case *ast.CallExpr:
							if se, ok := ast.Unparen(z.Fun).(*ast.SelectorExpr); ok {
								called[se.Sel.Name] = true
							}
						}
						return true
					})
				}
				return
			}
			aAs, aCalls := summary(arr)
			sAs, sCalls := summary(str)
			// same container operation in both arms?
			common := false
			for m := range aCalls {
				if sCalls[m] {
					common = true
				}
			}
			if !common {
				return true
			}
			n++
			key := fmt.Sprintf("sibling-arms.%s#%d", FuncKey(fd.Obj), n)
			var diff []string
			for v := range aAs {
				if !sAs[v] {
					diff = append(diff, v+" (Array arm only)")
				}
			}
			for v := range sAs {
				if !aAs[v] {
					diff = append(diff, v+" (Struct arm only)")
				}
			}
			sort.Strings(diff)
			if len(diff) == 0 {
				c.OK(key, c.P.Pos(ts.Pos()), "the Array and the Struct arm maintain the same variables")
			} else {
				c.Fail(key, c.P.Pos(ts.Pos()), fmt.Sprintf("%s: the Array arm and the Struct arm of this type switch perform the same container operation but do not maintain the same bookkeeping: %s", FuncKey(fd.Obj), strings.Join(diff, ", ")))
			}
			return true
		})
	}
	c.Floor("type switches with sibling Array/Struct arms", n, 1)
}

// ---------------------------------------------------------------------------
// record-layout-agreement (C20, C10, C11): with KeepOnlyLatestState or RemoveUntraceableBlocks every trie node record in
// the store carries a reference-count suffix; a trie or billet opened over that store must be in a reference-counting
// mode (mpt.ModeLatest bit) or it stores / reads records in the other layout. The mode of the store's owner is
// computed from the two options in stateroot.NewModule; every other place that computes a trie mode from the same
// options (state synchronisation builds the very records the state-root module will read after the jump) must give
// the same reference-counting bit for all four combinations. Both sides are folded from the syntax tree.
func ruleRecordLayoutAgreement(c *Ctx) {
	const bitRC = int64(1)
	type modeFn func(k, r bool) (int64, bool)
	// fold `var mode ...; if C { mode |= X } ...` of a function body for given option values
	flagEval := func(info *types.Info, e ast.Expr, k, r bool) (bool, bool) {
		var ev func(e ast.Expr) (bool, bool)
		ev = func(e ast.Expr) (bool, bool) {
			switch x := ast.Unparen(e).(type) {
			case *ast.SelectorExpr:
				switch x.Sel.Name {
				case "KeepOnlyLatestState":
					return k, true
				case "RemoveUntraceableBlocks":
					return r, true
				}
			case *ast.UnaryExpr:
				if x.Op == token.NOT {
					v, ok := ev(x.X)
					return !v, ok
				}
			case *ast.BinaryExpr:
				a, ok1 := ev(x.X)
				b, ok2 := ev(x.Y)
				if ok1 && ok2 {
					switch x.Op {
					case token.LOR:
						return a || b, true
					case token.LAND:
						return a && b, true
					}
				}
			}
			return false, false
		}
		return ev(e)
	}
	// collect the mode computations of a function: the if statements whose body is `<v> |= <mpt mode constant>`
	collect := func(fd *FuncDecl) map[types.Object][]*ast.IfStmt {
		info := fd.Pkg.TypesInfo
		out := map[types.Object][]*ast.IfStmt{}
		ast.Inspect(fd.Decl.Body, func(x ast.Node) bool {
			is, ok := x.(*ast.IfStmt)
			if !ok || len(is.Body.List) != 1 {
				return true
			}
			as, ok := is.Body.List[0].(*ast.AssignStmt)
			if !ok || as.Tok != token.OR_ASSIGN || len(as.Lhs) != 1 {
				return true
			}
			id, ok := as.Lhs[0].(*ast.Ident)
			if !ok || !namedTypeIs(info.TypeOf(id), "pkg/core/mpt", "TrieMode") {
				return true
			}
			if _, _, ok := func() (bool, bool, bool) { a, b := flagEval(info, is.Cond, false, false); return a, b, b }(); !ok {
				return true
			}
			out[info.ObjectOf(id)] = append(out[info.ObjectOf(id)], is)
			return true
		})
		return out
	}
	foldMode := func(fd *FuncDecl, ifs []*ast.IfStmt) modeFn {
		info := fd.Pkg.TypesInfo
		return func(k, r bool) (int64, bool) {
			var mode int64
			for _, is := range ifs {
				v, ok := flagEval(info, is.Cond, k, r)
				if !ok {
					return 0, false
				}
				if v {
					tv, ok := info.Types[is.Body.List[0].(*ast.AssignStmt).Rhs[0]]
					if !ok || tv.Value == nil {
						return 0, false
					}
					bits, _ := constant.Int64Val(constant.ToInt(tv.Value))
					mode |= bits
				}
			}
			return mode, true
		}
	}
	ref := c.P.Func("pkg/core/stateroot", "", "NewModule")
	if ref == nil {
		c.Lost("record-layout-agreement.reference", "stateroot.NewModule not found")
		return
	}
	var refFn modeFn
	for _, ifs := range collect(ref) {
		refFn = foldMode(ref, ifs)
	}
	if refFn == nil {
		c.Lost("record-layout-agreement.reference", "stateroot.NewModule no longer computes its trie mode from KeepOnlyLatestState / RemoveUntraceableBlocks")
		return
	}
	n := 0
	for _, fd := range c.P.AllFuncDecls() {
		if fd.Decl.Body == nil || pkgRel(fd.Pkg.Types) != "pkg/core/statesync" {
			continue
		}
		for _, ifs := range collect(fd) {
			n++
			key := fmt.Sprintf("record-layout-agreement.%s#%d", FuncKey(fd.Obj), n)
			fn := foldMode(fd, ifs)
			bad := ""
			for _, kr := range [][2]bool{{false, false}, {true, false}, {false, true}, {true, true}} {
				a, ok1 := refFn(kr[0], kr[1])
				b, ok2 := fn(kr[0], kr[1])
				if !ok1 || !ok2 {
					bad = "not foldable"
					break
				}
				if a&bitRC != b&bitRC {
					bad = fmt.Sprintf("with KeepOnlyLatestState=%v and RemoveUntraceableBlocks=%v the state-root module uses mode %#x and this trie mode %#x: node records are written in one layout (reference-count suffix or not) and read in the other", kr[0], kr[1], a, b)
					break
				}
			}
			switch bad {
			case "":
				c.OK(key, c.P.Pos(ifs[0].Pos()), "the reference-counting bit of this trie mode agrees with the state-root module's for all four option combinations")
			case "not foldable":
				c.Unclassified(key, c.P.Pos(ifs[0].Pos()), "mode computation not foldable")
			default:
				c.Fail(key, c.P.Pos(ifs[0].Pos()), FuncKey(fd.Obj)+": "+bad)
			}
		}
	}
	c.Floor("trie modes computed from the ledger options in state sync", n, 2)
}

// ---------------------------------------------------------------------------
// trusted-header-checked (C20, C06): with a TrustedHeader configured, the header stored at the trusted height is the
// trusted one. addHeaders first cuts the headers it already knows off the front of the batch and then compares
// headers[0] with the configured hash. The comparison has to be made on the batch that is stored: it gates the store
// call, and the batch variable is not reassigned between the comparison and the store - a check made before the
// trimming looks at a header that is thrown away and lets a forged header at the trusted height through whenever
// the batch starts below it.
func ruleTrustedHeaderChecked(c *Ctx) {
	fd := c.P.Func("pkg/core", "Blockchain", "addHeaders")
	if fd == nil {
		c.Lost("trusted-header-checked.anchor", "Blockchain.addHeaders not found")
		return
	}
	f := c.P.NewFuncCFG(fd)
	stores := f.CallSites("pkg/core.(*HeaderHashes).addHeaders")
	if len(stores) == 0 {
		c.Lost("trusted-header-checked.store", "addHeaders no longer hands the headers to HeaderHashes.addHeaders")
		return
	}
	res := f.CheckGate(f.Entry(), blocksOf(stores), Guard{ID: "trusted-hash", Doc: "the header at the trusted height has the configured hash", Alts: [][]string{{"pkg/config#TrustedHeader", "pkg/core/block.(*Header).Hash"}}, WholeOpen: true}, nil)
	if !res.OK {
		// the Hash method may be promoted/embedded: accept any mention of the trusted header together with a hash comparison
		res = f.CheckGate(f.Entry(), blocksOf(stores), Guard{ID: "trusted-hash", Doc: "the header at the trusted height has the configured hash", Alts: [][]string{{"pkg/config#TrustedHeader"}}, WholeOpen: true}, nil)
	}
	if !res.OK {
		c.Fail("trusted-header-checked.gate", c.P.Pos(stores[0].call.Pos()), "Blockchain.addHeaders stores headers without comparing the header at the trusted height with the configured hash: "+res.Msg, res.Path...)
		return
	}
	c.OK("trusted-header-checked.gate", c.P.Pos(stores[0].call.Pos()), res.Msg)
	// no reassignment of the batch between the check and the store
	var batch types.Object
	sig := fd.Obj.Type().(*types.Signature)
	if sig.Variadic() {
		batch = sig.Params().At(sig.Params().Len() - 1)
	}
	if batch == nil {
		c.Lost("trusted-header-checked.batch", "addHeaders has no variadic batch parameter")
		return
	}
	var checks []*cfg.Block
	for _, b := range f.G.Blocks {
		if b.Live {
			if cond := f.Cond(b); cond != nil && f.Mentions(cond, b)["pkg/config#TrustedHeader"] {
				checks = append(checks, b)
			}
		}
	}
	reassign := map[*cfg.Block]bool{}
	for _, b := range f.G.Blocks {
		if !b.Live {
			continue
		}
		for _, nd := range b.Nodes {
			if as, ok := nd.(*ast.AssignStmt); ok {
				for _, l := range as.Lhs {
					if id, ok := l.(*ast.Ident); ok && f.Info.ObjectOf(id) == batch {
						reassign[b] = true
					}
				}
			}
		}
	}
	bad := false
	for _, chk := range checks {
		reach := f.reach(chk.Succs, nil, nil)
		for b := range reassign {
			if _, ok := reach[b]; ok {
				// and the store is reachable from that reassignment
				r2 := f.reach([]*cfg.Block{b}, nil, nil)
				for _, st := range stores {
					if _, ok := r2[st.blk]; ok {
						bad = true
					}
				}
			}
		}
	}
	if bad {
		c.Fail("trusted-header-checked.same-batch", c.P.Pos(stores[0].call.Pos()), "Blockchain.addHeaders compares the trusted header's hash and reassigns the batch afterwards (the known headers are cut off its front): the header compared is not the first one stored, and a forged header at the trusted height passes whenever the batch starts below it")
	} else {
		c.OK("trusted-header-checked.same-batch", c.P.Pos(stores[0].call.Pos()), "the batch is not reassigned between the trusted-header comparison and the store")
	}
}

// ---------------------------------------------------------------------------
// rc-curr-released (C11) - another piece of the rc-typestate that was planned: the structural functions of the trie
// receive the node they work on (`curr`) counted. On every path that returns normally the node is either released
// (removeRef with its hash, also through a hash captured in a local), kept as it is (returned, or stored whole into
// a new node), or handed whole to another structural function. A path that rebuilds the subtree from the node's
// *contents* (its value, its children) without releasing the node leaves a reference nobody holds: the stored
// counter ends one too high, the record is never deleted and never collected.
func ruleRCCurrReleased(c *Ctx) {
	pk := c.P.Pkg("pkg/core/mpt")
	if pk == nil {
		c.Lost("rc-curr-released.anchor", "package mpt not found")
		return
	}
	n := 0
	for _, fd := range c.P.AllFuncDecls() {
		if fd.Pkg != pk || fd.Decl.Body == nil || fd.Decl.Recv == nil {
			continue
		}
		sig := fd.Obj.Type().(*types.Signature)
		if !namedTypeIs(sig.Recv().Type(), "pkg/core/mpt", "Trie") || sig.Params().Len() == 0 {
			continue
		}
		name := fd.Obj.Name()
		if !(strings.HasPrefix(name, "putInto") || strings.HasPrefix(name, "putBatchInto") || strings.HasPrefix(name, "deleteFrom")) {
			continue
		}
		p0 := sig.Params().At(0)
		kind := ""
		if pt, ok := p0.Type().(*types.Pointer); ok {
			if nt, ok := pt.Elem().(*types.Named); ok {
				kind = nt.Obj().Name()
			}
		}
		if kind != "LeafNode" && kind != "BranchNode" && kind != "ExtensionNode" {
			continue // interface-typed dispatchers and hash nodes (not counted themselves)
		}
		f := c.P.NewFuncCFG(fd)
		info := fd.Pkg.TypesInfo
		isCurr := func(e ast.Expr) bool {
			id, ok := ast.Unparen(e).(*ast.Ident)
			return ok && info.ObjectOf(id) == p0
		}
		var must []site
		for _, b := range f.G.Blocks {
			if !b.Live {
				continue
			}
			for i, nd := range b.Nodes {
				hit := false
				inspectNoLit(nd, func(x ast.Node) bool {
					switch y := x.(type) {
					case *ast.CallExpr:
						cs := f.calleeSym(y)
						if cs == "pkg/core/mpt.(*Trie).removeRef" && len(y.Args) > 0 && f.Mentions(y.Args[0], b)["param#0"] {
							hit = true
						}
						for _, a := range y.Args {
							if isCurr(a) && strings.HasPrefix(cs, "pkg/core/mpt.(*Trie).") {
								hit = true // handed on whole to another structural function
							}
						}
					case *ast.AssignStmt:
						for i, r := range y.Rhs {
							if isCurr(r) && i < len(y.Lhs) {
								if _, isIdent := y.Lhs[i].(*ast.Ident); !isIdent {
									hit = true // stored whole into another node
								}
							}
						}
					case *ast.ReturnStmt:
						if len(y.Results) > 0 && isCurr(y.Results[0]) {
							hit = true
						}
					}
					return true
				})
				if hit {
					must = append(must, site{blk: b, idx: i, node: nd})
				}
			}
		}
		oks := f.OKReturns()
		if len(oks) == 0 {
			continue
		}
		n++
		key := "rc-curr-released." + FuncKey(fd.Obj)
		// a return that itself returns curr is a must-site in its own block: mustBefore handles same-block order
		if ok, path := f.mustBefore(f.Entry(), oks, must, nil); ok {
			c.OK(key, c.P.Pos(fd.Decl.Pos()), "on every normally returning path the node is released, kept whole or handed on whole")
		} else {
			c.Fail(key, c.P.Pos(fd.Decl.Pos()), fmt.Sprintf("%s can return normally without releasing the %s it was given (no removeRef of its hash), without keeping it whole and without handing it on: the subtree is rebuilt from its contents while its own reference stays counted", FuncKey(fd.Obj), kind), path...)
		}
	}
	c.Floor("structural trie functions receiving a counted node", n, 6)
}

// ---------------------------------------------------------------------------
// collapse-owner (C10) - a collapsed hash node stands for a subtree that can only be read back from the store. The
// restore machinery (Billet) collapses what it has completely restored *and stored*; the trie itself collapses only
// in Collapse, whose contract is "flush first". Any other method of Trie that can reach a function creating
// collapsed nodes (Find lends the billet's traversal its own nodes) must switch collapsing off on the billet it
// uses: each such creator is guarded by a boolean field of Billet (unreachable when the field is true) and the
// Trie method sets that field to true before it calls out. Otherwise a search over a trie with changes that are
// not flushed yet replaces them by hashes nobody can resolve: every later read of the visited keys fails.
func ruleCollapseOwner(c *Ctx) {
	pk := c.P.Pkg(mptPkg)
	if pk == nil {
		c.Lost("collapse-owner.anchor", "package mpt not found")
		return
	}
	g := c.P.MRG()
	type creator struct {
		fd    *FuncDecl
		guard string // field symbol that switches it off, "" if none
	}
	creators := map[*ssa.Function]*creator{}
	for _, fd := range c.P.AllFuncDecls() {
		if fd.Pkg != pk || fd.Decl.Body == nil {
			continue
		}
		f := c.P.NewFuncCFG(fd)
		ws := f.WriteSites(mptPkg + "#Collapsed")
		if len(ws) == 0 {
			continue
		}
		cr := &creator{fd: fd}
		// candidate guards: boolean fields of Billet mentioned in the function's conditions
		if bt, ok := pk.Types.Scope().Lookup("Billet").(*types.TypeName); ok {
			st := bt.Type().Underlying().(*types.Struct)
			for i := 0; i < st.NumFields(); i++ {
				fl := st.Field(i)
				if b, ok := fl.Type().Underlying().(*types.Basic); !ok || b.Kind() != types.Bool {
					continue
				}
				sym := mptPkg + "#" + fl.Name()
				live := f.reach(f.Entry(), nil, symAssume(sym, true))
				all := true
				for _, w := range ws {
					if _, ok := live[w.blk]; ok {
						all = false
					}
				}
				if all {
					cr.guard = sym
				}
			}
		}
		if fn := c.P.SSAFunc(fd.Obj); fn != nil {
			creators[fn] = cr
		}
	}
	c.Floor("functions creating collapsed hash nodes", len(creators), 3)
	n := 0
	for _, fd := range c.P.AllFuncDecls() {
		if fd.Pkg != pk || fd.Decl.Body == nil || fd.Decl.Recv == nil || !fd.Obj.Exported() {
			continue
		}
		sig := fd.Obj.Type().(*types.Signature)
		if !namedTypeIs(sig.Recv().Type(), mptPkg, "Trie") || fd.Obj.Name() == "Collapse" {
			continue
		}
		root := c.P.SSAFunc(fd.Obj)
		if root == nil {
			continue
		}
		n++
		via := g.Reach([]*ssa.Function{root}, nil)
		key := "collapse-owner." + FuncKey(fd.Obj)
		var hit []*ssa.Function
		for fn := range creators {
			if _, ok := via[fn]; ok && fn != root {
				hit = append(hit, fn)
			}
		}
		if len(hit) == 0 {
			c.OK(key, c.P.Pos(fd.Decl.Pos()), "cannot reach any function that creates collapsed hash nodes")
			continue
		}
		sort.Slice(hit, func(i, j int) bool { return FnKey(hit[i]) < FnKey(hit[j]) })
		f := c.P.NewFuncCFG(fd)
		bad := ""
		guards := map[string]bool{}
		for _, fn := range hit {
			cr := creators[fn]
			if cr.guard == "" {
				bad = fmt.Sprintf("%s creates collapsed hash nodes unconditionally (path: %s)", FnKey(fn), strings.Join(g.PathTo(via, fn), " -> "))
				break
			}
			guards[cr.guard] = true
		}
		if bad == "" {
			// the method must set every guard to true before the first call that leads to a creator
			for gs := range guards {
				var sets []site
				for _, w := range f.WriteSites(gs) {
					if as, ok := w.node.(*ast.AssignStmt); ok && len(as.Rhs) == 1 {
						if v, ok := boolConst(f.Info, as.Rhs[0]); ok && v {
							sets = append(sets, w)
						}
					}
				}
				var calls []site
				for _, e := range g.Nodes[root].Out {
					if e.Site == nil || !e.Site.Pos().IsValid() {
						continue
					}
					if _, ok := reachesAnyFn(g, e.Callee.Fn, creators); ok {
						for _, b := range f.G.Blocks {
							if !b.Live {
								continue
							}
							for k, nd := range b.Nodes {
								if nd.Pos() <= e.Site.Pos() && e.Site.Pos() < nd.End() {
									calls = append(calls, site{blk: b, idx: k, node: nd})
								}
							}
						}
					}
				}
				if len(calls) == 0 {
					bad = "the call that leads to the creator could not be located in the method body"
					break
				}
				if ok, _ := f.mustBefore(f.Entry(), calls, sets, nil); !ok {
					bad = fmt.Sprintf("%s is not set to true before the call that leads to %s", shortSym(gs), FnKey(hit[0]))
				}
			}
		}
		if bad == "" {
			c.OK(key, c.P.Pos(fd.Decl.Pos()), fmt.Sprintf("reaches %d creator(s) of collapsed nodes, each switched off by a Billet field the method sets first", len(hit)))
		} else {
			c.Fail(key, c.P.Pos(fd.Decl.Pos()), fmt.Sprintf("%s lends its own (possibly unflushed) nodes to code that replaces visited nodes by collapsed hashes: %s; after the call the visited keys can only be read from the store, where unflushed nodes are not", FuncKey(fd.Obj), bad))
		}
	}
	c.Floor("exported Trie methods examined", n, 8)
}

func reachesAnyFn[T any](g *MRG, from *ssa.Function, set map[*ssa.Function]T) (*ssa.Function, bool) {
	if _, ok := set[from]; ok {
		return from, true
	}
	via := g.Reach([]*ssa.Function{from}, nil)
	for fn := range set {
		if _, ok := via[fn]; ok {
			return fn, true
		}
	}
	return nil, false
}

// ---------------------------------------------------------------------------
// wrap-carry (C13, C17) - multi-word arithmetic done by hand: a word is decremented or incremented and the borrow
// / carry for the next word is computed from the result. The only correct test is the wrap value of the word's
// type: after x-- the borrow is x == MaxUintN, after x++ the carry is x == 0. (bigint.ToPreallocatedBytes converts a
// negative Integer by decrementing its magnitude in place and restores it in a deferred loop; with the wrong
// constant in the restoring loop the produced bytes are right and the Integer left on the stack is not.)
// Second clause: a function that writes the words of a *big.Int parameter (through Bits()) restores them in a
// deferred function - the operand of an instruction is shared with every other reference to the item.
func ruleWrapCarry(c *Ctx) {
	sizes := types.SizesFor("gc", "amd64")
	n, nb := 0, 0
	for _, fd := range c.P.AllFuncDecls() {
		if fd.Decl.Body == nil || !strings.HasPrefix(pkgRel(fd.Pkg.Types), "pkg/") {
			continue
		}
		info := fd.Pkg.TypesInfo
		ast.Inspect(fd.Decl.Body, func(x ast.Node) bool {
			var list []ast.Stmt
			switch b := x.(type) {
			case *ast.BlockStmt:
				list = b.List
			case *ast.CaseClause:
				list = b.Body
			default:
				return true
			}
			for i := 0; i+1 < len(list); i++ {
				id, ok := list[i].(*ast.IncDecStmt)
				if !ok {
					continue
				}
				bt, ok := info.TypeOf(id.X).Underlying().(*types.Basic)
				if !ok || bt.Info()&types.IsUnsigned == 0 {
					continue
				}
				as, ok := list[i+1].(*ast.AssignStmt)
				if !ok || len(as.Rhs) != 1 {
					continue
				}
				be, ok := ast.Unparen(as.Rhs[0]).(*ast.BinaryExpr)
				if !ok || (be.Op != token.EQL && be.Op != token.NEQ) {
					continue
				}
				var k ast.Expr
				switch {
				case types.ExprString(be.X) == types.ExprString(id.X):
					k = be.Y
				case types.ExprString(be.Y) == types.ExprString(id.X):
					k = be.X
				default:
					continue
				}
				tv := info.Types[k]
				if tv.Value == nil {
					continue
				}
				n++
				key := fmt.Sprintf("wrap-carry.%s.%s%s", FuncKey(fd.Obj), types.ExprString(id.X), id.Tok)
				want := constant.MakeInt64(0)
				if id.Tok == token.DEC {
					bits := uint(8 * sizes.Sizeof(bt))
					want = constant.BinaryOp(constant.Shift(constant.MakeInt64(1), token.SHL, bits), token.SUB, constant.MakeInt64(1))
				}
				if constant.Compare(constant.ToInt(tv.Value), token.EQL, want) {
					c.OK(key, c.P.Pos(as.Pos()), fmt.Sprintf("%s then tested against its wrap value %s", id.Tok, want))
				} else {
					c.Fail(key, c.P.Pos(as.Pos()), fmt.Sprintf("%s%s is followed by a carry/borrow test against %s; the word wraps to %s: the carry is propagated at the wrong words and the multi-word value ends up different (an Integer converted to bytes in place is not restored)", types.ExprString(id.X), id.Tok, tv.Value, want))
				}
			}
			return true
		})
		// second clause
		sig := fd.Obj.Type().(*types.Signature)
		params := map[types.Object]bool{}
		for i := 0; i < sig.Params().Len(); i++ {
			if namedTypeIsPtr(sig.Params().At(i).Type(), "math/big", "Int") {
				params[sig.Params().At(i)] = true
			}
		}
		if len(params) == 0 {
			continue
		}
		// locals bound to p.Bits()
		words := map[types.Object]bool{}
		ast.Inspect(fd.Decl.Body, func(x ast.Node) bool {
			as, ok := x.(*ast.AssignStmt)
			if !ok || len(as.Lhs) != 1 || len(as.Rhs) != 1 {
				return true
			}
			call, ok := ast.Unparen(as.Rhs[0]).(*ast.CallExpr)
			if !ok {
				return true
			}
			sel, ok := call.Fun.(*ast.SelectorExpr)
			if !ok || sel.Sel.Name != "Bits" {
				return true
			}
			if rid, ok := ast.Unparen(sel.X).(*ast.Ident); ok && params[info.ObjectOf(rid)] {
				if lid, ok := as.Lhs[0].(*ast.Ident); ok {
					words[info.ObjectOf(lid)] = true
				}
			}
			return true
		})
		if len(words) == 0 {
			continue
		}
		writes := func(n ast.Node) bool {
			w := false
			ast.Inspect(n, func(y ast.Node) bool {
				var lhs []ast.Expr
				switch s := y.(type) {
				case *ast.AssignStmt:
					lhs = s.Lhs
				case *ast.IncDecStmt:
					lhs = []ast.Expr{s.X}
				}
				for _, l := range lhs {
					if ix, ok := ast.Unparen(l).(*ast.IndexExpr); ok {
						if id, ok := ast.Unparen(ix.X).(*ast.Ident); ok && words[info.ObjectOf(id)] {
							w = true
						}
					}
				}
				return true
			})
			return w
		}
		direct, deferred := false, false
		inspectNoLit(fd.Decl.Body, func(y ast.Node) bool {
			if ds, ok := y.(*ast.DeferStmt); ok {
				if writes(ds.Call) {
					deferred = true
				}
				return false
			}
			switch y.(type) {
			case *ast.AssignStmt, *ast.IncDecStmt:
				if writes(y) {
					direct = true
				}
			}
			return true
		})
		if !direct {
			continue
		}
		nb++
		key := "wrap-carry.restore." + FuncKey(fd.Obj)
		if deferred {
			c.OK(key, c.P.Pos(fd.Decl.Pos()), "the words of the *big.Int parameter are changed in place and rewritten by a deferred function")
		} else {
			c.Fail(key, c.P.Pos(fd.Decl.Pos()), fmt.Sprintf("%s changes the words of its *big.Int parameter in place and no deferred function writes them back: the caller's Integer (shared with every other reference to the stack item) is left changed", FuncKey(fd.Obj)))
		}
	}
	c.Floor("hand-written carry/borrow tests", n, 2)
	c.Floor("functions changing a *big.Int parameter in place", nb, 1)
}

func namedTypeIsPtr(t types.Type, pkg, name string) bool {
	p, ok := t.(*types.Pointer)
	if !ok {
		return false
	}
	nt, ok := p.Elem().(*types.Named)
	return ok && nt.Obj().Name() == name && nt.Obj().Pkg() != nil && nt.Obj().Pkg().Path() == pkg
}

// ---------------------------------------------------------------------------
// operand-validated (C13) - an instruction's operand is converted (String, BigInt, Bool, Bytes ...) when the
// instruction executes, and a failing conversion faults the VM whatever the other operands are: ASSERTMSG with a
// true condition and a message that is not valid UTF-8 faults in the reference. An operand taken from the stack
// whose *only* conversions sit inside the arguments of a panic is validated on the failing path alone; on the
// succeeding path an invalid operand goes through.
func ruleOperandValidated(c *Ctx) {
	fd := c.P.Func("pkg/vm", "VM", "execute")
	if fd == nil {
		c.Lost("operand-validated.anchor", "VM.execute not found")
		return
	}
	info := fd.Pkg.TypesInfo
	conv := map[string]bool{"String": true, "BigInt": true, "Bool": true, "Bytes": true, "BytesOrNil": true, "Array": true, "Interop": true, "TryBool": true, "TryBytes": true, "TryInteger": true}
	type use struct {
		inPanic bool
		pos     token.Pos
	}
	uses := map[types.Object][]use{}
	defPos := map[types.Object]token.Pos{}
	// operands: locals bound directly to estack.Pop()/Peek()
	ast.Inspect(fd.Decl.Body, func(x ast.Node) bool {
		as, ok := x.(*ast.AssignStmt)
		if !ok || as.Tok != token.DEFINE || len(as.Lhs) != 1 || len(as.Rhs) != 1 {
			return true
		}
		call, ok := ast.Unparen(as.Rhs[0]).(*ast.CallExpr)
		if !ok {
			return true
		}
		sel, ok := call.Fun.(*ast.SelectorExpr)
		if !ok || (sel.Sel.Name != "Pop" && sel.Sel.Name != "Peek") {
			return true
		}
		if fn, ok := info.ObjectOf(sel.Sel).(*types.Func); !ok || FuncKey(fn) != "pkg/vm.(*Stack)."+sel.Sel.Name {
			return true
		}
		if id, ok := as.Lhs[0].(*ast.Ident); ok && id.Name != "_" {
			defPos[info.ObjectOf(id)] = as.Pos()
		}
		return true
	})
	var walk func(n ast.Node, inPanic bool)
	walk = func(n ast.Node, inPanic bool) {
		ast.Inspect(n, func(x ast.Node) bool {
			call, ok := x.(*ast.CallExpr)
			if !ok {
				return true
			}
			if id, ok := ast.Unparen(call.Fun).(*ast.Ident); ok && id.Name == "panic" && !inPanic {
				if _, isB := info.ObjectOf(id).(*types.Builtin); isB {
					for _, a := range call.Args {
						walk(a, true)
					}
					return false
				}
			}
			if sel, ok := call.Fun.(*ast.SelectorExpr); ok && conv[sel.Sel.Name] {
				if id, ok := ast.Unparen(sel.X).(*ast.Ident); ok {
					if o := info.ObjectOf(id); o != nil {
						if _, isOp := defPos[o]; isOp {
							uses[o] = append(uses[o], use{inPanic, call.Pos()})
						}
					}
				}
			}
			return true
		})
	}
	walk(fd.Decl.Body, false)
	n := 0
	var objs []types.Object
	for o := range uses {
		objs = append(objs, o)
	}
	sort.Slice(objs, func(i, j int) bool { return defPos[objs[i]] < defPos[objs[j]] })
	seen := map[string]int{}
	for _, o := range objs {
		n++
		arm := enclosingOpcodeArm(c, fd, defPos[o])
		seen[arm+"."+o.Name()]++
		key := fmt.Sprintf("operand-validated.%s.%s", arm, o.Name())
		if k := seen[arm+"."+o.Name()]; k > 1 {
			key += fmt.Sprintf("#%d", k)
		}
		all := true
		for _, u := range uses[o] {
			if !u.inPanic {
				all = false
			}
		}
		if all {
			c.Fail(key, c.P.Pos(defPos[o]), fmt.Sprintf("operand %s of %s is converted only inside the arguments of a panic: when the instruction succeeds the operand is never converted, so an operand the conversion rejects (invalid UTF-8, wrong item type) no longer faults the VM as the specification demands", o.Name(), arm))
		} else {
			c.OK(key, c.P.Pos(defPos[o]), "converted outside of failure messages")
		}
	}
	c.Floor("operands bound to a local and converted", n, 8)
}

func enclosingOpcodeArm(c *Ctx, fd *FuncDecl, pos token.Pos) string {
	info := fd.Pkg.TypesInfo
	res := "?"
	ast.Inspect(fd.Decl.Body, func(x ast.Node) bool {
		cc, ok := x.(*ast.CaseClause)
		if !ok || !(cc.Pos() <= pos && pos < cc.End()) {
			return true
		}
		for _, e := range cc.List {
			if tv := info.Types[e]; tv.Type != nil && namedTypeIs(tv.Type, "pkg/vm/opcode", "Opcode") {
				if sel, ok := ast.Unparen(e).(*ast.SelectorExpr); ok {
					res = sel.Sel.Name
					return true
				}
			}
		}
		return true
	})
	return res
}

// ---------------------------------------------------------------------------
// budget-shared (C13, C12) - a recursive walk over a compound item is bounded by budgets that are handed down by
// pointer and shared by the whole walk (number of items compared, total size compared). A budget that is declared
// *inside* the recursive function - a local initialised from a constant whose address is passed on or which is
// counted down - starts afresh at every nesting level: the bound then holds per level, not for the operation
// (EQUAL over nested structs compared 2047 x 64 KiB at a fixed price where the reference faults at 64 KiB).
func ruleBudgetShared(c *Ctx, pkgs ...string) {
	in := map[string]bool{}
	for _, p := range pkgs {
		in[p] = true
	}
	n := 0
	for _, fd := range c.P.AllFuncDecls() {
		if fd.Decl.Body == nil || !in[pkgRel(fd.Pkg.Types)] {
			continue
		}
		info := fd.Pkg.TypesInfo
		// directly recursive?
		rec := false
		ast.Inspect(fd.Decl.Body, func(x ast.Node) bool {
			if call, ok := x.(*ast.CallExpr); ok {
				if calleeFunc(info, call) == fd.Obj {
					rec = true
				}
			}
			return true
		})
		if !rec {
			continue
		}
		// does it carry a budget by pointer at all (a *int-like parameter that is decremented or passed on)?
		sig := fd.Obj.Type().(*types.Signature)
		hasPtrBudget := false
		for i := 0; i < sig.Params().Len(); i++ {
			if p, ok := sig.Params().At(i).Type().(*types.Pointer); ok {
				if b, ok := p.Elem().Underlying().(*types.Basic); ok && b.Info()&types.IsInteger != 0 {
					hasPtrBudget = true
				}
			}
		}
		// locals initialised from constants
		type loc struct {
			obj types.Object
			pos token.Pos
		}
		var locals []loc
		inspectNoLit(fd.Decl.Body, func(x ast.Node) bool {
			switch s := x.(type) {
			case *ast.AssignStmt:
				if s.Tok == token.DEFINE && len(s.Lhs) == len(s.Rhs) {
					for i, l := range s.Lhs {
						if id, ok := l.(*ast.Ident); ok {
							if tv := info.Types[s.Rhs[i]]; tv.Value != nil && mentionsNamedConst(info, s.Rhs[i]) {
								locals = append(locals, loc{info.ObjectOf(id), s.Pos()})
							}
						}
					}
				}
			case *ast.ValueSpec:
				for i, nm := range s.Names {
					if i < len(s.Values) {
						if tv := info.Types[s.Values[i]]; tv.Value != nil && mentionsNamedConst(info, s.Values[i]) {
							locals = append(locals, loc{info.Defs[nm], s.Pos()})
						}
					}
				}
			}
			return true
		})
		if !hasPtrBudget && len(locals) == 0 {
			continue
		}
		n++
		key := "budget-shared." + FuncKey(fd.Obj)
		bad := ""
		for _, l := range locals {
			if l.obj == nil {
				continue
			}
			counted, handed := false, false
			inspectNoLit(fd.Decl.Body, func(x ast.Node) bool {
				switch s := x.(type) {
				case *ast.IncDecStmt:
					if id, ok := ast.Unparen(s.X).(*ast.Ident); ok && info.ObjectOf(id) == l.obj && s.Tok == token.DEC {
						counted = true
					}
				case *ast.AssignStmt:
					if s.Tok == token.SUB_ASSIGN {
						if id, ok := ast.Unparen(s.Lhs[0]).(*ast.Ident); ok && info.ObjectOf(id) == l.obj {
							counted = true
						}
					}
				case *ast.UnaryExpr:
					if s.Op == token.AND {
						if id, ok := ast.Unparen(s.X).(*ast.Ident); ok && info.ObjectOf(id) == l.obj {
							handed = true
						}
					}
				}
				return true
			})
			if counted || handed {
				bad = fmt.Sprintf("%s (declared at %s from a constant, %s)", l.obj.Name(), c.P.Pos(l.pos), map[bool]string{true: "counted down", false: "handed on by address"}[counted])
				break
			}
		}
		if bad == "" {
			c.OK(key, c.P.Pos(fd.Decl.Pos()), "recursive walk; every budget it counts down comes from its caller")
		} else {
			c.Fail(key, c.P.Pos(fd.Decl.Pos()), fmt.Sprintf("%s calls itself and keeps the budget %s in a local of its own: every nesting level starts with a full budget, so the limit bounds one level instead of the whole operation", FuncKey(fd.Obj), bad))
		}
	}
	c.Floor("recursive walks carrying a budget", n, 2)
}

func mentionsNamedConst(info *types.Info, e ast.Expr) bool {
	found := false
	ast.Inspect(e, func(x ast.Node) bool {
		if id, ok := x.(*ast.Ident); ok {
			if _, ok := info.ObjectOf(id).(*types.Const); ok {
				found = true
			}
		}
		return true
	})
	return found
}

// ---------------------------------------------------------------------------
// tx-record-complete (C20) - the transaction record (DataExecutable) holds the transaction and its execution
// result; native Ledger.getTransactionVMState, which any contract can call, reads the result's VM state out of it
// (dao.GetTxExecResult). The record is therefore consensus-relevant for MaxTraceableBlocks blocks, and every writer
// has to write the result part: a writer that passes a nil result leaves records for which the native method
// answers NONE where a fully synchronised node answers HALT or FAULT.
func ruleTxRecordComplete(c *Ctx) {
	g := c.P.MRG()
	reader := c.P.Func("pkg/core/dao", "Simple", "GetTxExecResult")
	writer := c.P.Func("pkg/core/dao", "Simple", "StoreAsTransaction")
	if reader == nil || writer == nil {
		c.Lost("tx-record-complete.anchor", "dao.GetTxExecResult / dao.StoreAsTransaction not found")
		return
	}
	// is the reader reachable from a native contract method?
	rfn := c.P.SSAFunc(reader.Obj)
	consumers := 0
	if nd := g.Nodes[rfn]; nd != nil {
		for _, e := range nd.In {
			if e.Caller != nil && e.Caller.Fn != nil && e.Caller.Fn.Pkg != nil && strings.HasSuffix(e.Caller.Fn.Pkg.Pkg.Path(), "pkg/core/native") {
				consumers++
			}
		}
	}
	if consumers == 0 {
		c.Note("tx-record-complete: no native contract reads the execution result out of the transaction record any more: the obligation on writers lapses")
		return
	}
	wfn := c.P.SSAFunc(writer.Obj)
	n := 0
	if nd := g.Nodes[wfn]; nd != nil {
		seen := map[string]bool{}
		for _, e := range nd.In {
			call, ok := e.Site.(ssa.CallInstruction)
			if !ok || e.Caller == nil || e.Caller.Fn == nil {
				continue
			}
			key := "tx-record-complete." + FnKey(e.Caller.Fn)
			if seen[key] {
				continue
			}
			seen[key] = true
			n++
			args := call.Common().Args
			last := args[len(args)-1]
			if cst, ok := last.(*ssa.Const); ok && cst.IsNil() {
				c.Fail(key, c.P.Pos(e.Site.Pos()), fmt.Sprintf("%s stores transaction records without an execution result (nil), while native Ledger.getTransactionVMState reads the result's VM state out of the record: for these still traceable transactions the method answers NONE on this node and HALT/FAULT on a node that executed them - a later transaction that looks at the value executes differently", FnKey(e.Caller.Fn)))
			} else {
				c.OK(key, c.P.Pos(e.Site.Pos()), "stores the execution result with the transaction")
			}
		}
	}
	c.Floor("writers of transaction records", n, 2)
}

// ---------------------------------------------------------------------------
// rollback-rc (C11) - moving the working trie back to an earlier root (the state-root module's ResetState) leaves
// the node records as they are. In the modes that count references the records describe the top state: nodes of the
// target state that later blocks replaced are marked inactive (hidden from a GC-mode trie) and every counter counts
// occurrences in the abandoned trie. Such a rollback is sound only when the ledger refuses it in every counting mode
// (KeepOnlyLatestState and RemoveUntraceableBlocks alike, whatever the height), or when ResetState rewrites the
// records.
func ruleRollbackRC(c *Ctx) {
	rs := c.P.Func("pkg/core/stateroot", "Module", "ResetState")
	caller := c.P.Func("pkg/core", "Blockchain", "resetStateInternal")
	if rs == nil || caller == nil {
		c.Lost("rollback-rc.anchor", "stateroot.ResetState / Blockchain.resetStateInternal not found")
		return
	}
	g := c.P.MRG()
	// does ResetState rewrite node records? (reaches a trie writer)
	via := g.Reach([]*ssa.Function{c.P.SSAFunc(rs.Obj)}, nil)
	rewrites := false
	for fn := range via {
		switch FnKey(fn) {
		case "pkg/core/mpt.(*Trie).Flush", "pkg/core/mpt.(*Trie).PutBatch", "pkg/core/mpt.(*Trie).Put":
			rewrites = true
		}
	}
	f := c.P.NewFuncCFG(caller)
	refuses := map[string]string{} // config field -> "always" | "conditional"
	ast.Inspect(caller.Decl.Body, func(x ast.Node) bool {
		is, ok := x.(*ast.IfStmt)
		if !ok || len(is.Body.List) == 0 {
			return true
		}
		if _, ok := is.Body.List[len(is.Body.List)-1].(*ast.ReturnStmt); !ok {
			return true
		}
		for _, fld := range []string{"KeepOnlyLatestState", "RemoveUntraceableBlocks"} {
			m := f.DirectMentions(is.Cond)
			hit := false
			for s := range m {
				if strings.HasSuffix(s, "#"+fld) {
					hit = true
				}
			}
			if !hit {
				continue
			}
			if _, ok := ast.Unparen(is.Cond).(*ast.SelectorExpr); ok {
				refuses[fld] = "always"
			} else if refuses[fld] == "" {
				refuses[fld] = "conditional (" + trunc(types.ExprString(is.Cond), 80) + ")"
			}
		}
		return true
	})
	for _, fld := range []string{"KeepOnlyLatestState", "RemoveUntraceableBlocks"} {
		key := "rollback-rc." + fld
		switch {
		case rewrites:
			c.OK(key, c.P.Pos(rs.Decl.Pos()), "ResetState rewrites the node records")
		case refuses[fld] == "always":
			c.OK(key, c.P.Pos(caller.Decl.Pos()), "the ledger refuses a state reset whenever "+fld+" is on")
		default:
			how := refuses[fld]
			if how == "" {
				how = "never"
			}
			c.Fail(key, c.P.Pos(caller.Decl.Pos()), fmt.Sprintf("with %s the trie counts references and marks replaced nodes inactive, yet the ledger refuses a state reset only %s and stateroot.ResetState re-roots the working trie at the earlier root without touching the node records: the nodes of the target state that later blocks replaced are hidden (or counted for the abandoned state), and the first block after the reset fails with 'key not found'", fld, how))
		}
	}
}

// ---------------------------------------------------------------------------
// epoch-mirror (C19) - the list of script hashes allowed to send extensible payloads (consensus messages travel as
// such) is a mirror, kept outside the DAO, of native NEO's next block validators. NEO.OnPersist replaces
// nextValidators while it persists block i exactly when ShouldUpdateCommitteeAt(i); the ledger must rebuild the
// mirror for the same i - evaluated after the block is stored - or the payloads of newly elected validators are
// refused by every node's pool until some other reason rebuilds the list. Both conditions are brought into the form
// ShouldUpdateCommitteeAt(<index of the block being persisted> + k) and the constants compared.
func ruleEpochMirror(c *Ctx) {
	const should = "pkg/config.(*ProtocolConfiguration).ShouldUpdateCommitteeAt"
	on := c.P.Func("pkg/core/native", "NEO", "OnPersist")
	mir := c.P.Func("pkg/core", "Blockchain", "updateExtensibleWhitelist")
	sb := c.P.Func("pkg/core", "Blockchain", "storeBlock")
	if on == nil || mir == nil || sb == nil {
		c.Lost("epoch-mirror.anchor", "NEO.OnPersist / Blockchain.updateExtensibleWhitelist / storeBlock not found")
		return
	}
	// writer side
	fo := c.P.NewFuncCFG(on)
	wOff, wOK := int64(0), false
	ast.Inspect(on.Decl.Body, func(x ast.Node) bool {
		is, ok := x.(*ast.IfStmt)
		if !ok {
			return true
		}
		call, ok := ast.Unparen(is.Cond).(*ast.CallExpr)
		if !ok || fo.calleeSym(call) != should || len(call.Args) != 1 {
			return true
		}
		writes := false
		ast.Inspect(is.Body, func(y ast.Node) bool {
			for _, w := range nodeWrites(fo.Info, y, false) {
				if w.Field == "pkg/core/native#nextValidators" {
					writes = true
				}
			}
			return !writes
		})
		if !writes {
			return true
		}
		if _, off, ok := linearForm(fo, call.Args[0], 0); ok && fo.DirectMentions(call.Args[0])[fldBlockIndex] {
			wOff, wOK = off, true
		}
		return true
	})
	if !wOK {
		c.Lost("epoch-mirror.writer", "NEO.OnPersist no longer replaces nextValidators under ShouldUpdateCommitteeAt(ic.Block.Index + k)")
		return
	}
	// mirror side
	fm := c.P.NewFuncCFG(mir)
	sites := fm.CallSites(should)
	if len(sites) != 1 || len(sites[0].call.Args) != 1 {
		c.Fail("epoch-mirror.refresh", c.P.Pos(mir.Decl.Pos()), fmt.Sprintf("updateExtensibleWhitelist is expected to ask ShouldUpdateCommitteeAt once, found %d calls: the mirror of NEO's next validators is no longer refreshed by the epoch condition", len(sites)))
		return
	}
	_, rOff, rOK := linearForm(fm, sites[0].call.Args[0], 0)
	if !rOK || !fm.DirectMentions(sites[0].call.Args[0])["param#0"] {
		c.Unclassified("epoch-mirror.refresh", c.P.Pos(sites[0].call.Pos()), "the argument of ShouldUpdateCommitteeAt is not <height parameter> + constant")
		return
	}
	// the caller in storeBlock hands over the index of the block just stored
	fs := c.P.NewFuncCFG(sb)
	cOff, cOK := int64(0), false
	for _, s := range fs.CallSites("pkg/core.(*Blockchain).updateExtensibleWhitelist") {
		if len(s.call.Args) == 1 && fs.DirectMentions(s.call.Args[0])[fldBlockIndex] {
			if _, off, ok := linearForm(fs, s.call.Args[0], 0); ok {
				cOff, cOK = off, true
			}
		}
	}
	if !cOK {
		c.Unclassified("epoch-mirror.caller", c.P.Pos(sb.Decl.Pos()), "storeBlock no longer calls updateExtensibleWhitelist(block.Index + constant)")
		return
	}
	if rOff+cOff == wOff {
		c.OK("epoch-mirror.refresh", c.P.Pos(sites[0].call.Pos()), fmt.Sprintf("NEO.OnPersist replaces nextValidators when ShouldUpdateCommitteeAt(index%+d); the mirror is rebuilt for ShouldUpdateCommitteeAt(index%+d) of the same block", wOff, rOff+cOff))
	} else {
		c.Fail("epoch-mirror.refresh", c.P.Pos(sites[0].call.Pos()), fmt.Sprintf("NEO.OnPersist replaces nextValidators while persisting block i when ShouldUpdateCommitteeAt(i%+d), but the extensible-sender list that mirrors them is rebuilt when ShouldUpdateCommitteeAt(i%+d): at an epoch boundary with a changed validator set the list stays stale and every node's pool refuses the consensus payloads of the newly elected validators", wOff, rOff+cOff))
	}
}

// ---------------------------------------------------------------------------
// revalidate-covers-admission (C06, C07, C19) - verifyBlock (consensus) and AddBlock do not verify a transaction of
// a block again when it is in the node's pool, so the pool has to hold valid transactions *at every height*: after
// each block RemoveStale filters it through Blockchain.IsTxStillRelevant. Every admission check of verifyAndPoolTx
// that reads chain state (a committee decision can change that state at any block: blocked accounts, fee per byte,
// attribute fees, execution fee factor, validity window) must therefore be repeated by IsTxStillRelevant on every
// path that answers "still relevant". Otherwise a transaction the new state invalidates stays pooled, is proposed,
// is accepted unverified by every node that has it pooled and rejected by every node that has not.
// The admission checks are not tabled: they are the module functions verifyAndPoolTx calls directly that reach a
// read of the DAO or of a native cache.
func ruleRevalidateCoversAdmission(c *Ctx) {
	adm := c.P.Func("pkg/core", "Blockchain", "verifyAndPoolTx")
	rev := c.P.Func("pkg/core", "Blockchain", "IsTxStillRelevant")
	if adm == nil || rev == nil {
		c.Lost("revalidate.anchor", "verifyAndPoolTx / IsTxStillRelevant not found")
		return
	}
	g := c.P.MRG()
	fa, fr := c.P.NewFuncCFG(adm), c.P.NewFuncCFG(rev)
	readsState := func(fn *ssa.Function) bool {
		via := g.Reach([]*ssa.Function{fn}, nil)
		for f := range via {
			k := FnKey(f)
			if strings.HasPrefix(k, "pkg/core/dao.(*Simple).Get") || k == "pkg/core/dao.(*Simple).GetROCache" || k == "pkg/core/dao.(*Simple).HasTransaction" ||
				strings.HasPrefix(k, "pkg/core/storage.(*MemCachedStore).Get") {
				return true
			}
		}
		return false
	}
	// equivalents accepted on the re-validation side, with the reason
	equiv := map[string][]string{
		"pkg/core/dao.(*Simple).HasTransaction": {"pkg/core/mempool.(*Pool).HasConflicts"}, // with a pool at hand the on-chain records of the new block were applied to the pool by storeBlock already; what remains is the pool's own conflict index
	}
	skip := map[string]string{
		"pkg/core.(*Blockchain).BlockHeight": "the height itself; both functions read it for the expiry test",
		"pkg/core/mempool.(*Pool).Add":       "the pooling step, not a check",
	}
	seen := map[string]bool{}
	n := 0
	nd := g.Nodes[c.P.SSAFunc(adm.Obj)]
	if nd == nil {
		c.Lost("revalidate.graph", "verifyAndPoolTx has no node in the call graph")
		return
	}
	oks := fr.OKReturnsTrue()
	// call sites of IsTxStillRelevant by resolved callee
	rnd := g.Nodes[c.P.SSAFunc(rev.Obj)]
	sitesOf := func(keys []string) []site {
		var out []site
		if rnd == nil {
			return nil
		}
		for _, e := range rnd.Out {
			if e.Site == nil || !e.Site.Pos().IsValid() {
				continue
			}
			hit := false
			for _, k := range keys {
				if FnKey(e.Callee.Fn) == k || callsWithin(g, e.Callee.Fn, k, 2) {
					hit = true // directly, or through a helper of the filter (two levels)
				}
			}
			if !hit {
				continue
			}
			for _, b := range fr.G.Blocks {
				if !b.Live {
					continue
				}
				for i, nd := range b.Nodes {
					if nd.Pos() <= e.Site.Pos() && e.Site.Pos() < nd.End() {
						out = append(out, site{blk: b, idx: i, node: nd})
					}
				}
			}
		}
		return out
	}
	// calls nested in the arguments of another call only feed that call (HasTransaction(..., bc.GetMaxTraceableBlocks()))
	nested := map[token.Pos]bool{}
	ast.Inspect(adm.Decl.Body, func(x ast.Node) bool {
		if call, ok := x.(*ast.CallExpr); ok {
			for _, a := range call.Args {
				ast.Inspect(a, func(y ast.Node) bool {
					if in, ok := y.(*ast.CallExpr); ok {
						nested[in.Lparen] = true
					}
					return true
				})
			}
		}
		return true
	})
	var oblige func(callee *ssa.Function, depth int)
	oblige = func(callee *ssa.Function, depth int) {
		k := FnKey(callee)
		if seen[k] || skip[k] != "" || !fnInModule(callee) || !readsState(callee) {
			return
		}
		seen[k] = true
		sites := sitesOf(append([]string{k}, equiv[k]...))
		if len(sites) == 0 && depth < 2 {
			// a helper of the admission function (checks moved into a function of their own): its state-reading callees
			// are the checks - unless it has none, in which case it is a check itself
			var subs []*ssa.Function
			if hn := g.Nodes[callee]; hn != nil && pkgOfFn(callee) == "pkg/core" {
				for _, e := range hn.Out {
					if (e.Kind == "static" || e.Kind == "iface") && fnInModule(e.Callee.Fn) && readsState(e.Callee.Fn) && skip[FnKey(e.Callee.Fn)] == "" {
						subs = append(subs, e.Callee.Fn)
					}
				}
			}
			allKnown := len(subs) > 0
			for _, sfn := range subs {
				if len(sitesOf(append([]string{FnKey(sfn)}, equiv[FnKey(sfn)]...))) == 0 {
					allKnown = false
				}
			}
			if allKnown {
				for _, sfn := range subs {
					oblige(sfn, depth+1)
				}
				return
			}
		}
		n++
		key := "revalidate." + shortSym(k)
		if len(sites) == 0 {
			c.Fail(key, c.P.Pos(rev.Decl.Pos()), fmt.Sprintf("verifyAndPoolTx admits a transaction only after %s, which reads chain state; IsTxStillRelevant, the filter the pool is run through after every block, never repeats it: a pooled transaction that a later block invalidates on this count stays pooled, gets proposed and is accepted without verification by the nodes that have it pooled while every other node rejects the block", k))
			return
		}
		var targets []site
		for _, r := range oks {
			own := false
			for _, s := range sites {
				if s.blk == r.blk && s.idx == r.idx {
					own = true // `return check(...) == nil`: the check is made on this exit
				}
			}
			if !own {
				targets = append(targets, r)
			}
		}
		if ok, path := fr.mustBefore(fr.Entry(), targets, sites, nil); ok {
			c.OK(key, c.P.Pos(sites[0].node.Pos()), "repeated by IsTxStillRelevant on every path that answers true")
		} else if alt := repricingSites(fr); strings.HasSuffix(k, ".verifyTxWitnesses") && len(alt) > 0 && func() bool {
			ok2, _ := fr.mustBefore(fr.Entry(), targets, append(append([]site{}, sites...), alt...), symAssume("param#2", false))
			return ok2
		}() {
			c.OK(key, c.P.Pos(sites[0].node.Pos()), "witnesses are executed again where one of them is not a standard contract; on the other paths (complete transactions) the cost of the standard witnesses is re-priced with fee.Calculate at the current execution fee factor and compared with what the network fee leaves")
		} else {
			extra := ""
			if strings.HasSuffix(k, ".verifyTxWitnesses") {
				extra = " (it is skipped when every witness is a standard signature contract, but the execution fee factor prices the verification of standard witnesses too)"
			}
			c.Fail(key, c.P.Pos(sites[0].node.Pos()), fmt.Sprintf("IsTxStillRelevant repeats %s only on some of the paths that answer true%s: the state this check reads can change at any block, and a pooled transaction that no longer passes it stays pooled, is proposed and is rejected by every node that has to verify it", k, extra), path...)
		}
	}
	for _, e := range nd.Out {
		if e.Kind != "static" && e.Kind != "iface" {
			continue
		}
		if ci, ok := e.Site.(ssa.CallInstruction); ok && ci.Common() != nil && nested[ci.Pos()] {
			continue
		}
		oblige(e.Callee.Fn, 0)
	}
	c.Floor("state-dependent admission checks", n, 6)
	_ = fa
}

// repricingSites: conditions of the filter that compare the network fee with a sum into which fee.Calculate of the
// witness scripts went (the arithmetic re-pricing of standard witnesses).
func repricingSites(f *FuncCFG) []site {
	var out []site
	for _, b := range f.G.Blocks {
		if !b.Live || len(b.Nodes) == 0 {
			continue
		}
		cond := f.Cond(b)
		if cond == nil {
			continue
		}
		m := f.Mentions(cond, b)
		if m["pkg/core/fee.Calculate"] && m["pkg/core/transaction#NetworkFee"] {
			out = append(out, site{blk: b, idx: len(b.Nodes) - 1, node: b.Nodes[len(b.Nodes)-1]})
		}
	}
	return out
}

func pkgOfFn(fn *ssa.Function) string {
	if fn == nil || fn.Pkg == nil {
		return ""
	}
	return pkgRel(fn.Pkg.Pkg)
}

// callsWithin: does from reach a function with key k over at most depth call edges?
func callsWithin(g *MRG, from *ssa.Function, k string, depth int) bool {
	if depth == 0 || from == nil {
		return false
	}
	nd := g.Nodes[from]
	if nd == nil {
		return false
	}
	for _, e := range nd.Out {
		if e.Kind != "static" && e.Kind != "iface" {
			continue
		}
		if FnKey(e.Callee.Fn) == k || callsWithin(g, e.Callee.Fn, k, depth-1) {
			return true
		}
	}
	return false
}

// OKReturnsTrue: the return sites of a bool function that may return true (anything but the literal false).
func (f *FuncCFG) OKReturnsTrue() []site {
	var out []site
	for _, r := range f.Returns() {
		rs, ok := r.node.(*ast.ReturnStmt)
		if !ok || len(rs.Results) != 1 {
			continue
		}
		if v, ok := boolConst(f.Info, rs.Results[0]); ok && !v {
			continue
		}
		out = append(out, r)
	}
	return out
}

// ---------------------------------------------------------------------------
// tx-compatible (C06, C19) - "contains only transactions that are ... mutually compatible". The scratch pools that
// AddBlock and the consensus service's verifyBlock run a block's transactions through do not fail on a transaction
// that names a pooled one in a Conflicts attribute: Pool.Add *replaces* the named one when the fee allows. Both
// functions therefore need a check of their own: a loop over the block's transactions that looks every Conflicts
// hash up in the set of the block's hashes and rejects on a hit, before the block is stored / the proposal answered
// with true. Without it a (Byzantine) primary's proposal [A, B conflicts A] is signed by honest backups; the reference
// implementation rejects that proposal.
func ruleTxCompatible(c *Ctx) {
	type target struct {
		fn   [3]string
		role string
	}
	for _, tg := range []target{{[3]string{"pkg/core", "Blockchain", "AddBlock"}, "stores the block"}, {[3]string{"pkg/consensus", "service", "verifyBlock"}, "approves the proposal"}} {
		fd := c.P.Func(tg.fn[0], tg.fn[1], tg.fn[2])
		key := "tx-compatible." + tg.fn[2]
		if fd == nil {
			c.Lost(key+".anchor", tg.fn[1]+"."+tg.fn[2]+" not found")
			continue
		}
		f := c.P.NewFuncCFG(fd)
		info := f.Info
		found, pos := false, token.NoPos
		ast.Inspect(fd.Decl.Body, func(n ast.Node) bool {
			rs, ok := n.(*ast.RangeStmt)
			if !ok || !f.Mentions(rs.X, nil)[fldBlockTxs] {
				return true
			}
			// inside: the Conflicts attributes of the element, and a map lookup keyed by the attribute's hash that rejects
			mentionsConflicts := false
			ast.Inspect(rs.Body, func(x ast.Node) bool {
				if e, ok := x.(ast.Expr); ok {
					m := f.DirectMentions(e)
					if m["pkg/core/transaction.ConflictsT"] || m["pkg/core/transaction.(*Transaction).GetAttributes"] {
						mentionsConflicts = true
					}
				}
				return !mentionsConflicts
			})
			if !mentionsConflicts {
				return true
			}
			// the set that is looked up has to be complete when the lookup starts: the lookup loop itself must not be
			// the one that fills it (a conflict listed before its target would not be seen)
			fillsHere := false
			ast.Inspect(rs.Body, func(x ast.Node) bool {
				if as, ok := x.(*ast.AssignStmt); ok {
					for _, l := range as.Lhs {
						if ix, ok := ast.Unparen(l).(*ast.IndexExpr); ok {
							if _, isMap := info.TypeOf(ix.X).Underlying().(*types.Map); isMap && f.Mentions(ix.Index, nil)[symTxHashM] {
								fillsHere = true
							}
						}
					}
				}
				return true
			})
			if fillsHere {
				return true
			}
			ast.Inspect(rs.Body, func(x ast.Node) bool {
				is, ok := x.(*ast.IfStmt)
				if !ok {
					return true
				}
				lookup := false
				chk := func(e ast.Node) {
					ast.Inspect(e, func(z ast.Node) bool {
						if ix, ok := z.(*ast.IndexExpr); ok {
							if _, isMap := info.TypeOf(ix.X).Underlying().(*types.Map); isMap {
								m := f.Mentions(ix.Index, nil)
								for s := range m {
									if strings.HasSuffix(s, "pkg/core/transaction#Hash") || strings.Contains(s, "transaction.Conflicts") {
										lookup = true
									}
								}
							}
						}
						return true
					})
				}
				chk(is.Cond)
				if is.Init != nil {
					chk(is.Init)
				}
				if !lookup {
					return true
				}
				// the body rejects: ends in a return of a non-nil error / of false
				if len(is.Body.List) > 0 {
					if r, ok := is.Body.List[len(is.Body.List)-1].(*ast.ReturnStmt); ok && len(r.Results) == 1 {
						if v, ok := boolConst(info, r.Results[0]); ok && !v {
							found, pos = true, rs.Pos()
						} else if !ok && !isNilIdent(info, r.Results[0]) {
							found, pos = true, rs.Pos()
						}
					}
				}
				return true
			})
			return true
		})
		// the other pair the scratch pool resolves by replacement instead of failing: two responses to one oracle request
		oracleOK := false
		ast.Inspect(fd.Decl.Body, func(n ast.Node) bool {
			rs, ok := n.(*ast.RangeStmt)
			if !ok || !f.Mentions(rs.X, nil)[fldBlockTxs] {
				return true
			}
			ast.Inspect(rs.Body, func(x ast.Node) bool {
				is, ok := x.(*ast.IfStmt)
				if !ok || len(is.Body.List) == 0 {
					return true
				}
				lookup := false
				chk := func(e ast.Node) {
					ast.Inspect(e, func(z ast.Node) bool {
						if ix, ok := z.(*ast.IndexExpr); ok {
							if _, isMap := info.TypeOf(ix.X).Underlying().(*types.Map); isMap {
								for sname := range f.Mentions(ix.Index, nil) {
									if strings.HasSuffix(sname, "pkg/core/transaction#ID") || strings.Contains(sname, "transaction.OracleResponse") {
										lookup = true
									}
								}
							}
						}
						return true
					})
				}
				chk(is.Cond)
				if is.Init != nil {
					chk(is.Init)
				}
				if lookup {
					if r, ok := is.Body.List[len(is.Body.List)-1].(*ast.ReturnStmt); ok && len(r.Results) == 1 {
						if v, isB := boolConst(info, r.Results[0]); (isB && !v) || (!isB && !isNilIdent(info, r.Results[0])) {
							oracleOK = true
						}
					}
				}
				return true
			})
			return true
		})
		okey := "tx-compatible.oracle." + tg.fn[2]
		if oracleOK {
			c.OK(okey, c.P.Pos(fd.Decl.Pos()), "a second response to the same oracle request inside one block is rejected by a check of its own")
		} else {
			c.Fail(okey, c.P.Pos(fd.Decl.Pos()), fmt.Sprintf("%s.%s %s without checking that no two transactions of the block answer the same oracle request: the scratch pool it uses replaces the first response by the one that pays more instead of failing, both are executed and the requesting contract's callback runs twice for one request", tg.fn[1], tg.fn[2], tg.role))
		}
		if found {
			c.OK(key, c.P.Pos(pos), fmt.Sprintf("before it %s, %s looks every Conflicts hash of the block's transactions up among the block's own hashes and rejects on a hit", tg.role, tg.fn[2]))
		} else {
			c.Fail(key, c.P.Pos(fd.Decl.Pos()), fmt.Sprintf("%s.%s %s without checking that no transaction of the block names another one of the same block in a Conflicts attribute: the scratch pool it uses replaces the named transaction instead of failing, so a block [A, B conflicts A] is accepted, both are executed and B's conflict stub overwrites A's record", tg.fn[1], tg.fn[2], tg.role))
		}
	}
}

// ---------------------------------------------------------------------------
// detach-before-release (C12) - an instruction that takes an element out of a compound item (REMOVE, POPITEM,
// CLEARITEMS) tells the reference counter about it with refs.Remove(element). If the element references the
// container itself (m[0] = m) and this was the container's last reference, the release recurses into the container
// and releases everything it *still holds* - so the element has to be out of the container by then, or it is released
// twice (the counter ends below what is reachable: credit against the 2048 limit). CLEARITEMS and POPITEM detach
// first; the rule makes that the law for every arm: in the branch that contains refs.Remove(x) with x read out of
// container t, the mutating call on t (Remove, Drop, Clear) precedes the release.
func ruleDetachBeforeRelease(c *Ctx) {
	fd := c.P.Func("pkg/vm", "VM", "execute")
	if fd == nil {
		c.Lost("detach-before-release.anchor", "VM.execute not found")
		return
	}
	info := fd.Pkg.TypesInfo
	mutators := map[string]bool{"Remove": true, "Drop": true, "Clear": true}
	n := 0
	seenKey := map[string]int{}
	var visit func(list []ast.Stmt, arm string)
	visit = func(list []ast.Stmt, arm string) {
		// one statement list = one branch: collect, in order, mutator calls on a stackitem container and releases
		type ev struct {
			pos     token.Pos
			mut     bool
			recv    types.Object // container variable for mutators
			argRoot types.Object // root variable of the released expression
		}
		var evs []ev
		collect := func(st ast.Stmt) []ev {
			var out []ev
			ast.Inspect(st, func(x ast.Node) bool {
				call, ok := x.(*ast.CallExpr)
				if !ok {
					return true
				}
				sel, ok := call.Fun.(*ast.SelectorExpr)
				if !ok {
					return true
				}
				if fn, ok := info.ObjectOf(sel.Sel).(*types.Func); ok {
					k := FuncKey(fn)
					if k == "pkg/vm.(*refCounter).Remove" && len(call.Args) == 1 {
						out = append(out, ev{pos: call.Pos(), argRoot: rootObj(info, call.Args[0])})
					} else if mutators[sel.Sel.Name] && strings.HasPrefix(k, "pkg/vm/stackitem.(*") {
						out = append(out, ev{pos: call.Pos(), mut: true, recv: rootObj(info, sel.X)})
					}
				}
				return true
			})
			return out
		}
		split := false
		for _, st := range list {
			es := collect(st)
			m, r := false, false
			for _, e := range es {
				if e.mut {
					m = true
				} else {
					r = true
				}
			}
			if m && r {
				// this one statement (a switch over the container's type, an if) holds both: its branches are the units
				split = true
				switch s := st.(type) {
				case *ast.IfStmt:
					visit(s.Body.List, arm)
					if eb, ok := s.Else.(*ast.BlockStmt); ok {
						visit(eb.List, arm)
					}
				case *ast.TypeSwitchStmt:
					for _, cc := range s.Body.List {
						visit(cc.(*ast.CaseClause).Body, arm)
					}
				case *ast.SwitchStmt:
					for _, cc := range s.Body.List {
						visit(cc.(*ast.CaseClause).Body, arm)
					}
				case *ast.BlockStmt:
					visit(s.List, arm)
				default:
					split = false
				}
				continue
			}
			evs = append(evs, es...)
		}
		if split {
			return
		}
		hasMut, hasRel := false, false
		for _, e := range evs {
			if e.mut {
				hasMut = true
			} else {
				hasRel = true
			}
		}
		if hasMut && hasRel {
			n++
			seenKey[arm]++
			key := fmt.Sprintf("detach-before-release.%s#%d", arm, seenKey[arm])
			firstMut, firstRel := token.NoPos, token.NoPos
			for _, e := range evs {
				if e.mut && !firstMut.IsValid() {
					firstMut = e.pos
				}
				if !e.mut && !firstRel.IsValid() {
					firstRel = e.pos
				}
			}
			if firstMut < firstRel {
				c.OK(key, c.P.Pos(firstMut), "the element is taken out of the container before the reference counter is told")
			} else {
				c.Fail(key, c.P.Pos(firstRel), fmt.Sprintf("%s releases an element with refs.Remove while the container still holds it: if the element references the container and this was its last reference, the recursive release of the container releases the element's entry a second time and the item counter ends below what is reachable", arm))
			}
			return
		}
	}
	ast.Inspect(fd.Decl.Body, func(x ast.Node) bool {
		cc, ok := x.(*ast.CaseClause)
		if !ok {
			return true
		}
		for _, e := range cc.List {
			if tv := info.Types[e]; tv.Type != nil && namedTypeIs(tv.Type, "pkg/vm/opcode", "Opcode") {
				if sel, ok := ast.Unparen(e).(*ast.SelectorExpr); ok {
					// an arm whose type-switch branches each hold both events is visited branch by branch; an arm like POPITEM
					// (mutation inside the switch, release after it) is one list
					visit(cc.Body, sel.Sel.Name)
					return false
				}
			}
		}
		return true
	})
	c.Floor("branches that both detach and release", n, 7)
}

// ---------------------------------------------------------------------------
// varsize-arg-types (C17) - io.GetVarSize computes "the length of the encoding" by reflection and answers for the
// kinds it knows: strings, integers, pointers to Serializable, and slices/arrays whose *element* is Serializable or a
// fixed-width integer. For a slice of anything else it silently returns the length of the count prefix alone. A
// slice of structs that are Serializable through pointer receivers ([]transaction.Attribute) is such a slice unless
// the function takes the element's address itself. Every call site in the module is therefore checked against what
// the implementation supports: the static type of the argument must be one of the supported shapes, and the
// pointer-receiver shape counts as supported only if the slice arm of GetVarSize takes element addresses
// (reflect.Value.Addr). The reported size of a value has to equal the length of its encoding.
func ruleVarSizeArgTypes(c *Ctx) {
	gvs := c.P.Func("pkg/io", "", "GetVarSize")
	iop := c.P.Pkg("pkg/io")
	if gvs == nil || iop == nil {
		c.Lost("varsize-arg-types.anchor", "io.GetVarSize not found")
		return
	}
	serObj, _ := iop.Types.Scope().Lookup("Serializable").(*types.TypeName)
	if serObj == nil {
		c.Lost("varsize-arg-types.iface", "io.Serializable not found")
		return
	}
	ser := serObj.Type().Underlying().(*types.Interface)
	// does the implementation take element addresses?
	ptrArm := false
	ast.Inspect(gvs.Decl.Body, func(x ast.Node) bool {
		if call, ok := x.(*ast.CallExpr); ok {
			if sel, ok := call.Fun.(*ast.SelectorExpr); ok && sel.Sel.Name == "Addr" {
				if fn, ok := gvs.Pkg.TypesInfo.ObjectOf(sel.Sel).(*types.Func); ok && fn.Pkg() != nil && fn.Pkg().Path() == "reflect" {
					ptrArm = true
				}
			}
		}
		return true
	})
	intKind := func(t types.Type) bool {
		b, ok := t.Underlying().(*types.Basic)
		return ok && b.Info()&types.IsInteger != 0
	}
	var classify func(t types.Type) (string, bool)
	classify = func(t types.Type) (string, bool) {
		switch u := t.Underlying().(type) {
		case *types.Basic:
			if u.Info()&(types.IsInteger|types.IsString) != 0 {
				return "integer/string", true
			}
		case *types.Pointer:
			if types.Implements(t, ser) {
				return "pointer to Serializable", true
			}
		case *types.Slice, *types.Array:
			var el types.Type
			if s, ok := u.(*types.Slice); ok {
				el = s.Elem()
			} else {
				el = u.(*types.Array).Elem()
			}
			switch {
			case intKind(el):
				return "slice of integers", true
			case types.Implements(el, ser):
				return "slice of Serializable", true
			case types.Implements(types.NewPointer(el), ser):
				if ptrArm {
					return "slice of values Serializable through their address (the implementation takes element addresses)", true
				}
				return "slice of values that are Serializable only through pointer receivers: GetVarSize returns the size of the count prefix alone", false
			}
		case *types.Interface:
			return "interface value (dynamic)", true
		}
		return "a type GetVarSize has no arm for", false
	}
	n := 0
	seen := map[string]int{}
	for _, fd := range c.P.AllFuncDecls() {
		if fd.Decl.Body == nil || !strings.HasPrefix(pkgRel(fd.Pkg.Types), "pkg/") {
			continue
		}
		info := fd.Pkg.TypesInfo
		ast.Inspect(fd.Decl.Body, func(x ast.Node) bool {
			call, ok := x.(*ast.CallExpr)
			if !ok || len(call.Args) != 1 {
				return true
			}
			if cf := calleeFunc(info, call); cf != gvs.Obj {
				return true
			}
			t := info.TypeOf(call.Args[0])
			if t == nil {
				return true
			}
			n++
			seen[FuncKey(fd.Obj)]++
			key := fmt.Sprintf("varsize-arg-types.%s#%d", FuncKey(fd.Obj), seen[FuncKey(fd.Obj)])
			if why, ok := classify(t); ok {
				c.OK(key, c.P.Pos(call.Pos()), types.TypeString(t, nil)+": "+why)
			} else {
				c.Fail(key, c.P.Pos(call.Pos()), fmt.Sprintf("%s calls io.GetVarSize with %s - %s: the reported size is not the length of the encoding", FuncKey(fd.Obj), types.TypeString(t, func(p *types.Package) string { return p.Name() }), why))
			}
			return true
		})
	}
	c.Floor("call sites of io.GetVarSize", n, 20)
}

// extDecoderRefusesEmptyNext: the decoder is the other way an extension node comes into being. A record
// "extension, key, empty child" cannot come from a valid trie; accepted, it gives a node whose Size() (which relies on
// "next is never empty") is 32 bytes more than its encoding and whose walk ends in nothing. The decoder of
// ExtensionNode must set the reader's error on a path where the decoded child is the empty node, before it stores it.
func extDecoderRefusesEmptyNext(c *Ctx) {
	fd := c.P.Func("pkg/core/mpt", "ExtensionNode", "decodeBinaryWithDepth")
	if fd == nil {
		c.Lost("ext-next.decoder.anchor", "ExtensionNode.decodeBinaryWithDepth not found")
		return
	}
	f := c.P.NewFuncCFG(fd)
	refuses := false
	ast.Inspect(fd.Decl.Body, func(x ast.Node) bool {
		is, ok := x.(*ast.IfStmt)
		if !ok {
			return true
		}
		m := f.DirectMentions(is.Cond)
		if !(m["pkg/core/mpt.isEmpty"] || m["pkg/core/mpt.EmptyNode"] || m["pkg/core/mpt.EmptyT"]) {
			return true
		}
		for _, w := range nodeWritesIn(f, is.Body) {
			if w == "pkg/io#Err" {
				refuses = true
			}
		}
		return true
	})
	if refuses {
		c.OK("ext-next.decoder", c.P.Pos(fd.Decl.Pos()), "the decoder of an extension node sets the reader's error when the decoded child is the empty node")
	} else {
		c.Fail("ext-next.decoder", c.P.Pos(fd.Decl.Pos()), "ExtensionNode.decodeBinaryWithDepth accepts an extension whose child is the empty node: no valid trie contains one, its Size() (next is never empty) is 32 bytes more than its encoding, and a proof or a peer can hand the node one")
	}
}

func nodeWritesIn(f *FuncCFG, n ast.Node) []string {
	var out []string
	ast.Inspect(n, func(x ast.Node) bool {
		if st, ok := x.(ast.Stmt); ok {
			for _, w := range nodeWrites(f.Info, st, false) {
				out = append(out, w.Field)
			}
		}
		return true
	})
	return out
}

// slotCountAgreement: `len` counts occupied ring slots (LastQueued reports cacheSize-len as the room left, and the
// server stops asking for blocks at zero). It may therefore grow only where an *empty* slot becomes occupied - the
// increment sits under a test that the slot equals the nil element, as a conjunct of its own, not as one side of an
// "empty or stale" disjunction (replacing a stale element occupies nothing new) - and shrink only together with the
// slot being emptied in the same statement list.
func slotCountAgreement(c *Ctx, pk *packages.Package) {
	n := 0
	for _, fd := range c.P.AllFuncDecls() {
		if fd.Pkg != pk || fd.Decl.Body == nil {
			continue
		}
		f := c.P.NewFuncCFG(fd)
		var isSlotNilTest func(e ast.Expr) bool
		isSlotNilTest = func(e ast.Expr) bool {
			if id, ok := ast.Unparen(e).(*ast.Ident); ok {
				// a boolean local bound once to the test
				if v, ok := f.Info.ObjectOf(id).(*types.Var); ok && !f.params[v] && len(f.defs[v]) == 1 && len(f.defs[v][0].rhs) == 1 {
					return isSlotNilTest(f.defs[v][0].rhs[0])
				}
				return false
			}
			be, ok := ast.Unparen(e).(*ast.BinaryExpr)
			if !ok || be.Op != token.EQL {
				return false
			}
			mx, my := f.DirectMentions(be.X), f.DirectMentions(be.Y)
			return (mx["pkg/network/bqueue#queue"] && my["pkg/network/bqueue#nilQ"]) || (my["pkg/network/bqueue#queue"] && mx["pkg/network/bqueue#nilQ"])
		}
		var conjuncts func(e ast.Expr) []ast.Expr
		conjuncts = func(e ast.Expr) []ast.Expr {
			if be, ok := ast.Unparen(e).(*ast.BinaryExpr); ok && be.Op == token.LAND {
				return append(conjuncts(be.X), conjuncts(be.Y)...)
			}
			return []ast.Expr{e}
		}
		var stack []ast.Node
		k := 0
		ast.Inspect(fd.Decl.Body, func(x ast.Node) bool {
			if x == nil {
				stack = stack[:len(stack)-1]
				return true
			}
			stack = append(stack, x)
			id, ok := x.(*ast.IncDecStmt)
			if !ok || !f.DirectMentions(id.X)["pkg/network/bqueue#len"] {
				return true
			}
			n++
			k++
			key := fmt.Sprintf("ring-slot-index.count.%s#%d", FuncKey(fd.Obj), k)
			if id.Tok == token.INC {
				ok := false
				for i := len(stack) - 2; i >= 0; i-- {
					is, isIf := stack[i].(*ast.IfStmt)
					if !isIf || i+1 >= len(stack) || stack[i+1] != ast.Node(is.Body) {
						continue
					}
					for _, cj := range conjuncts(is.Cond) {
						if isSlotNilTest(cj) {
							ok = true
						}
					}
				}
				if ok {
					c.OK(key, c.P.Pos(id.Pos()), "len grows only under a test that the slot is empty")
				} else {
					c.Fail(key, c.P.Pos(id.Pos()), fmt.Sprintf("%s increments len without being under a test of its own that the ring slot is empty: an element that replaces a stale one in the same slot is counted again, the room LastQueued reports shrinks for good and at zero the server stops asking for blocks", FuncKey(fd.Obj)))
				}
				return true
			}
			// DEC: the same statement list empties a slot
			emptied := false
			if len(stack) >= 2 {
				var list []ast.Stmt
				switch p := stack[len(stack)-2].(type) {
				case *ast.BlockStmt:
					list = p.List
				case *ast.CaseClause:
					list = p.Body
				}
				for _, st := range list {
					if as, ok := st.(*ast.AssignStmt); ok && len(as.Lhs) == 1 && len(as.Rhs) == 1 {
						if f.DirectMentions(as.Lhs[0])["pkg/network/bqueue#queue"] && f.DirectMentions(as.Rhs[0])["pkg/network/bqueue#nilQ"] {
							emptied = true
						}
					}
				}
			}
			if !emptied && len(fd.Decl.Body.List) == 1 {
				// a helper that does nothing but the decrement: its callers are the units
				all, some := true, false
				for _, cfd := range c.P.AllFuncDecls() {
					if cfd.Pkg != pk || cfd.Decl.Body == nil {
						continue
					}
					cf := c.P.NewFuncCFG(cfd)
					var cstack []ast.Node
					ast.Inspect(cfd.Decl.Body, func(y ast.Node) bool {
						if y == nil {
							cstack = cstack[:len(cstack)-1]
							return true
						}
						cstack = append(cstack, y)
						es, ok := y.(*ast.ExprStmt)
						if !ok {
							return true
						}
						call, ok := es.X.(*ast.CallExpr)
						if !ok {
							return true
						}
						if cfn := calleeFunc(cfd.Pkg.TypesInfo, call); cfn == nil || cfn.Origin() != fd.Obj {
							return true
						}
						some = true
						okHere := false
						if len(cstack) >= 2 {
							var list []ast.Stmt
							switch p := cstack[len(cstack)-2].(type) {
							case *ast.BlockStmt:
								list = p.List
							case *ast.CaseClause:
								list = p.Body
							}
							for _, st := range list {
								if as, ok := st.(*ast.AssignStmt); ok && len(as.Lhs) == 1 && len(as.Rhs) == 1 {
									if cf.DirectMentions(as.Lhs[0])["pkg/network/bqueue#queue"] && cf.DirectMentions(as.Rhs[0])["pkg/network/bqueue#nilQ"] {
										okHere = true
									}
								}
							}
						}
						if !okHere {
							all = false
						}
						return true
					})
				}
				emptied = some && all
			}
			if emptied {
				c.OK(key, c.P.Pos(id.Pos()), "len shrinks together with a slot being emptied")
			} else {
				c.Fail(key, c.P.Pos(id.Pos()), fmt.Sprintf("%s decrements len without emptying a ring slot in the same statement list", FuncKey(fd.Obj)))
			}
			return true
		})
	}
	c.Floor("updates of the queue's element counter", n, 3)
}

// ---------------------------------------------------------------------------
// sum-over-set (C08) - conflict resolution collects the pooled transactions a new one is going to replace into a
// slice and then *sums* over it: their network fees have to be outbid, and the system+network fees of those that
// share the payer are credited to the payer before the balance check. A transaction can get into that slice more
// than once (named by two Conflicts attributes of the new transaction, or named by it and naming it), but it is
// removed - and its fee released - once. Every append to a local slice that the same function later ranges over
// while accumulating must therefore sit behind a membership test on that slice in the same loop body.
func ruleSumOverSet(c *Ctx) {
	pk := c.P.Pkg("pkg/core/mempool")
	if pk == nil {
		c.Lost("sum-over-set.anchor", "package mempool not found")
		return
	}
	info := pk.TypesInfo
	n := 0
	for _, fd := range c.P.AllFuncDecls() {
		if fd.Pkg != pk || fd.Decl.Body == nil {
			continue
		}
		// slices ranged over with an accumulation in the body
		summed := map[types.Object]bool{}
		ast.Inspect(fd.Decl.Body, func(x ast.Node) bool {
			rs, ok := x.(*ast.RangeStmt)
			if !ok {
				return true
			}
			id, ok := ast.Unparen(rs.X).(*ast.Ident)
			if !ok {
				return true
			}
			if _, isSlice := info.TypeOf(id).Underlying().(*types.Slice); !isSlice {
				return true
			}
			acc := false
			ast.Inspect(rs.Body, func(y ast.Node) bool {
				switch s := y.(type) {
				case *ast.AssignStmt:
					if s.Tok == token.ADD_ASSIGN || s.Tok == token.SUB_ASSIGN {
						acc = true
					}
				case *ast.CallExpr:
					if sel, ok := s.Fun.(*ast.SelectorExpr); ok {
						switch sel.Sel.Name {
						case "Add", "Sub", "SubUint64", "AddUint64":
							acc = true
						}
					}
				}
				return true
			})
			if acc {
				if v, ok := info.ObjectOf(id).(*types.Var); ok && v.Parent() != nil && v.Parent() != pk.Types.Scope() {
					summed[v] = true
				}
			}
			return true
		})
		if len(summed) == 0 {
			continue
		}
		// appends to those slices inside loops
		var loops []ast.Node
		k := 0
		var walk func(x ast.Node)
		walk = func(x ast.Node) {
			ast.Inspect(x, func(y ast.Node) bool {
				switch s := y.(type) {
				case *ast.RangeStmt:
					loops = append(loops, s)
					walk(s.Body)
					loops = loops[:len(loops)-1]
					return false
				case *ast.ForStmt:
					loops = append(loops, s)
					walk(s.Body)
					loops = loops[:len(loops)-1]
					return false
				case *ast.AssignStmt:
					if len(s.Lhs) != 1 || len(s.Rhs) != 1 || len(loops) == 0 {
						return true
					}
					lid, ok := s.Lhs[0].(*ast.Ident)
					if !ok || !summed[info.ObjectOf(lid)] {
						return true
					}
					call, ok := s.Rhs[0].(*ast.CallExpr)
					if !ok || len(call.Args) < 2 {
						return true
					}
					if fid, ok := call.Fun.(*ast.Ident); !ok || fid.Name != "append" {
						return true
					}
					n++
					k++
					key := fmt.Sprintf("sum-over-set.%s.%s#%d", FuncKey(fd.Obj), lid.Name, k)
					// membership test on the slice earlier in the innermost loop body
					var body *ast.BlockStmt
					switch l := loops[len(loops)-1].(type) {
					case *ast.RangeStmt:
						body = l.Body
					case *ast.ForStmt:
						body = l.Body
					}
					tested := false
					ast.Inspect(body, func(z ast.Node) bool {
						is, ok := z.(*ast.IfStmt)
						if !ok || is.Pos() > s.Pos() {
							return true
						}
						ast.Inspect(is.Cond, func(w ast.Node) bool {
							if ce, ok := w.(*ast.CallExpr); ok && len(ce.Args) >= 1 {
								if sel, ok := ce.Fun.(*ast.SelectorExpr); ok && strings.HasPrefix(sel.Sel.Name, "Contains") {
									if aid, ok := ast.Unparen(ce.Args[0]).(*ast.Ident); ok && info.ObjectOf(aid) == info.ObjectOf(lid) {
										tested = true
									}
								}
							}
							return true
						})
						return true
					})
					if tested {
						c.OK(key, c.P.Pos(s.Pos()), "appended behind a membership test on the slice: an element is summed once")
					} else {
						c.Fail(key, c.P.Pos(s.Pos()), fmt.Sprintf("%s appends to %s, over which it later sums, without testing whether the element is in it already: a pooled transaction named twice (two Conflicts attributes with the same hash, or named by the new transaction and naming it) has its fee credited twice while it is removed once - the balance check of the payer is too lenient by that fee", FuncKey(fd.Obj), lid.Name))
					}
				}
				return true
			})
		}
		walk(fd.Decl.Body)
	}
	c.Floor("appends to slices that are summed over", n, 2)
}

// ---------------------------------------------------------------------------
// continuation-fresh-index (C01) - natives that call out to contracts (Deferrable methods) finish their work in a
// continuation that runs after the callee returned - and the callee can re-enter the native. A position in a cache
// slice that was computed *before* the continuation was created (a binary search over the sorted list of blocked
// accounts) is stale by then: inserting at it leaves the cached list unsorted, the next binary search misses an
// entry that storage has, and a restarted node - which rebuilds the list from storage in key order - answers
// differently. A function literal in package native must not use a captured integer as index or bound of a slice
// that is a field of a native cache.
func ruleContinuationFreshIndex(c *Ctx) {
	continuationFreshCache(c)
	pk := c.P.Pkg("pkg/core/native")
	if pk == nil {
		c.Lost("continuation-fresh-index.anchor", "package native not found")
		return
	}
	info := pk.TypesInfo
	isCacheField := func(e ast.Expr) bool {
		sel, ok := ast.Unparen(e).(*ast.SelectorExpr)
		if !ok {
			return false
		}
		t := info.TypeOf(sel.X)
		if t == nil {
			return false
		}
		if p, ok := t.(*types.Pointer); ok {
			t = p.Elem()
		}
		nt, ok := t.(*types.Named)
		return ok && strings.HasSuffix(nt.Obj().Name(), "Cache") && nt.Obj().Pkg() == pk.Types
	}
	nLit, nUse := 0, 0
	for _, fd := range c.P.AllFuncDecls() {
		if fd.Pkg != pk || fd.Decl.Body == nil {
			continue
		}
		k := 0
		ast.Inspect(fd.Decl.Body, func(x ast.Node) bool {
			lit, ok := x.(*ast.FuncLit)
			if !ok {
				return true
			}
			nLit++
			captured := func(id *ast.Ident) bool {
				v, ok := info.ObjectOf(id).(*types.Var)
				if !ok || v.IsField() {
					return false
				}
				if b, ok := v.Type().Underlying().(*types.Basic); !ok || b.Info()&types.IsInteger == 0 {
					return false
				}
				return v.Pos() < lit.Pos() && v.Pos() > fd.Decl.Pos() // declared in the enclosing function, before the literal
			}
			ast.Inspect(lit.Body, func(y ast.Node) bool {
				var idxs []ast.Expr
				var base ast.Expr
				switch e := y.(type) {
				case *ast.IndexExpr:
					base, idxs = e.X, []ast.Expr{e.Index}
				case *ast.SliceExpr:
					base, idxs = e.X, []ast.Expr{e.Low, e.High}
				default:
					return true
				}
				if !isCacheField(base) {
					return true
				}
				nUse++
				for _, ix := range idxs {
					if ix == nil {
						continue
					}
					bad := ""
					ast.Inspect(ix, func(z ast.Node) bool {
						if id, ok := z.(*ast.Ident); ok && captured(id) {
							bad = id.Name
						}
						return true
					})
					if bad != "" {
						k++
						c.Fail(fmt.Sprintf("continuation-fresh-index.%s#%d", FuncKey(fd.Obj), k), c.P.Pos(y.Pos()), fmt.Sprintf("a function literal in %s indexes the cache slice %s with %s, which was computed in the enclosing function before the literal was created: if the literal runs as a continuation after a contract call (which can re-enter the native and change the slice), the position is stale - the cached list gets out of order and disagrees with what a restarted node rebuilds from storage", FuncKey(fd.Obj), types.ExprString(base), bad))
					}
				}
				return true
			})
			return true
		})
		if k == 0 {
			continue
		}
	}
	if nUse > 0 {
		c.OK("continuation-fresh-index.summary", "pkg/core/native", fmt.Sprintf("%d function literals examined; %d index/slice expressions over native cache fields inside them, none with a captured position", nLit, nUse))
	} else {
		c.OK("continuation-fresh-index.summary", "pkg/core/native", fmt.Sprintf("%d function literals examined; none indexes a native cache slice", nLit))
	}
	c.Floor("function literals in package native", nLit, 40)
}

// ---------------------------------------------------------------------------
// raw-bytes-owned (C02, C09) - pkg/core/state has types that carry the raw stored bytes of a record in an exported
// []byte field which the DAO fills with the very slice Store.Get returned - the slice the cache layer holds, and
// after a flush started, the frozen layer the flush is writing from. A method that writes an element of that field
// in place, or appends through a bytes.Buffer created over it (which writes into its spare capacity first), changes
// what that layer holds: a batch being flushed reaches the database half-updated (a transfer-log counter that is
// ahead of its entries, together with the old block pointer), and a crash keeps it that way. Such a method has to
// replace the field by a clone on every path to the write; "only if not owned yet" is recognised through a boolean
// field of the type: assumed false, the clone must still be passed.
func ruleRawBytesOwned(c *Ctx) {
	pk := c.P.Pkg("pkg/core/state")
	if pk == nil {
		c.Lost("raw-bytes-owned.anchor", "package state not found")
		return
	}
	info := pk.TypesInfo
	n := 0
	for _, fd := range c.P.AllFuncDecls() {
		if fd.Pkg != pk || fd.Decl.Body == nil || fd.Decl.Recv == nil || len(fd.Decl.Recv.List) == 0 || len(fd.Decl.Recv.List[0].Names) == 0 {
			continue
		}
		recvObj := info.ObjectOf(fd.Decl.Recv.List[0].Names[0])
		rt := fd.Obj.Type().(*types.Signature).Recv().Type()
		if p, ok := rt.(*types.Pointer); ok {
			rt = p.Elem()
		}
		nt, ok := rt.(*types.Named)
		if !ok {
			continue
		}
		st, ok := nt.Underlying().(*types.Struct)
		if !ok {
			continue
		}
		// exported []byte fields
		raw := map[types.Object]bool{}
		var bools []*types.Var
		for i := 0; i < st.NumFields(); i++ {
			fl := st.Field(i)
			if sl, ok := fl.Type().Underlying().(*types.Slice); ok && fl.Exported() {
				if b, ok := sl.Elem().Underlying().(*types.Basic); ok && b.Kind() == types.Byte {
					raw[fl] = true
				}
			}
			if b, ok := fl.Type().Underlying().(*types.Basic); ok && b.Kind() == types.Bool {
				bools = append(bools, fl)
			}
		}
		if len(raw) == 0 {
			continue
		}
		isRecvField := func(e ast.Expr) types.Object {
			sel, ok := ast.Unparen(e).(*ast.SelectorExpr)
			if !ok {
				return nil
			}
			if id, ok := ast.Unparen(sel.X).(*ast.Ident); ok && info.ObjectOf(id) == recvObj && raw[info.ObjectOf(sel.Sel)] {
				return info.ObjectOf(sel.Sel)
			}
			return nil
		}
		f := c.P.NewFuncCFG(fd)
		var writes, clones []site
		for _, b := range f.G.Blocks {
			if !b.Live {
				continue
			}
			for i, nd := range b.Nodes {
				w, cl := false, false
				inspectNoLit(nd, func(x ast.Node) bool {
					switch y := x.(type) {
					case *ast.IncDecStmt:
						if ix, ok := ast.Unparen(y.X).(*ast.IndexExpr); ok && isRecvField(ix.X) != nil {
							w = true
						}
					case *ast.AssignStmt:
						for li, l := range y.Lhs {
							if ix, ok := ast.Unparen(l).(*ast.IndexExpr); ok && isRecvField(ix.X) != nil {
								w = true
							}
							if isRecvField(l) != nil && li < len(y.Rhs) {
								if call, ok := ast.Unparen(y.Rhs[li]).(*ast.CallExpr); ok {
									switch f.calleeSym(call) {
									case "bytes.Clone", "slices.Clone":
										cl = true
									}
								}
							}
						}
					case *ast.CallExpr:
						cs := f.calleeSym(y)
						if (cs == "bytes.NewBuffer" || cs == "copy") && len(y.Args) >= 1 && isRecvField(y.Args[0]) != nil {
							w = true
						}
					}
					return true
				})
				if w {
					writes = append(writes, site{blk: b, idx: i, node: nd})
				}
				if cl {
					clones = append(clones, site{blk: b, idx: i, node: nd})
				}
			}
		}
		if len(writes) == 0 {
			continue
		}
		n++
		key := "raw-bytes-owned." + FuncKey(fd.Obj)
		ok2, path := f.mustBefore(f.Entry(), writes, clones, nil)
		how := "unconditionally"
		if !ok2 {
			for _, bf := range bools {
				if ok3, _ := f.mustBefore(f.Entry(), writes, clones, symAssume(symOf(bf), false)); ok3 {
					ok2, how = true, "whenever "+bf.Name()+" is false"
				}
			}
		}
		if ok2 {
			c.OK(key, c.P.Pos(fd.Decl.Pos()), "writes into the raw bytes only after replacing them by a clone ("+how+")")
		} else {
			c.Fail(key, c.P.Pos(writes[0].node.Pos()), fmt.Sprintf("%s writes into the raw stored bytes it was given (an element in place, or a bytes.Buffer created over them, which fills their spare capacity first) without replacing them by a clone first: the DAO fills this field with the slice the cache layer holds, so the write changes the value of a layer that may be in the middle of a flush", FuncKey(fd.Obj)), path...)
		}
	}
	c.Floor("methods writing into raw stored bytes", n, 1)
}

// ---------------------------------------------------------------------------
// endianness-agreement (C07, C16, C17, C01) - a script hash has two byte orders and every site picks one by name
// (BytesBE/BytesLE, Uint160DecodeBytesBE/LE, StringLE/StringBE, Uint160DecodeStringLE/BE). Two families of sites
// have to agree with each other:
//
//	(a) storage keys of a native contract: the functions that mention one key-prefix constant build keys with
//	    hash.BytesXX() and decode them back (cache initialisation at start-up, iteration) with Uint160DecodeBytesXX -
//	    one order per prefix, or the cache rebuilt after a restart holds reversed hashes (a blocked account is no longer
//	    blocked);
//	(b) the JSON form of a type: what MarshalJSON prints (StringXX) and what UnmarshalJSON parses (DecodeStringXX,
//	    in *every* accepted spelling - with and without 0x) - one order per type, or a permission names another contract.
func ruleEndiannessAgreement(c *Ctx) {
	order := func(name string) string {
		switch {
		case strings.HasSuffix(name, "BE"):
			return "BE"
		case strings.HasSuffix(name, "LE"):
			return "LE"
		}
		return ""
	}
	isHashConv := func(fn *types.Func) (kind, ord string) {
		if fn == nil || fn.Pkg() == nil || fn.Pkg().Path() != "github.com/nspcc-dev/neo-go/pkg/util" {
			return "", ""
		}
		n := fn.Name()
		o := order(n)
		switch {
		case o == "":
			return "", ""
		case strings.HasPrefix(n, "Bytes"):
			return "enc-bytes", o
		case strings.Contains(n, "DecodeBytes"):
			return "dec-bytes", o
		case strings.HasPrefix(n, "String"):
			return "enc-string", o
		case strings.Contains(n, "DecodeString"):
			return "dec-string", o
		}
		return "", ""
	}
	// (a) native storage prefixes
	if pk := c.P.Pkg("pkg/core/native"); pk != nil {
		type use struct {
			kind, ord, pos, fn string
		}
		byPrefix := map[string][]use{}
		for _, fd := range c.P.AllFuncDecls() {
			if fd.Pkg != pk || fd.Decl.Body == nil {
				continue
			}
			info := fd.Pkg.TypesInfo
			// prefix constants mentioned: byte-typed package-level constants whose name contains "refix"
			prefixes := map[string]bool{}
			ast.Inspect(fd.Decl.Body, func(x ast.Node) bool {
				if id, ok := x.(*ast.Ident); ok {
					if cst, ok := info.ObjectOf(id).(*types.Const); ok && cst.Pkg() == pk.Types && cst.Parent() == pk.Types.Scope() && strings.Contains(strings.ToLower(cst.Name()), "prefix") {
						prefixes[cst.Name()] = true
					}
				}
				return true
			})
			prefixesIn := func(n ast.Node) []string {
				set := map[string]bool{}
				ast.Inspect(n, func(x ast.Node) bool {
					if _, isLit := x.(*ast.FuncLit); isLit {
						return false
					}
					if id, ok := x.(*ast.Ident); ok {
						if cst, ok := info.ObjectOf(id).(*types.Const); ok && cst.Pkg() == pk.Types && cst.Parent() == pk.Types.Scope() && strings.Contains(strings.ToLower(cst.Name()), "prefix") {
							set[cst.Name()] = true
						}
					}
					return true
				})
				var out []string
				for k := range set {
					out = append(out, k)
				}
				return out
			}
			record := func(n ast.Node, p string) {
				ast.Inspect(n, func(x ast.Node) bool {
					if call, ok := x.(*ast.CallExpr); ok {
						if kind, ord := isHashConv(calleeFunc(info, call)); kind == "enc-bytes" || kind == "dec-bytes" {
							byPrefix[p] = append(byPrefix[p], use{kind, ord, c.P.Pos(call.Pos()), FuncKey(fd.Obj)})
						}
						// integers inside keys: binary.BigEndian.PutUint32 / binary.LittleEndian.Uint32 ...
						if sel, ok := call.Fun.(*ast.SelectorExpr); ok {
							if inner, ok := ast.Unparen(sel.X).(*ast.SelectorExpr); ok {
								if v, ok := info.ObjectOf(inner.Sel).(*types.Var); ok && v.Pkg() != nil && v.Pkg().Path() == "encoding/binary" {
									ord := map[string]string{"BigEndian": "BE", "LittleEndian": "LE"}[v.Name()]
									if ord != "" {
										kind := "dec-bytes"
										if strings.HasPrefix(sel.Sel.Name, "Put") || strings.HasPrefix(sel.Sel.Name, "Append") {
											kind = "enc-bytes"
										}
										byPrefix[p+" (integers)"] = append(byPrefix[p+" (integers)"], use{kind, ord, c.P.Pos(call.Pos()), FuncKey(fd.Obj)})
									}
								}
							}
						}
					}
					return true
				})
			}
			if len(prefixes) == 1 {
				for p := range prefixes {
					record(fd.Decl.Body, p)
				}
				continue
			}
			// several prefixes in one function (cache initialisation): a callback handed to a call whose other arguments
			// mention exactly one prefix (Seek{Prefix: []byte{p}}, func(k, v) ...) belongs to that prefix
			ast.Inspect(fd.Decl.Body, func(x ast.Node) bool {
				call, ok := x.(*ast.CallExpr)
				if !ok {
					return true
				}
				var lits []*ast.FuncLit
				var ps []string
				for _, a := range call.Args {
					if fl, ok := a.(*ast.FuncLit); ok {
						lits = append(lits, fl)
					} else {
						ps = append(ps, prefixesIn(a)...)
					}
				}
				if len(lits) > 0 && len(ps) == 1 {
					for _, fl := range lits {
						record(fl.Body, ps[0])
					}
				}
				return true
			})
		}
		n := 0
		var ps []string
		for p := range byPrefix {
			ps = append(ps, p)
		}
		sort.Strings(ps)
		for _, p := range ps {
			us := byPrefix[p]
			ords := map[string]bool{}
			hasEnc, hasDec := false, false
			for _, u := range us {
				ords[u.ord] = true
				if u.kind == "enc-bytes" {
					hasEnc = true
				} else {
					hasDec = true
				}
			}
			if !hasEnc || !hasDec {
				continue
			}
			n++
			key := "endianness-agreement.key." + p
			if len(ords) == 1 {
				c.OK(key, us[0].pos, fmt.Sprintf("keys under %s are built and decoded in one byte order (%d sites)", p, len(us)))
			} else {
				var det []string
				for _, u := range us {
					det = append(det, fmt.Sprintf("%s %s %s at %s", shortSym(u.fn), u.kind, u.ord, u.pos))
				}
				c.Fail(key, us[0].pos, fmt.Sprintf("storage keys under %s are built and decoded in different byte orders: what is rebuilt from storage (cache initialisation after a restart, iteration) holds byte-reversed hashes", p), det...)
			}
		}
		c.Floor("native key prefixes with both an encoder and a decoder of hashes", n, 1)
	}
	// (b) JSON pairs
	type pair struct{ m, u *FuncDecl }
	pairs := map[string]*pair{}
	for _, fd := range c.P.AllFuncDecls() {
		if fd.Decl.Body == nil || fd.Decl.Recv == nil || !strings.HasPrefix(pkgRel(fd.Pkg.Types), "pkg/") {
			continue
		}
		nm := fd.Obj.Name()
		if nm != "MarshalJSON" && nm != "UnmarshalJSON" {
			continue
		}
		rt := fd.Obj.Type().(*types.Signature).Recv().Type()
		if p, ok := rt.(*types.Pointer); ok {
			rt = p.Elem()
		}
		k := types.TypeString(rt, nil)
		if pairs[k] == nil {
			pairs[k] = &pair{}
		}
		if nm == "MarshalJSON" {
			pairs[k].m = fd
		} else {
			pairs[k].u = fd
		}
	}
	var ks []string
	for k := range pairs {
		ks = append(ks, k)
	}
	sort.Strings(ks)
	nj := 0
	for _, k := range ks {
		pr := pairs[k]
		if pr.m == nil || pr.u == nil {
			continue
		}
		collect := func(fd *FuncDecl, want string) map[string][]string {
			out := map[string][]string{}
			ast.Inspect(fd.Decl.Body, func(x ast.Node) bool {
				if call, ok := x.(*ast.CallExpr); ok {
					if kind, ord := isHashConv(calleeFunc(fd.Pkg.TypesInfo, call)); kind == want {
						out[ord] = append(out[ord], c.P.Pos(call.Pos()))
					}
				}
				return true
			})
			return out
		}
		enc, dec := collect(pr.m, "enc-string"), collect(pr.u, "dec-string")
		if len(enc) == 0 || len(dec) == 0 {
			continue
		}
		nj++
		key := "endianness-agreement.json." + shortSym(strings.TrimPrefix(k, "github.com/nspcc-dev/neo-go/"))
		all := map[string]bool{}
		for o := range enc {
			all[o] = true
		}
		for o := range dec {
			all[o] = true
		}
		if len(all) == 1 {
			c.OK(key, c.P.Pos(pr.u.Decl.Pos()), "MarshalJSON prints and UnmarshalJSON parses hashes in one byte order, in every accepted spelling")
		} else {
			c.Fail(key, c.P.Pos(pr.u.Decl.Pos()), fmt.Sprintf("the JSON form of %s is printed with byte order %v and parsed with %v: one of the accepted spellings of a hash is read byte-reversed - the value names another contract", k, sortedKeysOfSliceMap(enc), sortedKeysOfSliceMap(dec)))
		}
	}
	c.Floor("types printing and parsing hashes in JSON", nj, 2)
}

func sortedKeysOfSliceMap(m map[string][]string) []string {
	var out []string
	for k := range m {
		out = append(out, k)
	}
	sort.Strings(out)
	return out
}

// ---------------------------------------------------------------------------
// method-lookup-arity (C16) - a contract may have several methods of one name that differ in the number of
// parameters, and each has a safe mark of its own. System.Contract.Call, CALLT and the native-to-contract path decide
// on the permission check and on stripping the write/notify flags from the descriptor they look up; the callee that
// finally runs is looked up again further down. All these lookups have to name the same overload: a lookup by a
// dynamic method name passes the number of arguments actually supplied (len of the argument slice), never "any arity".
func ruleMethodLookupArity(c *Ctx) {
	pk := c.P.Pkg("pkg/core/interop/contract")
	if pk == nil {
		c.Lost("method-lookup-arity.anchor", "package interop/contract not found")
		return
	}
	n := 0
	for _, fd := range c.P.AllFuncDecls() {
		if fd.Pkg != pk || fd.Decl.Body == nil {
			continue
		}
		f := c.P.NewFuncCFG(fd)
		k := 0
		for _, s := range f.CallSites("pkg/smartcontract/manifest.(*ABI).GetMethod") {
			if len(s.call.Args) != 2 {
				continue
			}
			if tv := f.Info.Types[s.call.Args[0]]; tv.Value != nil {
				continue // a fixed, protocol-defined method (_initialize/0, _deploy/2, verify)
			}
			n++
			k++
			key := fmt.Sprintf("method-lookup-arity.%s#%d", FuncKey(fd.Obj), k)
			if tv := f.Info.Types[s.call.Args[1]]; tv.Value != nil {
				c.Fail(key, c.P.Pos(s.call.Pos()), fmt.Sprintf("%s looks a method up by a dynamic name with a constant arity (%s): with overloaded method names the descriptor it gets - whose safe mark decides on the permission check and on stripping WriteStates/AllowNotify - need not be the overload that is executed", FuncKey(fd.Obj), tv.Value))
			} else if f.DirectMentions(s.call.Args[1])["builtin.len"] {
				c.OK(key, c.P.Pos(s.call.Pos()), "looked up by name and by the number of arguments supplied")
			} else {
				c.Unclassified(key, c.P.Pos(s.call.Pos()), "arity argument is neither a constant nor len(args)")
			}
		}
	}
	c.Floor("method lookups by a dynamic name on the call path", n, 3)
}

// ---------------------------------------------------------------------------
// attr-fee-gate (C07) - "pays at least ... plus attribute fees". verifyTxAttributes decides whether an attribute
// kind is admitted at all (hardfork, signers); CalculateAttributesFee decides what it costs. An arm of the fee
// calculator that charges only under a condition must use a condition the admission arm of the same kind also
// tests - otherwise there is a configuration in which the attribute is admitted and free (NotaryAssisted: admitted
// from Echidna on, charged only with the P2PSigExtensions setting, which the stock mainnet configuration leaves off
// while the notary nodes are still rewarded per key by Notary.OnPersist).
func ruleAttrFeeGate(c *Ctx) {
	fee := c.P.Func("pkg/core", "Blockchain", "CalculateAttributesFee")
	adm := c.P.Func("pkg/core", "Blockchain", "verifyTxAttributes")
	if fee == nil || adm == nil {
		c.Lost("attr-fee-gate.anchor", "CalculateAttributesFee / verifyTxAttributes not found")
		return
	}
	condSyms := func(fd *FuncDecl) map[string]map[string]bool {
		f := c.P.NewFuncCFG(fd)
		out := map[string]map[string]bool{}
		for _, arms := range constSwitches(f.Info, fd.Decl.Body, "pkg/core/transaction", "AttrType") {
			for _, a := range arms {
				for _, nm := range a.Consts {
					if out[nm] == nil {
						out[nm] = map[string]bool{}
					}
					for _, st := range a.Body {
						ast.Inspect(st, func(x ast.Node) bool {
							if is, ok := x.(*ast.IfStmt); ok {
								for s := range f.DirectMentions(is.Cond) {
									if strings.Contains(s, "(") && !strings.HasPrefix(s, "local") { // calls: predicates of the ledger/config
										out[nm][s] = true
									}
								}
							}
							return true
						})
					}
				}
			}
		}
		return out
	}
	fs, as := condSyms(fee), condSyms(adm)
	n := 0
	var kinds []string
	for k := range fs {
		kinds = append(kinds, k)
	}
	sort.Strings(kinds)
	for _, k := range kinds {
		n++
		key := "attr-fee-gate." + k
		var extra []string
		for s := range fs[k] {
			if !as[k][s] {
				extra = append(extra, shortSym(s))
			}
		}
		sort.Strings(extra)
		if len(extra) == 0 {
			c.OK(key, c.P.Pos(fee.Decl.Pos()), "the fee of this attribute kind is charged whenever the kind is admitted")
		} else {
			c.Fail(key, c.P.Pos(fee.Decl.Pos()), fmt.Sprintf("CalculateAttributesFee charges the %s attribute only under %v, a condition verifyTxAttributes does not test for that kind: where the condition is false the attribute is admitted and costs nothing - the network fee accepted is below 'size x fee-per-byte plus attribute fees'", k, extra))
		}
	}
	c.Floor("attribute kinds with a fee arm of their own", n, 2)
}

// ---------------------------------------------------------------------------
// Clauses written for the seeds of round 6.

// slotReleaseUnconditional (slot-scope, C12): Slot.init counts one reference per entry, assigned or not (a never
// assigned local is a counted Null); clearRefs must therefore release every entry, assigned or not: its refs.Remove
// is not nested in any condition.
func slotReleaseUnconditional(c *Ctx) {
	fd := c.P.Func("pkg/vm", "Slot", "clearRefs")
	if fd == nil {
		c.Lost("clear-unconditional.anchor", "Slot.clearRefs not found")
		return
	}
	f := c.P.NewFuncCFG(fd)
	n, bad := 0, token.NoPos
	var stack []ast.Node
	ast.Inspect(fd.Decl.Body, func(x ast.Node) bool {
		if x == nil {
			stack = stack[:len(stack)-1]
			return true
		}
		stack = append(stack, x)
		if call, ok := x.(*ast.CallExpr); ok && f.calleeSym(call) == "pkg/vm.(*refCounter).Remove" {
			n++
			for _, a := range stack {
				switch a.(type) {
				case *ast.IfStmt, *ast.SwitchStmt, *ast.TypeSwitchStmt:
					bad = call.Pos()
				}
			}
		}
		return true
	})
	switch {
	case n == 0:
		c.Fail("clear-unconditional", c.P.Pos(fd.Decl.Pos()), "Slot.clearRefs no longer releases the slot's entries: every frame leaves its locals counted")
	case bad.IsValid():
		c.Fail("clear-unconditional", c.P.Pos(bad), "Slot.clearRefs releases an entry only under a condition, while Slot.init counts every entry - also those never assigned (counted as Null): each unload of a frame with unassigned locals leaves them counted and the 2048 limit is reached by a script that holds nothing")
	default:
		c.OK("clear-unconditional", c.P.Pos(fd.Decl.Pos()), "every entry of an unloaded slot is released, assigned or not - as every entry was counted by init")
	}
}

// jumpTipRecorded (stage-machine, C02/C20): the state jump makes block P the current block in the database in the
// same batch that records the stage "stale blocks removed"; a path to that marker which does not pass
// StoreAsCurrentBlock leaves the old tip (genesis) on disk over the state of P - a restart before the next block
// comes back at height 0 and starts the jump again over an emptied storage prefix.
func jumpTipRecorded(c *Ctx) {
	fd := c.P.Func("pkg/core", "Blockchain", "jumpToStateInternal")
	if fd == nil {
		c.Lost("jump-tip-recorded.anchor", "jumpToStateInternal not found")
		return
	}
	f := c.P.NewFuncCFG(fd)
	var markers []site
	for _, b := range f.G.Blocks {
		if !b.Live {
			continue
		}
		for i, nd := range b.Nodes {
			hit := false
			inspectNoLit(nd, func(x ast.Node) bool {
				if call, ok := x.(*ast.CallExpr); ok && len(call.Args) == 2 {
					m1 := f.DirectMentions(call.Args[1])
					if strings.HasSuffix(f.calleeSym(call), ".Put") && m1["pkg/core.staleBlocksRemoved"] {
						hit = true
					}
				}
				return true
			})
			if hit {
				markers = append(markers, site{blk: b, idx: i, node: nd})
			}
		}
	}
	stores := f.CallSites("pkg/core/dao.(*Simple).StoreAsCurrentBlock")
	if len(markers) == 0 || len(stores) == 0 {
		c.Lost("jump-tip-recorded.sites", fmt.Sprintf("marker writes: %d, StoreAsCurrentBlock calls: %d", len(markers), len(stores)))
		return
	}
	if ok, path := f.mustBefore(f.Entry(), markers, stores, nil); ok {
		c.OK("jump-tip-recorded", c.P.Pos(stores[0].call.Pos()), "every path to the 'stale blocks removed' marker records block P as the current block first")
	} else {
		c.Fail("jump-tip-recorded", c.P.Pos(markers[0].node.Pos()), "the state jump can record the stage 'stale blocks removed' without having stored block P as the current block: the database keeps the old tip over the state of P, and a restart before the next block comes back at the old height and starts the jump again", path...)
	}
}

// cleanBeforeSync (sync-guards, C11/C20): before a synchronisation starts on a genesis-only database the MPT records
// of the genesis state are removed, whatever the way the state is going to be delivered: the storage-item based sync
// builds its trie with PutBatch/Flush over what is in the store, so leftovers stay active outside any retained root
// and shared nodes start from the genesis counter. The call of CleanStorage in Module.Init is not conditioned on the
// synchronisation mode.
func cleanBeforeSync(c *Ctx) {
	fd := c.P.Func("pkg/core/statesync", "Module", "Init")
	if fd == nil {
		c.Lost("clean-before-sync.anchor", "statesync.Module.Init not found")
		return
	}
	f := c.P.NewFuncCFG(fd)
	n, bad := 0, ""
	var stack []ast.Node
	ast.Inspect(fd.Decl.Body, func(x ast.Node) bool {
		if x == nil {
			stack = stack[:len(stack)-1]
			return true
		}
		stack = append(stack, x)
		if call, ok := x.(*ast.CallExpr); ok && strings.HasSuffix(f.calleeSym(call), ".CleanStorage") {
			n++
			for _, a := range stack {
				if is, ok := a.(*ast.IfStmt); ok {
					for s := range f.DirectMentions(is.Cond) {
						if strings.HasSuffix(s, "statesync#mode") || strings.HasSuffix(s, "MPTBased") || strings.HasSuffix(s, "ContractStorageBased") {
							bad = types.ExprString(is.Cond)
						}
					}
				}
			}
		}
		return true
	})
	switch {
	case n == 0:
		c.Fail("clean-before-sync", c.P.Pos(fd.Decl.Pos()), "Module.Init no longer removes the genesis state's MPT records before a synchronisation starts")
	case bad != "":
		c.Fail("clean-before-sync", c.P.Pos(fd.Decl.Pos()), fmt.Sprintf("Module.Init removes the genesis state's MPT records only in one synchronisation mode (%s): in the other the trie of the sync point is built over the leftovers - genesis-only nodes stay active outside any retained root and shared nodes keep the genesis counter", bad))
	default:
		c.OK("clean-before-sync", c.P.Pos(fd.Decl.Pos()), "the genesis state's MPT records are removed before a synchronisation starts, in every mode")
	}
}

// ringWindowGate (chan-typestate's neighbour, C20): an element enters the ring only if its index lies within
// [height+1, height+cacheSize]: the slot of index i is also the slot of i-cacheSize, so an element from beyond the
// window lands on a pending element of the current one. Every path of Put to the store into the ring passes a
// comparison of the element's index with the chain height plus the cache size whose outcome is "inside the window" -
// the entry test and the re-test of the blocking mode's wait loop alike.
func ringWindowGate(c *Ctx) {
	fd := c.P.Func("pkg/network/bqueue", "Queue", "Put")
	if fd == nil {
		c.Lost("ring-window.anchor", "Queue.Put not found")
		return
	}
	f := c.P.NewFuncCFG(fd)
	var stores []site
	for _, w := range f.WriteSites("pkg/network/bqueue#queue") {
		stores = append(stores, w)
	}
	if len(stores) == 0 {
		c.Lost("ring-window.store", "no store into the ring found in Put")
		return
	}
	// window tests: conditions mentioning cacheSize and GetIndex; the "inside" outcome is the false branch of
	// `h+size < idx` and the true branch of `h+size >= idx`
	isWindow := func(e ast.Expr) (inside bool, ok bool) {
		be, isB := ast.Unparen(e).(*ast.BinaryExpr)
		if !isB {
			return false, false
		}
		m := f.DirectMentions(be)
		if !m["pkg/network/bqueue#cacheSize"] {
			return false, false
		}
		idxLeft := f.DirectMentions(be.X)["pkg/network/bqueue.(Indexable).GetIndex"] || mentionsSuffix(f.DirectMentions(be.X), ".GetIndex")
		idxRight := mentionsSuffix(f.DirectMentions(be.Y), ".GetIndex")
		if idxLeft == idxRight {
			return false, false
		}
		op := be.Op
		if idxLeft { // idx OP h+size  ==  h+size OP' idx
			op = map[token.Token]token.Token{token.LSS: token.GTR, token.GTR: token.LSS, token.LEQ: token.GEQ, token.GEQ: token.LEQ}[op]
		}
		switch op {
		case token.GEQ, token.GTR:
			return true, true // h+size >= idx is the inside outcome when true
		case token.LSS, token.LEQ:
			return false, true // h+size < idx: inside when false
		}
		return false, false
	}
	// structure: the entry test `height+size < index` guards the out-of-window handling; whatever leaves that handling
	// towards the store (a break out of the wait loop) must sit under a window test that came out "inside"
	nEntry, nBreak := 0, 0
	bad := token.NoPos
	ast.Inspect(fd.Decl.Body, func(x ast.Node) bool {
		is, ok := x.(*ast.IfStmt)
		if !ok {
			return true
		}
		in, isW := isWindow(is.Cond)
		if !isW || in {
			return true
		}
		nEntry++
		// loops inside the out-of-window branch
		ast.Inspect(is.Body, func(y ast.Node) bool {
			var body *ast.BlockStmt
			switch l := y.(type) {
			case *ast.ForStmt:
				body = l.Body
			case *ast.RangeStmt:
				body = l.Body
			default:
				return true
			}
			// breaks that leave this loop: not nested in an inner loop/switch/select
			var walk func(n ast.Node, conds []ast.Expr)
			walk = func(n ast.Node, conds []ast.Expr) {
				switch z := n.(type) {
				case *ast.BlockStmt:
					for _, st := range z.List {
						walk(st, conds)
					}
				case *ast.IfStmt:
					walk(z.Body, append(append([]ast.Expr{}, conds...), z.Cond))
					if z.Else != nil {
						walk(z.Else, conds)
					}
				case *ast.BranchStmt:
					if z.Tok == token.BREAK && z.Label == nil {
						nBreak++
						okb := false
						for _, cnd := range conds {
							if in2, w2 := isWindow(cnd); w2 && in2 {
								okb = true
							}
						}
						if !okb {
							bad = z.Pos()
						}
					}
				}
			}
			walk(body, nil)
			return false
		})
		return true
	})
	switch {
	case nEntry == 0:
		c.Fail("ring-window", c.P.Pos(fd.Decl.Pos()), "Queue.Put no longer compares the element's index with height+cacheSize: elements from beyond the window land on pending elements of the current one")
	case bad.IsValid():
		c.Fail("ring-window", c.P.Pos(bad), "the wait loop of Queue.Put (blocking mode) is left towards the store into the ring under a condition that is not 'index <= height+cacheSize': the slot of index i is the slot of i-cacheSize, so the far-ahead element replaces - or pre-empts - the element the ledger needs next, and nobody delivers that one again")
	default:
		c.OK("ring-window", c.P.Pos(stores[0].node.Pos()), fmt.Sprintf("the out-of-window branch of Put is left towards the store only under a window test that came out inside (%d exit(s))", nBreak))
	}
}

// allocAfterBound (limit-guards, C12): an instruction that allocates a buffer whose length is an operand taken from
// the stack compares the length with an upper bound - the length of the source or a Max* constant - before it calls
// make: a bare `make([]byte, l)` with l up to 2^31-1 allocates gigabytes and only then faults on the slice bounds
// (RIGHT did; its sibling LEFT checks first). Memory-safety is about the intermediate state, not only the outcome.
func allocAfterBound(c *Ctx) {
	fd := c.P.Func("pkg/vm", "VM", "execute")
	if fd == nil {
		c.Lost("alloc-after-bound.anchor", "VM.execute not found")
		return
	}
	f := c.P.NewFuncCFG(fd)
	info := f.Info
	n := 0
	ast.Inspect(fd.Decl.Body, func(x ast.Node) bool {
		cc, ok := x.(*ast.CaseClause)
		if !ok {
			return true
		}
		arm := ""
		for _, e := range cc.List {
			if tv := info.Types[e]; tv.Type != nil && namedTypeIs(tv.Type, "pkg/vm/opcode", "Opcode") {
				if sel, ok := ast.Unparen(e).(*ast.SelectorExpr); ok {
					arm = sel.Sel.Name
				}
			}
		}
		if arm == "" {
			return true
		}
		// operand locals: defined from toInt(...)
		operands := map[types.Object]bool{}
		for _, st := range cc.Body {
			ast.Inspect(st, func(y ast.Node) bool {
				if as, ok := y.(*ast.AssignStmt); ok && len(as.Lhs) == 1 && len(as.Rhs) == 1 {
					if call, ok := ast.Unparen(as.Rhs[0]).(*ast.CallExpr); ok && f.calleeSym(call) == "pkg/vm.toInt" {
						if id, ok := as.Lhs[0].(*ast.Ident); ok {
							operands[info.ObjectOf(id)] = true
						}
					}
				}
				return true
			})
		}
		if len(operands) == 0 {
			return false
		}
		for si, st := range cc.Body {
			ast.Inspect(st, func(y ast.Node) bool {
				call, ok := y.(*ast.CallExpr)
				if !ok || len(call.Args) < 2 {
					return true
				}
				if id, ok := call.Fun.(*ast.Ident); !ok || id.Name != "make" {
					return true
				}
				sz, ok := ast.Unparen(call.Args[1]).(*ast.Ident)
				if !ok || !operands[info.ObjectOf(sz)] {
					return true
				}
				n++
				key := "alloc-after-bound." + arm
				bounded := false
				for _, prev := range cc.Body[:si] {
					ast.Inspect(prev, func(z ast.Node) bool {
						is, ok := z.(*ast.IfStmt)
						if !ok {
							return true
						}
						mentionsOp, mentionsBound := false, false
						ast.Inspect(is.Cond, func(w ast.Node) bool {
							if sel, ok := w.(*ast.SelectorExpr); ok && sel.Sel.Name == "Len" {
								mentionsBound = true // the depth of a stack, the size of a collection
							}
							if id, ok := w.(*ast.Ident); ok {
								if info.ObjectOf(id) == info.ObjectOf(sz) {
									mentionsOp = true
								}
								// a local computed from the operand (last := l + o)
								if v, ok := info.ObjectOf(id).(*types.Var); ok && !f.params[v] {
									for _, d := range f.defs[v] {
										for _, r := range d.rhs {
											ast.Inspect(r, func(q ast.Node) bool {
												if qi, ok := q.(*ast.Ident); ok && info.ObjectOf(qi) == info.ObjectOf(sz) {
													mentionsOp = true
												}
												return true
											})
										}
									}
								}
								if cst, ok := info.ObjectOf(id).(*types.Const); ok && strings.HasPrefix(cst.Name(), "Max") {
									mentionsBound = true
								}
								if b, ok := info.ObjectOf(id).(*types.Builtin); ok && b.Name() == "len" {
									mentionsBound = true
								}
								// a local bound to len(...) in the if's init or earlier
								if v, ok := info.ObjectOf(id).(*types.Var); ok && !f.params[v] {
									for _, d := range f.defs[v] {
										for _, r := range d.rhs {
											if f.DirectMentions(r)["builtin.len"] {
												mentionsBound = true
											}
										}
									}
								}
							}
							return true
						})
						if mentionsOp && mentionsBound {
							bounded = true
						}
						return true
					})
				}
				if bounded {
					c.OK(key, c.P.Pos(call.Pos()), "the operand is compared with an upper bound before the buffer is allocated")
				} else {
					c.Fail(key, c.P.Pos(call.Pos()), fmt.Sprintf("%s allocates make(..., %s) with a length taken from the stack before comparing it with any upper bound (the source's length, a Max* limit): a length of 2^31-1 allocates 2 GiB and only then faults", arm, sz.Name))
				}
				return true
			})
		}
		return false
	})
	c.Floor("buffers allocated with an operand length", n, 2)
}

// ---------------------------------------------------------------------------
// pointer-script-match (C12) - a Pointer is an offset into the script that created it. CALLA may follow it only inside
// that very script: comparing script *hashes* is not enough, because a deployed contract runs under its contract hash,
// which stays the same when the contract is updated - a pointer taken from version 1 and called after a self-update
// lands at its old offset inside version 2, in the middle of an instruction, although both scripts passed the static
// check. The CALLA arm has to fault unless a method of Pointer that reads the pointer's script field, given the
// current context's script, agrees.
func rulePointerScriptMatch(c *Ctx) {
	fd := c.P.Func("pkg/vm", "VM", "execute")
	pk := c.P.Pkg("pkg/vm/stackitem")
	if fd == nil || pk == nil {
		c.Lost("pointer-script-match.anchor", "VM.execute / package stackitem not found")
		return
	}
	// methods of *Pointer whose body reads the script field
	readsScript := map[string]bool{}
	for _, m := range c.P.AllFuncDecls() {
		if m.Pkg != pk || m.Decl.Body == nil || m.Decl.Recv == nil {
			continue
		}
		if !namedTypeIsPtr(m.Obj.Type().(*types.Signature).Recv().Type(), "github.com/nspcc-dev/neo-go/pkg/vm/stackitem", "Pointer") {
			continue
		}
		mf := c.P.NewFuncCFG(m)
		ast.Inspect(m.Decl.Body, func(x ast.Node) bool {
			if e, ok := x.(ast.Expr); ok && mf.DirectMentions(e)["pkg/vm/stackitem#script"] {
				readsScript[FuncKey(m.Obj)] = true
			}
			return true
		})
	}
	// ... and that compare the script by content: a method with a []byte parameter that reads the field hands both to
	// bytes.Equal / slices.Equal / bytes.Compare (two versions of a contract's script can have one length)
	for _, m := range c.P.AllFuncDecls() {
		if m.Pkg != pk || m.Decl.Body == nil || !readsScript[FuncKey(m.Obj)] {
			continue
		}
		sig := m.Obj.Type().(*types.Signature)
		if sig.Params().Len() != 1 || sig.Results().Len() != 1 || !isBoolType(sig.Results().At(0).Type()) {
			continue
		}
		param := sig.Params().At(0)
		byContent := false
		ast.Inspect(m.Decl.Body, func(x ast.Node) bool {
			call, ok := x.(*ast.CallExpr)
			if !ok || len(call.Args) != 2 {
				return true
			}
			switch types.ExprString(call.Fun) {
			case "bytes.Equal", "slices.Equal", "bytes.Compare":
			default:
				return true
			}
			field, par := false, false
			for _, a := range call.Args {
				if se, ok := ast.Unparen(a).(*ast.SelectorExpr); ok && se.Sel.Name == "script" {
					field = true
				}
				if id, ok := ast.Unparen(a).(*ast.Ident); ok && m.Pkg.TypesInfo.ObjectOf(id) == param {
					par = true
				}
			}
			if field && par {
				byContent = true
			}
			return true
		})
		key := "pointer-script-match.by-content:" + shortSym(FuncKey(m.Obj))
		if byContent {
			c.OK(key, c.P.Pos(m.Decl.Pos()), "the pointer's script is compared with the given one byte by byte")
		} else {
			c.Fail(key, c.P.Pos(m.Decl.Pos()), FuncKey(m.Obj)+" decides whether the pointer belongs to a script without comparing the scripts' contents: two versions of one contract (same hash) with equal length and another instruction layout are taken for the same script, and CALLA follows a pointer of the old version into the middle of an operand of the new one")
		}
	}
	f := c.P.NewFuncCFG(fd)
	info := f.Info
	found, ok2 := false, false
	ast.Inspect(fd.Decl.Body, func(x ast.Node) bool {
		cc, ok := x.(*ast.CaseClause)
		if !ok {
			return true
		}
		isCalla := false
		for _, e := range cc.List {
			if sel, ok := ast.Unparen(e).(*ast.SelectorExpr); ok && sel.Sel.Name == "CALLA" && namedTypeIs(info.TypeOf(e), "pkg/vm/opcode", "Opcode") {
				isCalla = true
			}
		}
		if !isCalla {
			return true
		}
		found = true
		for _, st := range cc.Body {
			is, ok := st.(*ast.IfStmt)
			if !ok || len(is.Body.List) == 0 {
				continue
			}
			// panicking body
			pan := false
			ast.Inspect(is.Body, func(y ast.Node) bool {
				if call, ok := y.(*ast.CallExpr); ok && f.calleeSym(call) == "builtin.panic" {
					pan = true
				}
				return true
			})
			if !pan {
				continue
			}
			ast.Inspect(is.Cond, func(y ast.Node) bool {
				if call, ok := y.(*ast.CallExpr); ok && readsScript[f.calleeSym(call)] && len(call.Args) == 1 {
					if f.DirectMentions(call.Args[0])["pkg/vm#prog"] {
						ok2 = true
					}
				}
				return true
			})
		}
		return false
	})
	switch {
	case !found:
		c.Lost("pointer-script-match.arm", "no CALLA arm in VM.execute")
	case ok2:
		c.OK("pointer-script-match", c.P.Pos(fd.Decl.Pos()), "CALLA faults unless the pointer's own script is the script of the current context")
	default:
		c.Fail("pointer-script-match", c.P.Pos(fd.Decl.Pos()), "CALLA accepts a pointer on the strength of its script hash alone: for a deployed contract that is the contract hash, which survives an update, so a pointer taken from the old script is followed into the new one at its old offset - an offset that need not be an instruction boundary there")
	}
}

// canonicalNodeBytes (sync-guards, C20): the pool of missing MPT nodes is keyed by node hashes, and a node's hash is
// the hash of its *canonical* encoding - children referenced by hash. The decoder also accepts children serialised
// inline; such a node has the expected hash, is taken from the pool and restored, but its inline children are not
// hash nodes: they are never requested, never stored, their storage items never written, and the module reports the
// MPT as synchronised with items missing. AddMPTNodes has to compare the received bytes with the re-encoded node
// (Bytes()) before it hands the node to restoreNode.
func canonicalNodeBytes(c *Ctx) {
	fd := c.P.Func("pkg/core/statesync", "Module", "AddMPTNodes")
	if fd == nil {
		c.Lost("canonical-node-bytes.anchor", "statesync.Module.AddMPTNodes not found")
		return
	}
	f := c.P.NewFuncCFG(fd)
	restores := f.CallSites("pkg/core/statesync.(*Module).restoreNode")
	if len(restores) == 0 {
		c.Lost("canonical-node-bytes.restore", "AddMPTNodes no longer calls restoreNode")
		return
	}
	// a rejecting if whose condition compares (bytes.Equal / bytes.HasPrefix) something with a call of Node.Bytes()
	var checks []site
	for _, b := range f.G.Blocks {
		if !b.Live {
			continue
		}
		cond := f.Cond(b)
		if cond == nil {
			continue
		}
		hit := false
		ast.Inspect(cond, func(x ast.Node) bool {
			if call, ok := x.(*ast.CallExpr); ok {
				cs := f.calleeSym(call)
				if cs == "bytes.Equal" || cs == "bytes.HasPrefix" {
					for _, a := range call.Args {
						if mentionsSuffix(f.DirectMentions(a), ".Bytes") {
							hit = true
						}
					}
				}
			}
			return true
		})
		if hit && len(b.Nodes) > 0 {
			checks = append(checks, site{blk: b, idx: len(b.Nodes) - 1, node: b.Nodes[len(b.Nodes)-1]})
		}
	}
	if len(checks) == 0 {
		c.Fail("canonical-node-bytes", c.P.Pos(restores[0].call.Pos()), "AddMPTNodes hands a decoded node to restoreNode without comparing the received bytes with the node's canonical encoding: a node whose children are serialised inline has the hash the pool expects, but its children are never requested or stored - the MPT is reported synchronised with contract storage items missing")
		return
	}
	if ok, path := f.mustBefore(f.Entry(), restores, checks, nil); ok {
		c.OK("canonical-node-bytes", c.P.Pos(checks[0].node.Pos()), "received node bytes are compared with the canonical encoding before the node is restored")
	} else {
		c.Fail("canonical-node-bytes", c.P.Pos(restores[0].call.Pos()), "a path of AddMPTNodes reaches restoreNode without the comparison of the received bytes with the node's canonical encoding", path...)
	}
}

// ---------------------------------------------------------------------------
// write-before-callout (C05, C01) - a native that pays out with the payment callback switched on hands control to
// the receiver's onNEP17Payment, which can call the native back. Everything the native has decided by then (the voter's
// account with its new vote and balance height) has to be in storage before the callout: a storage write that sits
// after the callout - behind it in the same function, or inside a function literal the function creates (the
// continuation runs after the callee returned) - writes back a record computed before the callback and overwrites
// whatever the callback did (NEO supply no longer equals the sum of balances, a tally goes negative).
func ruleWriteBeforeCallout(c *Ctx) {
	sources, ok := paymentCallbackSources(c)
	if !ok {
		c.Lost("write-before-callout.anchor", "the payment-callback switch was not found")
		return
	}
	writers := map[string]bool{"pkg/core/dao.(*Simple).PutStorageItem": true, "pkg/core/dao.(*Simple).PutBigInt": true, "pkg/core/dao.(*Simple).DeleteStorageItem": true, "pkg/core/dao.(*Simple).PutStorageConvertible": true}
	// helpers of the natives that do nothing but such a write (removeDepositFor, putDepositFor ...): one level
	for _, hd := range c.P.AllFuncDecls() {
		if hd.Decl.Body == nil || pkgRel(hd.Pkg.Types) != "pkg/core/native" || len(hd.Decl.Body.List) > 6 {
			continue
		}
		hf := c.P.NewFuncCFG(hd)
		direct := false
		inspectNoLit(hd.Decl.Body, func(x ast.Node) bool {
			if ce, ok := x.(*ast.CallExpr); ok {
				switch hf.calleeSym(ce) {
				case "pkg/core/dao.(*Simple).PutStorageItem", "pkg/core/dao.(*Simple).PutBigInt", "pkg/core/dao.(*Simple).DeleteStorageItem", "pkg/core/dao.(*Simple).PutStorageConvertible":
					direct = true
				}
			}
			return true
		})
		if direct {
			writers[FuncKey(hd.Obj)] = true
		}
	}
	n := 0
	var fns []*ssa.Function
	for fn := range sources {
		fns = append(fns, fn)
	}
	sort.Slice(fns, func(i, j int) bool { return FnKey(fns[i]) < FnKey(fns[j]) })
	for _, fn := range fns {
		obj, _ := fn.Object().(*types.Func)
		if obj == nil {
			continue
		}
		fd := c.P.DeclOf(obj)
		if fd == nil || fd.Decl.Body == nil {
			continue
		}
		n++
		f := c.P.NewFuncCFG(fd)
		// the callout: the call recorded as the source
		var callPos token.Pos
		ast.Inspect(fd.Decl.Body, func(x ast.Node) bool {
			if ce, ok := x.(*ast.CallExpr); ok && c.P.Pos(ce.Pos()) == sources[fn] {
				callPos = ce.Pos()
			}
			return true
		})
		key := "write-before-callout." + FuncKey(obj)
		bad := ""
		var lits []*ast.FuncLit
		ast.Inspect(fd.Decl.Body, func(x ast.Node) bool {
			if fl, ok := x.(*ast.FuncLit); ok {
				lits = append(lits, fl)
			}
			return true
		})
		inLit := func(p token.Pos) bool {
			for _, fl := range lits {
				if fl.Pos() <= p && p < fl.End() {
					return true
				}
			}
			return false
		}
		ast.Inspect(fd.Decl.Body, func(x ast.Node) bool {
			ce, ok := x.(*ast.CallExpr)
			if !ok || !writers[f.calleeSym(ce)] {
				return true
			}
			switch {
			case inLit(ce.Pos()):
				bad = fmt.Sprintf("%s inside a function literal (it runs after the callout returned) at %s", shortSym(f.calleeSym(ce)), c.P.Pos(ce.Pos()))
			case callPos.IsValid() && ce.Pos() > callPos:
				bad = fmt.Sprintf("%s behind the callout at %s", shortSym(f.calleeSym(ce)), c.P.Pos(ce.Pos()))
			}
			return true
		})
		if bad == "" {
			c.OK(key, c.P.Pos(fd.Decl.Pos()), "every storage write of the function precedes the payment with the callback on")
		} else {
			c.Fail(key, c.P.Pos(fd.Decl.Pos()), fmt.Sprintf("%s pays out with the payment callback switched on (%s) and writes storage afterwards: %s - the record was computed before the receiver's onNEP17Payment ran and overwrites what a re-entrant call did in between", FuncKey(obj), sources[fn], bad))
		}
	}
	c.Floor("functions that pay out with the callback on", n, 2)
	// the second family: a native that calls contract code through contract.CallFromNative and goes on in a
	// continuation. The continuation runs after arbitrary contract code (the token's transfer, the receiver's payment
	// callback); what it writes was decided before that code ran. Notary.withdraw removes the deposit *before* it
	// sends the GAS for that reason - removed (again) in the continuation, a deposit the receiver's callback made
	// in between is deleted while its GAS stays with Notary.
	m := 0
	for _, fd := range c.P.AllFuncDecls() {
		if fd.Decl.Body == nil || pkgRel(fd.Pkg.Types) != "pkg/core/native" {
			continue
		}
		f := c.P.NewFuncCFG(fd)
		ast.Inspect(fd.Decl.Body, func(x ast.Node) bool {
			ce, ok := x.(*ast.CallExpr)
			if !ok || f.calleeSym(ce) != "pkg/core/interop/contract.CallFromNative" {
				return true
			}
			for _, a := range ce.Args {
				fl, ok := ast.Unparen(a).(*ast.FuncLit)
				if !ok {
					continue
				}
				m++
				key := fmt.Sprintf("write-before-callout.continuation.%s#%d", shortSym(FuncKey(fd.Obj)), m)
				bad := ""
				ast.Inspect(fl.Body, func(y ast.Node) bool {
					if inner, ok := y.(*ast.CallExpr); ok && writers[f.calleeSym(inner)] {
						bad = shortSym(f.calleeSym(inner)) + " at " + c.P.Pos(inner.Pos())
					}
					return true
				})
				if bad == "" {
					c.OK(key, c.P.Pos(fl.Pos()), "the continuation of the call into contract code writes no storage record")
				} else {
					c.Fail(key, c.P.Pos(fl.Pos()), fmt.Sprintf("%s calls contract code (contract.CallFromNative) and writes storage in the continuation that runs after it (%s): the write was decided before the called contract - and whatever it called back - ran, and undoes what they did in between (a deposit made by the receiver's payment callback is deleted while its GAS stays in the contract)", FuncKey(fd.Obj), bad))
				}
			}
			return true
		})
	}
	c.Floor("continuations behind calls into contract code", m, 3)
}

// ---------------------------------------------------------------------------
// fresh-under-lock (C06, C20) - a method that decides under its receiver's write lock ("is this header the next
// one?") must take what it compares with inside the critical section. A value obtained from a *locked accessor* of
// the same receiver before the Lock() - HeaderHeight() takes and releases the read lock - is a snapshot from before
// the lock: two deliveries of one header both read the same height, both pass the test and the header is appended
// twice. No local defined before the receiver's Lock() call from a method of the same receiver is mentioned in a
// condition after it.
func ruleFreshUnderLock(c *Ctx, pkgs ...string) {
	in := map[string]bool{}
	for _, p := range pkgs {
		in[p] = true
	}
	n := 0
	for _, fd := range c.P.AllFuncDecls() {
		if fd.Decl.Body == nil || fd.Decl.Recv == nil || !in[pkgRel(fd.Pkg.Types)] || len(fd.Decl.Recv.List) == 0 || len(fd.Decl.Recv.List[0].Names) == 0 {
			continue
		}
		info := fd.Pkg.TypesInfo
		recv := info.ObjectOf(fd.Decl.Recv.List[0].Names[0])
		// the first recv.<mutex>.Lock() call
		lockPos := token.NoPos
		ast.Inspect(fd.Decl.Body, func(x ast.Node) bool {
			if lockPos.IsValid() {
				return false
			}
			ce, ok := x.(*ast.CallExpr)
			if !ok {
				return true
			}
			sel, ok := ce.Fun.(*ast.SelectorExpr)
			if !ok || sel.Sel.Name != "Lock" {
				return true
			}
			if inner, ok := ast.Unparen(sel.X).(*ast.SelectorExpr); ok {
				if id, ok := ast.Unparen(inner.X).(*ast.Ident); ok && info.ObjectOf(id) == recv {
					if fn, ok := info.ObjectOf(sel.Sel).(*types.Func); ok && fn.Pkg() != nil && fn.Pkg().Path() == "sync" {
						lockPos = ce.Pos()
					}
				}
			}
			return true
		})
		if !lockPos.IsValid() {
			continue
		}
		n++
		// locals defined before the lock from a method call on the receiver
		stale := map[types.Object]string{}
		ast.Inspect(fd.Decl.Body, func(x ast.Node) bool {
			var lhs []ast.Expr
			var rhs []ast.Expr
			switch s := x.(type) {
			case *ast.AssignStmt:
				if s.Tok == token.DEFINE {
					lhs, rhs = s.Lhs, s.Rhs
				}
			case *ast.ValueSpec:
				for _, nm := range s.Names {
					lhs = append(lhs, nm)
				}
				rhs = s.Values
			}
			if len(lhs) == 0 || len(rhs) == 0 || x.Pos() > lockPos {
				return true
			}
			for i, l := range lhs {
				id, ok := l.(*ast.Ident)
				if !ok || i >= len(rhs) {
					continue
				}
				ast.Inspect(rhs[i], func(y ast.Node) bool {
					if ce, ok := y.(*ast.CallExpr); ok {
						if sel, ok := ce.Fun.(*ast.SelectorExpr); ok {
							if rid, ok := ast.Unparen(sel.X).(*ast.Ident); ok && info.ObjectOf(rid) == recv {
								if mfn, isFn := info.ObjectOf(sel.Sel).(*types.Func); isFn && takesOwnLock(c, mfn) {
									stale[info.ObjectOf(id)] = sel.Sel.Name
								}
							}
						}
					}
					return true
				})
			}
			return true
		})
		key := "fresh-under-lock." + FuncKey(fd.Obj)
		bad := ""
		// check-then-lock: an if *before* the Lock() that asks a locked accessor of the receiver and leaves the function
		// on the answer has decided on a snapshot; the decision has to be made again under the lock
		ast.Inspect(fd.Decl.Body, func(x ast.Node) bool {
			is, ok := x.(*ast.IfStmt)
			if !ok || is.Pos() > lockPos || len(is.Body.List) == 0 {
				return true
			}
			if _, isRet := is.Body.List[len(is.Body.List)-1].(*ast.ReturnStmt); !isRet {
				return true
			}
			acc := ""
			ast.Inspect(is.Cond, func(y ast.Node) bool {
				if ce, ok := y.(*ast.CallExpr); ok {
					if sel, ok := ce.Fun.(*ast.SelectorExpr); ok {
						if rid, ok := ast.Unparen(sel.X).(*ast.Ident); ok && info.ObjectOf(rid) == recv {
							if mfn, isFn := info.ObjectOf(sel.Sel).(*types.Func); isFn && takesOwnLock(c, mfn) {
								acc = sel.Sel.Name
							}
						}
					}
				}
				return true
			})
			if acc == "" {
				return true
			}
			// is the same question asked again after the lock (the unlocked twin: containsKey for ContainsKey)?
			again := false
			ast.Inspect(fd.Decl.Body, func(y ast.Node) bool {
				if ce, ok := y.(*ast.CallExpr); ok && ce.Pos() > lockPos {
					if sel, ok := ce.Fun.(*ast.SelectorExpr); ok && strings.EqualFold(sel.Sel.Name, acc) {
						again = true
					}
				}
				return true
			})
			if !again {
				bad = fmt.Sprintf("the test of %s() at %s is made before the lock is taken and not repeated under it", acc, c.P.Pos(is.Pos()))
			}
			return true
		})
		ast.Inspect(fd.Decl.Body, func(x ast.Node) bool {
			var cond ast.Expr
			switch s := x.(type) {
			case *ast.IfStmt:
				cond = s.Cond
			case *ast.ForStmt:
				cond = s.Cond
			}
			if cond == nil || cond.Pos() < lockPos {
				return true
			}
			ast.Inspect(cond, func(y ast.Node) bool {
				if id, ok := y.(*ast.Ident); ok {
					if m, ok := stale[info.ObjectOf(id)]; ok {
						bad = fmt.Sprintf("%s (from %s(), taken before the lock) in the condition at %s", id.Name, m, c.P.Pos(cond.Pos()))
					}
				}
				return true
			})
			return true
		})
		if bad == "" {
			c.OK(key, c.P.Pos(fd.Decl.Pos()), "nothing read from the receiver before its Lock() is compared inside the critical section")
		} else {
			c.Fail(key, c.P.Pos(fd.Decl.Pos()), fmt.Sprintf("%s decides under its write lock with a value it read from the receiver before taking the lock: %s - two callers can both read the same value, both pass the test and both act (a header appended twice shifts every later index by one)", FuncKey(fd.Obj), bad))
		}
	}
	c.Floor("methods taking their receiver's lock", n, 3)
}

// takesOwnLock: does the method lock (RLock/Lock) a mutex field of its own receiver? Such an accessor hands out a
// snapshot: the value is current only until the accessor returns.
func takesOwnLock(c *Ctx, fn *types.Func) bool {
	fd := c.P.DeclOf(fn.Origin())
	if fd == nil || fd.Decl.Body == nil || fd.Decl.Recv == nil || len(fd.Decl.Recv.List) == 0 || len(fd.Decl.Recv.List[0].Names) == 0 {
		return false
	}
	info := fd.Pkg.TypesInfo
	recv := info.ObjectOf(fd.Decl.Recv.List[0].Names[0])
	found := false
	ast.Inspect(fd.Decl.Body, func(x ast.Node) bool {
		ce, ok := x.(*ast.CallExpr)
		if !ok {
			return true
		}
		sel, ok := ce.Fun.(*ast.SelectorExpr)
		if !ok || (sel.Sel.Name != "RLock" && sel.Sel.Name != "Lock") {
			return true
		}
		if inner, ok := ast.Unparen(sel.X).(*ast.SelectorExpr); ok {
			if id, ok := ast.Unparen(inner.X).(*ast.Ident); ok && info.ObjectOf(id) == recv {
				found = true
			}
		}
		return true
	})
	return found
}

// ---------------------------------------------------------------------------
// buffer-owns-bytes (C04, C13) - a Buffer is the one mutable byte item; instructions write into it in place. A
// Buffer built over bytes that another item (or the storage layer behind System.Storage.Get) still holds lets a
// script change that other value without any write permission, outside every rollback scope. In vm.execute the
// argument of stackitem.NewBuffer is a fresh allocation: make(...), or a local all of whose definitions are
// make(...) or a cloning call.
func ruleBufferOwnsBytes(c *Ctx) {
	fd := c.P.Func("pkg/vm", "VM", "execute")
	if fd == nil {
		c.Lost("buffer-owns-bytes.anchor", "VM.execute not found")
		return
	}
	f := c.P.NewFuncCFG(fd)
	info := f.Info
	fresh := func(e ast.Expr) bool {
		call, ok := ast.Unparen(e).(*ast.CallExpr)
		if !ok {
			return false
		}
		if id, ok := call.Fun.(*ast.Ident); ok && id.Name == "make" {
			return true
		}
		switch f.calleeSym(call) {
		case "bytes.Clone", "slices.Clone":
			return true
		}
		return false
	}
	n := 0
	seen := map[string]int{}
	for _, s := range f.CallSites("pkg/vm/stackitem.NewBuffer") {
		if len(s.call.Args) != 1 {
			continue
		}
		n++
		arm := enclosingOpcodeArm(c, fd, s.call.Pos())
		seen[arm]++
		key := fmt.Sprintf("buffer-owns-bytes.%s#%d", arm, seen[arm])
		arg := ast.Unparen(s.call.Args[0])
		ok := fresh(arg)
		if id, isId := arg.(*ast.Ident); isId && !ok {
			if v, isVar := info.ObjectOf(id).(*types.Var); isVar && !f.params[v] && len(f.defs[v]) > 0 {
				ok = true
				for _, d := range f.defs[v] {
					for _, r := range d.rhs {
						if !fresh(r) {
							ok = false
						}
					}
				}
			}
		}
		if ok {
			c.OK(key, c.P.Pos(s.call.Pos()), "the buffer is built over a fresh allocation")
		} else {
			c.Fail(key, c.P.Pos(s.call.Pos()), fmt.Sprintf("%s pushes a Buffer built over %s, bytes that are not a fresh allocation of the instruction: the buffer is writable in place, so the script changes the item (or the stored value behind System.Storage.Get) those bytes belong to - without WriteStates and outside every rollback scope", arm, trunc(types.ExprString(arg), 60)))
		}
	}
	c.Floor("buffers pushed by instructions", n, 5)
}

// continuationFreshCache (continuation-fresh-index, C01/C04): a native cache object is valid for the DAO layer it was
// taken from; while a contract callout runs, nested layers are created and committed and the cache object of the
// layer is *replaced*. A continuation (a function literal handed to a ...Deferrable call, directly or through a
// local) therefore has to fetch the cache again; a cache pointer captured from the enclosing function is an orphan
// by the time the continuation runs - what it writes is lost, while the storage record is kept.
func continuationFreshCache(c *Ctx) {
	pk := c.P.Pkg("pkg/core/native")
	if pk == nil {
		return
	}
	info := pk.TypesInfo
	isCachePtr := func(t types.Type) bool {
		p, ok := t.(*types.Pointer)
		if !ok {
			return false
		}
		nt, ok := p.Elem().(*types.Named)
		return ok && nt.Obj().Pkg() == pk.Types && strings.HasSuffix(nt.Obj().Name(), "Cache")
	}
	n := 0
	for _, fd := range c.P.AllFuncDecls() {
		if fd.Pkg != pk || fd.Decl.Body == nil {
			continue
		}
		// literals handed to a ...Deferrable callee: directly, or through a local bound to the literal
		litOf := map[types.Object]*ast.FuncLit{}
		ast.Inspect(fd.Decl.Body, func(x ast.Node) bool {
			if as, ok := x.(*ast.AssignStmt); ok && len(as.Lhs) == 1 && len(as.Rhs) == 1 {
				if fl, ok := as.Rhs[0].(*ast.FuncLit); ok {
					if id, ok := as.Lhs[0].(*ast.Ident); ok {
						litOf[info.ObjectOf(id)] = fl
					}
				}
			}
			return true
		})
		var conts []*ast.FuncLit
		ast.Inspect(fd.Decl.Body, func(x ast.Node) bool {
			call, ok := x.(*ast.CallExpr)
			if !ok {
				return true
			}
			cf := calleeFunc(info, call)
			if cf == nil || !strings.Contains(cf.Name(), "Deferrable") {
				return true
			}
			for _, a := range call.Args {
				switch y := ast.Unparen(a).(type) {
				case *ast.FuncLit:
					conts = append(conts, y)
				case *ast.Ident:
					if fl := litOf[info.ObjectOf(y)]; fl != nil {
						conts = append(conts, fl)
					}
				}
			}
			return true
		})
		k := 0
		for _, fl := range conts {
			n++
			bad := ""
			ast.Inspect(fl.Body, func(x ast.Node) bool {
				id, ok := x.(*ast.Ident)
				if !ok {
					return true
				}
				v, ok := info.ObjectOf(id).(*types.Var)
				if !ok || v.IsField() || !isCachePtr(v.Type()) {
					return true
				}
				if v.Pos() < fl.Pos() && v.Pos() > fd.Decl.Pos() {
					bad = id.Name
				}
				return true
			})
			k++
			key := fmt.Sprintf("continuation-fresh-cache.%s#%d", FuncKey(fd.Obj), k)
			if bad == "" {
				c.OK(key, c.P.Pos(fl.Pos()), "the continuation takes the native cache from the DAO itself")
			} else {
				c.Fail(key, c.P.Pos(fl.Pos()), fmt.Sprintf("a continuation of %s (it runs after a contract callout) uses the native cache pointer %s captured from the enclosing function: a nested layer committed during the callout replaces the layer's cache object, so the continuation updates an orphan - the storage record is written, the live cache never learns of it until a restart", FuncKey(fd.Obj), bad))
			}
		}
	}
	c.Floor("continuations handed to deferrable natives", n, 5)
}

// ---------------------------------------------------------------------------
// gc-units (C02) - the collector's arithmetic mixes three units: block heights, counts of GC periods
// (height / GarbageCollectionPeriod) and header-hash page numbers (height / headerBatchCount). The test that protects
// the page of header hashes that is not stored yet compares *page numbers*; written with a period count on one side
// it never holds for real heights and the collector deletes block records HeaderHashes.init walks on the next start.
// A small unit inference over the functions of package core that mention one of the two divisors: heights come
// from BlockHeight/HeaderHeight/persistedHeight/GetMaxTraceableBlocks and from parameters (units taken from the call
// sites), /GarbageCollectionPeriod turns a height into periods and * back, /headerBatchCount into pages and * back;
// both sides of a comparison must have the same unit.
func ruleGCUnits(c *Ctx) {
	pk := c.P.Pkg("pkg/core")
	if pk == nil {
		c.Lost("gc-units.anchor", "package core not found")
		return
	}
	info := pk.TypesInfo
	const (
		uH, uP, uG, uD, uQ = "height", "periods", "pages", "number", "?"
		sGCP, sHBC         = "GCP", "HBC"
	)
	special := func(e ast.Expr) string {
		e = ast.Unparen(e)
		if call, ok := e.(*ast.CallExpr); ok && len(call.Args) == 1 {
			if tv := info.Types[call.Fun]; tv.IsType() {
				e = ast.Unparen(call.Args[0])
			}
		}
		switch x := e.(type) {
		case *ast.SelectorExpr:
			if x.Sel.Name == "GarbageCollectionPeriod" {
				return sGCP
			}
		case *ast.Ident:
			if cst, ok := info.ObjectOf(x).(*types.Const); ok && cst.Name() == "headerBatchCount" {
				return sHBC
			}
		}
		return ""
	}
	inScope := map[*FuncDecl]bool{}
	var scope []*FuncDecl
	for _, fd := range c.P.AllFuncDecls() {
		if fd.Pkg != pk || fd.Decl.Body == nil {
			continue
		}
		hit := false
		ast.Inspect(fd.Decl.Body, func(x ast.Node) bool {
			if e, ok := x.(ast.Expr); ok && special(e) != "" {
				hit = true
			}
			return !hit
		})
		if hit {
			inScope[fd] = true
			scope = append(scope, fd)
		}
	}
	sort.Slice(scope, func(i, j int) bool { return FuncKey(scope[i].Obj) < FuncKey(scope[j].Obj) })
	paramUnit := map[types.Object]string{}
	type finding struct {
		fd  *FuncDecl
		pos token.Pos
		msg string
	}
	var findings []finding
	nCmp := 0
	var analyse func(fd *FuncDecl, report bool)
	analyse = func(fd *FuncDecl, report bool) {
		env := map[types.Object]string{}
		sig := fd.Obj.Type().(*types.Signature)
		for i := 0; i < sig.Params().Len(); i++ {
			if u, ok := paramUnit[sig.Params().At(i)]; ok {
				env[sig.Params().At(i)] = u
			}
		}
		var eval func(e ast.Expr) string
		eval = func(e ast.Expr) string {
			e = ast.Unparen(e)
			if tv, ok := info.Types[e]; ok && tv.Value != nil && special(e) == "" {
				return uD
			}
			switch x := e.(type) {
			case *ast.Ident:
				if u, ok := env[info.ObjectOf(x)]; ok {
					return u
				}
			case *ast.CallExpr:
				if tv := info.Types[x.Fun]; tv.IsType() && len(x.Args) == 1 {
					return eval(x.Args[0])
				}
				if id, ok := x.Fun.(*ast.Ident); ok && (id.Name == "min" || id.Name == "max") {
					u := uD
					for _, a := range x.Args {
						if au := eval(a); au != uD && au != uQ {
							u = au
						}
					}
					return u
				}
				name := ""
				switch f := x.Fun.(type) {
				case *ast.SelectorExpr:
					name = f.Sel.Name
				case *ast.Ident:
					name = f.Name
				}
				switch name {
				case "BlockHeight", "HeaderHeight", "GetMaxTraceableBlocks":
					return uH
				case "LoadUint32":
					for _, a := range x.Args {
						found := false
						ast.Inspect(a, func(y ast.Node) bool {
							if s, ok := y.(*ast.SelectorExpr); ok && s.Sel.Name == "persistedHeight" {
								found = true
							}
							return true
						})
						if found {
							return uH
						}
					}
				}
			case *ast.BinaryExpr:
				sx, sy := special(x.X), special(x.Y)
				switch x.Op {
				case token.QUO:
					a := eval(x.X)
					switch {
					case sy == sGCP && a == uH:
						return uP
					case sy == sHBC && a == uH:
						return uG
					case sy != "" && a != uQ && a != uD:
						if report {
							findings = append(findings, finding{fd, x.Pos(), fmt.Sprintf("`%s` divides %s by the %s", types.ExprString(x), a, map[string]string{sGCP: "length of a GC period", sHBC: "size of a header-hash page"}[sy])})
						}
						return uQ
					case sy != "":
						return uQ
					}
					b := eval(x.Y)
					if b == uD {
						return a
					}
					return uQ
				case token.MUL:
					a, b := eval(x.X), eval(x.Y)
					switch {
					case sy == sGCP && a == uP, sx == sGCP && b == uP:
						return uH
					case sy == sHBC && a == uG, sx == sHBC && b == uG:
						return uH
					case sy != "" || sx != "":
						return uQ
					case a == uD:
						return b
					case b == uD:
						return a
					}
					return uQ
				case token.ADD, token.SUB:
					a, b := eval(x.X), eval(x.Y)
					if sx != "" {
						a = uH
					}
					if sy != "" {
						b = uH
					}
					switch {
					case a == b:
						return a
					case a == uD:
						return b
					case b == uD:
						return a
					}
					return uQ
				}
			}
			return uQ
		}
		var walk func(n ast.Node)
		walk = func(n ast.Node) {
			ast.Inspect(n, func(x ast.Node) bool {
				switch s := x.(type) {
				case *ast.FuncLit:
					return false
				case *ast.AssignStmt:
					for i, l := range s.Lhs {
						id, ok := l.(*ast.Ident)
						if !ok || i >= len(s.Rhs) {
							continue
						}
						o := info.ObjectOf(id)
						switch s.Tok {
						case token.DEFINE, token.ASSIGN:
							env[o] = eval(s.Rhs[i])
						case token.QUO_ASSIGN:
							env[o] = eval(&ast.BinaryExpr{X: id, Op: token.QUO, Y: s.Rhs[i]})
						case token.MUL_ASSIGN:
							env[o] = eval(&ast.BinaryExpr{X: id, Op: token.MUL, Y: s.Rhs[i]})
						case token.ADD_ASSIGN, token.SUB_ASSIGN:
							env[o] = eval(&ast.BinaryExpr{X: id, Op: token.ADD, Y: s.Rhs[i]})
						}
					}
				case *ast.ValueSpec:
					for i, nm := range s.Names {
						if i < len(s.Values) {
							env[info.Defs[nm]] = eval(s.Values[i])
						}
					}
				case *ast.BinaryExpr:
					switch s.Op {
					case token.EQL, token.NEQ, token.LSS, token.GTR, token.LEQ, token.GEQ:
						a, b := eval(s.X), eval(s.Y)
						if special(s.X) != "" {
							a = uH
						}
						if special(s.Y) != "" {
							b = uH
						}
						known := func(u string) bool { return u == uH || u == uP || u == uG }
						if known(a) && known(b) {
							if report {
								nCmp++
							}
							if a != b && report {
								findings = append(findings, finding{fd, s.Pos(), fmt.Sprintf("`%s` compares %s with %s", trunc(types.ExprString(s), 90), a, b)})
							}
						}
					}
				case *ast.CallExpr:
					// units of arguments flow into the parameters of the callee (functions of the scope)
					if cf := calleeFunc(info, s); cf != nil {
						if cd := c.P.DeclOf(cf); cd != nil && inScope[cd] {
							csig := cf.Type().(*types.Signature)
							for i, a := range s.Args {
								if i < csig.Params().Len() {
									if u := eval(a); u == uH || u == uP || u == uG {
										paramUnit[csig.Params().At(i)] = u
									}
								}
							}
						}
					}
				}
				return true
			})
		}
		walk(fd.Decl.Body)
	}
	// callers first (two rounds reach a fixpoint for this call depth), reports in the last round
	for _, fd := range c.P.AllFuncDecls() {
		if fd.Pkg == pk && fd.Decl.Body != nil && !inScope[fd] {
			analyse(fd, false)
		}
	}
	for range 2 {
		for _, fd := range scope {
			analyse(fd, false)
		}
	}
	for _, fd := range scope {
		analyse(fd, true)
	}
	bad := map[*FuncDecl][]finding{}
	for _, f := range findings {
		bad[f.fd] = append(bad[f.fd], f)
	}
	for _, fd := range scope {
		key := "gc-units." + FuncKey(fd.Obj)
		if fs := bad[fd]; len(fs) > 0 {
			c.Fail(key, c.P.Pos(fs[0].pos), fmt.Sprintf("%s mixes units: %s - a test between a count of GC periods, a block height and a header-hash page number holds for other heights than the one it was written for (the guard that keeps the collector off the page HeaderHashes.init walks on start never fires)", FuncKey(fd.Obj), fs[0].msg))
		} else {
			c.OK(key, c.P.Pos(fd.Decl.Pos()), "every comparison whose operands have known units compares like with like")
		}
	}
	c.Floor("functions doing period/page arithmetic", len(scope), 4)
	c.Floor("comparisons with known units on both sides", nCmp, 3)
}

// atomicStage (stage-machine, C02/C20): the store behind bc.dao is flushed by a timer that asks nobody; two Puts
// made to it directly can end up in different flushes, and a crash between them leaves half a stage on disk (the
// swapped storage prefix without the stage marker that says so: the resumed stage swaps it back). A stage clause of
// the jump or the reset that writes more than one thing makes its writes in a private layer and merges that layer
// once (Persist of a private layer is one PutChangeSet under the store's lock); at most one direct write to bc.dao
// per clause - the marker of a stage that has nothing else to record.
func atomicStage(c *Ctx) {
	for _, name := range []string{"jumpToStateInternal", "resetStateInternal"} {
		fd := c.P.Func("pkg/core", "Blockchain", name)
		if fd == nil {
			c.Lost("atomic-stage."+name+".anchor", name+" not found")
			continue
		}
		f := c.P.NewFuncCFG(fd)
		info := f.Info
		recv := info.ObjectOf(fd.Decl.Recv.List[0].Names[0])
		n := 0
		ast.Inspect(fd.Decl.Body, func(x ast.Node) bool {
			cc, ok := x.(*ast.CaseClause)
			if !ok {
				return true
			}
			label := "default"
			if len(cc.List) > 0 {
				label = types.ExprString(cc.List[0])
			}
			if len(cc.List) == 0 {
				return true
			}
			if tv := info.Types[cc.List[0]]; tv.Type == nil || !namedTypeIs(tv.Type, "pkg/core", "stateChangeStage") {
				return true
			}
			n++
			var direct []string
			for _, st := range cc.Body {
				ast.Inspect(st, func(y ast.Node) bool {
					if _, isLit := y.(*ast.FuncLit); isLit {
						return false
					}
					call, ok := y.(*ast.CallExpr)
					if !ok {
						return true
					}
					sel, ok := call.Fun.(*ast.SelectorExpr)
					if !ok {
						return true
					}
					nm := sel.Sel.Name
					if !(strings.HasPrefix(nm, "Put") || strings.HasPrefix(nm, "Delete") || strings.HasPrefix(nm, "Store")) || nm == "Store" {
						return true
					}
					// receiver chain: bc.dao or bc.dao.Store
					x := ast.Unparen(sel.X)
					if s2, ok := x.(*ast.SelectorExpr); ok && s2.Sel.Name == "Store" {
						x = ast.Unparen(s2.X)
					}
					if s3, ok := x.(*ast.SelectorExpr); ok && s3.Sel.Name == "dao" {
						if id, ok := ast.Unparen(s3.X).(*ast.Ident); ok && info.ObjectOf(id) == recv {
							direct = append(direct, fmt.Sprintf("%s at %s", types.ExprString(call.Fun), c.P.Pos(call.Pos())))
						}
					}
					return true
				})
			}
			key := fmt.Sprintf("atomic-stage.%s.%s", name, label)
			if len(direct) <= 1 {
				c.OK(key, c.P.Pos(cc.Pos()), fmt.Sprintf("%d direct write(s) to the shared DAO in this stage", len(direct)))
			} else {
				c.Fail(key, c.P.Pos(cc.Pos()), fmt.Sprintf("stage %s of %s makes %d separate writes to the shared DAO (%s): the timer flush can put them into different batches, and a crash in between leaves half of the stage on disk - the resumed stage repeats what was already done (the storage prefix is swapped back)", label, name, len(direct), strings.Join(direct, "; ")))
			}
			return true
		})
		c.Floor("stage clauses of "+name, n, 3)
	}
}

// ---------------------------------------------------------------------------
// ordered-slice-stable (C08, C13) - two slices of the node are ordered and observed in order: the pool's
// verifiedTxes (priority order: binary search on insertion, eviction of the tail) and the element slice of a
// stackitem.Map (insertion order: KEYS, VALUES, UNPACK, iteration, serialisation). Taking an element out has to close
// the gap by shifting; the O(1) idiom for unordered slices - move the last element into the hole - leaves a slice the
// binary search and the enumeration are wrong about. No element of these slices is assigned another element of the
// same slice.
func ruleOrderedSliceStable(c *Ctx) {
	targets := []struct{ pkg, field, what string }{
		{"pkg/core/mempool", "verifiedTxes", "the pool's priority-ordered list"},
		{"pkg/vm/stackitem", "value", "the insertion-ordered elements of a Map"},
	}
	n := 0
	for _, tg := range targets {
		pk := c.P.Pkg(tg.pkg)
		if pk == nil {
			c.Lost("ordered-slice-stable."+tg.field+".anchor", "package "+tg.pkg+" not found")
			continue
		}
		info := pk.TypesInfo
		isField := func(e ast.Expr) bool {
			sel, ok := ast.Unparen(e).(*ast.SelectorExpr)
			if !ok || sel.Sel.Name != tg.field {
				return false
			}
			v, ok := info.ObjectOf(sel.Sel).(*types.Var)
			return ok && v.IsField()
		}
		for _, fd := range c.P.AllFuncDecls() {
			if fd.Pkg != pk || fd.Decl.Body == nil {
				continue
			}
			// for stackitem.value restrict to methods of Map
			if tg.pkg == "pkg/vm/stackitem" {
				if fd.Decl.Recv == nil || !namedTypeIsPtr(fd.Obj.Type().(*types.Signature).Recv().Type(), "github.com/nspcc-dev/neo-go/pkg/vm/stackitem", "Map") {
					continue
				}
			}
			k := 0
			ast.Inspect(fd.Decl.Body, func(x ast.Node) bool {
				as, ok := x.(*ast.AssignStmt)
				if !ok {
					return true
				}
				for i, l := range as.Lhs {
					ix, ok := ast.Unparen(l).(*ast.IndexExpr)
					if !ok || !isField(ix.X) || i >= len(as.Rhs) {
						continue
					}
					n++
					k++
					key := fmt.Sprintf("ordered-slice-stable.%s.%s#%d", tg.field, FuncKey(fd.Obj), k)
					moves := false
					ast.Inspect(as.Rhs[i], func(y ast.Node) bool {
						if rx, ok := y.(*ast.IndexExpr); ok && isField(rx.X) {
							moves = true
						}
						return true
					})
					if moves {
						c.Fail(key, c.P.Pos(as.Pos()), fmt.Sprintf("%s moves an element of %s into another position of the same slice (%s): the gap of a removed element has to be closed by shifting, or the order the slice is read in (binary search and tail eviction; KEYS/VALUES/UNPACK) no longer holds", FuncKey(fd.Obj), tg.what, trunc(types.ExprString(as.Rhs[i]), 60)))
					} else {
						c.OK(key, c.P.Pos(as.Pos()), "stores a new element, does not move an existing one")
					}
				}
				return true
			})
		}
	}
	c.Floor("element stores into the ordered slices", n, 2)
}

// ---------------------------------------------------------------------------
// copy-resets-caches (C17) - Transaction caches what is expensive to compute: hash, size. A copy that is going to be
// changed (the Notary service completes the witnesses of a copy) must not inherit them. The cache fields are not
// tabled: they are the fields the zero-argument getters Hash() and Size() (and what they call on the same type)
// assign. Copy() assigns each of them its zero value.
func ruleCopyResetsCaches(c *Ctx) {
	pk := c.P.Pkg("pkg/core/transaction")
	cp := c.P.Func("pkg/core/transaction", "Transaction", "Copy")
	if pk == nil || cp == nil {
		c.Lost("copy-resets-caches.anchor", "transaction.(*Transaction).Copy not found")
		return
	}
	info := pk.TypesInfo
	// fields written by Hash/Size and the methods of Transaction they call
	cache := map[types.Object]string{}
	seen := map[*FuncDecl]bool{}
	var collect func(fd *FuncDecl, via string)
	collect = func(fd *FuncDecl, via string) {
		if fd == nil || fd.Decl.Body == nil || seen[fd] {
			return
		}
		seen[fd] = true
		if fd.Decl.Recv == nil || len(fd.Decl.Recv.List[0].Names) == 0 {
			return
		}
		recv := info.ObjectOf(fd.Decl.Recv.List[0].Names[0])
		ast.Inspect(fd.Decl.Body, func(x ast.Node) bool {
			switch s := x.(type) {
			case *ast.AssignStmt:
				for _, l := range s.Lhs {
					if sel, ok := ast.Unparen(l).(*ast.SelectorExpr); ok {
						if id, ok := ast.Unparen(sel.X).(*ast.Ident); ok && info.ObjectOf(id) == recv {
							if v, ok := info.ObjectOf(sel.Sel).(*types.Var); ok && v.IsField() {
								cache[v] = via
							}
						}
					}
				}
			case *ast.CallExpr:
				if sel, ok := s.Fun.(*ast.SelectorExpr); ok {
					if id, ok := ast.Unparen(sel.X).(*ast.Ident); ok && info.ObjectOf(id) == recv {
						if fn, ok := info.ObjectOf(sel.Sel).(*types.Func); ok {
							collect(c.P.DeclOf(fn), via)
						}
					}
				}
			}
			return true
		})
	}
	for _, g := range []string{"Hash", "Size"} {
		collect(c.P.Func("pkg/core/transaction", "Transaction", g), g+"()")
	}
	if len(cache) < 2 {
		c.Lost("copy-resets-caches.fields", fmt.Sprintf("only %d cache fields found behind Transaction.Hash()/Size()", len(cache)))
		return
	}
	// resets in Copy: cpVar.f = zero
	reset := map[types.Object]bool{}
	ast.Inspect(cp.Decl.Body, func(x ast.Node) bool {
		as, ok := x.(*ast.AssignStmt)
		if !ok {
			return true
		}
		for i, l := range as.Lhs {
			sel, ok := ast.Unparen(l).(*ast.SelectorExpr)
			if !ok || i >= len(as.Rhs) {
				continue
			}
			v, ok := info.ObjectOf(sel.Sel).(*types.Var)
			if !ok || !v.IsField() {
				continue
			}
			if tv := info.Types[as.Rhs[i]]; tv.Value != nil && (tv.Value.String() == "0" || tv.Value.String() == "false") {
				reset[v] = true
			} else if cl, ok := ast.Unparen(as.Rhs[i]).(*ast.CompositeLit); ok && len(cl.Elts) == 0 {
				reset[v] = true
			}
		}
		return true
	})
	var fields []types.Object
	for f := range cache {
		fields = append(fields, f)
	}
	sort.Slice(fields, func(i, j int) bool { return fields[i].Name() < fields[j].Name() })
	for _, fl := range fields {
		key := "copy-resets-caches." + fl.Name()
		// a validity flag makes the value it guards harmless: hash is guarded by hashed
		if reset[fl] {
			c.OK(key, c.P.Pos(cp.Decl.Pos()), "reset by Copy()")
		} else if guardedByResetFlag(info, cache, reset, fl) {
			c.OK(key, c.P.Pos(cp.Decl.Pos()), "not reset itself, but the boolean that says it is valid is")
		} else {
			c.Fail(key, c.P.Pos(cp.Decl.Pos()), fmt.Sprintf("Transaction.Copy does not reset the cache field %s (filled by %s): a copy that is changed afterwards - the Notary service completes the witnesses of a copy of the main transaction - goes on reporting the original's value, which feeds the size limit, the fee-per-byte check, pool ordering and block-size accounting", fl.Name(), cache[fl]))
		}
	}
	c.Floor("cache fields of Transaction", len(fields), 2)
}

// guardedByResetFlag: a cache value whose validity is a boolean cache field that Copy resets (hash / hashed).
func guardedByResetFlag(info *types.Info, cache map[types.Object]string, reset map[types.Object]bool, fl types.Object) bool {
	for f := range cache {
		if b, ok := f.Type().Underlying().(*types.Basic); ok && b.Kind() == types.Bool && reset[f] && strings.HasPrefix(f.Name(), fl.Name()) {
			return true
		}
	}
	return false
}

// mptSessionSameHeight (historic-resolves-historic, C03): with SessionBackedByMPT an invocation that returns an
// iterator is run a second time over the trie, so that the session can be served later without keeping the store
// alive. The second run has to be made for the same block as the first - the index of the fake next block the first
// context carries - or the iterator is answered from the state of another height.
func mptSessionSameHeight(c *Ctx) {
	fd := c.P.Func("pkg/services/rpcsrv", "Server", "runScriptInVM")
	if fd == nil {
		c.Lost("mpt-session-same-height.anchor", "rpcsrv.(*Server).runScriptInVM not found")
		return
	}
	f := c.P.NewFuncCFG(fd)
	n, bad := 0, token.NoPos
	for _, s := range f.CallSites("pkg/services/rpcsrv.(*Server).runScriptInVM") {
		// the recursive call: its height argument (pointer to uint32)
		for _, a := range s.call.Args {
			if p, ok := f.Info.TypeOf(a).(*types.Pointer); ok {
				if b, ok := p.Elem().Underlying().(*types.Basic); ok && b.Kind() == types.Uint32 {
					n++
					if !f.DirectMentions(a)[fldBlockIndex] {
						bad = s.call.Pos()
					}
				}
			}
		}
	}
	switch {
	case n == 0:
		c.Note("mpt-session-same-height: runScriptInVM no longer reruns itself over MPT-backed storage")
	case bad.IsValid():
		c.Fail("mpt-session-same-height", c.P.Pos(bad), "the rerun of an invocation over MPT-backed storage (sessions with iterators) is not made for the index of the block the first run was made for: the iterator is answered from the state of another height than the invocation it belongs to")
	default:
		c.OK("mpt-session-same-height", c.P.Pos(fd.Decl.Pos()), "the rerun over MPT-backed storage uses the block index of the first run's context")
	}
}

// bufferByteRange (limit-guards, C13): SETITEM on a Buffer accepts what fits a byte read either way - signed or
// unsigned: -128..255 - and stores the low eight bits; the two constants of the guard are the specification's.
func bufferByteRange(c *Ctx) {
	fd := c.P.Func("pkg/vm", "VM", "execute")
	if fd == nil {
		return
	}
	f := c.P.NewFuncCFG(fd)
	info := f.Info
	found, ok2 := false, false
	ast.Inspect(fd.Decl.Body, func(x ast.Node) bool {
		cc, ok := x.(*ast.CaseClause)
		if !ok || len(cc.List) == 0 {
			return true
		}
		// the type-switch arm for *stackitem.Buffer inside SETITEM
		isBuf := false
		for _, e := range cc.List {
			if tv := info.Types[e]; tv.IsType() && namedTypeIsPtr(tv.Type, "github.com/nspcc-dev/neo-go/pkg/vm/stackitem", "Buffer") {
				isBuf = true
			}
		}
		if !isBuf || enclosingOpcodeArm(c, fd, cc.Pos()) != "SETITEM" {
			return true
		}
		found = true
		lo, hi := false, false
		for _, st := range cc.Body {
			ast.Inspect(st, func(y ast.Node) bool {
				be, ok := y.(*ast.BinaryExpr)
				if !ok {
					return true
				}
				for _, side := range []ast.Expr{be.X, be.Y} {
					if tv := info.Types[side]; tv.Value != nil {
						if v, ok := constant.Int64Val(constant.ToInt(tv.Value)); ok {
							if v == -128 && (be.Op == token.LSS || be.Op == token.GTR) {
								lo = true
							}
							if v == 255 && (be.Op == token.LSS || be.Op == token.GTR) {
								hi = true
							}
						}
					}
				}
				return true
			})
		}
		ok2 = lo && hi
		return false
	})
	switch {
	case !found:
		c.Lost("buffer-byte-range.arm", "the Buffer arm of SETITEM was not found")
	case ok2:
		c.OK("buffer-byte-range", c.P.Pos(fd.Decl.Pos()), "SETITEM on a Buffer accepts -128..255")
	default:
		c.Fail("buffer-byte-range", c.P.Pos(fd.Decl.Pos()), "the range test of SETITEM on a Buffer is no longer `< -128 || > 255`: the specification accepts a byte read either way (signed or unsigned) and stores its low eight bits, so values of -128..-1 must not fault (and nothing outside -128..255 may pass)")
	}
}

// verificationHasNoCaller (cond-context, C15): a verification context - the `verify` method of a contract-based
// witness - is nobody's callee: its calling script hash is the zero hash, which the caller shortcut of CheckWitness
// and the CalledByContract/CalledByGroup conditions all exclude. Loaded with the contract's own hash as the caller,
// the contract would witness itself in any scope. Every LoadNEFMethod call of InitVerificationContext passes the zero
// value for the caller parameter.
// isZeroValueExpr: an empty composite literal, or a local every definition of which is a declaration without a value
// or an empty composite literal.
func isZeroValueExpr(f *FuncCFG, e ast.Expr) bool {
	switch x := ast.Unparen(e).(type) {
	case *ast.CompositeLit:
		return len(x.Elts) == 0
	case *ast.Ident:
		v, ok := f.Info.ObjectOf(x).(*types.Var)
		if !ok || v.IsField() || f.params[v] {
			return false
		}
		// declared in this function, with or without a value; never assigned elsewhere
		declared, assigned := false, false
		ast.Inspect(f.Body, func(n ast.Node) bool {
			switch y := n.(type) {
			case *ast.ValueSpec:
				for _, nm := range y.Names {
					if f.Info.ObjectOf(nm) == types.Object(v) {
						declared = true
					}
				}
			case *ast.AssignStmt:
				for _, l := range y.Lhs {
					if id, ok := ast.Unparen(l).(*ast.Ident); ok && f.Info.ObjectOf(id) == types.Object(v) && y.Tok != token.DEFINE {
						assigned = true
					}
				}
			case *ast.UnaryExpr:
				if id, ok := ast.Unparen(y.X).(*ast.Ident); ok && y.Op == token.AND && f.Info.ObjectOf(id) == types.Object(v) {
					assigned = true // address taken
				}
			}
			return true
		})
		if assigned || (!declared && len(f.defs[v]) == 0) {
			return false
		}
		for _, d := range f.defs[v] {
			for _, r := range d.rhs {
				if cl, ok := ast.Unparen(r).(*ast.CompositeLit); !ok || len(cl.Elts) != 0 {
					return false
				}
			}
		}
		return true
	}
	return false
}

func verificationHasNoCaller(c *Ctx) {
	fd := c.P.Func("pkg/core", "Blockchain", "InitVerificationContext")
	if fd == nil {
		c.Lost("verification-has-no-caller.anchor", "Blockchain.InitVerificationContext not found")
		return
	}
	f := c.P.NewFuncCFG(fd)
	n := 0
	for _, s := range f.CallSites("pkg/vm.(*VM).LoadNEFMethod") {
		cf := calleeFunc(f.Info, s.call)
		if cf == nil {
			continue
		}
		sig := cf.Type().(*types.Signature)
		for i := 0; i < sig.Params().Len() && i < len(s.call.Args); i++ {
			if sig.Params().At(i).Name() != "caller" {
				continue
			}
			n++
			if isZeroValueExpr(f, s.call.Args[i]) {
				c.OK("verification-has-no-caller", c.P.Pos(s.call.Pos()), "the verification context is loaded with the zero hash as its caller")
			} else {
				c.Fail("verification-has-no-caller", c.P.Pos(s.call.Pos()), fmt.Sprintf("InitVerificationContext loads a contract's verify method with %s as the calling script hash: a verification context has no caller, and with a caller set the calling-hash shortcut of CheckWitness and the CalledByContract/CalledByGroup conditions hold for it - the contract witnesses itself whatever the scope", types.ExprString(s.call.Args[i])))
			}
		}
	}
	if n == 0 {
		c.Lost("verification-has-no-caller.site", "no LoadNEFMethod call with a `caller` parameter in InitVerificationContext")
	}
	// The same for every other context the function loads (the verification script itself, the invocation script):
	// a VM loader without an explicit caller takes the script on top of the invocation stack for the caller, so
	// whatever is loaded second is "called by" what was loaded first. The invocation script is loaded on top of
	// the verification script (finding 97): CheckWitness(account) inside it held through the calling-hash shortcut
	// for any scope. A loader with an implicit caller is allowed for the first context only (the stack is empty).
	type load struct {
		call     *ast.CallExpr
		name     string
		implicit bool
		zero     bool
	}
	var loads []load
	inspectNoLit(fd.Decl.Body, func(x ast.Node) bool {
		call, ok := x.(*ast.CallExpr)
		if !ok {
			return true
		}
		cf := calleeFunc(f.Info, call)
		if cf == nil || cf.Pkg() == nil || pkgRel(cf.Pkg()) != "pkg/vm" || !strings.HasPrefix(cf.Name(), "Load") {
			return true
		}
		sig := cf.Type().(*types.Signature)
		l := load{call: call, name: cf.Name(), implicit: true}
		for i := 0; i < sig.Params().Len() && i < len(call.Args); i++ {
			if sig.Params().At(i).Name() == "caller" {
				l.implicit = false
				l.zero = isZeroValueExpr(f, call.Args[i])
			}
		}
		loads = append(loads, l)
		return true
	})
	c.Floor("contexts loaded by InitVerificationContext", len(loads), 3)
	// which loads can come second: a load is "first" if no other load call precedes it on any path - approximated by
	// source order inside the same branch arm: a load in the else/then arm of the verification-script test is first,
	// anything after that if statement is not
	var firstIf *ast.IfStmt
	for _, st := range fd.Decl.Body.List {
		if is, ok := st.(*ast.IfStmt); ok && firstIf == nil {
			has := false
			ast.Inspect(is, func(y ast.Node) bool {
				for _, l := range loads {
					if y == ast.Node(l.call) {
						has = true
					}
				}
				return true
			})
			if has {
				firstIf = is
			}
		}
	}
	k := 0
	for _, l := range loads {
		if !l.implicit {
			continue // explicit callers are judged above (LoadNEFMethod) or here
		}
		k++
		key := fmt.Sprintf("verification-has-no-caller.implicit#%d", k)
		inFirst := firstIf != nil && l.call.Pos() >= firstIf.Pos() && l.call.End() <= firstIf.End()
		if inFirst {
			c.OK(key, c.P.Pos(l.call.Pos()), l.name+" loads the first context: the invocation stack is empty, the implicit caller is the zero hash")
		} else {
			c.Fail(key, c.P.Pos(l.call.Pos()), fmt.Sprintf("InitVerificationContext loads a context with VM.%s on top of the one loaded before it: the loader takes the script on top of the invocation stack - the verification script, i.e. the signer's account - for the calling script hash, although that script calls nothing. System.Runtime.CheckWitness(account) in the invocation script then holds through the calling-hash shortcut for any scope of the signer (None included), and CalledByContract(account) rules match", l.name))
		}
	}
	for _, l := range loads {
		if l.implicit || l.name == "LoadNEFMethod" {
			continue
		}
		k++
		key := fmt.Sprintf("verification-has-no-caller.explicit#%d", k)
		if l.zero {
			c.OK(key, c.P.Pos(l.call.Pos()), l.name+" is given the zero hash as the caller")
		} else {
			c.Fail(key, c.P.Pos(l.call.Pos()), "InitVerificationContext loads a context with a calling script hash that is not the zero value: nothing calls the scripts of a witness")
		}
	}
}

// overrideOutlivesCallout (cond-context, C15): Oracle.finish runs the callback with the signers of the *request*
// transaction (ic.UseSigners(origTx.Signers)). CallFromNative only queues the callback; the native function returns
// before the callback's first instruction. The override is therefore dropped in the callback's unload continuation
// and on the error exits - never by a defer in the native function, which fires while the callback is still queued.
func overrideOutlivesCallout(c *Ctx) {
	pk := c.P.Pkg("pkg/core/native")
	if pk == nil {
		return
	}
	n := 0
	for _, fd := range c.P.AllFuncDecls() {
		if fd.Pkg != pk || fd.Decl.Body == nil {
			continue
		}
		f := c.P.NewFuncCFG(fd)
		if len(f.CallSites("pkg/core/interop/contract.CallFromNative")) == 0 {
			continue
		}
		sets := f.CallSites("pkg/core/interop.(*Context).UseSigners")
		if len(sets) == 0 {
			continue
		}
		n++
		key := "override-outlives-callout." + FuncKey(fd.Obj)
		bad := token.NoPos
		inspectNoLit(fd.Decl.Body, func(x ast.Node) bool {
			if ds, ok := x.(*ast.DeferStmt); ok && f.calleeSym(ds.Call) == "pkg/core/interop.(*Context).UseSigners" {
				bad = ds.Pos()
			}
			return true
		})
		// and the reset exists inside a function literal (the unload continuation)
		inLit := false
		ast.Inspect(fd.Decl.Body, func(x ast.Node) bool {
			if fl, ok := x.(*ast.FuncLit); ok {
				ast.Inspect(fl.Body, func(y ast.Node) bool {
					if ce, ok := y.(*ast.CallExpr); ok && f.calleeSym(ce) == "pkg/core/interop.(*Context).UseSigners" {
						inLit = true
					}
					return true
				})
			}
			return true
		})
		switch {
		case bad.IsValid():
			c.Fail(key, c.P.Pos(bad), fmt.Sprintf("%s drops the signers override with a defer: CallFromNative only queues the callback, so the deferred reset fires before the callback's first instruction and CheckWitness inside the callback sees the response transaction's signers (scope None) instead of the request's", FuncKey(fd.Obj)))
		case !inLit:
			c.Fail(key, c.P.Pos(sets[0].call.Pos()), fmt.Sprintf("%s sets a signers override for a queued callback and never drops it in the callback's unload continuation", FuncKey(fd.Obj)))
		default:
			c.OK(key, c.P.Pos(sets[0].call.Pos()), "the signers override is dropped in the callback's unload continuation (and on error exits), not by a defer")
		}
	}
	c.Floor("natives running a callback under a signers override", n, 1)
}

// ruleKeyBoundAgreement (C10): the trie is one map, so all of its operations accept the same keys and values. The
// writer (Trie.Put) fixes what is accepted: a key of up to MaxKeyLength bytes, a value of up to MaxValueLength. Every
// other comparison of a length with one of the two constants in the package - Get, Delete, GetProof, Find, the node
// decoders - must draw the line at the same place as the writer: a reader that refuses a length the writer accepted
// makes stored content unreachable (no proof for a key of exactly MaxKeyLength bytes), one that accepts more reads what
// cannot have been written. The comparison is normalised to `length OP limit`; the operator of Put is the reference.
func ruleKeyBoundAgreement(c *Ctx) {
	type cmp struct {
		fn  string
		op  token.Token
		pos token.Pos
	}
	flip := map[token.Token]token.Token{token.LSS: token.GTR, token.GTR: token.LSS, token.LEQ: token.GEQ, token.GEQ: token.LEQ, token.EQL: token.EQL, token.NEQ: token.NEQ}
	for _, limit := range []string{"MaxKeyLength", "MaxValueLength"} {
		var all []cmp
		for _, fd := range c.P.AllFuncDecls() {
			if pkgRel(fd.Pkg.Types) != "pkg/core/mpt" || fd.Decl.Body == nil {
				continue
			}
			info := fd.Pkg.TypesInfo
			mentions := func(e ast.Expr) bool {
				hit := false
				ast.Inspect(e, func(x ast.Node) bool {
					if id, ok := x.(*ast.Ident); ok {
						if o, ok := info.ObjectOf(id).(*types.Const); ok && o.Name() == limit && o.Pkg() != nil && pkgRel(o.Pkg()) == "pkg/core/mpt" {
							hit = true
						}
					}
					return true
				})
				return hit
			}
			ast.Inspect(fd.Decl.Body, func(x ast.Node) bool {
				be, ok := x.(*ast.BinaryExpr)
				if !ok {
					return true
				}
				if _, rel := flip[be.Op]; !rel {
					return true
				}
				l, r := mentions(be.X), mentions(be.Y)
				if l == r {
					return true
				}
				op := be.Op
				if l {
					op = flip[op]
				}
				all = append(all, cmp{FuncKey(fd.Obj), op, be.Pos()})
				return true
			})
		}
		ref := token.ILLEGAL
		for _, x := range all {
			if x.fn == "pkg/core/mpt.(*Trie).Put" {
				ref = x.op
			}
		}
		if ref == token.ILLEGAL {
			c.Lost("key-bound-agreement."+limit+".writer", "Trie.Put no longer compares a length with mpt."+limit)
			continue
		}
		n := map[string]int{}
		for _, x := range all {
			if x.fn == "pkg/core/mpt.(*Trie).Put" {
				continue
			}
			n[x.fn]++
			key := fmt.Sprintf("%s:%s#%d", limit, shortSym(x.fn), n[x.fn])
			if x.op == ref {
				c.OK(key, c.P.Pos(x.pos), fmt.Sprintf("%s draws the line at `length %s %s`, as Trie.Put does", shortSym(x.fn), x.op, limit))
			} else {
				c.Fail(key, c.P.Pos(x.pos), fmt.Sprintf("%s compares a length with mpt.%s as `length %s %s`, Trie.Put (the writer) as `length %s %s`: the operations of one map disagree on what a legal key/value is - what Put stored at exactly the limit cannot be read, proved or deleted through this one (or it accepts what cannot have been stored)", shortSym(x.fn), limit, x.op, limit, ref, limit))
			}
		}
		floor := 4
		if limit == "MaxValueLength" {
			floor = 2
		}
		c.Floor("comparisons with mpt."+limit+" outside Trie.Put", len(all)-1, floor)
	}
}

// ruleResetOnlyForward (C19): dbft.Reset is the one call that makes a validator forget what it has committed to at a
// height - after it the node may change view and sign another header for the same height. The service calls it from
// the chain-block notification, and only for a block at or above the height dBFT is working on (b.Index >=
// dbft.BlockIndex): the notification about the block the current context is already built upon (b.Index ==
// BlockIndex-1, delivered late because notifications queue) must leave the context alone. The rule normalises every
// comparison between the block's index and dBFT's that controls the call (enclosing ifs, and earlier `if … { return }`
// guards) to `b.Index - BlockIndex OP k` and demands that one of them implies `>= 0`.
func ruleResetOnlyForward(c *Ctx) {
	fd := c.P.Func("pkg/consensus", "service", "handleChainBlock")
	if fd == nil {
		c.Lost("reset-only-forward.anchor", "service.handleChainBlock not found")
		return
	}
	f := c.P.NewFuncCFG(fd)
	info := f.Info
	// d = index of the notified block - dbft.BlockIndex; a comparison is returned as (op, k): d op k
	norm := func(e ast.Expr) (token.Token, int64, bool) {
		be, ok := ast.Unparen(e).(*ast.BinaryExpr)
		if !ok {
			return 0, 0, false
		}
		lb, lo, ok1 := linearForm(f, be.X, 0)
		rb, ro, ok2 := linearForm(f, be.Y, 0)
		if !ok1 || !ok2 {
			return 0, 0, false
		}
		isBlk := func(s string) bool { return strings.HasSuffix(s, ".Index") && !strings.Contains(s, "dbft") }
		isCtx := func(s string) bool { return strings.HasSuffix(s, "dbft.BlockIndex") }
		op := be.Op
		switch {
		case isBlk(lb) && isCtx(rb):
			// lb+lo op rb+ro  =>  d op ro-lo
			return op, ro - lo, true
		case isCtx(lb) && isBlk(rb):
			flip := map[token.Token]token.Token{token.LSS: token.GTR, token.GTR: token.LSS, token.LEQ: token.GEQ, token.GEQ: token.LEQ, token.EQL: token.EQL, token.NEQ: token.NEQ}
			fo, ok := flip[op]
			if !ok {
				return 0, 0, false
			}
			// rb+ro fo lb+lo => d fo lo-ro
			return fo, lo - ro, true
		}
		return 0, 0, false
	}
	neg := map[token.Token]token.Token{token.LSS: token.GEQ, token.GEQ: token.LSS, token.GTR: token.LEQ, token.LEQ: token.GTR, token.EQL: token.NEQ, token.NEQ: token.EQL}
	implies := func(op token.Token, k int64) bool {
		switch op {
		case token.GEQ, token.EQL:
			return k >= 0
		case token.GTR:
			return k >= -1
		}
		return false
	}
	// conjuncts of a condition that hold when it is true / disjuncts that are all false when it is false
	var conj func(e ast.Expr, op token.Token) []ast.Expr
	conj = func(e ast.Expr, op token.Token) []ast.Expr {
		if be, ok := ast.Unparen(e).(*ast.BinaryExpr); ok && be.Op == op {
			return append(conj(be.X, op), conj(be.Y, op)...)
		}
		return []ast.Expr{e}
	}
	terminates := func(b *ast.BlockStmt) bool {
		if len(b.List) == 0 {
			return false
		}
		_, ok := b.List[len(b.List)-1].(*ast.ReturnStmt)
		return ok
	}
	n := 0
	var stack []ast.Node
	ast.Inspect(fd.Decl.Body, func(x ast.Node) bool {
		if x == nil {
			stack = stack[:len(stack)-1]
			return true
		}
		stack = append(stack, x)
		call, ok := x.(*ast.CallExpr)
		if !ok {
			return true
		}
		fn := calleeFunc(info, call)
		if fn == nil || fn.Name() != "Reset" || fn.Pkg() == nil || !strings.HasSuffix(fn.Pkg().Path(), "nspcc-dev/dbft") {
			return true
		}
		n++
		guarded, seen := false, []string{}
		note := func(op token.Token, k int64) {
			seen = append(seen, fmt.Sprintf("index - BlockIndex %s %d", op, k))
			if implies(op, k) {
				guarded = true
			}
		}
		for i := len(stack) - 2; i >= 0; i-- {
			switch p := stack[i].(type) {
			case *ast.IfStmt:
				inBody := i+1 < len(stack) && stack[i+1] == ast.Node(p.Body)
				inElse := i+1 < len(stack) && p.Else != nil && stack[i+1] == ast.Node(p.Else)
				if inBody {
					for _, e := range conj(p.Cond, token.LAND) {
						if op, k, ok := norm(e); ok {
							note(op, k)
						}
					}
				} else if inElse {
					for _, e := range conj(p.Cond, token.LOR) {
						if op, k, ok := norm(e); ok {
							note(neg[op], k)
						}
					}
				}
			case *ast.BlockStmt:
				// earlier guards of this block
				for _, st := range p.List {
					if i+1 < len(stack) && ast.Node(st) == stack[i+1] {
						break
					}
					if is, ok := st.(*ast.IfStmt); ok && is.Else == nil && terminates(is.Body) {
						for _, e := range conj(is.Cond, token.LOR) {
							if op, k, ok := norm(e); ok {
								note(neg[op], k)
							}
						}
					}
				}
			}
		}
		key := fmt.Sprintf("handleChainBlock.Reset#%d", n)
		switch {
		case guarded:
			c.OK(key, c.P.Pos(call.Pos()), "dbft.Reset only for a block at or above the height dBFT works on ("+strings.Join(seen, "; ")+")")
		case len(seen) > 0:
			c.Fail(key, c.P.Pos(call.Pos()), "service.handleChainBlock resets the dBFT context under "+strings.Join(seen, "; ")+", which does not imply `index >= dbft.BlockIndex`: a late notification about the block the context is already built upon (index == BlockIndex-1) wipes the context again - the commit the validator has sent for this height is forgotten and it may change view and sign a second, different header for the same height")
		default:
			c.Fail(key, c.P.Pos(call.Pos()), "service.handleChainBlock resets the dBFT context without comparing the block's index with dbft.BlockIndex: a notification about an old block (the node's own, or one delivered late) wipes what the validator has committed to at the current height")
		}
		return true
	})
	c.Floor("dbft.Reset calls in handleChainBlock", n, 1)
}

// ruleFetchedTxUngated (C19): a backup that lacks a proposed transaction asks its peers for it, and the answer reaches
// dBFT through service.OnTransaction -> s.transactions. dBFT then has the proposal checked against the ledger
// (verifyBlock). The hand-over must not depend on the node's own memory pool or on anything else the ledger says at
// that moment: pools differ between validators (two spends of one balance, each in half of the pools, is ordinary
// traffic), and a transaction the local pool refuses because of what it already holds is still valid in the proposed
// block. Gated on the pool, every proposal is backed by a minority only and no block is produced although everybody is
// honest and everything is delivered. The rule: no condition of OnTransaction calls into the ledger or the pool.
func ruleFetchedTxUngated(c *Ctx) {
	fd := c.P.Func("pkg/consensus", "service", "OnTransaction")
	if fd == nil {
		c.Lost("fetched-tx-ungated.anchor", "service.OnTransaction not found")
		return
	}
	info := fd.Pkg.TypesInfo
	sends := 0
	var bad []string
	ledgerCall := func(e ast.Node) string {
		out := ""
		ast.Inspect(e, func(x ast.Node) bool {
			call, ok := x.(*ast.CallExpr)
			if !ok {
				return true
			}
			fn := calleeFunc(info, call)
			if fn == nil || fn.Pkg() == nil {
				return true
			}
			sig, _ := fn.Type().(*types.Signature)
			p := pkgRel(fn.Pkg())
			isLedger := false
			if sig != nil && sig.Recv() != nil {
				t := sig.Recv().Type()
				if pt, ok := t.(*types.Pointer); ok {
					t = pt.Elem()
				}
				if nt, ok := t.(*types.Named); ok && p == "pkg/consensus" && nt.Obj().Name() == "Ledger" {
					isLedger = true
				}
			}
			if isLedger || strings.HasPrefix(p, "pkg/core") {
				out = shortSym(FuncKey(fn))
			}
			return true
		})
		return out
	}
	ast.Inspect(fd.Decl.Body, func(x ast.Node) bool {
		switch s := x.(type) {
		case *ast.SendStmt:
			if strings.HasSuffix(types.ExprString(s.Chan), ".transactions") {
				sends++
			}
		case *ast.IfStmt:
			if w := ledgerCall(s.Cond); w != "" {
				bad = append(bad, fmt.Sprintf("%s (condition at %s)", w, c.P.Pos(s.Cond.Pos())))
			}
			if s.Init != nil {
				if w := ledgerCall(s.Init); w != "" {
					bad = append(bad, fmt.Sprintf("%s (condition at %s)", w, c.P.Pos(s.Init.Pos())))
				}
			}
		case *ast.SwitchStmt:
			if s.Tag != nil {
				if w := ledgerCall(s.Tag); w != "" {
					bad = append(bad, w)
				}
			}
		case *ast.CaseClause:
			for _, e := range s.List {
				if w := ledgerCall(e); w != "" {
					bad = append(bad, w)
				}
			}
		}
		return true
	})
	if sends == 0 {
		c.Lost("fetched-tx-ungated.send", "service.OnTransaction no longer sends on s.transactions")
		return
	}
	if len(bad) == 0 {
		c.OK("OnTransaction", c.P.Pos(fd.Decl.Pos()), "a transaction received for dBFT is handed over whatever the node's own pool holds")
	} else {
		c.Fail("OnTransaction", c.P.Pos(fd.Decl.Pos()), "service.OnTransaction decides whether dBFT gets a fetched transaction by asking the ledger/pool: "+strings.Join(bad, ", ")+". The memory pools of validators differ (conflicting spends of one balance); a transaction of the proposal that this node's pool refuses because of what it holds is valid in the proposed block, and without it the node can never accept the proposal - with pools split, no proposal gathers M preparations and block production stops although every validator is honest")
	}
}

// ruleWireFieldUsed (C17, C19): a consensus message carries what the receiver needs to rebuild what the sender had.
// A field that the encoder writes and the decoder reads back, and that nothing else ever reads, is information the
// wire carries and the node drops: the payload rebuilt from a recovery message is not the payload that was packed
// into it (another view number => another hash => the original witness no longer fits, finding 87). For every struct
// type of package consensus with a DecodeBinary method, every field the decoder assigns is read somewhere outside the
// type's own encoder/decoder (a composite-literal key and the left side of an assignment are writes, not reads).
func ruleWireFieldUsed(c *Ctx) {
	// Only the consensus messages: their compact forms exist to be rebuilt into the payloads they were made from. In
	// the P2P payloads a decoded field nothing reads is informational by design (Ping.Nonce, Version.Timestamp,
	// AddressAndTime.Timestamp; MerkleBlock has no handler at all) - tried, twelve such fields, none a defect.
	const all = false
	if c.P.Pkg("pkg/consensus") == nil {
		c.Lost("wire-field-used.pkg", "package consensus not loaded")
		return
	}
	type tinfo struct {
		nt     *types.Named
		fields map[*types.Var]token.Pos
	}
	var ts []*tinfo
	for _, fd := range c.P.AllFuncDecls() {
		rel := pkgRel(fd.Pkg.Types)
		if !(rel == "pkg/consensus" || (all && strings.HasPrefix(rel, "pkg/") && !strings.HasPrefix(rel, "pkg/rpcclient") && !strings.HasPrefix(rel, "pkg/neotest"))) {
			continue
		}
		info := fd.Pkg.TypesInfo
		if fd.Decl.Recv == nil || fd.Decl.Body == nil || fd.Decl.Name.Name != "DecodeBinary" || len(fd.Decl.Recv.List[0].Names) == 0 {
			continue
		}
		rt := fd.Obj.Type().(*types.Signature).Recv().Type()
		if p, ok := rt.(*types.Pointer); ok {
			rt = p.Elem()
		}
		nt, ok := rt.(*types.Named)
		if !ok {
			continue
		}
		if _, ok := nt.Underlying().(*types.Struct); !ok {
			continue
		}
		recv := info.ObjectOf(fd.Decl.Recv.List[0].Names[0])
		ti := &tinfo{nt, map[*types.Var]token.Pos{}}
		note := func(e ast.Expr) {
			se, ok := ast.Unparen(e).(*ast.SelectorExpr)
			if !ok {
				return
			}
			if id, ok := ast.Unparen(se.X).(*ast.Ident); ok && info.ObjectOf(id) == recv {
				if v, ok := info.ObjectOf(se.Sel).(*types.Var); ok && v.IsField() {
					if _, seen := ti.fields[v]; !seen {
						ti.fields[v] = se.Pos()
					}
				}
			}
		}
		// assigned: left side of an assignment, operand of &, base of a slice expression handed to a reader, receiver
		// of a method call (p.field.DecodeBinary(r))
		ast.Inspect(fd.Decl.Body, func(x ast.Node) bool {
			switch y := x.(type) {
			case *ast.AssignStmt:
				for _, l := range y.Lhs {
					note(l)
				}
			case *ast.UnaryExpr:
				if y.Op == token.AND {
					note(y.X)
				}
			case *ast.SliceExpr:
				note(y.X)
			case *ast.CallExpr:
				if se, ok := ast.Unparen(y.Fun).(*ast.SelectorExpr); ok {
					note(se.X)
				}
			}
			return true
		})
		ts = append(ts, ti)
	}
	sort.Slice(ts, func(i, j int) bool { return ts[i].nt.Obj().Name() < ts[j].nt.Obj().Name() })
	pkgName := func(nt *types.Named) string {
		r := pkgRel(nt.Obj().Pkg())
		return r[strings.LastIndex(r, "/")+1:]
	}
	// reads of fields anywhere in the module outside the codec methods of the owning type
	read := map[*types.Var]bool{}
	codec := map[string]bool{"DecodeBinary": true, "EncodeBinary": true}
	for _, fd := range c.P.AllFuncDecls() {
		if fd.Decl.Body == nil {
			continue
		}
		finfo := fd.Pkg.TypesInfo
		var owner *types.Named
		if fd.Decl.Recv != nil && codec[fd.Decl.Name.Name] {
			rt := fd.Obj.Type().(*types.Signature).Recv().Type()
			if p, ok := rt.(*types.Pointer); ok {
				rt = p.Elem()
			}
			owner, _ = rt.(*types.Named)
		}
		lhs := map[ast.Expr]bool{}
		ast.Inspect(fd.Decl.Body, func(x ast.Node) bool {
			if as, ok := x.(*ast.AssignStmt); ok && (as.Tok == token.ASSIGN || as.Tok == token.DEFINE) {
				for _, l := range as.Lhs {
					lhs[ast.Unparen(l)] = true
				}
			}
			return true
		})
		ast.Inspect(fd.Decl.Body, func(x ast.Node) bool {
			se, ok := x.(*ast.SelectorExpr)
			if !ok || lhs[se] {
				return true
			}
			v, ok := finfo.ObjectOf(se.Sel).(*types.Var)
			if !ok || !v.IsField() {
				return true
			}
			if owner != nil {
				// the owning type's own codec does not count
				if st, ok := owner.Underlying().(*types.Struct); ok {
					for i := 0; i < st.NumFields(); i++ {
						if st.Field(i) == v {
							return true
						}
					}
				}
			}
			read[v] = true
			return true
		})
	}
	n := 0
	for _, ti := range ts {
		var fs []*types.Var
		for v := range ti.fields {
			fs = append(fs, v)
		}
		sort.Slice(fs, func(i, j int) bool { return fs[i].Name() < fs[j].Name() })
		for _, v := range fs {
			n++
			key := pkgName(ti.nt) + "." + ti.nt.Obj().Name() + "." + v.Name()
			if read[v] {
				c.OK(key, c.P.Pos(ti.fields[v]), "decoded and used")
			} else {
				c.Fail(key, c.P.Pos(ti.fields[v]), fmt.Sprintf("%s.%s.%s is written by the encoder and read back by the decoder, and nothing else in the module reads it: what the sender put on the wire is dropped by the receiver, and whatever is rebuilt from a decoded %s takes that value from somewhere else (a payload rebuilt from a recovery message then differs from the payload that was packed: another hash, and the witness that travelled with it no longer fits)", pkgName(ti.nt), ti.nt.Obj().Name(), v.Name(), ti.nt.Obj().Name()))
			}
		}
	}
	c.Floor("decoded fields of wire types", n, 20)
}

// ruleEstimatorPrefixes (C17): a size estimator that starts from the size of a header with *empty* witness scripts
// (block.expectedHeaderSizeWithEmptyWitness) and adds the length of real scripts has to add the growth of the length
// prefixes too - one byte up to 252, three from 253 on. The sibling estimator (GetExpectedBlockSizeWithoutTransactions)
// takes every prefix from io.GetVarSize. A script length is recognisable as a product with a quantity that varies
// (signatures x m, keys x n): every non-constant factor of a product in such a function is also mentioned - directly
// or through the single definition of a local - in the argument of an io.GetVarSize call (finding 88: constant
// prefixes made GetExpectedHeaderSize exact for 5..7 validators only).
func ruleEstimatorPrefixes(c *Ctx) {
	pk := c.P.Pkg("pkg/core/block")
	if pk == nil {
		c.Lost("estimator-prefixes.pkg", "package block not loaded")
		return
	}
	info := pk.TypesInfo
	nfn := 0
	for _, fd := range c.P.AllFuncDecls() {
		if fd.Pkg != pk || fd.Decl.Body == nil {
			continue
		}
		base := false
		ast.Inspect(fd.Decl.Body, func(x ast.Node) bool {
			if id, ok := x.(*ast.Ident); ok && id.Name == "expectedHeaderSizeWithEmptyWitness" {
				if v, ok := info.ObjectOf(id).(*types.Var); ok && v.Parent() == pk.Types.Scope() {
					base = true
				}
			}
			return true
		})
		if !base || fd.Decl.Name.Name == "init" {
			continue
		}
		nfn++
		f := c.P.NewFuncCFG(fd)
		// non-constant factors of products
		factors := map[types.Object]token.Pos{}
		inspectNoLit(fd.Decl.Body, func(x ast.Node) bool {
			be, ok := x.(*ast.BinaryExpr)
			if !ok || be.Op != token.MUL {
				return true
			}
			for _, side := range []ast.Expr{be.X, be.Y} {
				if tv := info.Types[side]; tv.Value != nil {
					continue
				}
				ast.Inspect(side, func(y ast.Node) bool {
					if id, ok := y.(*ast.Ident); ok {
						if v, ok := info.ObjectOf(id).(*types.Var); ok && !v.IsField() {
							if _, seen := factors[v]; !seen {
								factors[v] = id.Pos()
							}
						}
					}
					return true
				})
			}
			return true
		})
		// what the arguments of io.GetVarSize mention
		covered := map[types.Object]bool{}
		var expand func(e ast.Node, depth int)
		expand = func(e ast.Node, depth int) {
			ast.Inspect(e, func(y ast.Node) bool {
				id, ok := y.(*ast.Ident)
				if !ok {
					return true
				}
				v, ok := info.ObjectOf(id).(*types.Var)
				if !ok || covered[v] {
					return true
				}
				covered[v] = true
				if depth < 3 && !f.params[v] {
					for _, d := range f.defs[v] {
						for _, r := range d.rhs {
							expand(r, depth+1)
						}
					}
				}
				return true
			})
		}
		inspectNoLit(fd.Decl.Body, func(x ast.Node) bool {
			if call, ok := x.(*ast.CallExpr); ok && f.calleeSym(call) == "pkg/io.GetVarSize" {
				for _, a := range call.Args {
					expand(a, 0)
				}
			}
			return true
		})
		var missing []string
		for v := range factors {
			if !covered[v] {
				missing = append(missing, v.Name())
			}
		}
		sort.Strings(missing)
		key := shortSym(FuncKey(fd.Obj))
		if len(missing) == 0 {
			c.OK(key, c.P.Pos(fd.Decl.Pos()), fmt.Sprintf("%d varying factors of script lengths, each behind an io.GetVarSize length prefix", len(factors)))
		} else {
			c.Fail(key, c.P.Pos(fd.Decl.Pos()), fmt.Sprintf("%s starts from the size of a header with empty witness scripts and adds script lengths that vary with %s, but takes no length prefix from io.GetVarSize over them: the prefix of a byte string is one byte up to 252 bytes and three from 253 on, so a constant allowance is right for a band of sizes only (the invocation script crosses the border at 4 signatures, the verification script at 8 keys) - the estimate differs from the length of the encoding outside it", FuncKey(fd.Obj), strings.Join(missing, ", ")))
		}
	}
	c.Floor("estimators built on expectedHeaderSizeWithEmptyWitness", nfn, 2)
}

// ruleDecodedKindChecked (C17): what a stack item decoder returns has the kind the bytes say, not the kind the caller
// expects. A single-valued type assertion (x.(*stackitem.Array)) on the result of stackitem.Deserialize*,
// DecodeBinary*, FromJSON* panics when stored or received bytes hold another kind; the two-valued form or a type
// switch gives an error instead. Every local defined by such a decoder call is asserted only in the checked forms.
func ruleDecodedKindChecked(c *Ctx) {
	decoders := map[string]bool{
		"pkg/vm/stackitem.Deserialize": true, "pkg/vm/stackitem.DeserializeLimited": true,
		"pkg/vm/stackitem.DecodeBinary": true, "pkg/vm/stackitem.DecodeBinaryProtected": true,
		"pkg/vm/stackitem.FromJSON": true, "pkg/vm/stackitem.FromJSONWithTypes": true,
	}
	ncall, n := 0, 0
	for _, fd := range c.P.AllFuncDecls() {
		rel := pkgRel(fd.Pkg.Types)
		if fd.Decl.Body == nil || !strings.HasPrefix(rel, "pkg/") || strings.HasPrefix(rel, "pkg/neotest") || strings.HasPrefix(rel, "pkg/compiler") || strings.HasPrefix(rel, "pkg/interop") {
			continue
		}
		info := fd.Pkg.TypesInfo
		decoded := map[types.Object]string{}
		ast.Inspect(fd.Decl.Body, func(x ast.Node) bool {
			as, ok := x.(*ast.AssignStmt)
			if !ok || len(as.Rhs) != 1 {
				return true
			}
			call, ok := ast.Unparen(as.Rhs[0]).(*ast.CallExpr)
			if !ok {
				return true
			}
			fn := calleeFunc(info, call)
			if fn == nil || !decoders[FuncKey(fn)] {
				return true
			}
			ncall++
			if id, ok := as.Lhs[0].(*ast.Ident); ok && id.Name != "_" {
				decoded[info.ObjectOf(id)] = shortSym(FuncKey(fn))
			}
			return true
		})
		if len(decoded) == 0 {
			continue
		}
		checked := map[*ast.TypeAssertExpr]bool{}
		ast.Inspect(fd.Decl.Body, func(x ast.Node) bool {
			switch y := x.(type) {
			case *ast.AssignStmt:
				if len(y.Lhs) == 2 && len(y.Rhs) == 1 {
					if ta, ok := ast.Unparen(y.Rhs[0]).(*ast.TypeAssertExpr); ok {
						checked[ta] = true
					}
				}
			case *ast.ValueSpec:
				if len(y.Names) == 2 && len(y.Values) == 1 {
					if ta, ok := ast.Unparen(y.Values[0]).(*ast.TypeAssertExpr); ok {
						checked[ta] = true
					}
				}
			case *ast.TypeSwitchStmt:
				ast.Inspect(y.Assign, func(z ast.Node) bool {
					if ta, ok := z.(*ast.TypeAssertExpr); ok {
						checked[ta] = true
					}
					return true
				})
			}
			return true
		})
		k := 0
		ast.Inspect(fd.Decl.Body, func(x ast.Node) bool {
			ta, ok := x.(*ast.TypeAssertExpr)
			if !ok || ta.Type == nil {
				return true
			}
			id, ok := ast.Unparen(ta.X).(*ast.Ident)
			if !ok {
				return true
			}
			dec, isDec := decoded[info.ObjectOf(id)]
			if !isDec {
				return true
			}
			n++
			k++
			key := fmt.Sprintf("%s.assert#%d", shortSym(FuncKey(fd.Obj)), k)
			// the other idiom of the repository: `if t := x.Type(); t != stackitem.ArrayT { return … }` before it
			obj := info.ObjectOf(id)
			ast.Inspect(fd.Decl.Body, func(z ast.Node) bool {
				is, ok := z.(*ast.IfStmt)
				if !ok || is.Pos() > ta.Pos() || len(is.Body.List) == 0 {
					return true
				}
				if _, ret := is.Body.List[len(is.Body.List)-1].(*ast.ReturnStmt); !ret {
					return true
				}
				kindTest := false
				for _, part := range []ast.Node{is.Init, is.Cond} {
					if part == nil {
						continue
					}
					ast.Inspect(part, func(w ast.Node) bool {
						if call, ok := w.(*ast.CallExpr); ok {
							if se, ok := ast.Unparen(call.Fun).(*ast.SelectorExpr); ok && se.Sel.Name == "Type" {
								if rid, ok := ast.Unparen(se.X).(*ast.Ident); ok && info.ObjectOf(rid) == obj {
									kindTest = true
								}
							}
						}
						return true
					})
				}
				if kindTest {
					checked[ta] = true
				}
				return true
			})
			if checked[ta] {
				c.OK(key, c.P.Pos(ta.Pos()), "the kind of the decoded item is tested")
			} else {
				c.Fail(key, c.P.Pos(ta.Pos()), fmt.Sprintf("%s asserts the item %s returned to be %s with the single-valued form: bytes that hold an item of another kind (they come from the database, from a peer or from a JSON document) make it panic instead of returning an error", FuncKey(fd.Obj), dec, types.ExprString(ta.Type)))
			}
			return true
		})
	}
	c.Floor("stack item decoder calls whose result is kept", ncall, 10)
	if n == 0 {
		c.Note("no type assertion on a decoded stack item")
	}
}

// ruleHandlerStatesAgree (C04): System.Contract.Call gives a callee a rollback scope of its own only when the calling
// contract "has a try block" - when an exception the callee throws can be stopped before it faults the transaction (if
// nothing can stop it, everything is discarded anyway). Which handlers stop an exception is decided in one place,
// VM.handleException: it pops the handlers that are in their FINALLY block, or in their CATCH block with no FINALLY
// to run, and stops at the first one left. VM.ContractHasTryBlock has to recognise exactly those: a handler it
// misses (CATCH state with a FINALLY block, finding 92) stops the exception of a callee that was given no scope, and
// the writes and notifications of the failed callee stay in a transaction that halts. The two conditions are folded
// over the three handler states x {has FINALLY} x {has CATCH}; "recognised" must be the negation of "popped".
func ruleHandlerStatesAgree(c *Ctx) {
	he := c.P.Func("pkg/vm", "VM", "handleException")
	ht := c.P.Func("pkg/vm", "VM", "ContractHasTryBlock")
	if he == nil || ht == nil {
		c.Lost("handler-states-agree.anchor", "VM.handleException / VM.ContractHasTryBlock not found")
		return
	}
	info := he.Pkg.TypesInfo
	type env struct {
		state                string
		hasFinally, hasCatch bool
	}
	var eval func(e ast.Expr, en env) (bool, bool)
	eval = func(e ast.Expr, en env) (bool, bool) {
		switch x := ast.Unparen(e).(type) {
		case *ast.UnaryExpr:
			if x.Op == token.NOT {
				v, ok := eval(x.X, en)
				return !v, ok
			}
		case *ast.BinaryExpr:
			switch x.Op {
			case token.LAND, token.LOR:
				l, ok1 := eval(x.X, en)
				r, ok2 := eval(x.Y, en)
				if x.Op == token.LAND {
					return l && r, ok1 && ok2
				}
				return l || r, ok1 && ok2
			case token.EQL, token.NEQ:
				se, ok := ast.Unparen(x.X).(*ast.SelectorExpr)
				id, ok2 := ast.Unparen(x.Y).(*ast.Ident)
				if ok && ok2 && se.Sel.Name == "State" {
					if _, isConst := info.ObjectOf(id).(*types.Const); isConst {
						return (en.state == id.Name) == (x.Op == token.EQL), true
					}
				}
			}
		case *ast.CallExpr:
			if se, ok := ast.Unparen(x.Fun).(*ast.SelectorExpr); ok && len(x.Args) == 0 {
				switch se.Sel.Name {
				case "HasFinally":
					return en.hasFinally, true
				case "HasCatch":
					return en.hasCatch, true
				}
			}
		}
		return false, false
	}
	// the popping condition of handleException: the if whose body pops the handler stack
	var popCond, seeCond ast.Expr
	ast.Inspect(he.Decl.Body, func(x ast.Node) bool {
		is, ok := x.(*ast.IfStmt)
		if !ok || popCond != nil {
			return true
		}
		pops := false
		ast.Inspect(is.Body, func(y ast.Node) bool {
			if call, ok := y.(*ast.CallExpr); ok {
				if se, ok := ast.Unparen(call.Fun).(*ast.SelectorExpr); ok && se.Sel.Name == "Pop" {
					pops = true
				}
			}
			return true
		})
		if pops {
			popCond = is.Cond
		}
		return true
	})
	// the recognising condition of ContractHasTryBlock: the if that returns true
	ast.Inspect(ht.Decl.Body, func(x ast.Node) bool {
		is, ok := x.(*ast.IfStmt)
		if !ok || len(is.Body.List) != 1 {
			return true
		}
		if rs, ok := is.Body.List[0].(*ast.ReturnStmt); ok && len(rs.Results) == 1 {
			if v, isC := boolConst(info, rs.Results[0]); isC && v {
				// several ifs that return true are the disjunction of their conditions
				if seeCond == nil {
					seeCond = is.Cond
				} else {
					seeCond = &ast.BinaryExpr{X: seeCond, Op: token.LOR, Y: is.Cond, OpPos: is.Cond.Pos()}
				}
			}
		}
		return true
	})
	if popCond == nil || seeCond == nil {
		c.Lost("handler-states-agree.shape", "the popping condition of handleException or the `return true` condition of ContractHasTryBlock was not found")
		return
	}
	var states []string
	for _, name := range he.Pkg.Types.Scope().Names() {
		if k, ok := he.Pkg.Types.Scope().Lookup(name).(*types.Const); ok {
			if nt, ok := k.Type().(*types.Named); ok && nt.Obj().Name() == "exceptionHandlingState" {
				states = append(states, name)
			}
		}
	}
	c.Floor("exception handler states", len(states), 3)
	var bad []string
	for _, st := range states {
		for _, hf := range []bool{false, true} {
			for _, hc := range []bool{false, true} {
				en := env{st, hf, hc}
				p, ok1 := eval(popCond, en)
				s, ok2 := eval(seeCond, en)
				if !ok1 || !ok2 {
					c.Unclassified("handler-states-agree", c.P.Pos(seeCond.Pos()), "a condition over handler states has an atom the rule does not fold")
					return
				}
				if s == p {
					bad = append(bad, fmt.Sprintf("state %s, finally %v: handleException %s, ContractHasTryBlock %s", st, hf, map[bool]string{true: "pops it (does not stop there)", false: "stops there"}[p], map[bool]string{true: "counts it", false: "does not count it"}[s]))
				}
			}
		}
	}
	if len(bad) == 0 {
		c.OK("handler-states-agree", c.P.Pos(seeCond.Pos()), fmt.Sprintf("ContractHasTryBlock counts exactly the handlers handleException stops at (%d states x finally x catch folded)", len(states)))
	} else {
		sort.Strings(bad)
		c.Fail("handler-states-agree", c.P.Pos(seeCond.Pos()), "VM.ContractHasTryBlock and VM.handleException disagree on which handlers stop an exception: "+bad[0]+fmt.Sprintf(" (%d rows differ). A call made while such a handler is the only one gets no rollback scope; when the callee throws, the handler stops the exception, the transaction can halt, and the storage writes and notifications of the failed callee are kept", len(bad)))
	}
}

// ruleTrimmedTxFields (C02): blocks are stored trimmed - the header and the hashes of the transactions - and read
// back as such (dao.getBlock / dao.GetBlock -> block.NewTrimmedFromReader -> transaction.NewTrimmedTX(hash)): the
// elements of such a block's Transactions have a hash and nothing else. Code that walks them and reads attributes
// or signers walks empty lists: the clean-up of conflict records in dao.DeleteBlock, the one place that is supposed
// to take back what StoreAsTransaction wrote next to a transaction, never runs - neither when the collector removes
// old blocks nor when a state reset removes recent ones (the ledger left by Reset(h) then differs from the ledger of
// a node that only ever reached h). A transaction taken from a block that was read back trimmed is used through
// Hash() only, until it is replaced by the full transaction.
func ruleTrimmedTxFields(c *Ctx) {
	trimmedSrc := map[string]bool{
		"pkg/core/dao.(*Simple).getBlock": true, "pkg/core/dao.(*Simple).GetBlock": true,
		"pkg/core/block.NewTrimmedFromReader": true,
	}
	nsrc, nloop, nbad := 0, 0, 0
	for _, fd := range c.P.AllFuncDecls() {
		rel := pkgRel(fd.Pkg.Types)
		if fd.Decl.Body == nil || !strings.HasPrefix(rel, "pkg/core") {
			continue
		}
		info := fd.Pkg.TypesInfo
		blocks := map[types.Object]bool{}
		ast.Inspect(fd.Decl.Body, func(x ast.Node) bool {
			as, ok := x.(*ast.AssignStmt)
			if !ok || len(as.Rhs) != 1 {
				return true
			}
			call, ok := ast.Unparen(as.Rhs[0]).(*ast.CallExpr)
			if !ok {
				return true
			}
			fn := calleeFunc(info, call)
			if fn == nil || !trimmedSrc[FuncKey(fn)] {
				return true
			}
			nsrc++
			if id, ok := as.Lhs[0].(*ast.Ident); ok && id.Name != "_" {
				blocks[info.ObjectOf(id)] = true
			}
			return true
		})
		if len(blocks) == 0 {
			continue
		}
		ast.Inspect(fd.Decl.Body, func(x ast.Node) bool {
			rs, ok := x.(*ast.RangeStmt)
			if !ok || rs.Value == nil {
				return true
			}
			se, ok := ast.Unparen(rs.X).(*ast.SelectorExpr)
			if !ok || se.Sel.Name != "Transactions" {
				return true
			}
			bid, ok := ast.Unparen(se.X).(*ast.Ident)
			if !ok || !blocks[info.ObjectOf(bid)] {
				return true
			}
			vid, ok := rs.Value.(*ast.Ident)
			if !ok {
				return true
			}
			tx := info.ObjectOf(vid)
			nloop++
			seen := map[string]bool{}
			ast.Inspect(rs.Body, func(y ast.Node) bool {
				ms, ok := y.(*ast.SelectorExpr)
				if !ok {
					return true
				}
				id, ok := ast.Unparen(ms.X).(*ast.Ident)
				if !ok || info.ObjectOf(id) != tx {
					return true
				}
				switch ms.Sel.Name {
				case "Hash", "Trimmed":
					return true
				}
				if seen[ms.Sel.Name] {
					return true
				}
				seen[ms.Sel.Name] = true
				nbad++
				c.Fail(fmt.Sprintf("%s.%s", shortSym(FuncKey(fd.Obj)), ms.Sel.Name), c.P.Pos(ms.Pos()), fmt.Sprintf("%s walks the transactions of a block it read back from the store - a trimmed block, whose transactions carry a hash and nothing else - and reads %s of each: the list is always empty there, so what depends on it never happens (DeleteBlock: the conflict records StoreAsTransaction wrote for the transaction are never taken back; after a state reset the records name a block above the chain, HasTransaction ignores them, and the node accepts a transaction that a node which only ever reached that height rejects with ErrHasConflicts)", FuncKey(fd.Obj), ms.Sel.Name))
				return true
			})
			if len(seen) == 0 {
				c.OK(fmt.Sprintf("%s.loop#%d", shortSym(FuncKey(fd.Obj)), nloop), c.P.Pos(rs.Pos()), "transactions of a trimmed block are used through Hash() only")
			}
			return true
		})
	}
	c.Floor("reads of trimmed blocks from the store", nsrc, 3)
	c.Floor("loops over the transactions of a trimmed block", nloop, 2)
}

// ruleTipSnapshot (C19): dBFT builds the context of a new height from two questions to the application - the hash of
// the current block (PrevHash) and the current height (BlockIndex = height+1) - asked one after the other, while the
// block queue adds blocks from another goroutine. Answered by two independent reads of the ledger, a block stored
// between them gives PrevHash = hash(N) with BlockIndex = N+2; the notification about N+1 is then ignored (its index
// is below dBFT's), and until the next block this validator rejects every honest proposal and signs headers nobody
// else has - with f validators silent the chain stops (finding 95). The two callbacks answer from one pair: the
// function given to dbft.WithCurrentHeight returns a field of the service that is assigned in the same statement as
// the field the function given to dbft.WithCurrentBlockHash returns, and does not ask the ledger for a height itself.
func ruleTipSnapshot(c *Ctx) {
	pk := c.P.Pkg("pkg/consensus")
	if pk == nil {
		c.Lost("tip-snapshot.pkg", "package consensus not loaded")
		return
	}
	info := pk.TypesInfo
	args := map[string]ast.Expr{}
	for _, f := range pk.Syntax {
		ast.Inspect(f, func(x ast.Node) bool {
			call, ok := x.(*ast.CallExpr)
			if !ok || len(call.Args) != 1 {
				return true
			}
			// the options are generic functions instantiated at the call: dbft.WithCurrentHeight[util.Uint256](f)
			fun := ast.Unparen(call.Fun)
			switch ix := fun.(type) {
			case *ast.IndexExpr:
				fun = ix.X
			case *ast.IndexListExpr:
				fun = ix.X
			}
			se, ok := ast.Unparen(fun).(*ast.SelectorExpr)
			if !ok {
				return true
			}
			fn, ok := info.ObjectOf(se.Sel).(*types.Func)
			if !ok || fn.Pkg() == nil || !strings.HasSuffix(fn.Pkg().Path(), "nspcc-dev/dbft") {
				return true
			}
			if fn.Name() == "WithCurrentHeight" || fn.Name() == "WithCurrentBlockHash" {
				args[fn.Name()] = call.Args[0]
			}
			return true
		})
	}
	if args["WithCurrentHeight"] == nil || args["WithCurrentBlockHash"] == nil {
		c.Lost("tip-snapshot.callbacks", "the service no longer gives dBFT its CurrentHeight / CurrentBlockHash callbacks through dbft.WithCurrentHeight / WithCurrentBlockHash")
		return
	}
	// resolve a callback to the declaration of a function of the package (nil: something else, e.g. a method value
	// of the Ledger interface)
	resolve := func(e ast.Expr) (*FuncDecl, string) {
		switch x := ast.Unparen(e).(type) {
		case *ast.SelectorExpr:
			if fn, ok := info.ObjectOf(x.Sel).(*types.Func); ok {
				if fd := c.P.DeclOf(fn); fd != nil && fd.Pkg == pk {
					return fd, FuncKey(fn)
				}
				return nil, FuncKey(fn)
			}
		case *ast.Ident:
			if fn, ok := info.ObjectOf(x).(*types.Func); ok {
				if fd := c.P.DeclOf(fn); fd != nil && fd.Pkg == pk {
					return fd, FuncKey(fn)
				}
				return nil, FuncKey(fn)
			}
		}
		return nil, types.ExprString(e)
	}
	hd, hname := resolve(args["WithCurrentHeight"])
	bd, bname := resolve(args["WithCurrentBlockHash"])
	pos := c.P.Pos(args["WithCurrentHeight"].Pos())
	if hd == nil || bd == nil {
		c.Fail("tip-snapshot", pos, fmt.Sprintf("dBFT's CurrentHeight and CurrentBlockHash callbacks are %s and %s - two independent reads of a ledger that another goroutine writes: a block stored between them gives the context PrevHash = hash(N) and BlockIndex = N+2, the notification about block N+1 is then below dBFT's index and ignored, and until the next block this validator rejects every honest proposal (invalid PrevHash) and signs headers nobody else has", shortSym(hname), shortSym(bname)))
		return
	}
	retField := func(fd *FuncDecl) *types.Var {
		var out *types.Var
		for _, st := range fd.Decl.Body.List {
			rs, ok := st.(*ast.ReturnStmt)
			if !ok || len(rs.Results) != 1 {
				continue
			}
			if se, ok := ast.Unparen(rs.Results[0]).(*ast.SelectorExpr); ok {
				if v, ok := info.ObjectOf(se.Sel).(*types.Var); ok && v.IsField() {
					out = v
				}
			}
		}
		return out
	}
	hf, bf := retField(hd), retField(bd)
	// a direct question to the ledger for a height in the height callback itself
	asksLedger := ""
	inspectNoLit(hd.Decl.Body, func(x ast.Node) bool {
		if call, ok := x.(*ast.CallExpr); ok {
			if fn := calleeFunc(info, call); fn != nil && (fn.Name() == "BlockHeight" || fn.Name() == "HeaderHeight") {
				asksLedger = fn.Name()
			}
		}
		return true
	})
	together := false
	if hf != nil && bf != nil {
		for _, f := range pk.Syntax {
			ast.Inspect(f, func(x ast.Node) bool {
				as, ok := x.(*ast.AssignStmt)
				if !ok {
					return true
				}
				seenH, seenB := false, false
				for _, l := range as.Lhs {
					if se, ok := ast.Unparen(l).(*ast.SelectorExpr); ok {
						switch info.ObjectOf(se.Sel) {
						case types.Object(hf):
							seenH = true
						case types.Object(bf):
							seenB = true
						}
					}
				}
				if seenH && seenB {
					together = true
				}
				return true
			})
		}
	}
	switch {
	case asksLedger != "":
		c.Fail("tip-snapshot", pos, fmt.Sprintf("%s, dBFT's CurrentHeight callback, asks the ledger (%s) itself: the hash dBFT took a moment earlier and this height are two reads of a ledger that another goroutine writes; a block stored between them gives a context with PrevHash = hash(N) and BlockIndex = N+2", shortSym(hname), asksLedger))
	case hf == nil || bf == nil:
		c.Unclassified("tip-snapshot", pos, "the callbacks do not return fields of the service; the rule cannot tell whether the two answers come from one look at the ledger")
	case !together:
		c.Fail("tip-snapshot", pos, fmt.Sprintf("the fields dBFT's callbacks return (%s, %s) are never assigned in one statement: the hash and the height of the tip are taken apart", bf.Name(), hf.Name()))
	default:
		c.OK("tip-snapshot", pos, fmt.Sprintf("dBFT's CurrentBlockHash and CurrentHeight answer from one pair (%s, %s) assigned together", bf.Name(), hf.Name()))
	}
}

// rulePrimaryIndexBounded (C19): the header's PrimaryIndex is a position in the validator list the block was *made*
// by; the honest validators compute it as (index - view) mod the number of current validators and sign it. Whoever
// uses it as an index into a list has to be sure the list is that one, or at least as long: NEO.OnPersist replaces
// the next-block validators at a committee refresh before GAS.OnPersist pays the primary out of that list, so at a
// height where ValidatorsHistory shrinks the validator count the index can lie outside it - a block that M validators
// committed is rejected by every ledger ("index out of range") and the chain halts one block below. Every index
// expression in the natives whose index is the header's PrimaryIndex follows a test of that index against the
// length of the indexed list.
func rulePrimaryIndexBounded(c *Ctx) {
	n := 0
	for _, fd := range c.P.AllFuncDecls() {
		if fd.Decl.Body == nil || pkgRel(fd.Pkg.Types) != "pkg/core/native" {
			continue
		}
		info := fd.Pkg.TypesInfo
		mentionsPI := func(e ast.Node) bool {
			hit := false
			ast.Inspect(e, func(x ast.Node) bool {
				if se, ok := x.(*ast.SelectorExpr); ok && se.Sel.Name == "PrimaryIndex" {
					if v, ok := info.ObjectOf(se.Sel).(*types.Var); ok && v.IsField() {
						hit = true
					}
				}
				return true
			})
			return hit
		}
		k := 0
		ast.Inspect(fd.Decl.Body, func(x ast.Node) bool {
			ix, ok := x.(*ast.IndexExpr)
			if !ok || !mentionsPI(ix.Index) {
				return true
			}
			if _, isSl := info.TypeOf(ix.X).Underlying().(*types.Slice); !isSl {
				return true
			}
			n++
			k++
			key := fmt.Sprintf("%s#%d", shortSym(FuncKey(fd.Obj)), k)
			root := rootObj(info, ix.X)
			guarded := false
			ast.Inspect(fd.Decl.Body, func(y ast.Node) bool {
				is, ok := y.(*ast.IfStmt)
				if !ok || is.Pos() > ix.Pos() || !mentionsPI(is.Cond) {
					return true
				}
				ast.Inspect(is.Cond, func(z ast.Node) bool {
					if call, ok := z.(*ast.CallExpr); ok && len(call.Args) == 1 {
						if id, ok := call.Fun.(*ast.Ident); ok && id.Name == "len" && rootObj(info, call.Args[0]) == root && root != nil {
							guarded = true
						}
					}
					return true
				})
				return true
			})
			if guarded {
				c.OK(key, c.P.Pos(ix.Pos()), "the header's PrimaryIndex is compared with the length of the list it indexes")
			} else {
				c.Fail(key, c.P.Pos(ix.Pos()), fmt.Sprintf("%s indexes %s with the header's PrimaryIndex without comparing it with the length of that list: the index was computed by the validators that made the block, over *their* number, while the list is what the ledger holds at this point of the block's processing (NEO.OnPersist has already installed the validators of the next block); where the two differ in size - a height at which ValidatorsHistory lowers the validator count - a block that M validators committed fails in OnPersist with 'index out of range' on every ledger, their own included, and the chain halts", FuncKey(fd.Obj), types.ExprString(ix.X)))
			}
			return true
		})
	}
	c.Floor("index expressions over the header's PrimaryIndex in the natives", n, 1)
}

// ruleScopeDecodersAgree (C15, C17): a witness scope arrives as a byte (binary), as a string (JSON, CLI, RPC
// parameters) or as a number; which combinations are legal - Global with nothing else, no unknown bits - is written
// once, in transaction.ScopesFromByte. Every other function of the package that produces a WitnessScope from outside
// data (result type (WitnessScope, error)) hands its result to that validator on every successful return: a decoder
// with checks of its own drifts (finding 98: the string form refused "Global,X" and accepted "X,Global", a value the
// binary codec cannot carry and checkScope reads as "not Global").
func ruleScopeDecodersAgree(c *Ctx) {
	pk := c.P.Pkg("pkg/core/transaction")
	if pk == nil {
		c.Lost("scope-decoders-agree.pkg", "package transaction not loaded")
		return
	}
	info := pk.TypesInfo
	n := 0
	var validator *types.Func
	if o, ok := pk.Types.Scope().Lookup("ScopesFromByte").(*types.Func); ok {
		validator = o
	}
	if validator == nil {
		c.Lost("scope-decoders-agree.validator", "transaction.ScopesFromByte not found")
		return
	}
	for _, fd := range c.P.AllFuncDecls() {
		if fd.Pkg != pk || fd.Decl.Body == nil || fd.Obj == validator {
			continue
		}
		sig := fd.Obj.Type().(*types.Signature)
		if sig.Results().Len() != 2 || !namedTypeIs(sig.Results().At(0).Type(), "pkg/core/transaction", "WitnessScope") {
			continue
		}
		if types.TypeString(sig.Results().At(1).Type(), nil) != "error" {
			continue
		}
		n++
		key := shortSym(FuncKey(fd.Obj))
		bad := token.NoPos
		inspectNoLit(fd.Decl.Body, func(x ast.Node) bool {
			rs, ok := x.(*ast.ReturnStmt)
			if !ok {
				return true
			}
			switch len(rs.Results) {
			case 1:
				if call, ok := ast.Unparen(rs.Results[0]).(*ast.CallExpr); ok && calleeFunc(info, call) == validator {
					return true
				}
				bad = rs.Pos()
			case 2:
				// an error return is fine; a success return (nil error) bypasses the validator
				if isNilIdent(info, rs.Results[1]) {
					bad = rs.Pos()
				}
			}
			return true
		})
		if bad == token.NoPos {
			c.OK(key, c.P.Pos(fd.Decl.Pos()), "every successful return goes through ScopesFromByte")
		} else {
			c.Fail(key, c.P.Pos(bad), fmt.Sprintf("%s returns a WitnessScope built from outside data without handing it to ScopesFromByte, the one place that says which combinations are legal: its own checks can accept what the binary form refuses (\"CalledByEntry,Global\" = 0x81) - a signer that cannot be encoded, and that checkScope, which compares the whole byte with Global, evaluates as CalledByEntry only", FuncKey(fd.Obj)))
		}
	}
	c.Floor("decoders of WitnessScope besides ScopesFromByte", n, 1)
}

// rulePageOffsetUnits (C02): HeaderHashes keeps the hashes of the last two pages in memory; `latest` and `previous`
// are indexed by the *position inside the page*, i.e. a height minus the height the page starts at
// (storedHeaderCount, or storedHeaderCount minus one page). An index built from a height alone is right only
// while the page is page 0: the start-up code for a node that was started from a trusted header resliced `latest`
// to `currHeaderHeight - len(headers)` - an absolute height - and panicked on restart for any trusted header beyond
// the first 2000 (finding 99). Every index or slice bound over the two fields is a constant, is relative to the
// length of that slice, or subtracts a page base (storedHeaderCount or a local defined from it).
func rulePageOffsetUnits(c *Ctx) {
	pk := c.P.Pkg("pkg/core")
	if pk == nil {
		return
	}
	info := pk.TypesInfo
	n := 0
	for _, fd := range c.P.AllFuncDecls() {
		if fd.Pkg != pk || fd.Decl.Body == nil || fd.Decl.Recv == nil {
			continue
		}
		if !namedTypeIs(fd.Obj.Type().(*types.Signature).Recv().Type(), "pkg/core", "HeaderHashes") {
			continue
		}
		f := c.P.NewFuncCFG(fd)
		isPaged := func(e ast.Expr) (string, bool) {
			se, ok := ast.Unparen(e).(*ast.SelectorExpr)
			if !ok {
				return "", false
			}
			if se.Sel.Name == "latest" || se.Sel.Name == "previous" {
				if v, ok := info.ObjectOf(se.Sel).(*types.Var); ok && v.IsField() {
					return se.Sel.Name, true
				}
			}
			return "", false
		}
		// does e (through single-definition locals) mention the page base?
		var mentionsBase func(e ast.Node, depth int) bool
		mentionsBase = func(e ast.Node, depth int) bool {
			hit := false
			ast.Inspect(e, func(x ast.Node) bool {
				switch y := x.(type) {
				case *ast.SelectorExpr:
					if y.Sel.Name == "storedHeaderCount" {
						hit = true
					}
				case *ast.Ident:
					if v, ok := info.ObjectOf(y).(*types.Var); ok && !v.IsField() && !f.params[v] && depth < 3 {
						for _, d := range f.defs[v] {
							for _, r := range d.rhs {
								if mentionsBase(r, depth+1) {
									hit = true
								}
							}
						}
					}
				}
				return !hit
			})
			return hit
		}
		check := func(field string, sl ast.Expr, idx ast.Expr, pos token.Pos) {
			if idx == nil {
				return
			}
			n++
			key := fmt.Sprintf("%s.%s@%s", shortSym(FuncKey(fd.Obj)), field, types.ExprString(idx))
			if tv, ok := info.Types[idx]; ok && tv.Value != nil {
				c.OK(key, c.P.Pos(pos), "constant position")
				return
			}
			// relative to the length of the same slice
			lenOfSame, otherVars := false, false
			ast.Inspect(idx, func(x ast.Node) bool {
				if call, ok := x.(*ast.CallExpr); ok {
					if id, ok := call.Fun.(*ast.Ident); ok && id.Name == "len" && len(call.Args) == 1 {
						if fn, ok := isPaged(call.Args[0]); ok && fn == field {
							lenOfSame = true
							return false
						}
					}
				}
				if id, ok := x.(*ast.Ident); ok {
					if v, ok := info.ObjectOf(id).(*types.Var); ok && !v.IsField() {
						otherVars = true
					}
				}
				return true
			})
			switch {
			case mentionsBase(idx, 0):
				c.OK(key, c.P.Pos(pos), "a height minus the height the page starts at")
			case lenOfSame && !otherVars:
				c.OK(key, c.P.Pos(pos), "relative to the slice's own length")
			default:
				c.Fail(key, c.P.Pos(pos), fmt.Sprintf("%s positions HeaderHashes.%s with `%s`, which is built from heights and never subtracts the height the page starts at (storedHeaderCount): the two in-memory pages are indexed by position inside the page, so this is right for page 0 only - for a node whose headers start at a trusted header beyond the first page the bound exceeds the page and start-up panics, or the hashes land at the wrong positions", FuncKey(fd.Obj), field, types.ExprString(idx)))
			}
		}
		ast.Inspect(fd.Decl.Body, func(x ast.Node) bool {
			switch y := x.(type) {
			case *ast.IndexExpr:
				if fn, ok := isPaged(y.X); ok {
					check(fn, y.X, y.Index, y.Pos())
				}
			case *ast.SliceExpr:
				if fn, ok := isPaged(y.X); ok {
					check(fn, y.X, y.Low, y.Pos())
					check(fn, y.X, y.High, y.Pos())
				}
			}
			return true
		})
	}
	c.Floor("positions taken in the in-memory header hash pages", n, 6)
}

// ruleRemovalMultiplicity (C08): the pool's conflicts index maps a hash named in Conflicts attributes to the pooled
// transactions naming it. The writers append the transaction once *per attribute* and do not look whether it is
// there already (a transaction may name one hash twice: the pool API and the wire format accept it), and the remover
// runs once per attribute too - so each of its iterations has to take out exactly one occurrence. A remover that
// takes out every occurrence in one iteration empties the list on the first of two attributes; the second iteration
// then sees a list of length one - another transaction's entry - and deletes the whole key, although that transaction
// is still pooled: the named transaction is admitted next to the one that conflicts with it. For every map-of-slices
// index of the pool whose adders append without a membership test, the removal inside the per-attribute loop is a
// single-element splice or slices.Delete of one position, never a removal of all matches.
func ruleRemovalMultiplicity(c *Ctx) {
	pk := c.P.Pkg("pkg/core/mempool")
	if pk == nil {
		return
	}
	info := pk.TypesInfo
	isIndex := func(e ast.Expr) (string, bool) {
		ix, ok := ast.Unparen(e).(*ast.IndexExpr)
		if !ok {
			return "", false
		}
		se, ok := ast.Unparen(ix.X).(*ast.SelectorExpr)
		if !ok {
			return "", false
		}
		v, ok := info.ObjectOf(se.Sel).(*types.Var)
		if !ok || !v.IsField() {
			return "", false
		}
		m, ok := v.Type().Underlying().(*types.Map)
		if !ok {
			return "", false
		}
		if _, ok := m.Elem().Underlying().(*types.Slice); !ok {
			return "", false
		}
		return v.Name(), true
	}
	adders := map[string]int{} // field -> appends of one element
	dedup := map[string]bool{} // field -> some adder tests membership first
	type rem struct {
		fn   string
		pos  token.Pos
		kind string
	}
	removers := map[string][]rem{}
	for _, fd := range c.P.AllFuncDecls() {
		if fd.Pkg != pk || fd.Decl.Body == nil {
			continue
		}
		f := c.P.NewFuncCFG(fd)
		ast.Inspect(fd.Decl.Body, func(x ast.Node) bool {
			as, ok := x.(*ast.AssignStmt)
			if !ok || len(as.Lhs) != 1 || len(as.Rhs) != 1 {
				return true
			}
			fld, ok := isIndex(as.Lhs[0])
			if !ok {
				return true
			}
			call, ok := ast.Unparen(as.Rhs[0]).(*ast.CallExpr)
			if !ok {
				return true
			}
			switch sym := f.calleeSym(call); sym {
			case "builtin.append":
				if len(call.Args) == 2 && call.Ellipsis == token.NoPos {
					if af, ok := isIndex(call.Args[0]); ok && af == fld {
						adders[fld]++
					}
				} else if len(call.Args) == 2 && call.Ellipsis != token.NoPos {
					// append(s[:i], s[i+1:]...): one element out
					if sl, ok := ast.Unparen(call.Args[0]).(*ast.SliceExpr); ok {
						if af, ok := isIndex(sl.X); ok && af == fld {
							removers[fld] = append(removers[fld], rem{FuncKey(fd.Obj), as.Pos(), "splice"})
						}
					}
				}
			case "slices.Delete":
				removers[fld] = append(removers[fld], rem{FuncKey(fd.Obj), as.Pos(), "one"})
			case "slices.DeleteFunc":
				removers[fld] = append(removers[fld], rem{FuncKey(fd.Obj), as.Pos(), "all"})
			}
			return true
		})
		ast.Inspect(fd.Decl.Body, func(x ast.Node) bool {
			if call, ok := x.(*ast.CallExpr); ok && (f.calleeSym(call) == "slices.Contains" || f.calleeSym(call) == "slices.Index") && len(call.Args) >= 1 {
				if fld, ok := isIndex(call.Args[0]); ok && adders[fld] > 0 {
					dedup[fld] = true
				}
			}
			return true
		})
	}
	n := 0
	var flds []string
	for fld := range adders {
		flds = append(flds, fld)
	}
	sort.Strings(flds)
	for _, fld := range flds {
		if dedup[fld] {
			continue
		}
		for i, r := range removers[fld] {
			n++
			key := fmt.Sprintf("%s.%s#%d", fld, shortSym(r.fn), i+1)
			if r.kind == "all" {
				c.Fail(key, c.P.Pos(r.pos), fmt.Sprintf("%s takes every occurrence of the transaction out of Pool.%s[hash] at once, while the writers append one occurrence per Conflicts attribute without looking whether it is there already and the remover itself runs once per attribute: for a transaction that names a hash twice the first iteration leaves only the other transactions' entries, the second finds a list of length one and deletes the key - a pooled transaction's conflict is forgotten and the transaction it names is admitted next to it", r.fn, fld))
			} else {
				c.OK(key, c.P.Pos(r.pos), "one occurrence out per iteration, as one goes in per attribute")
			}
		}
	}
	c.Floor("appends to the pool's multimap indexes", len(adders), 1)
	c.Floor("removals from the pool's multimap indexes", n, 1)
}

// ruleCheckNotCacheGated (C08): the per-payer record of the pool (balance, sum of fees) is a cache: it is filled when a
// payer is seen for the first time and thrown away by every block. Whether a record was there decides whether to
// *fill* it, never whether to *check*: the first transaction of a payer after a refresh is the one the new balance
// has to be compared with (RemoveStale re-admits the pooled transactions against the balances after the block). No
// condition that controls a checkBalance call mentions the presence flag of the fee cache.
func ruleCheckNotCacheGated(c *Ctx) {
	pk := c.P.Pkg("pkg/core/mempool")
	if pk == nil {
		return
	}
	info := pk.TypesInfo
	n := 0
	for _, fd := range c.P.AllFuncDecls() {
		if fd.Pkg != pk || fd.Decl.Body == nil {
			continue
		}
		f := c.P.NewFuncCFG(fd)
		// presence flags: second result of getPayerFee, or of a comma-ok read of the fees map
		flags := map[types.Object]bool{}
		ast.Inspect(fd.Decl.Body, func(x ast.Node) bool {
			as, ok := x.(*ast.AssignStmt)
			if !ok || len(as.Lhs) != 2 || len(as.Rhs) != 1 {
				return true
			}
			id, ok := as.Lhs[1].(*ast.Ident)
			if !ok || id.Name == "_" {
				return true
			}
			switch r := ast.Unparen(as.Rhs[0]).(type) {
			case *ast.CallExpr:
				if strings.HasSuffix(f.calleeSym(r), "mempool.getPayerFee") {
					flags[info.ObjectOf(id)] = true
				}
			case *ast.IndexExpr:
				if se, ok := ast.Unparen(r.X).(*ast.SelectorExpr); ok && se.Sel.Name == "fees" {
					flags[info.ObjectOf(id)] = true
				}
			}
			return true
		})
		var stack []ast.Node
		k := 0
		ast.Inspect(fd.Decl.Body, func(x ast.Node) bool {
			if x == nil {
				stack = stack[:len(stack)-1]
				return true
			}
			stack = append(stack, x)
			call, ok := x.(*ast.CallExpr)
			if !ok || !strings.HasSuffix(f.calleeSym(call), "mempool.checkBalance") {
				return true
			}
			n++
			k++
			key := fmt.Sprintf("%s.checkBalance#%d", shortSym(FuncKey(fd.Obj)), k)
			bad := ""
			for i := len(stack) - 2; i >= 0; i-- {
				is, ok := stack[i].(*ast.IfStmt)
				if !ok {
					continue
				}
				ast.Inspect(is.Cond, func(y ast.Node) bool {
					if id, ok := y.(*ast.Ident); ok && flags[info.ObjectOf(id)] {
						bad = types.ExprString(is.Cond)
					}
					return true
				})
			}
			if bad == "" {
				c.OK(key, c.P.Pos(call.Pos()), "the balance check does not depend on whether the payer's record was cached")
			} else {
				c.Fail(key, c.P.Pos(call.Pos()), fmt.Sprintf("%s compares a transaction with its payer's balance only under `%s`, which mentions the presence flag of the fee cache: the cache is emptied by every block, so the first (highest-priority) transaction of each payer is re-admitted by RemoveStale without being compared with the balance the block left - it stays pooled with fees above the balance, and its reservation pushes out the cheaper transactions the payer can still afford", FuncKey(fd.Obj), bad))
			}
			return true
		})
	}
	c.Floor("checkBalance calls in the pool", n, 2)
}

// ruleWitnessRecheckClasses (C06, C07): after every block the pool keeps a transaction without executing its witnesses
// again only when no witness *can* have changed its mind: a standard signature or multisignature script reads no
// state. A contract-based witness (empty verification script: the account's deployed `verify` runs) and a custom
// verification script (runs with ReadOnly flags, may read storage, the height, the time) can both turn false while
// the transaction waits; AddBlock trusts the pool and does not verify a transaction it finds there as it is. The loop
// of IsTxStillRelevant that raises the re-verification flag is folded over the three classes of verification script -
// empty, standard, other - and has to raise the flag for the first and the last.
func ruleWitnessRecheckClasses(c *Ctx) {
	fd := c.P.Func("pkg/core", "Blockchain", "IsTxStillRelevant")
	if fd == nil {
		c.Lost("witness-recheck-classes.anchor", "Blockchain.IsTxStillRelevant not found")
		return
	}
	f := c.P.NewFuncCFG(fd)
	info := f.Info
	type class struct {
		name            string
		empty, standard bool
	}
	classes := []class{{"empty (contract-based witness)", true, false}, {"standard signature/multisignature", false, true}, {"custom script", false, false}}
	var eval func(e ast.Expr, cl class) (bool, bool)
	eval = func(e ast.Expr, cl class) (bool, bool) {
		switch x := ast.Unparen(e).(type) {
		case *ast.UnaryExpr:
			if x.Op == token.NOT {
				v, ok := eval(x.X, cl)
				return !v, ok
			}
		case *ast.BinaryExpr:
			switch x.Op {
			case token.LAND, token.LOR:
				l, ok1 := eval(x.X, cl)
				r, ok2 := eval(x.Y, cl)
				if x.Op == token.LAND {
					return l && r, ok1 && ok2
				}
				return l || r, ok1 && ok2
			case token.EQL, token.NEQ, token.GTR:
				// len(script) == 0 / != 0 / > 0
				if call, ok := ast.Unparen(x.X).(*ast.CallExpr); ok && f.calleeSym(call) == "builtin.len" && isZeroConst(info, x.Y) {
					switch x.Op {
					case token.EQL:
						return cl.empty, true
					default:
						return !cl.empty, true
					}
				}
			}
		case *ast.CallExpr:
			switch sym := f.calleeSym(x); {
			case strings.HasSuffix(sym, "scparser.IsStandardContract"):
				return cl.standard, true
			case strings.HasSuffix(sym, "scparser.IsSignatureContract"), strings.HasSuffix(sym, "scparser.IsMultiSigContract"):
				// one of the two standard forms: true for some standard scripts only - not foldable per class
				return false, false
			}
		}
		return false, false
	}
	// the assignment of true to the flag inside the loop over the witnesses, and the condition under which it is
	// reached: the enclosing ifs, and the negated conditions of the `if … { continue }` statements before it in its block
	var cond ast.Expr
	var stack []ast.Node
	conj := func(a, b ast.Expr) ast.Expr {
		if a == nil {
			return b
		}
		return &ast.BinaryExpr{X: a, Op: token.LAND, Y: b}
	}
	leaves := func(b *ast.BlockStmt) bool {
		if len(b.List) == 0 {
			return false
		}
		switch y := b.List[len(b.List)-1].(type) {
		case *ast.BranchStmt:
			return y.Tok == token.CONTINUE
		case *ast.ReturnStmt:
			return true
		}
		return false
	}
	ast.Inspect(fd.Decl.Body, func(x ast.Node) bool {
		if x == nil {
			stack = stack[:len(stack)-1]
			return true
		}
		stack = append(stack, x)
		as, ok := x.(*ast.AssignStmt)
		if !ok || cond != nil || len(as.Rhs) != 1 || len(as.Lhs) != 1 {
			return true
		}
		if v, isC := boolConst(info, as.Rhs[0]); !isC || !v {
			return true
		}
		inLoop := false
		var pc ast.Expr
		for i := len(stack) - 2; i >= 0; i-- {
			switch y := stack[i].(type) {
			case *ast.RangeStmt:
				if strings.Contains(types.ExprString(y.X), "Scripts") {
					inLoop = true
				}
			case *ast.IfStmt:
				if i+1 < len(stack) && stack[i+1] == ast.Node(y.Body) {
					pc = conj(pc, y.Cond)
				} else if i+1 < len(stack) && y.Else != nil && stack[i+1] == ast.Node(y.Else) {
					pc = conj(pc, &ast.UnaryExpr{Op: token.NOT, X: y.Cond})
				}
			case *ast.BlockStmt:
				for _, st := range y.List {
					if i+1 < len(stack) && ast.Node(st) == stack[i+1] {
						break
					}
					if is, ok := st.(*ast.IfStmt); ok && is.Else == nil && leaves(is.Body) {
						pc = conj(pc, &ast.UnaryExpr{Op: token.NOT, X: is.Cond})
					}
				}
			}
			if inLoop {
				break
			}
		}
		if inLoop && pc != nil && strings.Contains(types.ExprString(pc), "VerificationScript") {
			cond = pc
		}
		return true
	})
	if cond == nil {
		c.Lost("witness-recheck-classes.shape", "the test that raises the witness re-verification flag in IsTxStillRelevant was not found")
		return
	}
	var bad []string
	for _, cl := range classes {
		v, ok := eval(cond, cl)
		if !ok {
			c.Unclassified("witness-recheck-classes", c.P.Pos(cond.Pos()), "the re-verification test has an atom the rule does not fold over the classes of verification script")
			return
		}
		if !cl.standard && !v {
			bad = append(bad, cl.name)
		}
	}
	if len(bad) == 0 {
		c.OK("witness-recheck-classes", c.P.Pos(cond.Pos()), "witnesses with an empty or a custom verification script are executed again after every block; only standard ones are exempt")
	} else {
		c.Fail("witness-recheck-classes", c.P.Pos(cond.Pos()), fmt.Sprintf("IsTxStillRelevant decides with `%s` whether the witnesses of a pooled transaction are executed again after a block; that test does not hold for a witness with %s verification script, which runs with read access to the chain and can turn false while the transaction waits in the pool. AddBlock does not verify a transaction it finds in the pool as it is, so a block carrying it is accepted where a node that never pooled it rejects the block", types.ExprString(cond), strings.Join(bad, " / ")))
	}
}

// ruleFlagsNarrowed (C15, C16): call flags only ever shrink along a call chain: whoever loads a new context from
// inside an execution - System.Contract.Call, System.Runtime.LoadScript - gives it the requested flags *intersected
// with its own*. getContractGroups, the storage interops and the natives' flag checks all trust that: a context that
// holds ReadStates got it from every caller above it. The flag argument of every VM loader called from the interop
// layer is an expression that (through the definitions of the locals it names) and-s with the current context's
// GetCallFlags().
func ruleFlagsNarrowed(c *Ctx) {
	n := 0
	for _, fd := range c.P.AllFuncDecls() {
		rel := pkgRel(fd.Pkg.Types)
		if fd.Decl.Body == nil || !strings.HasPrefix(rel, "pkg/core/interop") {
			continue
		}
		f := c.P.NewFuncCFG(fd)
		info := f.Info
		inspectNoLit(fd.Decl.Body, func(x ast.Node) bool {
			call, ok := x.(*ast.CallExpr)
			if !ok {
				return true
			}
			cf := calleeFunc(info, call)
			if cf == nil || cf.Pkg() == nil || pkgRel(cf.Pkg()) != "pkg/vm" || !strings.HasPrefix(cf.Name(), "Load") {
				return true
			}
			sig := cf.Type().(*types.Signature)
			for i := 0; i < sig.Params().Len() && i < len(call.Args); i++ {
				if !namedTypeIs(sig.Params().At(i).Type(), "pkg/smartcontract/callflag", "CallFlag") {
					continue
				}
				n++
				key := fmt.Sprintf("%s->%s", shortSym(FuncKey(fd.Obj)), cf.Name())
				// every definition of the locals in the argument, transitively
				narrowed := false
				seen := map[types.Object]bool{}
				var walk func(e ast.Node, depth int)
				walk = func(e ast.Node, depth int) {
					ast.Inspect(e, func(y ast.Node) bool {
						switch z := y.(type) {
						case *ast.BinaryExpr:
							if z.Op == token.AND {
								if strings.Contains(types.ExprString(z), "GetCallFlags()") {
									narrowed = true
								}
							}
						case *ast.Ident:
							v, ok := info.ObjectOf(z).(*types.Var)
							if !ok || v.IsField() || seen[v] || depth > 3 {
								return true
							}
							seen[v] = true
							// all assignments to v in the function (plain and compound)
							ast.Inspect(fd.Decl.Body, func(w ast.Node) bool {
								as, ok := w.(*ast.AssignStmt)
								if !ok {
									return true
								}
								for li, l := range as.Lhs {
									if id, ok := ast.Unparen(l).(*ast.Ident); ok && info.ObjectOf(id) == types.Object(v) {
										if as.Tok == token.AND_ASSIGN && li < len(as.Rhs) && strings.Contains(types.ExprString(as.Rhs[li]), "GetCallFlags()") {
											narrowed = true
										}
										if li < len(as.Rhs) {
											walk(as.Rhs[li], depth+1)
										}
									}
								}
								return true
							})
						}
						return true
					})
				}
				walk(call.Args[i], 0)
				if narrowed {
					c.OK(key, c.P.Pos(call.Pos()), "the flags of the new context are and-ed with the current context's")
				} else {
					c.Fail(key, c.P.Pos(call.Pos()), fmt.Sprintf("%s loads a new context with flags `%s` that are not intersected with the flags of the context that asks for it: a contract entered without ReadStates (or without AllowCall, WriteStates ...) hands them to whatever it loads, and everything below that trusts the flags of the current context - the group lookups of CheckWitness, the storage interops, the natives - is open to it again", FuncKey(fd.Obj), types.ExprString(call.Args[i])))
				}
			}
			return true
		})
	}
	c.Floor("contexts loaded from the interop layer", n, 2)
}

// ruleKeyIdentityComplete (C15): a public key is a point, two coordinates. keys.PublicKey.Equal - what
// manifest.Groups.Contains, the CustomGroups scope and the Group / CalledByGroup conditions compare with - is defined
// as Cmp(...) == 0, so the comparison has to look at both: the point with the same X and the other Y is another key
// (private key n-d), with another compressed form and a valid signature of its own. Every *big.Int field of the key
// is read by the function Equal reduces to.
func ruleKeyIdentityComplete(c *Ctx) {
	eq := c.P.Func("pkg/crypto/keys", "PublicKey", "Equal")
	if eq == nil {
		c.Lost("key-identity-complete.anchor", "keys.PublicKey.Equal not found")
		return
	}
	info := eq.Pkg.TypesInfo
	// the comparison Equal reduces to: Equal itself plus the methods of PublicKey it calls (depth 2)
	seen := map[*FuncDecl]bool{}
	read := map[string]bool{}
	var visit func(fd *FuncDecl, depth int)
	visit = func(fd *FuncDecl, depth int) {
		if fd == nil || fd.Decl.Body == nil || seen[fd] || depth > 2 {
			return
		}
		seen[fd] = true
		ast.Inspect(fd.Decl.Body, func(x ast.Node) bool {
			switch y := x.(type) {
			case *ast.SelectorExpr:
				if v, ok := info.ObjectOf(y.Sel).(*types.Var); ok && v.IsField() {
					read[v.Name()] = true
				}
			case *ast.CallExpr:
				if fn := calleeFunc(info, y); fn != nil && fn.Name() != "IsInfinity" {
					if d := c.P.DeclOf(fn); d != nil && d.Pkg == eq.Pkg {
						visit(d, depth+1)
					}
				}
			}
			return true
		})
	}
	visit(eq, 0)
	tn, _ := eq.Pkg.Types.Scope().Lookup("PublicKey").(*types.TypeName)
	if tn == nil {
		c.Lost("key-identity-complete.type", "keys.PublicKey not found")
		return
	}
	st, _ := tn.Type().Underlying().(*types.Struct)
	if st == nil {
		c.Lost("key-identity-complete.type", "keys.PublicKey is not a struct")
		return
	}
	n := 0
	var missing []string
	for i := 0; i < st.NumFields(); i++ {
		fl := st.Field(i)
		if types.TypeString(fl.Type(), nil) != "*math/big.Int" {
			continue
		}
		n++
		if !read[fl.Name()] {
			missing = append(missing, fl.Name())
		}
	}
	c.Floor("coordinates of a public key", n, 2)
	if len(missing) == 0 {
		c.OK("key-identity-complete", c.P.Pos(eq.Decl.Pos()), "PublicKey.Equal compares every coordinate")
	} else {
		c.Fail("key-identity-complete", c.P.Pos(eq.Decl.Pos()), fmt.Sprintf("keys.PublicKey.Equal (through Cmp) never reads %s: two different keys - the point and its mirror image, private keys d and n-d - compare equal, so a signer that allows group K is witnessed inside a contract whose manifest lists only the mirrored key, a Deny Group(K) rule hits the wrong contracts, and a manifest listing both is refused as a duplicate", strings.Join(missing, ", ")))
	}
}

// ruleBatchFullAgreement (C02): whether a batch of the token transfer log is full is decided where the log is written
// (appendTokenTransfer: `log.Size() >= TokenTransferBatchSize`) and the answer goes into the account's transfer info
// (which batch is next, its newest timestamp). The state reset rebuilds that info from the batches it keeps and asks
// the same question; answered with another operator, an account that keeps a complete batch gets "next batch 0", the
// next transfer is appended to the full batch and later ones open a second batch beside it: the logs of the node that
// was reset differ from those of a node that only ever reached that height. Every call of appendTokenTransferInfo
// passes a comparison with state.TokenTransferBatchSize that has, normalised to `size OP limit`, the writer's operator.
func ruleBatchFullAgreement(c *Ctx) {
	pk := c.P.Pkg("pkg/core")
	if pk == nil {
		return
	}
	info := pk.TypesInfo
	flip := map[token.Token]token.Token{token.LSS: token.GTR, token.GTR: token.LSS, token.LEQ: token.GEQ, token.GEQ: token.LEQ, token.EQL: token.EQL, token.NEQ: token.NEQ}
	type site struct {
		fn     string
		op     token.Token
		pos    token.Pos
		writer bool
	}
	var sites []site
	for _, fd := range c.P.AllFuncDecls() {
		if fd.Pkg != pk || fd.Decl.Body == nil {
			continue
		}
		f := c.P.NewFuncCFG(fd)
		// call sites inside function literals count (the reset walks the logs in a Seek callback)
		type csite struct{ call *ast.CallExpr }
		var calls []csite
		hasPut, hasAppend := false, false
		ast.Inspect(fd.Decl.Body, func(x ast.Node) bool {
			if call, ok := x.(*ast.CallExpr); ok {
				if fn := calleeFunc(info, call); fn != nil {
					switch FuncKey(fn) {
					case "pkg/core.appendTokenTransferInfo":
						calls = append(calls, csite{call})
					case "pkg/core/dao.(*Simple).PutTokenTransferLog":
						hasPut = true
					case "pkg/core/state.(*TokenTransferLog).Append":
						hasAppend = true
					}
				}
			}
			return true
		})
		for _, s := range calls {
			if len(s.call.Args) == 0 {
				continue
			}
			arg := ast.Unparen(s.call.Args[len(s.call.Args)-1])
			if id, ok := arg.(*ast.Ident); ok {
				if v, ok := info.ObjectOf(id).(*types.Var); ok && len(f.defs[v]) == 1 && len(f.defs[v][0].rhs) == 1 {
					arg = ast.Unparen(f.defs[v][0].rhs[0])
				}
			}
			be, ok := arg.(*ast.BinaryExpr)
			if !ok {
				c.Unclassified("batch-full."+shortSym(FuncKey(fd.Obj)), c.P.Pos(s.call.Pos()), "the `new batch` argument is not a comparison")
				continue
			}
			isLimit := func(e ast.Expr) bool {
				hit := false
				ast.Inspect(e, func(x ast.Node) bool {
					if id, ok := x.(*ast.Ident); ok && id.Name == "TokenTransferBatchSize" {
						if _, ok := info.ObjectOf(id).(*types.Const); ok {
							hit = true
						}
					}
					return true
				})
				return hit
			}
			op, ok := be.Op, true
			switch {
			case isLimit(be.Y) && !isLimit(be.X):
			case isLimit(be.X) && !isLimit(be.Y):
				op, ok = flip[op]
			default:
				ok = false
			}
			if !ok {
				c.Unclassified("batch-full."+shortSym(FuncKey(fd.Obj)), c.P.Pos(s.call.Pos()), "the `new batch` argument does not compare with TokenTransferBatchSize")
				continue
			}
			sites = append(sites, site{FuncKey(fd.Obj), op, s.call.Pos(), hasPut && hasAppend})
		}
	}
	ref := token.ILLEGAL
	for _, s := range sites {
		if s.writer {
			ref = s.op
		}
	}
	if ref == token.ILLEGAL {
		c.Lost("batch-full.writer", "the function that appends to the transfer log and decides that a batch is full was not found")
		return
	}
	n := 0
	for _, s := range sites {
		if s.writer {
			continue
		}
		n++
		key := "batch-full." + shortSym(s.fn)
		if s.op == ref {
			c.OK(key, c.P.Pos(s.pos), fmt.Sprintf("a batch is full at `size %s TokenTransferBatchSize`, as where the log is written", s.op))
		} else {
			c.Fail(key, c.P.Pos(s.pos), fmt.Sprintf("%s takes a batch of the transfer log for full at `size %s TokenTransferBatchSize`, the writer of the log at `size %s TokenTransferBatchSize`: the transfer info it rebuilds says another 'next batch' than the log has, the next transfer is appended to a batch that is already full and later ones open a second batch beside it - the transfer history of the node that was reset differs from that of a node which only ever reached the height", s.fn, s.op, ref))
		}
	}
	c.Floor("rebuilders of the transfer info", n, 1)
}

// ruleMagnitudeBound (C17): JSON numbers are exact up to a magnitude; the encoder of stack items refuses integers
// beyond it (MaxAllowedInteger) and the decoder reads numbers with a fixed precision. The bound is on the magnitude:
// the comparison goes through CmpAbs (a signed comparison lets every negative number through, and a large one comes
// back as another value). Every comparison of a *big.Int with stackitem.MaxAllowedInteger is a CmpAbs call.
func ruleMagnitudeBound(c *Ctx) {
	pk := c.P.Pkg("pkg/vm/stackitem")
	if pk == nil {
		return
	}
	info := pk.TypesInfo
	n := 0
	for _, fd := range c.P.AllFuncDecls() {
		if fd.Pkg != pk || fd.Decl.Body == nil {
			continue
		}
		k := 0
		mf := c.P.NewFuncCFG(fd)
		ast.Inspect(fd.Decl.Body, func(x ast.Node) bool {
			call, ok := x.(*ast.CallExpr)
			if !ok {
				return true
			}
			se, ok := ast.Unparen(call.Fun).(*ast.SelectorExpr)
			if !ok || (se.Sel.Name != "Cmp" && se.Sel.Name != "CmpAbs") || len(call.Args) != 1 {
				return true
			}
			mentions := false
			var look func(e ast.Node, depth int)
			look = func(e ast.Node, depth int) {
				ast.Inspect(e, func(y ast.Node) bool {
					id, ok := y.(*ast.Ident)
					if !ok {
						return true
					}
					if id.Name == "MaxAllowedInteger" {
						if _, ok := info.ObjectOf(id).(*types.Const); ok {
							mentions = true
						}
					}
					if v, ok := info.ObjectOf(id).(*types.Var); ok && depth < 2 && !v.IsField() {
						for _, d := range mf.defs[v] {
							for _, r := range d.rhs {
								look(r, depth+1)
							}
						}
					}
					return true
				})
			}
			look(call.Args[0], 0)
			if !mentions {
				return true
			}
			n++
			k++
			key := fmt.Sprintf("magnitude-bound.%s#%d", shortSym(FuncKey(fd.Obj)), k)
			if se.Sel.Name == "CmpAbs" {
				c.OK(key, c.P.Pos(call.Pos()), "the magnitude is compared")
			} else {
				c.Fail(key, c.P.Pos(call.Pos()), fmt.Sprintf("%s compares an integer with MaxAllowedInteger by its signed value: every negative integer passes, and one whose magnitude exceeds what a JSON number holds exactly is written out and read back as another value (-36028797018963965 comes back as -36028797018963968) where the reference refuses to serialise it", FuncKey(fd.Obj)))
			}
			return true
		})
	}
	c.Floor("comparisons with MaxAllowedInteger", n, 1)
	// and the bound fits the precision the decoder reads numbers with: MaxAllowedInteger < 2^CompatIntegerPrec
	lim, _ := pk.Types.Scope().Lookup("MaxAllowedInteger").(*types.Const)
	prec, _ := pk.Types.Scope().Lookup("CompatIntegerPrec").(*types.Const)
	if lim == nil || prec == nil {
		c.Lost("magnitude-bound.consts", "stackitem.MaxAllowedInteger / CompatIntegerPrec not found")
		return
	}
	lv, ok1 := constant.Int64Val(constant.ToInt(lim.Val()))
	pv, ok2 := constant.Int64Val(constant.ToInt(prec.Val()))
	if !ok1 || !ok2 || pv <= 0 || pv > 62 {
		c.Unclassified("magnitude-bound.fits-precision", c.P.Pos(lim.Pos()), "constants of an unexpected kind")
		return
	}
	if lv < int64(1)<<uint(pv) {
		c.OK("magnitude-bound.fits-precision", c.P.Pos(lim.Pos()), fmt.Sprintf("every integer the encoder writes (|x| <= %d) fits the %d bits of precision the decoder reads a number with", lv, pv))
	} else {
		c.Fail("magnitude-bound.fits-precision", c.P.Pos(lim.Pos()), fmt.Sprintf("stackitem.MaxAllowedInteger is %d (2<<53 - 1, i.e. 2^54-1), but the decoder reads a JSON number with CompatIntegerPrec = %d bits of mantissa: integers with a magnitude in [2^%d, %d] are written by ToJSON / StdLib.jsonSerialize and come back rounded (9007199254740993 -> 9007199254740992) - the JSON form of such an item does not round-trip, and the reference refuses to serialise anything beyond 2^53-1", lv, pv, pv, lv))
	}
}

// ruleRecoveryNormalisation (C19): a recovery message carries either the PrepareRequest or the hash of it; the service
// completes the message (derives the hash from the embedded request) before it hands it to dBFT, which asks for the
// PrepareResponses with that hash even when it already has the request. What the message is completed with is a
// function of the message: the conditions under which a field of the received recovery message is assigned in the
// event loop mention the message, never the state of the dBFT context (a node that already holds the request would
// otherwise never get a response out of a recovery message - the state that only recovery messages can resolve).
func ruleRecoveryNormalisation(c *Ctx) {
	fd := c.P.Func("pkg/consensus", "service", "eventLoop")
	if fd == nil {
		c.Lost("recovery-normalisation.anchor", "service.eventLoop not found")
		return
	}
	info := fd.Pkg.TypesInfo
	n := 0
	var stack []ast.Node
	ast.Inspect(fd.Decl.Body, func(x ast.Node) bool {
		if x == nil {
			stack = stack[:len(stack)-1]
			return true
		}
		stack = append(stack, x)
		as, ok := x.(*ast.AssignStmt)
		if !ok {
			return true
		}
		for _, l := range as.Lhs {
			se, ok := ast.Unparen(l).(*ast.SelectorExpr)
			if !ok {
				continue
			}
			if !namedTypeIs(info.TypeOf(se.X), "pkg/consensus", "recoveryMessage") {
				continue
			}
			n++
			key := fmt.Sprintf("recovery-normalisation.%s#%d", se.Sel.Name, n)
			bad := ""
			for i := len(stack) - 2; i >= 0; i-- {
				if _, ok := stack[i].(*ast.CaseClause); ok {
					break
				}
				is, ok := stack[i].(*ast.IfStmt)
				if !ok {
					continue
				}
				ast.Inspect(is.Cond, func(y ast.Node) bool {
					if s2, ok := y.(*ast.SelectorExpr); ok && s2.Sel.Name == "dbft" {
						bad = types.ExprString(is.Cond)
					}
					return true
				})
			}
			if bad == "" {
				c.OK(key, c.P.Pos(as.Pos()), "the received recovery message is completed from its own content")
			} else {
				c.Fail(key, c.P.Pos(as.Pos()), fmt.Sprintf("the event loop completes a received recovery message (%s) only under `%s`, a test of the dBFT context's own state: a node that already has the PrepareRequest gets no preparation hash, GetPrepareResponses returns nothing without it, and the state in which some validators have committed and the others lack one response - which only recovery messages can resolve - lasts for ever", types.ExprString(l), bad))
			}
		}
		return true
	})
	c.Floor("fields of a received recovery message completed by the event loop", n, 1)
}

// ruleCtorParamsUsed (C19, C17): dBFT builds its messages through constructors the service supplies (WithNew...); what
// dBFT passes in is what the message has to carry or remember. A parameter the constructor never mentions is
// information dropped on the floor: the node's own ChangeView without the view it asks for is never counted by
// checkChangeView and never makes ViewChanging() true - the node goes on committing in the old view while it asks
// for a new one, and with the other half of the validators the other way round nothing moves any more. Every named
// parameter of a function given to a dbft.WithNew* option is mentioned in its body.
func ruleCtorParamsUsed(c *Ctx) {
	pk := c.P.Pkg("pkg/consensus")
	if pk == nil {
		return
	}
	info := pk.TypesInfo
	n := 0
	for _, f := range pk.Syntax {
		ast.Inspect(f, func(x ast.Node) bool {
			call, ok := x.(*ast.CallExpr)
			if !ok || len(call.Args) != 1 {
				return true
			}
			fun := ast.Unparen(call.Fun)
			switch ix := fun.(type) {
			case *ast.IndexExpr:
				fun = ix.X
			case *ast.IndexListExpr:
				fun = ix.X
			}
			se, ok := ast.Unparen(fun).(*ast.SelectorExpr)
			if !ok {
				return true
			}
			opt, ok := info.ObjectOf(se.Sel).(*types.Func)
			if !ok || opt.Pkg() == nil || !strings.HasSuffix(opt.Pkg().Path(), "nspcc-dev/dbft") || !strings.HasPrefix(opt.Name(), "WithNew") {
				return true
			}
			var fn *types.Func
			switch a := ast.Unparen(call.Args[0]).(type) {
			case *ast.SelectorExpr:
				fn, _ = info.ObjectOf(a.Sel).(*types.Func)
			case *ast.Ident:
				fn, _ = info.ObjectOf(a).(*types.Func)
			}
			if fn == nil {
				return true
			}
			fd := c.P.DeclOf(fn)
			if fd == nil || fd.Decl.Body == nil || fd.Decl.Type.Params == nil {
				return true
			}
			finfo := fd.Pkg.TypesInfo
			for _, fl := range fd.Decl.Type.Params.List {
				for _, nm := range fl.Names {
					if nm.Name == "_" {
						continue
					}
					n++
					obj := finfo.ObjectOf(nm)
					used := false
					ast.Inspect(fd.Decl.Body, func(y ast.Node) bool {
						if id, ok := y.(*ast.Ident); ok && finfo.ObjectOf(id) == obj {
							used = true
						}
						return !used
					})
					key := fmt.Sprintf("%s.%s", shortSym(FuncKey(fn)), nm.Name)
					if used {
						c.OK(key, c.P.Pos(nm.Pos()), "what dBFT passes in reaches the message")
					} else {
						c.Fail(key, c.P.Pos(nm.Pos()), fmt.Sprintf("%s, the constructor the service gives dBFT through %s, never mentions its parameter %s: the message it builds does not carry (or remember) what dBFT asked it to. For the ChangeView that is the view the node asks for - it is not on the wire, dBFT reads it from the node's own stored message: without it the node's own ChangeView is never counted and the node keeps accepting preparations of the view it wants to leave", FuncKey(fn), opt.Name(), nm.Name))
					}
				}
			}
			return true
		})
	}
	c.Floor("parameters of the message constructors given to dBFT", n, 8)
}

// ruleSeekPrivateTrie (C03, C09): a storage iterator of a historic invocation runs TrieStore.Seek in a goroutine of its
// own (dao.SeekAsync) while the VM thread goes on reading the same TrieStore with Get. Trie.Get re-links the nodes it
// walks (hash nodes are replaced by what they resolve to, t.root is re-assigned), and Billet.traverse, which Seek
// drives, does the same to the nodes it is given. Sharing nodes between the two is a data race on interface-typed
// fields (finding 101). Seek may read the configuration of the store's trie - the fields nothing but the constructor
// assigns - and nothing else of it: no mutable field of m.trie, no method of m.trie.
func ruleSeekPrivateTrie(c *Ctx) {
	fd := c.P.Func("pkg/core/mpt", "TrieStore", "Seek")
	if fd == nil {
		c.Lost("seek-private-trie.anchor", "mpt.TrieStore.Seek not found")
		return
	}
	pk := fd.Pkg
	info := pk.TypesInfo
	// fields of Trie that something other than a constructor writes
	tn, _ := pk.Types.Scope().Lookup("Trie").(*types.TypeName)
	if tn == nil {
		c.Lost("seek-private-trie.type", "mpt.Trie not found")
		return
	}
	st, _ := tn.Type().Underlying().(*types.Struct)
	mutable := map[string]bool{}
	isTrieField := func(se *ast.SelectorExpr) (string, bool) {
		v, ok := info.ObjectOf(se.Sel).(*types.Var)
		if !ok || !v.IsField() {
			return "", false
		}
		for i := 0; st != nil && i < st.NumFields(); i++ {
			if st.Field(i) == v {
				return v.Name(), true
			}
		}
		return "", false
	}
	for _, d := range c.P.AllFuncDecls() {
		if d.Pkg != pk || d.Decl.Body == nil || strings.HasPrefix(d.Decl.Name.Name, "NewTrie") {
			continue
		}
		ast.Inspect(d.Decl.Body, func(x ast.Node) bool {
			mark := func(e ast.Expr) {
				for {
					switch y := ast.Unparen(e).(type) {
					case *ast.IndexExpr:
						e = y.X
						continue
					case *ast.SelectorExpr:
						if name, ok := isTrieField(y); ok {
							mutable[name] = true
						}
					}
					return
				}
			}
			switch y := x.(type) {
			case *ast.AssignStmt:
				for _, l := range y.Lhs {
					mark(l)
				}
			case *ast.IncDecStmt:
				mark(y.X)
			case *ast.CallExpr:
				if id, ok := y.Fun.(*ast.Ident); ok && id.Name == "delete" && len(y.Args) > 0 {
					mark(y.Args[0])
				}
			}
			return true
		})
	}
	c.Floor("mutable fields of mpt.Trie", len(mutable), 1)
	recv := info.ObjectOf(fd.Decl.Recv.List[0].Names[0])
	n := 0
	var bad []string
	ast.Inspect(fd.Decl.Body, func(x ast.Node) bool {
		se, ok := x.(*ast.SelectorExpr)
		if !ok {
			return true
		}
		inner, ok := ast.Unparen(se.X).(*ast.SelectorExpr)
		if !ok || inner.Sel.Name != "trie" {
			return true
		}
		if id, ok := ast.Unparen(inner.X).(*ast.Ident); !ok || info.ObjectOf(id) != recv {
			return true
		}
		n++
		if name, isField := isTrieField(se); isField {
			if mutable[name] {
				bad = append(bad, "m.trie."+name)
			}
		} else {
			bad = append(bad, "m.trie."+se.Sel.Name+"()")
		}
		return true
	})
	if len(bad) == 0 {
		c.OK("seek-private-trie", c.P.Pos(fd.Decl.Pos()), fmt.Sprintf("TrieStore.Seek reads only the immutable configuration of the store's trie (%d mentions)", n))
	} else {
		sort.Strings(bad)
		c.Fail("seek-private-trie", c.P.Pos(fd.Decl.Pos()), "TrieStore.Seek uses "+strings.Join(bad, ", ")+": Seek runs in the goroutine of a storage iterator (SeekAsync) while the VM thread calls Get on the same TrieStore; Get re-links the nodes of that trie and re-assigns its root, and the traversal Seek drives re-links the nodes it is handed - two goroutines write the same interface-typed fields without synchronisation (the race detector reports it; a torn interface value is a crash or a wrong node)")
	}
}

// ruleGCAtomic (C09): SeekGC is read-decide-delete: it walks the pairs of a range, asks the handler about each and
// deletes what the handler does not want to keep. The handler's answer is about the value it was shown; a flush
// (PutChangeSet, what Persist of the layer above does) that lands between the walk and the delete replaces that value
// with one the handler never saw - and would have kept - and the delete then removes a committed key, a result no
// serial order of collection and flush produces. Every access being under the mutex (the lockset) is not enough: the
// in-memory backend holds the write lock once around the whole walk, the walk itself is given no-op lock functions,
// and the handler passed to it takes no lock of its own.
func ruleGCAtomic(c *Ctx) {
	fd := c.P.Func("pkg/core/storage", "MemoryStore", "SeekGC")
	if fd == nil {
		c.Lost("gc-atomic.anchor", "MemoryStore.SeekGC not found")
		return
	}
	f := c.P.NewFuncCFG(fd)
	info := f.Info
	var lockPos, unlockPos, seekPos token.Pos
	lockInLit := false
	var seekCall *ast.CallExpr
	isMut := func(call *ast.CallExpr, name string) bool {
		se, ok := ast.Unparen(call.Fun).(*ast.SelectorExpr)
		if !ok || se.Sel.Name != name {
			return false
		}
		inner, ok := ast.Unparen(se.X).(*ast.SelectorExpr)
		return ok && inner.Sel.Name == "mut"
	}
	// a deferred Unlock releases at the exit, wherever the statement stands
	deferred := map[*ast.CallExpr]bool{}
	ast.Inspect(fd.Decl.Body, func(x ast.Node) bool {
		if ds, ok := x.(*ast.DeferStmt); ok {
			deferred[ds.Call] = true
		}
		return true
	})
	var walk func(n ast.Node, inLit bool)
	walk = func(n ast.Node, inLit bool) {
		ast.Inspect(n, func(x ast.Node) bool {
			switch y := x.(type) {
			case *ast.FuncLit:
				if x != n {
					walk(y.Body, true)
					return false
				}
			case *ast.CallExpr:
				switch {
				case isMut(y, "Lock") || isMut(y, "RLock"):
					if inLit {
						lockInLit = true
					} else if isMut(y, "Lock") && lockPos == token.NoPos {
						lockPos = y.Pos()
					}
				case isMut(y, "Unlock"):
					if !inLit && !deferred[y] {
						unlockPos = y.Pos()
					}
				default:
					if fn := calleeFunc(info, y); fn != nil && fn.Name() == "seek" && !inLit {
						seekPos, seekCall = y.Pos(), y
					}
				}
			}
			return true
		})
	}
	walk(fd.Decl.Body, false)
	// the lock functions handed to the walk are no-ops (the lock is held already): not methods of the mutex
	passesMutex := false
	if seekCall != nil {
		for _, a := range seekCall.Args {
			if se, ok := ast.Unparen(a).(*ast.SelectorExpr); ok {
				if inner, ok := ast.Unparen(se.X).(*ast.SelectorExpr); ok && inner.Sel.Name == "mut" {
					passesMutex = true
				}
			}
		}
	}
	switch {
	case seekCall == nil:
		c.Lost("gc-atomic.shape", "MemoryStore.SeekGC no longer walks the range through seek()")
	case lockPos == token.NoPos || lockPos > seekPos || (unlockPos != token.NoPos && unlockPos < seekPos) || lockInLit || passesMutex:
		c.Fail("gc-atomic", c.P.Pos(fd.Decl.Pos()), "MemoryStore.SeekGC does not hold the store's write lock from before the walk until after the last delete (it locks inside the handler, or hands the mutex's own lock functions to the walk): a PutChangeSet can land between the moment the handler was shown a value and the delete, and the collector removes a value that was committed after it looked - the key is gone for Get and for every scan, through the cache layers as well")
	default:
		c.OK("gc-atomic", c.P.Pos(fd.Decl.Pos()), "walk, decision and deletes of SeekGC happen under one hold of the write lock")
	}
}

// ruleSlotStoreReleases (C12): STLOC/STARG/STSFLD move an item from the evaluation stack into a slot. The item keeps
// the count it had on the stack (popNoRef), which now stands for the slot's reference; what the slot held before
// loses its reference, on every path - also when it is the very same item (it was counted once for the slot and once
// for the stack; one of the two goes). A path from the pop to a normal exit that skips refCounter.Remove leaves the
// counter one too high for good, and the 2048-item limit fires on scripts that hold a handful of items.
func ruleSlotStoreReleases(c *Ctx) {
	fd := c.P.Func("pkg/vm", "Slot", "store")
	if fd == nil {
		c.Lost("slot-store-releases.anchor", "vm.Slot.store not found")
		return
	}
	f := c.P.NewFuncCFG(fd)
	pops := f.CallSites("pkg/vm.(*Stack).popNoRef")
	rems := f.CallSites("pkg/vm.(*refCounter).Remove")
	if len(pops) == 0 {
		c.Lost("slot-store-releases.pop", "Slot.store no longer takes the item with popNoRef")
		return
	}
	from := []*cfg.Block{}
	for _, p := range pops {
		from = append(from, p.blk)
	}
	var exits []site
	for _, s := range f.OKReturns() {
		// exits that lie after the pop (same block later, or reachable)
		exits = append(exits, s)
	}
	// only exits reachable from the pop count
	r := f.reach(from, nil, nil)
	var after []site
	for _, s := range exits {
		if _, ok := r[s.blk]; ok {
			if s.blk == pops[0].blk && s.idx <= pops[0].idx {
				continue
			}
			after = append(after, s)
		}
	}
	ok, path := f.mustBefore(from, after, rems, nil)
	if ok && len(rems) > 0 {
		c.OK("slot-store-releases", c.P.Pos(fd.Decl.Pos()), fmt.Sprintf("every exit of Slot.store behind the pop (%d) passes refCounter.Remove of the previous content", len(after)))
	} else {
		c.Fail("slot-store-releases", c.P.Pos(fd.Decl.Pos()), "Slot.store has a way from popNoRef to a normal exit that does not release what the slot held ("+strings.Join(path, " -> ")+"): the popped item came with the count of its stack reference, and when nothing is released for it the VM's reference counter stays one too high for ever - a loop that loads a local and stores it back faults with 'stack is too big' while it holds a single item")
	}
}

// ruleGoroutinePanicFree (C12): the VM turns a panic raised while an instruction executes into a FAULT - in the
// goroutine that executes. A goroutine the VM starts itself (the workers of the parallel multisignature check) is
// outside that recover: a panic there ends the process. What such a goroutine calls must not be able to panic on
// data from the script: decoding a public key (bytesToPublicKey panics on a malformed one) belongs into the calling
// goroutine, the workers get decoded keys. No function of package vm that contains a panic is called from the body
// of a function started with `go` in package vm.
func ruleGoroutinePanicFree(c *Ctx) {
	pk := c.P.Pkg("pkg/vm")
	if pk == nil {
		return
	}
	info := pk.TypesInfo
	panics := map[*types.Func]bool{}
	for _, fd := range c.P.AllFuncDecls() {
		if fd.Pkg != pk || fd.Decl.Body == nil {
			continue
		}
		inspectNoLit(fd.Decl.Body, func(x ast.Node) bool {
			if call, ok := x.(*ast.CallExpr); ok {
				if id, ok := call.Fun.(*ast.Ident); ok && id.Name == "panic" {
					if _, isB := info.ObjectOf(id).(*types.Builtin); isB {
						panics[fd.Obj] = true
					}
				}
			}
			return true
		})
	}
	n := 0
	for _, fd := range c.P.AllFuncDecls() {
		if fd.Pkg != pk || fd.Decl.Body == nil {
			continue
		}
		f := c.P.NewFuncCFG(fd)
		ast.Inspect(fd.Decl.Body, func(x ast.Node) bool {
			gs, ok := x.(*ast.GoStmt)
			if !ok {
				return true
			}
			var body ast.Node
			switch fun := ast.Unparen(gs.Call.Fun).(type) {
			case *ast.FuncLit:
				body = fun.Body
			case *ast.Ident:
				if v, ok := info.ObjectOf(fun).(*types.Var); ok && len(f.defs[v]) == 1 && len(f.defs[v][0].rhs) == 1 {
					if lit, ok := ast.Unparen(f.defs[v][0].rhs[0]).(*ast.FuncLit); ok {
						body = lit.Body
					}
				} else if fn, ok := info.ObjectOf(fun).(*types.Func); ok {
					if d := c.P.DeclOf(fn); d != nil {
						body = d.Decl.Body
					}
				}
			}
			if body == nil {
				return true
			}
			n++
			key := fmt.Sprintf("%s.go#%d", shortSym(FuncKey(fd.Obj)), n)
			bad := ""
			ast.Inspect(body, func(y ast.Node) bool {
				if call, ok := y.(*ast.CallExpr); ok {
					if fn := calleeFunc(info, call); fn != nil && panics[fn] {
						bad = shortSym(FuncKey(fn))
					}
					if id, ok := call.Fun.(*ast.Ident); ok && id.Name == "panic" {
						if _, isB := info.ObjectOf(id).(*types.Builtin); isB {
							bad = "panic"
						}
					}
				}
				return true
			})
			if bad == "" {
				c.OK(key, c.P.Pos(gs.Pos()), "nothing the goroutine calls in package vm can panic")
			} else {
				c.Fail(key, c.P.Pos(gs.Pos()), fmt.Sprintf("%s starts a goroutine whose body calls %s, which panics on bad input: the recover that turns a panic into a FAULT is in the goroutine that executes the instruction, not in this one - a witness with a malformed public key and two signatures ends the process instead of faulting", FuncKey(fd.Obj), bad))
			}
			return true
		})
	}
	c.Floor("goroutines started by package vm", n, 1)
	// and they are let go on every exit: the channel such goroutines receive their work from is closed by a defer,
	// not by a statement at the end - the function between the start of the workers and that statement decodes keys
	// from the script and can panic (the panic becomes a FAULT, the workers stay blocked on the channel for the life
	// of the process: three leaked goroutines per witness with a malformed key and two signatures, finding 106)
	m := 0
	for _, fd := range c.P.AllFuncDecls() {
		if fd.Pkg != pk || fd.Decl.Body == nil {
			continue
		}
		// channels handed to `go` calls
		chans := map[types.Object]bool{}
		ast.Inspect(fd.Decl.Body, func(x ast.Node) bool {
			if gs, ok := x.(*ast.GoStmt); ok {
				for _, a := range gs.Call.Args {
					if id, ok := ast.Unparen(a).(*ast.Ident); ok {
						if _, isCh := info.TypeOf(id).Underlying().(*types.Chan); isCh {
							chans[info.ObjectOf(id)] = true
						}
					}
				}
			}
			return true
		})
		if len(chans) == 0 {
			continue
		}
		closedBy := map[types.Object]string{}
		var walk func(n ast.Node, deferred bool)
		walk = func(n ast.Node, deferred bool) {
			ast.Inspect(n, func(x ast.Node) bool {
				switch y := x.(type) {
				case *ast.DeferStmt:
					walk(y.Call, true)
					return false
				case *ast.CallExpr:
					if id, ok := y.Fun.(*ast.Ident); ok && id.Name == "close" && len(y.Args) == 1 {
						if a, ok := ast.Unparen(y.Args[0]).(*ast.Ident); ok && chans[info.ObjectOf(a)] {
							if deferred {
								closedBy[info.ObjectOf(a)] = "defer"
							} else if closedBy[info.ObjectOf(a)] == "" {
								closedBy[info.ObjectOf(a)] = "statement"
							}
						}
					}
				}
				return true
			})
		}
		walk(fd.Decl.Body, false)
		for o, how := range closedBy {
			m++
			key := fmt.Sprintf("%s.close(%s)", shortSym(FuncKey(fd.Obj)), o.Name())
			if how == "defer" {
				c.OK(key, c.P.Pos(fd.Decl.Pos()), "the workers' channel is closed on every exit")
			} else {
				c.Fail(key, c.P.Pos(fd.Decl.Pos()), fmt.Sprintf("%s closes %s, the channel its worker goroutines wait on, with a statement at its end: a panic in between (a malformed public key makes bytesToPublicKey panic; the VM turns it into a FAULT) skips the close and the workers stay blocked for the life of the process - every witness with a malformed key and two signatures leaks its goroutines", FuncKey(fd.Obj), o.Name()))
			}
		}
	}
	c.Floor("worker channels closed by package vm", m, 1)
}

// ruleSlotInitOnce (C13, C12): a context gets its local and argument slots once. INITSLOT creates up to two slots,
// each under its own count; the per-slot constructors refuse a slot that exists, which catches the second INITSLOT
// only if it asks for the same slot again. `INITSLOT 1,0; INITSLOT 0,1` passes both constructors - the reference
// faults on the second instruction. An arm of execute that can initialise more than one slot field of the context
// starts with a rejecting test that mentions every one of them.
func ruleSlotInitOnce(c *Ctx) {
	fd := c.P.Func("pkg/vm", "VM", "execute")
	if fd == nil {
		return
	}
	info := fd.Pkg.TypesInfo
	n := 0
	ast.Inspect(fd.Decl.Body, func(x ast.Node) bool {
		cc, ok := x.(*ast.CaseClause)
		if !ok || len(cc.List) == 0 {
			return true
		}
		// slot fields initialised in this arm: <ctx...>.F.init(...) / .initFromStack(...)
		fields := map[string]bool{}
		var firstInit token.Pos
		for _, st := range cc.Body {
			ast.Inspect(st, func(y ast.Node) bool {
				call, ok := y.(*ast.CallExpr)
				if !ok {
					return true
				}
				se, ok := ast.Unparen(call.Fun).(*ast.SelectorExpr)
				if !ok || !strings.HasPrefix(se.Sel.Name, "init") {
					return true
				}
				if !namedTypeIs(info.TypeOf(se.X), "pkg/vm", "Slot") {
					return true
				}
				if fs, ok := ast.Unparen(se.X).(*ast.SelectorExpr); ok {
					fields[fs.Sel.Name] = true
					if firstInit == token.NoPos {
						firstInit = call.Pos()
					}
				}
				return true
			})
		}
		if len(fields) < 2 {
			return true
		}
		n++
		name := types.ExprString(cc.List[0])
		// a rejecting if before the first init that mentions all the fields
		guarded := false
		for _, st := range cc.Body {
			is, ok := st.(*ast.IfStmt)
			if !ok || is.Pos() > firstInit {
				continue
			}
			rejects := false
			ast.Inspect(is.Body, func(y ast.Node) bool {
				if call, ok := y.(*ast.CallExpr); ok {
					if id, ok := call.Fun.(*ast.Ident); ok && id.Name == "panic" {
						rejects = true
					}
				}
				return true
			})
			if !rejects {
				continue
			}
			all := true
			for fl := range fields {
				found := false
				ast.Inspect(is.Cond, func(y ast.Node) bool {
					if se, ok := y.(*ast.SelectorExpr); ok && se.Sel.Name == fl {
						found = true
					}
					return true
				})
				if !found {
					all = false
				}
			}
			if all {
				guarded = true
			}
		}
		var fl []string
		for k := range fields {
			fl = append(fl, k)
		}
		sort.Strings(fl)
		key := "slot-init-once." + name
		if guarded {
			c.OK(key, c.P.Pos(cc.Pos()), "the arm refuses a context that has any of "+strings.Join(fl, ", ")+" already")
		} else {
			c.Fail(key, c.P.Pos(cc.Pos()), fmt.Sprintf("the %s arm of execute can create the slots %s, each under its own count, and does not start by refusing a context that already has one of them: the constructors of the slots only refuse the slot they are asked to create again, so `INITSLOT 1,0; INITSLOT 0,1` initialises a context twice where the reference faults", name, strings.Join(fl, ", ")))
		}
		return true
	})
	c.Floor("arms of execute that create more than one slot", n, 1)
}

// ruleJumpLandsInside (C13, C12): a jump that is performed lands on an instruction: its target is below the length
// of the script. (The *computed* offset of an instruction may equal the length - CalcJumpOffset allows it, an untaken
// branch may point there.) Context.Jump is where every performed jump, call, and handler dispatch sets the next
// instruction pointer; the comparison of the target with len(prog) there rejects equality.
func ruleJumpLandsInside(c *Ctx) {
	fd := c.P.Func("pkg/smartcontract/scparser", "Context", "Jump")
	if fd == nil {
		c.Lost("jump-lands-inside.anchor", "scparser.Context.Jump not found")
		return
	}
	f := c.P.NewFuncCFG(fd)
	info := f.Info
	if fd.Decl.Type.Params == nil || len(fd.Decl.Type.Params.List) == 0 || len(fd.Decl.Type.Params.List[0].Names) == 0 {
		c.Lost("jump-lands-inside.param", "Jump has no named parameter")
		return
	}
	pos := info.ObjectOf(fd.Decl.Type.Params.List[0].Names[0])
	flip := map[token.Token]token.Token{token.LSS: token.GTR, token.GTR: token.LSS, token.LEQ: token.GEQ, token.GEQ: token.LEQ, token.EQL: token.EQL, token.NEQ: token.NEQ}
	found, rejectsEq := false, false
	ast.Inspect(fd.Decl.Body, func(x ast.Node) bool {
		is, ok := x.(*ast.IfStmt)
		if !ok {
			return true
		}
		panics := false
		ast.Inspect(is.Body, func(y ast.Node) bool {
			if call, ok := y.(*ast.CallExpr); ok {
				if id, ok := call.Fun.(*ast.Ident); ok && id.Name == "panic" {
					panics = true
				}
			}
			return true
		})
		if !panics {
			return true
		}
		ast.Inspect(is.Cond, func(y ast.Node) bool {
			be, ok := y.(*ast.BinaryExpr)
			if !ok {
				return true
			}
			isPos := func(e ast.Expr) bool {
				id, ok := ast.Unparen(e).(*ast.Ident)
				return ok && info.ObjectOf(id) == pos
			}
			isLen := func(e ast.Expr) bool {
				call, ok := ast.Unparen(e).(*ast.CallExpr)
				return ok && f.calleeSym(call) == "builtin.len"
			}
			op := be.Op
			switch {
			case isPos(be.X) && isLen(be.Y):
			case isLen(be.X) && isPos(be.Y):
				op = flip[op]
			default:
				return true
			}
			found = true
			if op == token.GEQ || op == token.EQL {
				rejectsEq = true
			}
			return true
		})
		return true
	})
	switch {
	case !found:
		c.Lost("jump-lands-inside.shape", "Context.Jump no longer compares its target with the length of the script in a rejecting test")
	case rejectsEq:
		c.OK("jump-lands-inside", c.P.Pos(fd.Decl.Pos()), "a performed jump to the end of the script is refused")
	default:
		c.Fail("jump-lands-inside", c.P.Pos(fd.Decl.Pos()), "Context.Jump accepts a target equal to the length of the script: a jump that is actually taken to the position just behind the last instruction becomes an implicit RET and the script halts, where the reference faults (`PUSH7; JMP +2` gives [7]); the same goes for every CALL, ENDTRY and handler dispatch, which all set the instruction pointer here")
	}
}

// ruleCacheInitHeight (C01): InitializeCache(isHardforkEnabled, blockHeight, dao) rebuilds a native's cache from the
// state of height blockHeight - the callers pass the height of the state they hand over (finding 91). Which fields of
// the state exist, and in which units they are stored, depends on the hardforks active *at that height*; whatever
// InitializeCache hands on (to the helper that reads the records, to the hardfork predicate) is that height itself,
// not a neighbour of it. Rebuilt for blockHeight+1 on start, the cache of a node that restarts one block before a
// hardfork reads records the hardfork block has not written yet (start-up fails) or takes old units for new ones
// (GetBaseExecFee answers 30 instead of 300000 until the hardfork block arrives) - a running node has neither.
func ruleCacheInitHeight(c *Ctx) {
	pk := c.P.Pkg("pkg/core/native")
	if pk == nil {
		return
	}
	info := pk.TypesInfo
	n := 0
	for _, fd := range c.P.AllFuncDecls() {
		if fd.Pkg != pk || fd.Decl.Body == nil || fd.Decl.Name.Name != "InitializeCache" || fd.Decl.Recv == nil {
			continue
		}
		sig := fd.Obj.Type().(*types.Signature)
		var hp types.Object
		for _, fl := range fd.Decl.Type.Params.List {
			for _, nm := range fl.Names {
				if b, ok := info.TypeOf(fl.Type).Underlying().(*types.Basic); ok && b.Kind() == types.Uint32 && nm.Name != "_" {
					hp = info.ObjectOf(nm)
				}
			}
		}
		_ = sig
		if hp == nil {
			continue
		}
		f := c.P.NewFuncCFG(fd)
		k := 0
		ast.Inspect(fd.Decl.Body, func(x ast.Node) bool {
			call, ok := x.(*ast.CallExpr)
			if !ok {
				return true
			}
			// only calls that read the state: the hardfork predicate itself, or a callee that is also given the DAO or
			// the predicate (questions about the *next* block put to the configuration - which validators, is it an
			// epoch boundary - legitimately use blockHeight+1)
			readsState := false
			if id, ok := ast.Unparen(call.Fun).(*ast.Ident); ok {
				if _, isSig := info.TypeOf(id).Underlying().(*types.Signature); isSig {
					if v, ok := info.ObjectOf(id).(*types.Var); ok && f.params[v] {
						readsState = true
					}
				}
			}
			for _, a := range call.Args {
				t := info.TypeOf(a)
				if t == nil {
					continue
				}
				if namedTypeIs(t, "pkg/core/dao", "Simple") || namedTypeIs(t, "pkg/core/interop", "IsHardforkEnabled") {
					readsState = true
				}
			}
			if !readsState {
				return true
			}
			for _, a := range call.Args {
				mentions := false
				ast.Inspect(a, func(y ast.Node) bool {
					if id, ok := y.(*ast.Ident); ok && info.ObjectOf(id) == hp {
						mentions = true
					}
					return true
				})
				if !mentions {
					continue
				}
				n++
				k++
				key := fmt.Sprintf("%s.height#%d", shortSym(FuncKey(fd.Obj)), k)
				if fd.Decl.Recv != nil {
					if rt := fd.Obj.Type().(*types.Signature).Recv().Type(); rt != nil {
						key = types.TypeString(rt, func(*types.Package) string { return "" }) + "." + key
					}
				}
				base, off, ok := linearForm(f, a, 0)
				if id, isId := ast.Unparen(a).(*ast.Ident); isId && info.ObjectOf(id) == hp {
					base, off, ok = hp.Name(), 0, true
				}
				if ok && off == 0 && (base == hp.Name() || base == "") {
					c.OK(key, c.P.Pos(a.Pos()), "the height of the state is handed on unchanged")
				} else {
					c.Fail(key, c.P.Pos(a.Pos()), fmt.Sprintf("%s hands `%s` on where it was given %s, the height of the state it rebuilds the cache from: hardfork-dependent fields are then read (or interpreted) for another height than the records were written at - a node restarted one block before a hardfork fails to start or answers with values in the wrong units, which a node that kept running does not", FuncKey(fd.Obj), types.ExprString(a), hp.Name()))
				}
			}
			return true
		})
	}
	c.Floor("uses of the state height in InitializeCache", n, 2)
	// The committee a restarted node reads from storage is the committee of the current epoch, and the validators of
	// the next block are its first GetNumOfCNs(h) members for a height h *of that epoch*. ValidatorsHistory changes
	// the count at the first block of an epoch; asked for blockHeight+1, which can be that block, the count is the new
	// epoch's while the committee is the old one's: a node restarted one block before the change answers
	// GetNextBlockValidators with another number of keys than the node that kept running, or cannot start at all
	// (slice bound beyond the committee). Where NEO.updateCache slices the stored committee, the bound comes from
	// GetNumOfCNs of the state height itself.
	if fd := c.P.Func("pkg/core/native", "NEO", "updateCache"); fd == nil {
		c.Lost("cache-init-height.updateCache", "NEO.updateCache not found")
	} else {
		f := c.P.NewFuncCFG(fd)
		found := false
		ast.Inspect(fd.Decl.Body, func(x ast.Node) bool {
			sl, ok := x.(*ast.SliceExpr)
			if !ok || sl.High == nil {
				return true
			}
			call, ok := ast.Unparen(resolveLocalOnce(f.Info, f.Body, sl.High)).(*ast.CallExpr)
			if !ok || !strings.HasSuffix(f.calleeSym(call), ".GetNumOfCNs") || len(call.Args) != 1 {
				return true
			}
			found = true
			_, off, ok := linearForm(f, call.Args[0], 0)
			if id, isId := ast.Unparen(call.Args[0]).(*ast.Ident); isId && f.params[f.Info.ObjectOf(id)] {
				off, ok = 0, true
			}
			if ok && off == 0 {
				c.OK("NEO.updateCache.epoch-count", c.P.Pos(sl.Pos()), "the stored committee is cut to the validator count of its own epoch")
			} else {
				c.Fail("NEO.updateCache.epoch-count", c.P.Pos(sl.Pos()), fmt.Sprintf("NEO.updateCache cuts the committee it was given - on start-up the committee of the current epoch, read from storage - to GetNumOfCNs(%s): when the next block is the first of an epoch in which ValidatorsHistory changes the count, that is the new epoch's number applied to the old epoch's committee. A node restarted one block before the change reports another number of next-block validators than the node that kept running (4 -> 1: one key instead of four), and where the new number exceeds the stored committee (1 -> 4) it cannot start: 'slice bounds out of range [:4] with capacity 1'", types.ExprString(call.Args[0])))
			}
			return true
		})
		if !found {
			c.Lost("cache-init-height.updateCache.shape", "NEO.updateCache no longer slices the committee by GetNumOfCNs")
		}
	}
}

// ruleReadOnlyRespected (C04): a notification, once emitted, is recorded as a deep copy marked read-only, and that is
// what System.Runtime.GetNotifications hands to later code: a callee that fails and is rolled back must not have been
// able to alter what its caller emitted. The compound types refuse changes through their own methods (Append, Remove,
// Drop ... panic on a read-only item); an instruction that reaches into the slice an item holds - through Value() -
// bypasses those methods and has to ask IsReadOnly() itself. Every type-switch case of execute over Array/Struct/Map
// that changes the slice obtained from Value() in place (an indexed assignment, slices.Reverse, clear) contains the
// read-only test.
func ruleReadOnlyRespected(c *Ctx) {
	fd := c.P.Func("pkg/vm", "VM", "execute")
	if fd == nil {
		return
	}
	info := fd.Pkg.TypesInfo
	f := c.P.NewFuncCFG(fd)
	n := 0
	ast.Inspect(fd.Decl.Body, func(x ast.Node) bool {
		cc, ok := x.(*ast.CaseClause)
		if !ok || len(cc.List) == 0 {
			return true
		}
		compound := false
		for _, e := range cc.List {
			if tv := info.Types[e]; tv.IsType() {
				for _, nm := range []string{"Array", "Struct", "Map"} {
					if namedTypeIs(tv.Type, "pkg/vm/stackitem", nm) {
						compound = true
					}
				}
			}
		}
		if !compound {
			return true
		}
		// locals bound to a Value() slice in this case
		valueLocals := map[types.Object]bool{}
		fromValue := func(e ast.Expr) bool {
			hit := false
			ast.Inspect(e, func(y ast.Node) bool {
				if call, ok := y.(*ast.CallExpr); ok {
					if se, ok := ast.Unparen(call.Fun).(*ast.SelectorExpr); ok && se.Sel.Name == "Value" && len(call.Args) == 0 {
						hit = true
					}
				}
				if id, ok := y.(*ast.Ident); ok && valueLocals[info.ObjectOf(id)] {
					hit = true
				}
				return true
			})
			return hit
		}
		var mutation token.Pos
		what := ""
		for _, st := range cc.Body {
			ast.Inspect(st, func(y ast.Node) bool {
				switch z := y.(type) {
				case *ast.AssignStmt:
					for i, l := range z.Lhs {
						if id, ok := l.(*ast.Ident); ok && i < len(z.Rhs) && fromValue(z.Rhs[i]) {
							if _, isSl := info.TypeOf(z.Rhs[i]).Underlying().(*types.Slice); isSl {
								valueLocals[info.ObjectOf(id)] = true
							}
						}
						if ix, ok := ast.Unparen(l).(*ast.IndexExpr); ok && fromValue(ix.X) {
							if _, isSl := info.TypeOf(ix.X).Underlying().(*types.Slice); isSl && mutation == token.NoPos {
								mutation, what = z.Pos(), "an indexed assignment into the slice from Value()"
							}
						}
					}
				case *ast.CallExpr:
					sym := f.calleeSym(z)
					if (strings.HasPrefix(sym, "slices.Reverse") || strings.HasPrefix(sym, "slices.Sort") || sym == "builtin.clear") && len(z.Args) > 0 && fromValue(z.Args[0]) && mutation == token.NoPos {
						mutation, what = z.Pos(), shortSym(sym)+" over the slice from Value()"
					}
				}
				return true
			})
		}
		if mutation == token.NoPos {
			return true
		}
		n++
		checked := false
		for _, st := range cc.Body {
			ast.Inspect(st, func(y ast.Node) bool {
				if call, ok := y.(*ast.CallExpr); ok && call.Pos() < mutation {
					if se, ok := ast.Unparen(call.Fun).(*ast.SelectorExpr); ok && se.Sel.Name == "IsReadOnly" {
						checked = true
					}
				}
				return true
			})
		}
		arm := enclosingOpcodeArm(c, fd, cc.Pos())
		key := fmt.Sprintf("readonly-respected.%s#%d", arm, n)
		if checked {
			c.OK(key, c.P.Pos(mutation), "the item is asked IsReadOnly() before "+what)
		} else {
			c.Fail(key, c.P.Pos(mutation), fmt.Sprintf("the %s arm of execute changes a compound item in place (%s) without asking IsReadOnly(): recorded notifications are handed out read-only, and a callee that reads GetNotifications, applies %s to the arguments of an event its caller emitted and then throws is rolled back with the change in place - the transaction halts with an altered event in its application log (a reversed Transfer is not even recognised as one)", arm, what, arm))
		}
		return true
	})
	c.Floor("in-place changes of compound items in execute", n, 2)
}

// deepCopyPassesFlag (notification-immutable, C04): the deep copy that AddNotification records turns every Buffer into
// a ByteString (asImmutable) - at every depth, or a Buffer nested in a map or an array of the event stays a shared,
// writable item. Every recursive call of stackitem.deepCopy hands the flag it was given on, except for map keys
// (primitive, never a Buffer).
func deepCopyPassesFlag(c *Ctx) {
	fd := c.P.Func("pkg/vm/stackitem", "", "deepCopy")
	if fd == nil {
		c.Lost("deepcopy-flag.anchor", "stackitem.deepCopy not found")
		return
	}
	info := fd.Pkg.TypesInfo
	var flag types.Object
	for _, fl := range fd.Decl.Type.Params.List {
		for _, nm := range fl.Names {
			if isBoolType(info.TypeOf(fl.Type)) {
				flag = info.ObjectOf(nm)
			}
		}
	}
	if flag == nil {
		c.Lost("deepcopy-flag.param", "deepCopy has no boolean parameter")
		return
	}
	n := 0
	ast.Inspect(fd.Decl.Body, func(x ast.Node) bool {
		call, ok := x.(*ast.CallExpr)
		if !ok || calleeFunc(info, call) != fd.Obj || len(call.Args) < 3 {
			return true
		}
		n++
		key := fmt.Sprintf("deepcopy-flag#%d", n)
		last := ast.Unparen(call.Args[len(call.Args)-1])
		if id, ok := last.(*ast.Ident); ok && info.ObjectOf(id) == flag {
			c.OK(key, c.P.Pos(call.Pos()), "the immutability flag is handed on")
			return true
		}
		if strings.HasSuffix(types.ExprString(call.Args[0]), ".Key") {
			c.OK(key, c.P.Pos(call.Pos()), "map key: primitive, never a Buffer")
			return true
		}
		c.Fail(key, c.P.Pos(call.Pos()), fmt.Sprintf("deepCopy copies `%s` with the flag `%s` instead of the one it was given: for the copy a notification is recorded as, a Buffer at this place stays a writable Buffer shared with whoever reads GetNotifications - a callee that fails and is rolled back can still have changed the bytes of an event its caller emitted", types.ExprString(call.Args[0]), types.ExprString(last)))
		return true
	})
	c.Floor("recursive calls of deepCopy", n, 3)
}

// ruleBlockTrieWritesToCache (C11, C02): the trie changes of a block are computed on a copy of the module's trie whose
// store is the block's own cache layer: node records, counters, deactivations reach the database with the rest of
// the block (PersistPrivate) or not at all. Left on the module's store, Flush writes them straight into the store the
// persist timer flushes: a block that is computed and then rejected leaves its trie records behind, and a flush
// between the computation and the commit followed by a crash leaves the records of block N under a chain at N-1. In
// AddMPTBatch the Store field of the copy is assigned the cache parameter before PutBatch and Flush are called on it.
func ruleBlockTrieWritesToCache(c *Ctx) {
	fd := c.P.Func("pkg/core/stateroot", "Module", "AddMPTBatch")
	if fd == nil {
		c.Lost("block-trie-cache.anchor", "stateroot.Module.AddMPTBatch not found")
		return
	}
	f := c.P.NewFuncCFG(fd)
	info := f.Info
	var cacheParam types.Object
	for _, fl := range fd.Decl.Type.Params.List {
		for _, nm := range fl.Names {
			if namedTypeIs(info.TypeOf(fl.Type), "pkg/core/storage", "MemCachedStore") {
				cacheParam = info.ObjectOf(nm)
			}
		}
	}
	if cacheParam == nil {
		c.Lost("block-trie-cache.param", "AddMPTBatch has no *MemCachedStore parameter")
		return
	}
	var assign token.Pos
	var firstUse token.Pos
	ast.Inspect(fd.Decl.Body, func(x ast.Node) bool {
		switch y := x.(type) {
		case *ast.AssignStmt:
			for i, l := range y.Lhs {
				if se, ok := ast.Unparen(l).(*ast.SelectorExpr); ok && se.Sel.Name == "Store" && i < len(y.Rhs) {
					if id, ok := ast.Unparen(y.Rhs[i]).(*ast.Ident); ok && info.ObjectOf(id) == cacheParam && assign == token.NoPos {
						assign = y.Pos()
					}
				}
			}
		case *ast.CallExpr:
			if fn := calleeFunc(info, y); fn != nil && (fn.Name() == "PutBatch" || fn.Name() == "Flush") && firstUse == token.NoPos {
				firstUse = y.Pos()
			}
		}
		return true
	})
	switch {
	case firstUse == token.NoPos:
		c.Lost("block-trie-cache.shape", "AddMPTBatch no longer calls PutBatch/Flush")
	case assign != token.NoPos && assign < firstUse:
		c.OK("block-trie-cache", c.P.Pos(assign), "the block's trie copy writes into the block's cache layer")
	default:
		c.Fail("block-trie-cache", c.P.Pos(firstUse), "Module.AddMPTBatch applies the block's changes to a copy of the trie that still writes to the module's own store, not to the cache layer of the block it was given: the node records of a block reach the store the persist timer flushes before - or without - the block itself. A block that is computed and then rejected leaves its records behind, and a flush between computation and commit followed by a crash leaves the trie of block N under a chain at N-1 (in GC mode the next block fails with 'key not found')")
	}
}

// ruleTallyFreshCopy (C05): a candidate's vote count lives in one storage record; whoever changes it reads the record,
// changes the number and writes it back (ModifyAccountVotes). A function that decodes the record early - to validate
// the candidate - and applies its change to *that* copy later has to be sure nothing rewrote the record in between:
// when a voter votes again for the candidate it already votes for, taking the voter's NEO off the old candidate
// rewrites the very record the early copy was decoded from, and writing the early copy back with the balance added
// counts the voter twice (a candidate with 1800 votes whose voters hold 900 NEO). Between the definition of a local
// of type candidate and a change of its Votes, the function calls nothing that itself changes a candidate's Votes.
func ruleTallyFreshCopy(c *Ctx) {
	pk := c.P.Pkg("pkg/core/native")
	if pk == nil {
		return
	}
	info := pk.TypesInfo
	isCandVotes := func(e ast.Expr) (types.Object, bool) {
		// &cd.Votes or cd.Votes where cd is a local of type (*)candidate
		if u, ok := ast.Unparen(e).(*ast.UnaryExpr); ok && u.Op == token.AND {
			e = u.X
		}
		se, ok := ast.Unparen(e).(*ast.SelectorExpr)
		if !ok || se.Sel.Name != "Votes" || !namedTypeIs(info.TypeOf(se.X), "pkg/core/native", "candidate") {
			return nil, false
		}
		return rootObj(info, se.X), true
	}
	type mut struct {
		pos token.Pos
		obj types.Object
	}
	muts := map[*FuncDecl][]mut{}
	mutators := map[*types.Func]bool{}
	for _, fd := range c.P.AllFuncDecls() {
		if fd.Pkg != pk || fd.Decl.Body == nil || strings.HasPrefix(fd.Decl.Name.Name, "From") {
			continue
		}
		ast.Inspect(fd.Decl.Body, func(x ast.Node) bool {
			switch y := x.(type) {
			case *ast.CallExpr:
				se, ok := ast.Unparen(y.Fun).(*ast.SelectorExpr)
				if !ok {
					return true
				}
				switch se.Sel.Name {
				case "Add", "Sub", "Set", "SetInt64", "SetUint64", "Neg", "Mul":
					if o, ok := isCandVotes(se.X); ok {
						muts[fd] = append(muts[fd], mut{y.Pos(), o})
						mutators[fd.Obj] = true
					}
				}
			case *ast.AssignStmt:
				for _, l := range y.Lhs {
					if o, ok := isCandVotes(l); ok {
						muts[fd] = append(muts[fd], mut{y.Pos(), o})
						mutators[fd.Obj] = true
					}
				}
			}
			return true
		})
	}
	n := 0
	for fd, ms := range muts {
		f := c.P.NewFuncCFG(fd)
		for _, m := range ms {
			n++
			key := fmt.Sprintf("tally-fresh-copy.%s#%d", shortSym(FuncKey(fd.Obj)), n)
			// where the copy was taken
			def := token.NoPos
			if v, ok := m.obj.(*types.Var); ok {
				for _, d := range f.defs[v] {
					for _, r := range d.rhs {
						if def == token.NoPos || r.Pos() < def {
							def = r.Pos()
						}
					}
				}
				if f.params[v] {
					def = fd.Decl.Body.Pos()
				}
			}
			if def == token.NoPos {
				def = fd.Decl.Body.Pos()
			}
			bad := ""
			ast.Inspect(fd.Decl.Body, func(x ast.Node) bool {
				ce, ok := x.(*ast.CallExpr)
				if !ok || ce.Pos() <= def || ce.Pos() >= m.pos {
					return true
				}
				if fn := calleeFunc(info, ce); fn != nil && mutators[fn] {
					bad = shortSym(FuncKey(fn)) + " at " + c.P.Pos(ce.Pos())
				}
				return true
			})
			if bad == "" {
				c.OK(key, c.P.Pos(m.pos), "the vote count is changed on a copy nothing has rewritten since it was read")
			} else {
				c.Fail(key, c.P.Pos(m.pos), fmt.Sprintf("%s changes the Votes of a candidate record it decoded earlier, after calling %s, which reads, changes and rewrites candidate records itself: when both touch the same record (a voter who votes again for the candidate it already votes for) the early copy still holds what the call has just taken off, and writing it back counts the voter's NEO twice - the candidate's tally exceeds what its voters hold", FuncKey(fd.Obj), bad))
			}
		}
	}
	c.Floor("changes of a candidate's vote count", n, 1)
}

// rulePayerBalanceByAccounts (C07, C08): the pool asks the ledger what a payer can spend (mempool.Feer.
// GetUtilityTokenBalance); for a transaction the Notary contract sponsors that is the deposit of the second signer,
// for everything else the GAS of the sender. Which of the two applies is a question about the two accounts and
// nothing else: admission of a sponsored transaction does not depend on a network setting, so the balance it is
// compared with must not either. Answered with Notary's whole GAS (the sum of everybody's deposits) when a setting is
// off, the pool holds more sponsored transactions of one payer than its deposit covers, and the block built from
// it fails in Notary.OnPersist on every node ("negative deposit"). The branch of GetUtilityTokenBalance that looks
// the deposit up is entered under conditions whose only method calls are on the two account parameters; inside it
// only the question whether Notary is active may be asked.
func rulePayerBalanceByAccounts(c *Ctx) {
	fd := c.P.Func("pkg/core", "Blockchain", "GetUtilityTokenBalance")
	if fd == nil {
		c.Lost("payer-balance.anchor", "Blockchain.GetUtilityTokenBalance not found")
		return
	}
	f := c.P.NewFuncCFG(fd)
	info := f.Info
	var stack []ast.Node
	n := 0
	ast.Inspect(fd.Decl.Body, func(x ast.Node) bool {
		if x == nil {
			stack = stack[:len(stack)-1]
			return true
		}
		stack = append(stack, x)
		ce, ok := x.(*ast.CallExpr)
		if !ok {
			return true
		}
		fn := calleeFunc(info, ce)
		if fn == nil || fn.Name() != "BalanceOf" {
			return true
		}
		se, ok := ast.Unparen(ce.Fun).(*ast.SelectorExpr)
		if !ok || !strings.Contains(types.ExprString(se.X), "notary") {
			return true
		}
		n++
		// the outermost enclosing if: the choice between deposit and balance
		var outer *ast.IfStmt
		for _, s := range stack {
			if is, ok := s.(*ast.IfStmt); ok {
				outer = is
				break
			}
		}
		if outer == nil {
			c.Fail("payer-balance", c.P.Pos(ce.Pos()), "GetUtilityTokenBalance looks the Notary deposit up unconditionally")
			return true
		}
		bad := ""
		ast.Inspect(outer.Cond, func(y ast.Node) bool {
			call, ok := y.(*ast.CallExpr)
			if !ok {
				return true
			}
			s2, ok := ast.Unparen(call.Fun).(*ast.SelectorExpr)
			if !ok {
				return true
			}
			if id, ok := ast.Unparen(s2.X).(*ast.Ident); ok {
				if v, ok := info.ObjectOf(id).(*types.Var); ok && f.params[v] && f.paramIdx[v] >= 0 {
					return true // a method of one of the two accounts
				}
			}
			bad = types.ExprString(call)
			return true
		})
		if bad == "" {
			c.OK("payer-balance", c.P.Pos(outer.Pos()), "deposit or balance is chosen by the two accounts alone")
		} else {
			c.Fail("payer-balance", c.P.Pos(outer.Pos()), fmt.Sprintf("GetUtilityTokenBalance chooses between the payer's Notary deposit and the sender's GAS under `%s`, which asks %s - something other than the two accounts: where that answer is 'no', a sponsored transaction is compared with the whole GAS of the Notary contract (everybody's deposits), the pool takes more of one payer's transactions than its deposit covers, and the block proposed from the pool fails in Notary.OnPersist on every node", types.ExprString(outer.Cond), bad))
		}
		return true
	})
	c.Floor("deposit lookups in GetUtilityTokenBalance", n, 1)
}

// ruleQueueConsumed (C20): every block queue the server puts blocks into has a consumer in every configuration in
// which the put can happen. The blocks of the third stage of a state synchronisation go into Server.bSyncQueue
// (handleBlockCmd); its Run loop was started only by the stage-change callback, and the callback is registered only
// for the NeoFS-based synchronisation - with P2P state exchange alone the blocks were queued and never delivered, the
// synchronisation never finished (finding 105). For every field of Server of type *bqueue.Queue that some function
// of the package Puts into: a `go <field>.Run()` statement stands in Server.Start, or the queue is put into only by
// functions that also start it.
func ruleQueueConsumed(c *Ctx) {
	pk := c.P.Pkg("pkg/network")
	if pk == nil {
		return
	}
	info := pk.TypesInfo
	puts := map[string]map[string]bool{}
	runs := map[string]map[string]bool{}
	fieldOf := func(e ast.Expr) (string, bool) {
		se, ok := ast.Unparen(e).(*ast.SelectorExpr)
		if !ok {
			return "", false
		}
		v, ok := info.ObjectOf(se.Sel).(*types.Var)
		if !ok || !v.IsField() {
			return "", false
		}
		t := v.Type()
		if p, ok := t.(*types.Pointer); ok {
			t = p.Elem()
		}
		nt, ok := t.(*types.Named)
		if !ok || nt.Obj().Name() != "Queue" || nt.Obj().Pkg() == nil || pkgRel(nt.Obj().Pkg()) != "pkg/network/bqueue" {
			return "", false
		}
		return v.Name(), true
	}
	for _, fd := range c.P.AllFuncDecls() {
		if fd.Pkg != pk || fd.Decl.Body == nil {
			continue
		}
		ast.Inspect(fd.Decl.Body, func(x ast.Node) bool {
			switch y := x.(type) {
			case *ast.FuncLit:
				// a put inside a function literal belongs to the component the literal is handed to (the NeoFS
				// fetchers get their `put` callbacks this way and are started together with their queues): only
				// puts made by the server's own methods are judged
				ast.Inspect(y.Body, func(z ast.Node) bool {
					if gs, ok := z.(*ast.GoStmt); ok {
						if se, ok := ast.Unparen(gs.Call.Fun).(*ast.SelectorExpr); ok && se.Sel.Name == "Run" {
							if q, ok := fieldOf(se.X); ok {
								if runs[q] == nil {
									runs[q] = map[string]bool{}
								}
								runs[q][fd.Decl.Name.Name] = true
							}
						}
					}
					return true
				})
				return false
			case *ast.GoStmt:
				if se, ok := ast.Unparen(y.Call.Fun).(*ast.SelectorExpr); ok && se.Sel.Name == "Run" {
					if q, ok := fieldOf(se.X); ok {
						if runs[q] == nil {
							runs[q] = map[string]bool{}
						}
						runs[q][fd.Decl.Name.Name] = true
					}
				}
			case *ast.CallExpr:
				if se, ok := ast.Unparen(y.Fun).(*ast.SelectorExpr); ok && se.Sel.Name == "Put" {
					if q, ok := fieldOf(se.X); ok {
						if puts[q] == nil {
							puts[q] = map[string]bool{}
						}
						puts[q][fd.Decl.Name.Name] = true
					}
				}
			}
			return true
		})
	}
	var qs []string
	for q := range puts {
		qs = append(qs, q)
	}
	sort.Strings(qs)
	for _, q := range qs {
		key := "queue-consumed." + q
		switch {
		case runs[q]["Start"]:
			c.OK(key, pkgRel(pk.Types), "Server.Start runs the queue")
		case len(runs[q]) == 0:
			c.Fail(key, pkgRel(pk.Types), fmt.Sprintf("Server.%s is put into and never run: whatever is queued there is never delivered", q))
		default:
			// started elsewhere only: every putter must be one of the starters
			ok := true
			for p := range puts[q] {
				if !runs[q][p] {
					ok = false
				}
			}
			var rs, ps []string
			for r := range runs[q] {
				rs = append(rs, r)
			}
			for p := range puts[q] {
				ps = append(ps, p)
			}
			sort.Strings(rs)
			sort.Strings(ps)
			if ok {
				c.OK(key, pkgRel(pk.Types), "the queue is started by the functions that put into it")
			} else {
				c.Fail(key, pkgRel(pk.Types), fmt.Sprintf("Server.%s is put into by %s and its Run loop is started only by %s, not by Server.Start: in a configuration in which that starter is never called (the state-sync stage callback is registered for the NeoFS-based synchronisation only) the blocks are queued and never delivered - a state synchronisation over P2P receives its blocks and never applies them", q, strings.Join(ps, ", "), strings.Join(rs, ", ")))
			}
		}
	}
	c.Floor("block queues the server's own methods put into", len(qs), 2)

	// A queue built over the state-sync module asks the module for its block height on every wake-up, and the module
	// knows that height from the block stage on only (the accessor panics before): such a queue is started under the
	// module's own NeedBlocks answer, never unconditionally (my first repair of finding 105 started it in Server.Start
	// and was reported as a panic by the round-8 C20 agent).
	overSync := map[string]bool{}
	for _, fd := range c.P.AllFuncDecls() {
		if fd.Pkg != pk || fd.Decl.Body == nil {
			continue
		}
		ast.Inspect(fd.Decl.Body, func(x ast.Node) bool {
			as, ok := x.(*ast.AssignStmt)
			if !ok || len(as.Lhs) != 1 || len(as.Rhs) != 1 {
				return true
			}
			q, ok := fieldOf(as.Lhs[0])
			if !ok {
				return true
			}
			if call, ok := ast.Unparen(as.Rhs[0]).(*ast.CallExpr); ok && len(call.Args) > 0 {
				// the adapter handed to bqueue.New answers Height() with the module's BlockHeight()
				if nt, ok := info.TypeOf(call.Args[0]).(*types.Named); ok {
					if hd := c.P.Func("pkg/network", nt.Obj().Name(), "Height"); hd != nil && hd.Decl.Body != nil {
						ast.Inspect(hd.Decl.Body, func(y ast.Node) bool {
							if se, ok := y.(*ast.SelectorExpr); ok && se.Sel.Name == "BlockHeight" && strings.HasSuffix(types.ExprString(se.X), "stateSync") {
								overSync[q] = true
							}
							return true
						})
					}
				}
			}
			return true
		})
	}
	c.Floor("queue-consumed.queues over the state-sync module", len(overSync), 1)
	mentionsNeedBlocks := func(fd *FuncDecl, e ast.Expr) bool {
		hit := false
		ast.Inspect(e, func(x ast.Node) bool {
			switch y := x.(type) {
			case *ast.SelectorExpr:
				if y.Sel.Name == "NeedBlocks" {
					hit = true
				}
			case *ast.Ident:
				// a local bound to the answer
				if o := info.ObjectOf(y); o != nil {
					ast.Inspect(fd.Decl.Body, func(z ast.Node) bool {
						if as, ok := z.(*ast.AssignStmt); ok && len(as.Lhs) == len(as.Rhs) {
							for i, l := range as.Lhs {
								if id, ok := l.(*ast.Ident); ok && info.ObjectOf(id) == o && strings.Contains(types.ExprString(as.Rhs[i]), "NeedBlocks()") {
									hit = true
								}
							}
						}
						return true
					})
				}
			}
			return true
		})
		return hit
	}
	nStarts := 0
	for _, fd := range c.P.AllFuncDecls() {
		if fd.Pkg != pk || fd.Decl.Body == nil {
			continue
		}
		var stack []ast.Node
		ast.Inspect(fd.Decl.Body, func(x ast.Node) bool {
			if x == nil {
				stack = stack[:len(stack)-1]
				return true
			}
			stack = append(stack, x)
			gs, ok := x.(*ast.GoStmt)
			if !ok {
				return true
			}
			se, ok := ast.Unparen(gs.Call.Fun).(*ast.SelectorExpr)
			if !ok || se.Sel.Name != "Run" {
				return true
			}
			q, ok := fieldOf(se.X)
			if !ok || !overSync[q] {
				return true
			}
			nStarts++
			gated := false
			for i := len(stack) - 2; i >= 0 && !gated; i-- {
				switch p := stack[i].(type) {
				case *ast.IfStmt:
					if stack[i+1] == ast.Node(p.Body) && mentionsNeedBlocks(fd, p.Cond) {
						gated = true
					}
				case *ast.BlockStmt:
					for _, st := range p.List {
						if st == stack[i+1] {
							break
						}
						if is, ok := st.(*ast.IfStmt); ok && mentionsNeedBlocks(fd, is.Cond) && len(is.Body.List) > 0 {
							if _, ok := is.Body.List[len(is.Body.List)-1].(*ast.ReturnStmt); ok {
								gated = true
							}
						}
					}
				}
			}
			key := fmt.Sprintf("queue-consumed.%s.started-in-stage.%s", q, fd.Decl.Name.Name)
			if gated {
				c.OK(key, c.P.Pos(gs.Pos()), "the queue over the state-sync module is started under the module's NeedBlocks answer")
			} else {
				c.Fail(key, c.P.Pos(gs.Pos()), fmt.Sprintf("%s starts Server.%s - a queue whose ledger is the state-sync module - without the module's NeedBlocks answer: Queue.Run asks its ledger for the block height on every wake-up, and the module does not know (and panics on) that height before its block stage", fd.Decl.Name.Name, q))
			}
			return true
		})
	}
	c.Floor("queue-consumed.starts of queues over the state-sync module", nStarts, 1)
}

// ---------------------------------------------------------------------------
// round 8

// ruleClearKeepsAliases (C12): Value() of a compound stack item hands out the slice the item holds, not a copy, and
// CLEARITEMS relies on it: it takes the elements with Value(), calls Clear(), and then releases the references of what
// it took. A Clear() that wipes the backing array (the usual GC-friendly clear(s); s = s[:0]) turns those elements into
// nil before the VM has released them: Remove(nil) un-counts one reference and leaves a nested compound's own elements
// counted for ever. Either no Clear method of the compound items zeroes the receiver's slice, or every arm of execute
// that reads a Value() slice after Clear() took a copy of it.
func ruleClearKeepsAliases(c *Ctx) {
	pk := c.P.Pkg("pkg/vm/stackitem")
	if pk == nil {
		return
	}
	info := pk.TypesInfo
	wipes := ""
	nclear := 0
	for _, fd := range c.P.AllFuncDecls() {
		if fd.Pkg != pk || fd.Decl.Body == nil || fd.Decl.Recv == nil || fd.Decl.Name.Name != "Clear" || len(fd.Decl.Recv.List[0].Names) == 0 {
			continue
		}
		nclear++
		recv := info.ObjectOf(fd.Decl.Recv.List[0].Names[0])
		ast.Inspect(fd.Decl.Body, func(x ast.Node) bool {
			switch y := x.(type) {
			case *ast.CallExpr:
				if id, ok := y.Fun.(*ast.Ident); ok && id.Name == "clear" && len(y.Args) == 1 {
					if _, isB := info.ObjectOf(id).(*types.Builtin); isB && rootObj(info, y.Args[0]) == recv {
						// clear of a map empties it (the index of a Map item); clear of a slice zeroes its elements
						if _, isSl := info.TypeOf(y.Args[0]).Underlying().(*types.Slice); isSl {
							wipes = FuncKey(fd.Obj)
						}
					}
				}
			case *ast.AssignStmt:
				// i.value[k] = nil in a loop
				for _, l := range y.Lhs {
					if ix, ok := ast.Unparen(l).(*ast.IndexExpr); ok && rootObj(info, ix.X) == recv {
						wipes = FuncKey(fd.Obj)
					}
				}
			}
			return true
		})
	}
	c.Floor("Clear methods of compound stack items", nclear, 3)
	if wipes == "" {
		c.OK("clear-keeps-aliases", "pkg/vm/stackitem", "Clear() of the compound items drops the elements without wiping the slice Value() handed out")
		return
	}
	// then the consumer has to copy
	ex := c.P.Func("pkg/vm", "VM", "execute")
	bad := ""
	if ex != nil {
		f := c.P.NewFuncCFG(ex)
		ast.Inspect(ex.Decl.Body, func(x ast.Node) bool {
			cc, ok := x.(*ast.CaseClause)
			if !ok {
				return true
			}
			var clearPos token.Pos
			aliases := map[types.Object]bool{}
			for _, st := range cc.Body {
				ast.Inspect(st, func(y ast.Node) bool {
					switch z := y.(type) {
					case *ast.AssignStmt:
						for i, r := range z.Rhs {
							if i < len(z.Lhs) && strings.Contains(types.ExprString(r), ".Value()") && !strings.Contains(types.ExprString(r), "Clone") {
								if id, ok := z.Lhs[i].(*ast.Ident); ok {
									aliases[f.Info.ObjectOf(id)] = true
								}
							}
						}
					case *ast.CallExpr:
						if se, ok := ast.Unparen(z.Fun).(*ast.SelectorExpr); ok && se.Sel.Name == "Clear" && clearPos == token.NoPos {
							clearPos = z.Pos()
						}
					case *ast.Ident:
						if clearPos != token.NoPos && z.Pos() > clearPos && aliases[f.Info.ObjectOf(z)] {
							bad = c.P.Pos(z.Pos())
						}
					}
					return true
				})
			}
			return true
		})
	}
	if bad == "" {
		c.OK("clear-keeps-aliases", "pkg/vm/stackitem", "Clear() wipes the slice, and execute reads no Value() alias after it")
	} else {
		c.Fail("clear-keeps-aliases", "pkg/vm/stackitem", fmt.Sprintf("%s wipes the slice it holds (clear / element-wise nil), and the CLEARITEMS arm of execute still reads the slice it obtained from Value() - the same backing array - after calling Clear() (%s) to release the elements' references: the elements are nil by then, Remove(nil) un-counts one reference each, and everything a nested compound element held stays counted for ever - the 2048-item limit is reached by a script that holds one item", wipes, bad))
	}
}

// ruleNarrowingChecked (C12, C13): a big integer from the stack is narrowed to a machine word only behind a test that
// it fits: big.Int.Uint64()/Int64() return the low bits of a value that does not, so a bound checked on the result
// lets 2^64+200 through as 200 (POW then raises to the full exponent: the instruction never ends and allocates without
// bound, its fixed price already paid). Every Uint64()/Int64() call on a *big.Int in package vm has an IsUint64()/
// IsInt64() call on the same value in the same function, or is tabled with the reason the value is known to fit.
var narrowingTabled = map[string]string{}

func ruleNarrowingChecked(c *Ctx) {
	pk := c.P.Pkg("pkg/vm")
	if pk == nil {
		return
	}
	info := pk.TypesInfo
	n := 0
	for _, fd := range c.P.AllFuncDecls() {
		if fd.Pkg != pk || fd.Decl.Body == nil {
			continue
		}
		type use struct {
			obj types.Object
			pos token.Pos
			m   string
		}
		var narrow []use
		checked := map[types.Object]map[string]bool{}
		ast.Inspect(fd.Decl.Body, func(x ast.Node) bool {
			call, ok := x.(*ast.CallExpr)
			if !ok || len(call.Args) != 0 {
				return true
			}
			se, ok := ast.Unparen(call.Fun).(*ast.SelectorExpr)
			if !ok {
				return true
			}
			t := info.TypeOf(se.X)
			if t == nil || types.TypeString(t, nil) != "*math/big.Int" {
				return true
			}
			o := rootObj(info, se.X)
			switch se.Sel.Name {
			case "Uint64", "Int64":
				narrow = append(narrow, use{o, call.Pos(), se.Sel.Name})
			case "IsUint64", "IsInt64":
				if checked[o] == nil {
					checked[o] = map[string]bool{}
				}
				checked[o][strings.TrimPrefix(se.Sel.Name, "Is")] = true
			}
			return true
		})
		for i, u := range narrow {
			n++
			key := fmt.Sprintf("narrowing-checked.%s#%d", shortSym(FuncKey(fd.Obj)), i+1)
			switch {
			case u.obj != nil && checked[u.obj][u.m]:
				c.OK(key, c.P.Pos(u.pos), "the value is tested to fit before its low bits are taken")
			case narrowingTabled[FuncKey(fd.Obj)] != "":
				c.OK(key, c.P.Pos(u.pos), "tabled: "+narrowingTabled[FuncKey(fd.Obj)])
			default:
				c.Fail(key, c.P.Pos(u.pos), fmt.Sprintf("%s takes %s() of a big integer it never asked Is%s(): for a value that does not fit the call returns the low 64 bits, so a bound checked on the result accepts 2^64+200 as 200 - and what is then done with the full value (POW: an exponentiation that never finishes and allocates until the process dies, its fixed price already charged) is not what the bound allowed", FuncKey(fd.Obj), u.m, u.m))
			}
		}
	}
	c.Floor("narrowings of big integers in package vm", n, 2)
}

// ruleRangeBeforeShortcut (C13): an operation on the top n items of the stack faults when the stack does not hold n
// items - whatever n is: the comparison with the depth comes before the shortcut for the values of n that need no work
// (REVERSEN with n = 1 over an empty stack faults). In the if/else-if chains of the Stack methods that take a count,
// no arm that returns success under a condition on the count alone stands before the arm that compares the count with
// the length.
func ruleRangeBeforeShortcut(c *Ctx) {
	pk := c.P.Pkg("pkg/vm")
	if pk == nil {
		return
	}
	info := pk.TypesInfo
	n := 0
	for _, fd := range c.P.AllFuncDecls() {
		if fd.Pkg != pk || fd.Decl.Body == nil || fd.Decl.Recv == nil || fd.Decl.Type.Params == nil {
			continue
		}
		if !namedTypeIs(fd.Obj.Type().(*types.Signature).Recv().Type(), "pkg/vm", "Stack") {
			continue
		}
		var cnt types.Object
		for _, fl := range fd.Decl.Type.Params.List {
			for _, nm := range fl.Names {
				if b, ok := info.TypeOf(fl.Type).Underlying().(*types.Basic); ok && b.Kind() == types.Int {
					cnt = info.ObjectOf(nm)
				}
			}
		}
		if cnt == nil {
			continue
		}
		f := c.P.NewFuncCFG(fd)
		mentionsCnt := func(e ast.Expr) bool {
			hit := false
			ast.Inspect(e, func(x ast.Node) bool {
				if id, ok := x.(*ast.Ident); ok && info.ObjectOf(id) == cnt {
					hit = true
				}
				return true
			})
			return hit
		}
		mentionsLen := func(e ast.Expr) bool {
			hit := false
			ast.Inspect(e, func(x ast.Node) bool {
				switch y := x.(type) {
				case *ast.CallExpr:
					if f.calleeSym(y) == "builtin.len" || strings.HasSuffix(f.calleeSym(y), ".Len") {
						hit = true
					}
				case *ast.Ident:
					if v, ok := info.ObjectOf(y).(*types.Var); ok && !f.params[v] && len(f.defs[v]) == 1 && len(f.defs[v][0].rhs) == 1 {
						if call, ok := ast.Unparen(f.defs[v][0].rhs[0]).(*ast.CallExpr); ok && (f.calleeSym(call) == "builtin.len" || strings.HasSuffix(f.calleeSym(call), ".Len")) {
							hit = true
						}
					}
				}
				return true
			})
			return hit
		}
		for _, st := range fd.Decl.Body.List {
			is, ok := st.(*ast.IfStmt)
			if !ok {
				continue
			}
			seenRange, rangeExists := false, false
			for cur := is; cur != nil; {
				if mentionsCnt(cur.Cond) && mentionsLen(cur.Cond) {
					rangeExists = true
				}
				next, _ := cur.Else.(*ast.IfStmt)
				cur = next
			}
			if !rangeExists {
				continue
			}
			n++
			bad := token.NoPos
			for cur := is; cur != nil; {
				if mentionsCnt(cur.Cond) && mentionsLen(cur.Cond) {
					seenRange = true
				} else if !seenRange && mentionsCnt(cur.Cond) && len(cur.Body.List) > 0 {
					if rs, ok := cur.Body.List[len(cur.Body.List)-1].(*ast.ReturnStmt); ok {
						success := len(rs.Results) == 0
						for _, r := range rs.Results {
							if isNilIdent(info, r) {
								success = true
							}
						}
						if success {
							bad = cur.Pos()
						}
					}
				}
				next, _ := cur.Else.(*ast.IfStmt)
				cur = next
			}
			key := "range-before-shortcut." + shortSym(FuncKey(fd.Obj))
			if bad == token.NoPos {
				c.OK(key, c.P.Pos(is.Pos()), "the count is compared with the depth of the stack before any shortcut returns")
			} else {
				c.Fail(key, c.P.Pos(bad), fmt.Sprintf("%s returns success for some values of its count before it has compared the count with the depth of the stack: an instruction that names more items than the stack holds has to fault whatever the count is (`PUSH1 REVERSEN` over an empty stack), and here it halts", FuncKey(fd.Obj)))
			}
			break
		}
	}
	c.Floor("Stack methods that compare a count with the depth", n, 2)
}

// ruleIndexBoundExclusive (C13, C12): where execute rejects an index by comparing it with the length of what it is
// about to index, the comparison rejects the length itself: `index > len(a)` lets index == len(a) through to a[index],
// a Go runtime panic - an uncatchable fault where the instruction is specified to throw a catchable exception.
func ruleIndexBoundExclusive(c *Ctx) {
	fd := c.P.Func("pkg/vm", "VM", "execute")
	if fd == nil {
		return
	}
	info := fd.Pkg.TypesInfo
	f := c.P.NewFuncCFG(fd)
	n := 0
	flip := map[token.Token]token.Token{token.LSS: token.GTR, token.GTR: token.LSS, token.LEQ: token.GEQ, token.GEQ: token.LEQ}
	ast.Inspect(fd.Decl.Body, func(x ast.Node) bool {
		cc, ok := x.(*ast.CaseClause)
		if !ok {
			return true
		}
		for _, st := range cc.Body {
			ast.Inspect(st, func(y ast.Node) bool {
				if _, nested := y.(*ast.CaseClause); nested {
					return true
				}
				be, ok := y.(*ast.BinaryExpr)
				if !ok {
					return true
				}
				op, ok := be.Op, true
				var idx, arr ast.Expr
				isLen := func(e ast.Expr) (ast.Expr, bool) {
					call, ok := ast.Unparen(e).(*ast.CallExpr)
					if ok && f.calleeSym(call) == "builtin.len" && len(call.Args) == 1 {
						return call.Args[0], true
					}
					return nil, false
				}
				if a, isL := isLen(be.Y); isL {
					idx, arr = be.X, a
				} else if a, isL := isLen(be.X); isL {
					idx, arr = be.Y, a
					op, ok = flip[op]
				} else {
					return true
				}
				if !ok || (op != token.GTR && op != token.GEQ) {
					return true
				}
				io := rootObj(info, idx)
				ao := rootObj(info, arr)
				if _, isId := ast.Unparen(idx).(*ast.Ident); !isId || io == nil || ao == nil {
					return true
				}
				indexed := false
				for _, s2 := range cc.Body {
					ast.Inspect(s2, func(z ast.Node) bool {
						if ix, ok := z.(*ast.IndexExpr); ok {
							if id, ok := ast.Unparen(ix.Index).(*ast.Ident); ok && info.ObjectOf(id) == io && rootObj(info, ix.X) == ao {
								indexed = true
							}
						}
						return true
					})
				}
				if !indexed {
					return true
				}
				n++
				key := fmt.Sprintf("index-bound-exclusive.%s@%s", enclosingOpcodeArm(c, fd, cc.Pos()), types.ExprString(arr))
				if op == token.GEQ {
					c.OK(key, c.P.Pos(be.Pos()), "an index equal to the length is rejected before it is used")
				} else {
					c.Fail(key, c.P.Pos(be.Pos()), fmt.Sprintf("the %s arm of execute rejects an index with `%s` and then reads %s[%s]: an index equal to the length passes the test and the read is a Go runtime panic - the script faults without a chance to catch what is specified as a catchable exception", enclosingOpcodeArm(c, fd, cc.Pos()), types.ExprString(be), types.ExprString(arr), types.ExprString(idx)))
				}
				return true
			})
		}
		return true
	})
	c.Floor("index checks of execute followed by an indexed read", n, 2)
}

// ruleCallbackForEveryReceiver (C05, C16): a token transfer to a deployed contract calls the receiver's payment
// callback - whoever the sender is. The callback is what lets a receiver refuse (Notary.onNEP17Payment panics on a
// payment without deposit data): skipped for a transfer from an account to itself, `Notary.withdraw(from, to=Notary)`
// removes the deposit, "sends" the GAS from Notary to Notary and halts - the deposit record is gone and the GAS stays
// with the contract for ever. The conditions under which postTransfer goes on without the callback mention the
// receiver, the callback switch and the contract lookup only - never the sender.
func ruleCallbackForEveryReceiver(c *Ctx) {
	fd := c.P.Func("pkg/core/native", "nep17TokenNative", "postTransfer")
	if fd == nil {
		c.Lost("callback-for-every-receiver.anchor", "nep17TokenNative.postTransfer not found")
		return
	}
	info := fd.Pkg.TypesInfo
	var from types.Object
	for _, fl := range fd.Decl.Type.Params.List {
		for _, nm := range fl.Names {
			if nm.Name == "from" {
				from = info.ObjectOf(nm)
			}
		}
	}
	if from == nil {
		c.Lost("callback-for-every-receiver.param", "postTransfer has no parameter named from")
		return
	}
	f := c.P.NewFuncCFG(fd)
	cb := f.CallSites("pkg/core/interop/contract.CallFromNative")
	if len(cb) == 0 {
		c.Lost("callback-for-every-receiver.callout", "postTransfer no longer calls the receiver through contract.CallFromNative")
		return
	}
	n := 0
	bad := ""
	for _, st := range fd.Decl.Body.List {
		is, ok := st.(*ast.IfStmt)
		if !ok || is.Pos() > cb[0].call.Pos() || len(is.Body.List) == 0 {
			continue
		}
		if _, ret := is.Body.List[len(is.Body.List)-1].(*ast.ReturnStmt); !ret {
			continue
		}
		n++
		ast.Inspect(is.Cond, func(x ast.Node) bool {
			if id, ok := x.(*ast.Ident); ok && info.ObjectOf(id) == from {
				bad = types.ExprString(is.Cond)
			}
			return true
		})
	}
	c.Floor("early exits of postTransfer before the callback", n, 2)
	if bad == "" {
		c.OK("callback-for-every-receiver", c.P.Pos(fd.Decl.Pos()), "whether the receiver's payment callback runs does not depend on the sender")
	} else {
		c.Fail("callback-for-every-receiver", c.P.Pos(fd.Decl.Pos()), fmt.Sprintf("postTransfer skips the receiver's payment callback under `%s`, a condition on the sender: the callback is how a receiving contract refuses a payment, and a transfer it never hears of - Notary.withdraw with the Notary contract itself as the receiver - removes the deposit record while the GAS never leaves the contract", bad))
	}
}

// ruleTxStoredAtBlockIndex (C20, C06): a transaction record carries the index of the block that contains it
// (Ledger.getTransactionHeight, the traceability window, GetTransaction all read it). Every writer of transaction
// records - block processing and the block stage of state synchronisation - passes the Index of the block it is
// storing, not a height kept elsewhere (the module's own height is advanced after the batch is persisted: one less).
func ruleTxStoredAtBlockIndex(c *Ctx) {
	n := 0
	for _, fd := range c.P.AllFuncDecls() {
		if fd.Decl.Body == nil || !strings.HasPrefix(pkgRel(fd.Pkg.Types), "pkg/core") {
			continue
		}
		f := c.P.NewFuncCFG(fd)
		// call sites inside function literals count (storeBlock writes the records in a goroutine)
		var calls []*ast.CallExpr
		ast.Inspect(fd.Decl.Body, func(x ast.Node) bool {
			if ce, ok := x.(*ast.CallExpr); ok {
				if fn := calleeFunc(f.Info, ce); fn != nil && FuncKey(fn) == "pkg/core/dao.(*Simple).StoreAsTransaction" {
					calls = append(calls, ce)
				}
			}
			return true
		})
		for _, call := range calls {
			s := struct{ call *ast.CallExpr }{call}
			if len(s.call.Args) < 2 {
				continue
			}
			n++
			key := fmt.Sprintf("tx-stored-at-block-index.%s#%d", shortSym(FuncKey(fd.Obj)), n)
			arg := ast.Unparen(resolveLocalOnce(f.Info, fd.Decl.Body, s.call.Args[1]))
			se, ok := arg.(*ast.SelectorExpr)
			good := false
			if ok && se.Sel.Name == "Index" {
				t := f.Info.TypeOf(se.X)
				if namedTypeIs(t, "pkg/core/block", "Block") || namedTypeIs(t, "pkg/core/block", "Header") {
					good = true
				}
			}
			if good {
				c.OK(key, c.P.Pos(s.call.Pos()), "the transaction is recorded at the index of the block being stored")
			} else {
				c.Fail(key, c.P.Pos(s.call.Pos()), fmt.Sprintf("%s records a transaction at height `%s`, not at the Index of the block it is storing: Ledger.getTransactionHeight, the traceability window and GetTransaction read that number, so a node that stored the block this way answers differently from one that processed it - a later transaction that acts on the answer gives another state root", FuncKey(fd.Obj), types.ExprString(arg)))
			}
		}
	}
	c.Floor("writers of transaction records", n, 2)
}

// ruleRefusedLeavesRing (C20): the queue hands the element for height+1 to the ledger; whatever the ledger says, the
// element leaves its slot before the loop waits for the next signal. A refused element that stays is the element Put
// finds when the real block of that index arrives ("keep the old one") - every later delivery is thrown away and the
// node never gets past that height. Every path of Queue.Run from the AddItem call to the next receive on the signal
// channel passes the statement that empties the slot.
func ruleRefusedLeavesRing(c *Ctx) {
	fd := c.P.Func("pkg/network/bqueue", "Queue", "Run")
	if fd == nil {
		c.Lost("refused-leaves-ring.anchor", "bqueue.Queue.Run not found")
		return
	}
	f := c.P.NewFuncCFG(fd)
	var add []site
	var clears, waits []site
	for _, b := range f.G.Blocks {
		if !b.Live {
			continue
		}
		for i, nd := range b.Nodes {
			ast.Inspect(nd, func(x ast.Node) bool {
				switch y := x.(type) {
				case *ast.CallExpr:
					if se, ok := ast.Unparen(y.Fun).(*ast.SelectorExpr); ok && se.Sel.Name == "AddItem" {
						add = append(add, site{b, i, nd, y})
					}
				case *ast.UnaryExpr:
					if y.Op == token.ARROW && strings.HasSuffix(types.ExprString(y.X), "checkBlocks") {
						waits = append(waits, site{b, i, nd, nil})
					}
				case *ast.AssignStmt:
					for li, l := range y.Lhs {
						if ix, ok := ast.Unparen(l).(*ast.IndexExpr); ok && strings.HasSuffix(types.ExprString(ix.X), ".queue") && li < len(y.Rhs) && strings.HasSuffix(types.ExprString(y.Rhs[li]), "nilQ") {
							clears = append(clears, site{b, i, nd, nil})
						}
					}
				case *ast.BinaryExpr:
					// the test "is the slot still held by this element" that guards the emptying (a newer element may
					// have taken the slot over): reaching the test is reaching the decision to empty
					if y.Op == token.EQL {
						if ix, ok := ast.Unparen(y.X).(*ast.IndexExpr); ok && strings.HasSuffix(types.ExprString(ix.X), ".queue") {
							clears = append(clears, site{b, i, nd, nil})
						}
					}
				}
				return true
			})
		}
	}
	if len(add) == 0 || len(waits) == 0 {
		c.Lost("refused-leaves-ring.shape", "Queue.Run no longer calls AddItem / waits on checkBlocks")
		return
	}
	// the clears that lie after the AddItem call in the source (the catch-up loop at the top clears other slots)
	var after []site
	for _, s := range clears {
		if s.node.Pos() > add[0].call.Pos() {
			after = append(after, s)
		}
	}
	ok, path := f.mustBefore([]*cfg.Block{add[0].blk}, waits, after, nil)
	if ok && len(after) > 0 {
		c.OK("refused-leaves-ring", c.P.Pos(add[0].call.Pos()), "whatever AddItem answers, the slot is emptied before the loop waits again")
	} else {
		c.Fail("refused-leaves-ring", c.P.Pos(add[0].call.Pos()), "Queue.Run can go from the AddItem call back to waiting for the next signal without emptying the element's slot ("+strings.Join(path, " -> ")+"): an element the ledger refused stays in the ring, Put keeps the old element of an index when the real block arrives, and the node never gets past that height however often it is given the right block")
	}
}

// ruleRebuildOnlyAdds (C08): RemoveStale rebuilds the conflicts index from nothing (clear / a fresh map) and re-enters
// the transactions it keeps. While an index is being rebuilt only additions make sense: a remover called for a
// transaction that was never re-entered finds other transactions' entries under the same key and - removeConflictsOf
// deletes a key whose list has one element - takes away the entry of a kept transaction. In a function that clears a
// map index of the pool and appends to it again, no function that deletes from that index is called.
func ruleRebuildOnlyAdds(c *Ctx) {
	pk := c.P.Pkg("pkg/core/mempool")
	if pk == nil {
		return
	}
	info := pk.TypesInfo
	fieldName := func(e ast.Expr) (string, bool) {
		se, ok := ast.Unparen(e).(*ast.SelectorExpr)
		if !ok {
			return "", false
		}
		v, ok := info.ObjectOf(se.Sel).(*types.Var)
		if !ok || !v.IsField() {
			return "", false
		}
		if _, isMap := v.Type().Underlying().(*types.Map); !isMap {
			return "", false
		}
		return v.Name(), true
	}
	// removers per index: functions that delete(mp.X, …)
	removers := map[string]map[*types.Func]bool{}
	for _, fd := range c.P.AllFuncDecls() {
		if fd.Pkg != pk || fd.Decl.Body == nil {
			continue
		}
		ast.Inspect(fd.Decl.Body, func(x ast.Node) bool {
			if call, ok := x.(*ast.CallExpr); ok {
				if id, ok := call.Fun.(*ast.Ident); ok && id.Name == "delete" && len(call.Args) == 2 {
					if fld, ok := fieldName(call.Args[0]); ok {
						if removers[fld] == nil {
							removers[fld] = map[*types.Func]bool{}
						}
						removers[fld][fd.Obj] = true
					}
				}
			}
			return true
		})
	}
	n := 0
	for _, fd := range c.P.AllFuncDecls() {
		if fd.Pkg != pk || fd.Decl.Body == nil {
			continue
		}
		// indexes this function resets
		resets := map[string]token.Pos{}
		ast.Inspect(fd.Decl.Body, func(x ast.Node) bool {
			switch y := x.(type) {
			case *ast.CallExpr:
				if id, ok := y.Fun.(*ast.Ident); ok && id.Name == "clear" && len(y.Args) == 1 {
					if fld, ok := fieldName(y.Args[0]); ok {
						resets[fld] = y.Pos()
					}
				}
			case *ast.AssignStmt:
				for i, l := range y.Lhs {
					if fld, ok := fieldName(l); ok && i < len(y.Rhs) {
						if call, ok := ast.Unparen(y.Rhs[i]).(*ast.CallExpr); ok {
							if id, ok := call.Fun.(*ast.Ident); ok && id.Name == "make" {
								resets[fld] = y.Pos()
							}
						}
					}
				}
			}
			return true
		})
		for fld, at := range resets {
			if len(removers[fld]) == 0 {
				continue
			}
			n++
			key := fmt.Sprintf("rebuild-only-adds.%s.%s", shortSym(FuncKey(fd.Obj)), fld)
			bad := ""
			ast.Inspect(fd.Decl.Body, func(x ast.Node) bool {
				call, ok := x.(*ast.CallExpr)
				if !ok || call.Pos() < at {
					return true
				}
				if fn := calleeFunc(info, call); fn != nil && fn != fd.Obj && removers[fld][fn] {
					bad = shortSym(FuncKey(fn)) + " at " + c.P.Pos(call.Pos())
				}
				return true
			})
			if bad == "" {
				c.OK(key, c.P.Pos(at), "while the index is rebuilt, nothing that removes from it is called")
			} else {
				c.Fail(key, c.P.Pos(at), fmt.Sprintf("%s empties Pool.%s, re-enters the transactions it keeps, and calls %s, which removes from that index: called for a transaction that was not re-entered, the remover finds another transaction's entry under the same hash (a list of one) and deletes the key - the kept transaction's conflict is forgotten and the transaction it names is pooled next to it", FuncKey(fd.Obj), fld, bad))
			}
		}
	}
	c.Floor("rebuilds of a pool index that has removers", n, 1)
}

// ruleFeePairSameTx (C08, C07): what a transaction costs its payer is its system fee plus its network fee. A sum that
// takes the two from different transactions (tx.SystemFee + conflictingTx.NetworkFee) is a slip between two loop
// variables that are both in scope: the amount released for a replaced transaction is then not what was reserved for
// it, and the payer's pooled fees exceed its balance. Every `A.SystemFee + B.NetworkFee` in the pool and the ledger
// has A and B the same expression.
func ruleFeePairSameTx(c *Ctx) {
	n := 0
	for _, fd := range c.P.AllFuncDecls() {
		rel := pkgRel(fd.Pkg.Types)
		if fd.Decl.Body == nil || !(rel == "pkg/core/mempool" || rel == "pkg/core" || rel == "pkg/core/native") {
			continue
		}
		info := fd.Pkg.TypesInfo
		k := 0
		ast.Inspect(fd.Decl.Body, func(x ast.Node) bool {
			be, ok := x.(*ast.BinaryExpr)
			if !ok || be.Op != token.ADD {
				return true
			}
			fee := func(e ast.Expr) (string, ast.Expr, bool) {
				se, ok := ast.Unparen(e).(*ast.SelectorExpr)
				if !ok || (se.Sel.Name != "SystemFee" && se.Sel.Name != "NetworkFee") {
					return "", nil, false
				}
				if v, ok := info.ObjectOf(se.Sel).(*types.Var); !ok || !v.IsField() {
					return "", nil, false
				}
				return se.Sel.Name, se.X, true
			}
			ln, lx, ok1 := fee(be.X)
			rn, rx, ok2 := fee(be.Y)
			if !ok1 || !ok2 || ln == rn {
				return true
			}
			n++
			k++
			key := fmt.Sprintf("fee-pair-same-tx.%s#%d", shortSym(FuncKey(fd.Obj)), k)
			if sameExpr(info, lx, rx) {
				c.OK(key, c.P.Pos(be.Pos()), "both fees of one transaction")
			} else {
				c.Fail(key, c.P.Pos(be.Pos()), fmt.Sprintf("%s adds `%s`: the system fee of one transaction and the network fee of another. What a replaced transaction releases for its payer is what was reserved for it - its own two fees; with the system fee of the replacing transaction in the sum the payer's pooled fees no longer fit its balance, and an addition that must fail succeeds", FuncKey(fd.Obj), types.ExprString(be)))
			}
			return true
		})
	}
	c.Floor("sums of a system fee and a network fee", n, 4)
}

// ruleOriginalTxThroughResponse (C15): an oracle callback runs under the signers of the transaction that made the
// request (Oracle.finish: UseSigners(origTx.Signers)). A request made *from* a callback is made inside the response
// transaction, whose signers are the oracle nodes and the Oracle contract with scope None - the request has to inherit
// the original transaction of the request it is a response to, or the second-level callback sees no witness of the
// user who signed the whole chain with a global scope. The value RequestInternal records as OriginalTxID comes from a
// function that looks at the OracleResponse attribute of the current transaction.
func ruleOriginalTxThroughResponse(c *Ctx) {
	fd := c.P.Func("pkg/core/native", "Oracle", "RequestInternal")
	if fd == nil {
		c.Lost("original-tx-through-response.anchor", "Oracle.RequestInternal not found")
		return
	}
	info := fd.Pkg.TypesInfo
	found := false
	ast.Inspect(fd.Decl.Body, func(x ast.Node) bool {
		kv, ok := x.(*ast.KeyValueExpr)
		if !ok {
			return true
		}
		id, ok := kv.Key.(*ast.Ident)
		if !ok || id.Name != "OriginalTxID" {
			return true
		}
		found = true
		looks := false
		var visit func(e ast.Node, depth int)
		visit = func(e ast.Node, depth int) {
			ast.Inspect(e, func(y ast.Node) bool {
				switch z := y.(type) {
				case *ast.Ident:
					if z.Name == "OracleResponseT" {
						looks = true
					}
				case *ast.CallExpr:
					if fn := calleeFunc(info, z); fn != nil && depth < 2 {
						if d := c.P.DeclOf(fn); d != nil && d.Decl.Body != nil && d.Pkg == fd.Pkg {
							visit(d.Decl.Body, depth+1)
						}
					}
				}
				return true
			})
		}
		visit(resolveLocalOnce(info, fd.Decl.Body, kv.Value), 0)
		if looks {
			c.OK("original-tx-through-response", c.P.Pos(kv.Pos()), "a request made from an oracle callback inherits the original transaction of the request being answered")
		} else {
			c.Fail("original-tx-through-response", c.P.Pos(kv.Pos()), fmt.Sprintf("Oracle.RequestInternal records `%s` as the request's original transaction without looking whether the current transaction is itself an oracle response: a request made from a callback then names the response transaction - signed by the oracle nodes and the Oracle contract with scope None - and the callback of that second request runs without the witnesses of the user who signed the chain of requests, whatever scope they gave", types.ExprString(kv.Value)))
		}
		return true
	})
	if !found {
		c.Lost("original-tx-through-response.shape", "RequestInternal no longer builds a request with an OriginalTxID")
	}
}

// resolveLocalOnce: an identifier that names a local with exactly one definition in body (and no other assignment,
// increment or address-of) stands for the expression it was defined with; anything else is returned as it is.
func resolveLocalOnce(info *types.Info, body ast.Node, e ast.Expr) ast.Expr {
	id, ok := ast.Unparen(e).(*ast.Ident)
	if !ok {
		return e
	}
	o := info.ObjectOf(id)
	if o == nil {
		return e
	}
	var def ast.Expr
	n := 0
	ast.Inspect(body, func(x ast.Node) bool {
		switch y := x.(type) {
		case *ast.AssignStmt:
			for i, l := range y.Lhs {
				if li, ok := l.(*ast.Ident); ok && info.ObjectOf(li) == o {
					n++
					if len(y.Lhs) == len(y.Rhs) {
						def = y.Rhs[i]
					} else {
						n++
					}
				}
			}
		case *ast.ValueSpec:
			for i, nm := range y.Names {
				if info.ObjectOf(nm) == o {
					n++
					if i < len(y.Values) {
						def = y.Values[i]
					} else {
						n++
					}
				}
			}
		case *ast.IncDecStmt:
			if li, ok := y.X.(*ast.Ident); ok && info.ObjectOf(li) == o {
				n += 2
			}
		case *ast.UnaryExpr:
			if li, ok := y.X.(*ast.Ident); ok && y.Op == token.AND && info.ObjectOf(li) == o {
				n += 2
			}
		case *ast.RangeStmt:
			for _, l := range []ast.Expr{y.Key, y.Value} {
				if li, ok := l.(*ast.Ident); ok && info.ObjectOf(li) == o {
					n += 2
				}
			}
		}
		return true
	})
	if n == 1 && def != nil {
		return def
	}
	return e
}

// ruleEpochBoundaryAgrees (C19, C01): the values of the next epoch (committee, next validators) are computed when the
// block being processed is the last of an epoch: NEO.PostPersist asks ShouldUpdateCommitteeAt(ic.Block.Index + 1). A
// node that starts with that block as its tip has to make the same computation, or it proposes and signs the next
// block with the validators of the epoch that has just ended (another NextConsensus, another header hash than its
// peers - commits that match nobody's). NEO.InitializeCache asks the same question for the same height: the height
// it was given plus the offset PostPersist adds to the index of the block it has just processed.
func ruleEpochBoundaryAgrees(c *Ctx) {
	pp := c.P.Func("pkg/core/native", "NEO", "PostPersist")
	ic := c.P.Func("pkg/core/native", "NEO", "InitializeCache")
	if pp == nil || ic == nil {
		c.Lost("epoch-boundary-agrees.anchor", "NEO.PostPersist / NEO.InitializeCache not found")
		return
	}
	// the ShouldUpdateCommitteeAt call whose if-body reaches updateCachedNewEpochValues
	offsetOf := func(fd *FuncDecl) (int64, bool, token.Pos) {
		f := c.P.NewFuncCFG(fd)
		var off int64
		found := false
		var at token.Pos
		ast.Inspect(fd.Decl.Body, func(x ast.Node) bool {
			is, ok := x.(*ast.IfStmt)
			if !ok || found {
				return true
			}
			reaches := false
			ast.Inspect(is.Body, func(y ast.Node) bool {
				if ce, ok := y.(*ast.CallExpr); ok && strings.HasSuffix(f.calleeSym(ce), ".updateCachedNewEpochValues") {
					reaches = true
				}
				return true
			})
			if !reaches {
				return true
			}
			ast.Inspect(is.Cond, func(y ast.Node) bool {
				ce, ok := y.(*ast.CallExpr)
				if !ok || !strings.HasSuffix(f.calleeSym(ce), ".ShouldUpdateCommitteeAt") || len(ce.Args) != 1 {
					return true
				}
				_, o, ok := linearForm(f, ce.Args[0], 0)
				if id, isId := ast.Unparen(ce.Args[0]).(*ast.Ident); isId && f.params[f.Info.ObjectOf(id)] {
					o, ok = 0, true
				}
				if ok {
					off, found, at = o, true, ce.Pos()
				}
				return true
			})
			return true
		})
		return off, found, at
	}
	po, ok1, _ := offsetOf(pp)
	io, ok2, at := offsetOf(ic)
	switch {
	case !ok1 || !ok2:
		c.Lost("epoch-boundary-agrees.shape", "the ShouldUpdateCommitteeAt test that guards updateCachedNewEpochValues was not found in PostPersist or InitializeCache")
	case po == io:
		c.OK("epoch-boundary-agrees", c.P.Pos(at), fmt.Sprintf("start-up and block processing compute the next epoch's values for the same height (tip%+d)", io))
	default:
		c.Fail("epoch-boundary-agrees", c.P.Pos(at), fmt.Sprintf("NEO.PostPersist computes the next epoch's committee and validators when ShouldUpdateCommitteeAt(index%+d) holds for the block it has processed, NEO.InitializeCache when ShouldUpdateCommitteeAt(height%+d) holds for the tip it starts from: a node restarted while its tip is the last block of an epoch keeps the ending epoch's validators for the next block, builds a header with another NextConsensus than its peers, and its commits match nobody's - with one more validator silent the height never completes", po, io))
	}
}

// ruleVerifyBudgetCoversSignature (C19): consensus payloads travel as extensible payloads; the pool verifies the
// witness of every one - the node's own included - with a fixed GAS allowance. A signature check costs
// ECDSAVerifyPrice x ExecFeeFactor, and the committee may raise the factor up to maxExecFeeFactor: an allowance below
// the product makes every honestly signed payload fail verification once the factor is raised, on every node, and no
// block can be produced to lower it again. extpool.extensibleVerifyMaxGAS >= native.maxExecFeeFactor x
// fee.ECDSAVerifyPrice - a relation between three constants of the code, folded on every run.
func ruleVerifyBudgetCoversSignature(c *Ctx) {
	get := func(pkg, name string) (int64, bool) {
		pk := c.P.Pkg(pkg)
		if pk == nil {
			return 0, false
		}
		o := pk.Types.Scope().Lookup(name)
		if o == nil {
			return 0, false
		}
		var val constant.Value
		switch k := o.(type) {
		case *types.Const:
			val = k.Val()
		default:
			return 0, false
		}
		v, ok := constant.Int64Val(constant.ToInt(val))
		return v, ok
	}
	budget, ok1 := get("pkg/network/extpool", "extensibleVerifyMaxGAS")
	price, ok2 := get("pkg/core/fee", "ECDSAVerifyPrice")
	factor, ok3 := get("pkg/core/native", "maxExecFeeFactor")
	if !ok1 || !ok2 || !ok3 {
		c.Lost("verify-budget-covers-signature.consts", "extpool.extensibleVerifyMaxGAS, fee.ECDSAVerifyPrice or native.maxExecFeeFactor is no longer a constant the rule can fold")
		return
	}
	if budget >= price*factor {
		c.OK("verify-budget-covers-signature", "pkg/network/extpool", fmt.Sprintf("the allowance for the witness of an extensible payload (%d) covers a signature check at the highest execution fee factor (%d x %d)", budget, price, factor))
	} else {
		c.Fail("verify-budget-covers-signature", "pkg/network/extpool", fmt.Sprintf("extpool verifies the witness of every extensible payload with %d GAS units, a signature check costs ECDSAVerifyPrice (%d) times the execution fee factor, and the committee may raise the factor to %d: %d does not fit. Once the factor is raised past %d every honestly signed consensus payload - a node's own too - is refused by the pools of all nodes, no block is produced any more, and without a block the factor cannot be lowered", budget, price, factor, price*factor, budget/price))
	}
}

// ruleCompletionAfterProgress (C20): the stage of the state synchronisation moves on when the pool of unknown nodes is
// found empty after a batch ("Count() == 0" at the tail of AddMPTNodes). A batch is processed node by node and the
// nodes restored before a bad one may be the last ones the pool was waiting for; nobody sends MPT data to a node that
// asks for none (GetUnknownMPTNodesBatch is empty), so the test is never made again and the node neither asks for
// blocks nor leaves the stage. In every method of the module that restores nodes and tests the pool for emptiness, each
// exit reachable from the restoring call passes the emptiness test first.
func ruleCompletionAfterProgress(c *Ctx) {
	n := 0
	for _, fd := range c.P.AllFuncDecls() {
		if pkgRel(fd.Pkg.Types) != "pkg/core/statesync" || fd.Decl.Recv == nil || fd.Decl.Body == nil {
			continue
		}
		f := c.P.NewFuncCFG(fd)
		restores := f.CallSites("pkg/core/statesync.(*Module).restoreNode")
		counts := f.CallSites("pkg/core/statesync.(*Pool).Count")
		if len(restores) == 0 || len(counts) == 0 {
			continue
		}
		n++
		var from []*cfg.Block
		for _, s := range restores {
			from = append(from, s.blk)
		}
		key := "completion-after-progress:" + FuncKey(fd.Obj)
		ok, path := f.mustBefore(from, f.Returns(), counts, nil)
		if ok {
			c.OK(key, c.P.Pos(restores[0].call.Pos()), "every exit after a node was restored passes the test of the pool for emptiness")
		} else {
			c.Fail(key, c.P.Pos(restores[0].call.Pos()), shortSym(FuncKey(fd.Obj))+" can return after restoring nodes without testing whether the pool of unknown nodes became empty ("+strings.Join(path, " -> ")+"): when the restored nodes were the last ones missing, the module stays in the MPT stage with nothing to ask for, nobody sends it MPT data again and it never asks for blocks")
		}
	}
	c.Floor("completion-after-progress.methods", n, 1)
}

// ruleLayerCacheFresh (C04): a DAO layer that is dropped must have had nothing in common with the layer below it. The
// native caches follow that by copy-on-write: a layer starts with an empty cache map, takes a Copy() of the lower
// layer's cache the first time it is asked for a writable one, and hands its copies down when it is persisted. Every
// statement of package dao that puts entries into a layer's cache map is classified: a fresh Copy(), the owner's own
// value (SetCache parameter), or the hand-down into the layer's own nativeCachePS. Entries taken over from another
// layer in any other direction (an upper layer filled from the one it wraps) are shared objects: the upper layer's
// writes go into the lower layer's cache and stay there when the upper layer is dropped by a caught exception.
func ruleLayerCacheFresh(c *Ctx) {
	pk := c.P.Pkg("pkg/core/dao")
	if pk == nil {
		c.Lost("layer-cache-fresh.anchor", "package dao not found")
		return
	}
	info := pk.TypesInfo
	isCacheSel := func(e ast.Expr) (ast.Expr, bool) {
		se, ok := ast.Unparen(e).(*ast.SelectorExpr)
		if !ok || se.Sel.Name != "nativeCache" {
			return nil, false
		}
		return se.X, true
	}
	n := 0
	for _, fd := range c.P.AllFuncDecls() {
		if fd.Pkg != pk || fd.Decl.Body == nil {
			continue
		}
		fn := shortSym(FuncKey(fd.Obj))
		// single definitions of locals
		def := map[types.Object]ast.Expr{}
		cnt := map[types.Object]int{}
		ast.Inspect(fd.Decl.Body, func(x ast.Node) bool {
			if as, ok := x.(*ast.AssignStmt); ok && len(as.Lhs) == len(as.Rhs) {
				for i, l := range as.Lhs {
					if id, ok := l.(*ast.Ident); ok {
						if o := info.ObjectOf(id); o != nil {
							cnt[o]++
							def[o] = as.Rhs[i]
						}
					}
				}
			}
			return true
		})
		resolve := func(e ast.Expr) ast.Expr {
			if id, ok := ast.Unparen(e).(*ast.Ident); ok {
				if o := info.ObjectOf(id); o != nil && cnt[o] == 1 {
					return def[o]
				}
			}
			return e
		}
		isParam := func(e ast.Expr) bool {
			id, ok := ast.Unparen(e).(*ast.Ident)
			if !ok {
				return false
			}
			o := info.ObjectOf(id)
			for _, fl := range fd.Decl.Type.Params.List {
				for _, nm := range fl.Names {
					if info.ObjectOf(nm) == o {
						return true
					}
				}
			}
			return false
		}
		isCopyCall := func(e ast.Expr) bool {
			call, ok := ast.Unparen(resolve(e)).(*ast.CallExpr)
			if !ok {
				return false
			}
			se, ok := ast.Unparen(call.Fun).(*ast.SelectorExpr)
			return ok && se.Sel.Name == "Copy" && len(call.Args) == 0
		}
		isFreshMap := func(e ast.Expr) bool {
			e = ast.Unparen(resolve(e))
			if isNilIdent(info, e) {
				return true
			}
			if _, ok := e.(*ast.CompositeLit); ok {
				return true
			}
			if call, ok := e.(*ast.CallExpr); ok {
				if id, ok := call.Fun.(*ast.Ident); ok && id.Name == "make" {
					return true
				}
			}
			return false
		}
		ast.Inspect(fd.Decl.Body, func(x ast.Node) bool {
			switch y := x.(type) {
			case *ast.AssignStmt:
				for i, l := range y.Lhs {
					if i >= len(y.Rhs) {
						continue
					}
					if ix, ok := ast.Unparen(l).(*ast.IndexExpr); ok {
						if _, ok := isCacheSel(ix.X); ok {
							n++
							key := "layer-cache-fresh:" + fn + ".entry"
							switch {
							case isCopyCall(y.Rhs[i]):
								c.OK(key, c.P.Pos(y.Pos()), "the entry is a fresh Copy()")
							case isParam(y.Rhs[i]):
								c.OK(key, c.P.Pos(y.Pos()), "the entry is the caller's own value")
							default:
								c.Fail(key, c.P.Pos(y.Pos()), fn+" puts "+types.ExprString(y.Rhs[i])+" into a layer's native cache map, which is neither a fresh Copy() nor the caller's own value: the layer shares the cache object with another layer, and what it writes there survives its being dropped")
							}
						}
					} else if _, ok := isCacheSel(l); ok {
						n++
						key := "layer-cache-fresh:" + fn + ".map"
						if isFreshMap(y.Rhs[i]) {
							c.OK(key, c.P.Pos(y.Pos()), "the layer's cache map is set to an empty map / nil")
						} else {
							c.Fail(key, c.P.Pos(y.Pos()), fn+" sets a layer's native cache map to "+types.ExprString(y.Rhs[i])+": two layers share one map, the copies one makes are visible to the other and survive its rollback")
						}
					}
				}
			case *ast.KeyValueExpr:
				if id, ok := y.Key.(*ast.Ident); ok && id.Name == "nativeCache" {
					if v, ok := info.ObjectOf(id).(*types.Var); ok && v.IsField() {
						n++
						key := "layer-cache-fresh:" + fn + ".map"
						if isFreshMap(y.Value) {
							c.OK(key, c.P.Pos(y.Pos()), "the layer's cache map is set to an empty map / nil")
						} else {
							c.Fail(key, c.P.Pos(y.Pos()), fn+" builds a layer whose native cache map is "+types.ExprString(y.Value)+": two layers share one map")
						}
					}
				}
			case *ast.CallExpr:
				callee := calleeFunc(info, y)
				if callee == nil || callee.Pkg() == nil || callee.Pkg().Path() != "maps" || len(y.Args) != 2 {
					return true
				}
				dst, ok := isCacheSel(y.Args[0])
				if !ok {
					return true
				}
				n++
				key := "layer-cache-fresh:" + fn + ".bulk"
				src, sok := isCacheSel(y.Args[1])
				down := false
				if sok {
					// the destination is the source layer's own lower layer: <src>.nativeCachePS
					if se, ok := ast.Unparen(resolve(dst)).(*ast.SelectorExpr); ok && se.Sel.Name == "nativeCachePS" && sameExpr(info, se.X, src) {
						down = true
					}
				}
				if down {
					c.OK(key, c.P.Pos(y.Pos()), "entries are handed down from a layer into the layer it wraps (persist)")
				} else {
					c.Fail(key, c.P.Pos(y.Pos()), fn+" fills the native cache map of "+types.ExprString(dst)+" with the entries of "+types.ExprString(y.Args[1])+", and the destination is not the source layer's own nativeCachePS: the layer starts with cache objects it shares with another layer, its writes go into them and stay when the layer is dropped (a caught exception, a faulted transaction)")
				}
			}
			return true
		})
	}
	c.Floor("layer-cache-fresh.sites", n, 6)
}

// ruleGivenDAOUsed (C04, C01): a method of Blockchain that is handed the DAO layer to work on (a *dao.Simple
// parameter) takes what it reads of the chain's settings from that layer. A zero-parameter getter of Blockchain
// reads bc.dao - the persisted and fully processed blocks - and does not see what the transactions of the block being
// processed have already written into the layer: a HALTed setStoragePrice / setExecFeeFactor of the same block is not
// in force for the transactions that follow it, on this node only (finding-style: a stale read that splits the state).
func ruleGivenDAOUsed(c *Ctx) {
	isBC := func(fn *types.Func) bool {
		sig, _ := fn.Type().(*types.Signature)
		if sig == nil || sig.Recv() == nil {
			return false
		}
		return namedTypeIsPtr(sig.Recv().Type(), "github.com/nspcc-dev/neo-go/pkg/core", "Blockchain")
	}
	getters := map[*types.Func]bool{}
	for _, fd := range c.P.AllFuncDecls() {
		if fd.Decl.Body == nil || fd.Decl.Recv == nil || !isBC(fd.Obj) || len(fd.Decl.Recv.List[0].Names) == 0 {
			continue
		}
		if fd.Obj.Type().(*types.Signature).Params().Len() != 0 {
			continue
		}
		info := fd.Pkg.TypesInfo
		recv := info.ObjectOf(fd.Decl.Recv.List[0].Names[0])
		ast.Inspect(fd.Decl.Body, func(x ast.Node) bool {
			call, ok := x.(*ast.CallExpr)
			if !ok {
				return true
			}
			for _, a := range call.Args {
				if se, ok := ast.Unparen(a).(*ast.SelectorExpr); ok && se.Sel.Name == "dao" {
					if id, ok := ast.Unparen(se.X).(*ast.Ident); ok && info.ObjectOf(id) == recv {
						getters[fd.Obj] = true
					}
				}
			}
			return true
		})
	}
	c.Floor("given-dao-used.getters", len(getters), 5)
	n := 0
	for _, fd := range c.P.AllFuncDecls() {
		if fd.Decl.Body == nil || fd.Decl.Recv == nil || !isBC(fd.Obj) {
			continue
		}
		sig := fd.Obj.Type().(*types.Signature)
		hasDAO := false
		for i := 0; i < sig.Params().Len(); i++ {
			if namedTypeIsPtr(sig.Params().At(i).Type(), "github.com/nspcc-dev/neo-go/pkg/core/dao", "Simple") {
				hasDAO = true
			}
		}
		if !hasDAO {
			continue
		}
		info := fd.Pkg.TypesInfo
		fn := shortSym(FuncKey(fd.Obj))
		// a method every caller of which passes bc.dao itself works on the persisted state anyway
		foreign := false
		for _, cd := range c.P.AllFuncDecls() {
			if cd.Decl.Body == nil || cd.Pkg != fd.Pkg {
				continue
			}
			ast.Inspect(cd.Decl.Body, func(x ast.Node) bool {
				call, ok := x.(*ast.CallExpr)
				if !ok || calleeFunc(info, call) != fd.Obj {
					return true
				}
				for i, a := range call.Args {
					if i < sig.Params().Len() && namedTypeIsPtr(sig.Params().At(i).Type(), "github.com/nspcc-dev/neo-go/pkg/core/dao", "Simple") {
						if se, ok := ast.Unparen(a).(*ast.SelectorExpr); !ok || se.Sel.Name != "dao" {
							foreign = true
						}
					}
				}
				return true
			})
		}
		if !foreign {
			continue
		}
		n++
		bad := 0
		ast.Inspect(fd.Decl.Body, func(x ast.Node) bool {
			call, ok := x.(*ast.CallExpr)
			if !ok {
				return true
			}
			g := calleeFunc(info, call)
			if g == nil || !getters[g] {
				return true
			}
			bad++
			c.Fail(fmt.Sprintf("given-dao-used:%s.%s", fn, g.Name()), c.P.Pos(call.Pos()), fmt.Sprintf("%s is given the DAO layer to work on and takes a value from %s, which reads bc.dao: what the earlier transactions of the block being processed have written into the layer (a HALTed change of a native setting) is not seen, so the setting is not in force for the transactions that follow it in the same block - on this node only", fn, shortSym(FuncKey(g))))
			return true
		})
		if bad == 0 {
			c.OK("given-dao-used:"+fn, c.P.Pos(fd.Decl.Pos()), "no getter of the persisted state is consulted next to the given layer")
		}
	}
	c.Floor("given-dao-used.methods", n, 4)
}

// ruleScopeFieldUnderBit (C15): the lists a signer carries for its custom scopes mean something only when the matching
// bit of Scopes is set - the decoder keeps (and the JSON form can deliver) a list next to other scopes, and a witness
// scoped CalledByEntry with a left-over AllowedContracts must not be valid inside those contracts. In the witness
// check of package runtime every read of Signer.AllowedContracts / AllowedGroups / Rules lies under a test of the
// CustomContracts / CustomGroups / Rules bit (nested in the if, or behind a guard that leaves when the bit is absent).
func ruleScopeFieldUnderBit(c *Ctx) {
	pk := c.P.Pkg("pkg/core/interop/runtime")
	if pk == nil {
		c.Lost("scope-field-under-bit.anchor", "package interop/runtime not found")
		return
	}
	info := pk.TypesInfo
	bit := map[string]string{"AllowedContracts": "CustomContracts", "AllowedGroups": "CustomGroups", "Rules": "Rules"}
	mentionsConst := func(e ast.Expr, name string) bool {
		hit := false
		ast.Inspect(e, func(x ast.Node) bool {
			if se, ok := x.(*ast.SelectorExpr); ok && se.Sel.Name == name {
				if cn, ok := info.ObjectOf(se.Sel).(*types.Const); ok && cn.Pkg() != nil && strings.HasSuffix(cn.Pkg().Path(), "pkg/core/transaction") {
					hit = true
				}
			}
			return true
		})
		return hit
	}
	leaves := func(b *ast.BlockStmt) bool {
		if b == nil || len(b.List) == 0 {
			return false
		}
		switch b.List[len(b.List)-1].(type) {
		case *ast.ReturnStmt, *ast.BranchStmt:
			return true
		}
		return false
	}
	n := 0
	for _, fd := range c.P.AllFuncDecls() {
		if fd.Pkg != pk || fd.Decl.Body == nil {
			continue
		}
		fn := shortSym(FuncKey(fd.Obj))
		var stack []ast.Node
		ast.Inspect(fd.Decl.Body, func(x ast.Node) bool {
			if x == nil {
				stack = stack[:len(stack)-1]
				return true
			}
			stack = append(stack, x)
			se, ok := x.(*ast.SelectorExpr)
			if !ok {
				return true
			}
			want, ok := bit[se.Sel.Name]
			if !ok {
				return true
			}
			fv, ok := info.ObjectOf(se.Sel).(*types.Var)
			if !ok || !fv.IsField() || !namedTypeIs(info.TypeOf(se.X), "pkg/core/transaction", "Signer") {
				return true
			}
			n++
			guarded := false
			for i := len(stack) - 2; i >= 0 && !guarded; i-- {
				switch p := stack[i].(type) {
				case *ast.IfStmt:
					// inside the body (not the else branch) of a test that mentions the bit
					if i+1 < len(stack) && stack[i+1] == ast.Node(p.Body) && mentionsConst(p.Cond, want) {
						guarded = true
					}
				case *ast.BinaryExpr:
					// the right operand of `bit-test && …`
					if p.Op == token.LAND && i+1 < len(stack) && stack[i+1] == ast.Node(p.Y) && mentionsConst(p.X, want) {
						guarded = true
					}
				case *ast.BlockStmt:
					// behind a guard of the same statement list that leaves when the bit is absent
					for _, st := range p.List {
						if i+1 < len(stack) && st == stack[i+1] {
							break
						}
						if is, ok := st.(*ast.IfStmt); ok && mentionsConst(is.Cond, want) && leaves(is.Body) {
							guarded = true
						}
					}
				}
			}
			key := fmt.Sprintf("scope-field-under-bit:%s.%s", fn, se.Sel.Name)
			if guarded {
				c.OK(key, c.P.Pos(se.Pos()), "read under a test of transaction."+want)
			} else {
				c.Fail(key, c.P.Pos(se.Pos()), fmt.Sprintf("%s reads Signer.%s without a test of the %s bit of Scopes around it: a list left next to other scopes (the decoder and the JSON form keep it) widens the witness - a CalledByEntry signer becomes valid inside every contract of a left-over list", fn, se.Sel.Name, want))
			}
			return true
		})
	}
	c.Floor("scope-field-under-bit.reads", n, 3)
}

// ---------------------------------------------------------------------------
// round 9

// ruleIndexRolesAgree (C08, C07): the writers of a map-of-slices index of the pool agree on what is key and what is
// element. Pool.conflicts maps the hash a transaction names in a Conflicts attribute to the hashes of the pooled
// transactions that name it; Add and the rebuild in RemoveStale both enter (named hash -> own hash). A writer with the
// roles exchanged leaves an index in which the lookup of an arriving transaction (by its own hash) finds nothing: the
// transaction is admitted next to the pooled one that excludes it, and the block packed from the pool is refused.
// For every statement `m[K] = append(m[K], V)` over a field of Pool: whether K, and whether V, is a Hash() call on a
// transaction is the same in all writers of the field.
func ruleIndexRolesAgree(c *Ctx) {
	pk := c.P.Pkg("pkg/core/mempool")
	if pk == nil {
		c.Lost("index-roles-agree.anchor", "package mempool not found")
		return
	}
	info := pk.TypesInfo
	isOwnHash := func(e ast.Expr) bool {
		call, ok := ast.Unparen(e).(*ast.CallExpr)
		if !ok {
			return false
		}
		fn := calleeFunc(info, call)
		return fn != nil && fn.Name() == "Hash" && strings.HasSuffix(FuncKey(fn), "transaction.(*Transaction).Hash")
	}
	type shape struct {
		k, v bool
		pos  token.Pos
		fn   string
	}
	writers := map[string][]shape{}
	for _, fd := range c.P.AllFuncDecls() {
		if fd.Pkg != pk || fd.Decl.Body == nil {
			continue
		}
		ast.Inspect(fd.Decl.Body, func(x ast.Node) bool {
			as, ok := x.(*ast.AssignStmt)
			if !ok || len(as.Lhs) != 1 || len(as.Rhs) != 1 {
				return true
			}
			ix, ok := ast.Unparen(as.Lhs[0]).(*ast.IndexExpr)
			if !ok {
				return true
			}
			se, ok := ast.Unparen(ix.X).(*ast.SelectorExpr)
			if !ok {
				return true
			}
			fv, ok := info.ObjectOf(se.Sel).(*types.Var)
			if !ok || !fv.IsField() {
				return true
			}
			call, ok := ast.Unparen(as.Rhs[0]).(*ast.CallExpr)
			if !ok || len(call.Args) != 2 {
				return true
			}
			if id, ok := call.Fun.(*ast.Ident); !ok || id.Name != "append" {
				return true
			}
			if !sameExpr(info, call.Args[0], as.Lhs[0]) {
				return true
			}
			k := resolveLocalOnce(info, fd.Decl.Body, ix.Index)
			v := resolveLocalOnce(info, fd.Decl.Body, call.Args[1])
			writers[fv.Name()] = append(writers[fv.Name()], shape{isOwnHash(k), isOwnHash(v), as.Pos(), shortSym(FuncKey(fd.Obj))})
			return true
		})
	}
	n := 0
	for _, name := range sortedKeys(writers) {
		ws := writers[name]
		if len(ws) < 2 {
			continue
		}
		n++
		// the reference is the majority shape; with two writers the first in source order (Add precedes RemoveStale)
		ref := ws[0]
		for i, w := range ws {
			key := fmt.Sprintf("index-roles-agree:%s.%s#%d", name, w.fn, i)
			if w.k == ref.k && w.v == ref.v {
				c.OK(key, c.P.Pos(w.pos), "key and element of the index have the roles its other writers give them")
			} else {
				c.Fail(key, c.P.Pos(w.pos), fmt.Sprintf("%s enters Pool.%s with the roles of key and element exchanged with respect to %s (there: key is the transaction's own hash = %v, element is = %v): the readers look the index up by one convention only, so after this writer ran (the rebuild after every block) a conflicting transaction is not found, both are pooled and the block built from the pool is refused by the ledger", w.fn, name, ref.fn, ref.k, ref.v))
			}
		}
	}
	c.Floor("index-roles-agree.indexes with several writers", n, 1)
}

// ruleNewValFlagProvenance (C11, C10): newSubTrie(path, node, newVal) adds a reference for node when newVal is true. A
// node that comes out of the existing trie (an extension's next, a branch's child) already has the reference of the
// place it is moved from - which removeRef of the parent does not take away - and a node that was just made has none.
// The flag of every call follows the provenance of the node, traced through locals, type assertions and parameters
// (all call sites of the enclosing function in package mpt must agree).
func ruleNewValFlagProvenance(c *Ctx) {
	pk := c.P.Pkg("pkg/core/mpt")
	if pk == nil {
		c.Lost("newval-flag-provenance.anchor", "package mpt not found")
		return
	}
	info := pk.TypesInfo
	var decls []*FuncDecl
	for _, fd := range c.P.AllFuncDecls() {
		if fd.Pkg == pk && fd.Decl.Body != nil {
			decls = append(decls, fd)
		}
	}
	type pkey struct {
		fn  *types.Func
		idx int
	}
	var classify func(fd *FuncDecl, e ast.Expr, seen map[pkey]bool) string // "fresh", "existing", "", "?"
	classify = func(fd *FuncDecl, e ast.Expr, seen map[pkey]bool) string {
		e = ast.Unparen(e)
		if ta, ok := e.(*ast.TypeAssertExpr); ok {
			return classify(fd, ta.X, seen)
		}
		e = ast.Unparen(resolveLocalOnce(info, fd.Decl.Body, e))
		if ta, ok := e.(*ast.TypeAssertExpr); ok {
			return classify(fd, ta.X, seen)
		}
		switch x := e.(type) {
		case *ast.CallExpr:
			if fn := calleeFunc(info, x); fn != nil && strings.HasPrefix(fn.Name(), "New") && strings.HasSuffix(fn.Name(), "Node") {
				return "fresh"
			}
			return "?"
		case *ast.SelectorExpr:
			if x.Sel.Name == "next" || x.Sel.Name == "root" {
				return "existing"
			}
			return "?"
		case *ast.IndexExpr:
			if se, ok := ast.Unparen(x.X).(*ast.SelectorExpr); ok && se.Sel.Name == "Children" {
				return "existing"
			}
			return "?"
		case *ast.Ident:
			o := info.ObjectOf(x)
			sig := fd.Obj.Type().(*types.Signature)
			for i := 0; i < sig.Params().Len(); i++ {
				if sig.Params().At(i) != o {
					continue
				}
				k := pkey{fd.Obj, i}
				if seen[k] {
					return ""
				}
				seen[k] = true
				res := ""
				for _, cd := range decls {
					ast.Inspect(cd.Decl.Body, func(y ast.Node) bool {
						call, ok := y.(*ast.CallExpr)
						if !ok || calleeFunc(info, call) != fd.Obj || i >= len(call.Args) {
							return true
						}
						r := classify(cd, call.Args[i], seen)
						switch {
						case r == "":
						case res == "" || res == r:
							res = r
						default:
							res = "?"
						}
						return true
					})
				}
				return res
			}
			return "?"
		}
		return "?"
	}
	n := 0
	for _, fd := range decls {
		ast.Inspect(fd.Decl.Body, func(x ast.Node) bool {
			call, ok := x.(*ast.CallExpr)
			if !ok || len(call.Args) != 3 {
				return true
			}
			fn := calleeFunc(info, call)
			if fn == nil || fn.Name() != "newSubTrie" {
				return true
			}
			n++
			key := fmt.Sprintf("newval-flag-provenance:%s#%d", shortSym(FuncKey(fd.Obj)), n)
			flag, isConst := boolConst(info, call.Args[2])
			prov := classify(fd, call.Args[1], map[pkey]bool{})
			switch {
			case !isConst || prov == "?" || prov == "":
				c.Unclassified(key, c.P.Pos(call.Pos()), fmt.Sprintf("provenance of %s (%q) or the flag is not decided", types.ExprString(call.Args[1]), prov))
			case (prov == "fresh") == flag:
				c.OK(key, c.P.Pos(call.Pos()), fmt.Sprintf("%s is %s and newVal is %v", types.ExprString(call.Args[1]), prov, flag))
			default:
				c.Fail(key, c.P.Pos(call.Pos()), fmt.Sprintf("%s calls newSubTrie(…, %s, %v) and %s is a node %s: %s", shortSym(FuncKey(fd.Obj)), types.ExprString(call.Args[1]), flag, types.ExprString(call.Args[1]),
					map[string]string{"fresh": "that was just made", "existing": "taken out of the existing trie"}[prov],
					map[bool]string{true: "it already carries the reference of the place it is moved from, so the stored count exceeds the number of occurrences - once the subtree is removed its root record stays in the store for ever (ModeLatest) or stays active and is never collected (ModeGC)", false: "nothing else adds its reference, so the stored count is one short and a later removal deletes a record that is still referenced"}[flag]))
			}
			return true
		})
	}
	c.Floor("newval-flag-provenance.calls", n, 5)
}

// ruleSeekGCKeepIndependent (C09): the handler of SeekGC answers two independent questions, "keep this pair?" and "go
// on?"; "drop it and stop" is an answer the ledger's header-page collector gives for the boundary page. Every backend
// acts on the first answer before it looks at the second: in each SeekGC implementation the first statement that
// mentions the continue-flag comes after the statement that tests the keep-flag.
func ruleSeekGCKeepIndependent(c *Ctx) {
	n := 0
	for _, fd := range c.P.AllFuncDecls() {
		if fd.Decl.Body == nil || fd.Decl.Recv == nil || fd.Decl.Name.Name != "SeekGC" || pkgRel(fd.Pkg.Types) != "pkg/core/storage" {
			continue
		}
		info := fd.Pkg.TypesInfo
		fn := FuncKey(fd.Obj)
		ast.Inspect(fd.Decl.Body, func(x ast.Node) bool {
			bs, ok := x.(*ast.BlockStmt)
			if !ok {
				return true
			}
			for i, st := range bs.List {
				as, ok := st.(*ast.AssignStmt)
				if !ok || len(as.Lhs) != 2 || len(as.Rhs) != 1 {
					continue
				}
				call, ok := as.Rhs[0].(*ast.CallExpr)
				if !ok {
					continue
				}
				// a call of a function-typed parameter with two bool results
				id, ok := call.Fun.(*ast.Ident)
				if !ok {
					continue
				}
				if v, ok := info.ObjectOf(id).(*types.Var); !ok || !isFuncParam(fd, info, v) {
					continue
				}
				keep, ok1 := as.Lhs[0].(*ast.Ident)
				cont, ok2 := as.Lhs[1].(*ast.Ident)
				if !ok1 || !ok2 {
					continue
				}
				ko, co := info.ObjectOf(keep), info.ObjectOf(cont)
				first := func(o types.Object) int {
					for j := i + 1; j < len(bs.List); j++ {
						hit := false
						ast.Inspect(bs.List[j], func(y ast.Node) bool {
							if u, ok := y.(*ast.Ident); ok && info.ObjectOf(u) == o {
								hit = true
							}
							return true
						})
						if hit {
							return j
						}
					}
					return -1
				}
				fk, fc := first(ko), first(co)
				n++
				key := "seekgc-keep-independent:" + fn
				switch {
				case fk < 0:
					c.Fail(key, c.P.Pos(as.Pos()), fn+" never looks at the handler's keep answer")
				case fc >= 0 && fc < fk:
					c.Fail(key, c.P.Pos(bs.List[fc].Pos()), fn+" looks at the handler's continue answer before it has acted on the keep answer: a pair the handler wants dropped *and* stops at (the boundary page of the header-hash collector) stays in this backend and is deleted by the others - the backends no longer hold the same map")
				default:
					c.OK(key, c.P.Pos(as.Pos()), "the keep answer is acted on before the continue answer is looked at")
				}
			}
			return true
		})
	}
	c.Floor("seekgc-keep-independent.backends", n, 3)
}

func isFuncParam(fd *FuncDecl, info *types.Info, v *types.Var) bool {
	for _, fl := range fd.Decl.Type.Params.List {
		for _, nm := range fl.Names {
			if info.ObjectOf(nm) == v {
				_, ok := v.Type().Underlying().(*types.Signature)
				return ok
			}
		}
	}
	return false
}

// ruleSeekCallbackClones (C09): the slices a lower store hands to a Seek callback belong to its iterator (LevelDB
// reuses the buffer on the next step, BoltDB's point into a page that is valid inside the transaction only). What a
// callback of package storage keeps of them beyond its own return - in a composite literal, an outer variable, a
// channel - is a copy.
func ruleSeekCallbackClones(c *Ctx) {
	pk := c.P.Pkg("pkg/core/storage")
	if pk == nil {
		c.Lost("seek-callback-clones.anchor", "package storage not found")
		return
	}
	info := pk.TypesInfo
	isBytes := func(t types.Type) bool {
		s, ok := t.Underlying().(*types.Slice)
		if !ok {
			return false
		}
		b, ok := s.Elem().Underlying().(*types.Basic)
		return ok && b.Kind() == types.Byte
	}
	n, kept := 0, 0
	for _, fd := range c.P.AllFuncDecls() {
		if fd.Pkg != pk || fd.Decl.Body == nil {
			continue
		}
		// function literals handed to a Seek of a lower store: directly, or through a local
		lits := map[*ast.FuncLit]bool{}
		ast.Inspect(fd.Decl.Body, func(x ast.Node) bool {
			call, ok := x.(*ast.CallExpr)
			if !ok {
				return true
			}
			se, ok := ast.Unparen(call.Fun).(*ast.SelectorExpr)
			if !ok || se.Sel.Name != "Seek" {
				return true
			}
			for _, a := range call.Args {
				if fl, ok := ast.Unparen(resolveLocalOnce(info, fd.Decl.Body, a)).(*ast.FuncLit); ok {
					lits[fl] = true
				}
			}
			return true
		})
		for fl := range lits {
			params := map[types.Object]bool{}
			for _, f := range fl.Type.Params.List {
				for _, nm := range f.Names {
					if o := info.ObjectOf(nm); o != nil && isBytes(o.Type()) {
						params[o] = true
					}
				}
			}
			if len(params) == 0 {
				continue
			}
			n++
			bare := func(e ast.Expr) (string, bool) {
				id, ok := ast.Unparen(e).(*ast.Ident)
				if ok && params[info.ObjectOf(id)] {
					return id.Name, true
				}
				if sl, ok := ast.Unparen(e).(*ast.SliceExpr); ok { // k[1:] shares the buffer
					if id, ok := ast.Unparen(sl.X).(*ast.Ident); ok && params[info.ObjectOf(id)] {
						return id.Name, true
					}
				}
				return "", false
			}
			report := func(pos token.Pos, name, how string) {
				kept++
				c.Fail(fmt.Sprintf("seek-callback-clones:%s.%s", shortSym(FuncKey(fd.Obj)), name), c.P.Pos(pos), fmt.Sprintf("the Seek callback in %s keeps %s, a slice the lower store handed it, %s without copying: the buffer belongs to the backend's iterator (LevelDB overwrites it on the next step, BoltDB unmaps it with the transaction), so a pair already delivered to an asynchronous consumer silently takes another pair's bytes", shortSym(FuncKey(fd.Obj)), name, how))
			}
			ast.Inspect(fl.Body, func(x ast.Node) bool {
				switch y := x.(type) {
				case *ast.KeyValueExpr:
					if nm, ok := bare(y.Value); ok {
						report(y.Pos(), nm, "in a composite literal")
					}
				case *ast.CompositeLit:
					for _, el := range y.Elts {
						if nm, ok := bare(el); ok {
							report(el.Pos(), nm, "in a composite literal")
						}
					}
				case *ast.SendStmt:
					if nm, ok := bare(y.Value); ok {
						report(y.Pos(), nm, "on a channel")
					}
				case *ast.AssignStmt:
					if y.Tok == token.ASSIGN {
						for i, r := range y.Rhs {
							if nm, ok := bare(r); ok && i < len(y.Lhs) {
								// an outer variable or a field
								if id, ok := y.Lhs[i].(*ast.Ident); !ok || (info.ObjectOf(id) != nil && info.ObjectOf(id).Pos() < fl.Pos()) {
									report(y.Pos(), nm, "in a variable that outlives the call")
								}
							}
						}
					}
				}
				return true
			})
		}
	}
	if kept == 0 && n > 0 {
		c.OK("seek-callback-clones", "pkg/core/storage", fmt.Sprintf("%d Seek callbacks keep nothing of the lower store's slices without copying", n))
	}
	c.Floor("seek-callback-clones.callbacks handed to a lower store", n, 1)
}

// ruleWitnessIdentityComplete (C06, C07, C19): the "already verified, take it on trust" shortcuts of AddBlock compare the
// witness that arrives with the verified one through sameWitness. A witness is both of its scripts: the comparison reads
// every field of transaction.Witness (a copy that keeps the signature bytes and carries another verification script is
// another witness - and is stored over the verified one if it is taken for the same).
func ruleWitnessIdentityComplete(c *Ctx) {
	fd := c.P.Func("pkg/core", "", "sameWitness")
	if fd == nil {
		c.Lost("witness-identity-complete.anchor", "core.sameWitness not found")
		return
	}
	info := fd.Pkg.TypesInfo
	read := map[string]int{}
	ast.Inspect(fd.Decl.Body, func(x ast.Node) bool {
		if se, ok := x.(*ast.SelectorExpr); ok {
			if v, ok := info.ObjectOf(se.Sel).(*types.Var); ok && v.IsField() && namedTypeIs(info.TypeOf(se.X), "pkg/core/transaction", "Witness") {
				read[v.Name()]++
			}
		}
		return true
	})
	tp := c.P.Pkg("pkg/core/transaction")
	if tp == nil {
		c.Lost("witness-identity-complete.type", "package transaction not found")
		return
	}
	tn, _ := tp.Types.Scope().Lookup("Witness").(*types.TypeName)
	st, _ := tn.Type().Underlying().(*types.Struct)
	if st == nil {
		c.Lost("witness-identity-complete.type", "transaction.Witness is not a struct")
		return
	}
	var missing []string
	for i := 0; i < st.NumFields(); i++ {
		if read[st.Field(i).Name()] < 2 { // once for each of the two witnesses compared
			missing = append(missing, st.Field(i).Name())
		}
	}
	c.Floor("witness-identity-complete.fields", st.NumFields(), 2)
	if len(missing) == 0 {
		c.OK("witness-identity-complete", c.P.Pos(fd.Decl.Pos()), "sameWitness compares every field of both witnesses")
	} else {
		c.Fail("witness-identity-complete", c.P.Pos(fd.Decl.Pos()), fmt.Sprintf("core.sameWitness does not compare %s of the two witnesses: a block whose header (already recorded) or whose pooled transaction keeps the verified signature bytes and carries another verification script is taken for verified, accepted and stored over the verified copy", strings.Join(missing, ", ")))
	}
}

// ruleUniquenessAllPairs (C06, C07, C17): "no two signers name the same account" is a statement about all pairs. The
// decoder's test is a nested loop (or a set); a single loop that compares each signer with a neighbour decides it
// for sorted input only, and signers are not sorted: [A, B, A] passes, is pooled, put into a block and accepted.
func ruleUniquenessAllPairs(c *Ctx) {
	fd := c.P.Func("pkg/core/transaction", "Transaction", "isValid")
	if fd == nil {
		c.Lost("uniqueness-all-pairs.anchor", "Transaction.isValid not found")
		return
	}
	info := fd.Pkg.TypesInfo
	// the return of ErrNonUniqueSigners and the loops around it
	found := false
	var stack []ast.Node
	ast.Inspect(fd.Decl.Body, func(x ast.Node) bool {
		if x == nil {
			stack = stack[:len(stack)-1]
			return true
		}
		stack = append(stack, x)
		rs, ok := x.(*ast.ReturnStmt)
		if !ok || len(rs.Results) != 1 || !strings.Contains(types.ExprString(rs.Results[0]), "ErrNonUniqueSigners") {
			return true
		}
		found = true
		loops := 0
		usesSet := false
		for _, p := range stack {
			switch y := p.(type) {
			case *ast.ForStmt, *ast.RangeStmt:
				loops++
			case *ast.IfStmt:
				// a membership test in a map / a Contains over what was seen so far
				ast.Inspect(y.Cond, func(z ast.Node) bool {
					switch w := z.(type) {
					case *ast.IndexExpr:
						if _, ok := info.TypeOf(w.X).Underlying().(*types.Map); ok {
							usesSet = true
						}
					case *ast.CallExpr:
						if s := types.ExprString(w.Fun); strings.HasPrefix(s, "slices.Contains") || strings.HasPrefix(s, "slices.Index") {
							usesSet = true
						}
					}
					return true
				})
				if y.Init != nil {
					if as, ok := y.Init.(*ast.AssignStmt); ok && len(as.Rhs) == 1 {
						if ix, ok := as.Rhs[0].(*ast.IndexExpr); ok {
							if _, ok := info.TypeOf(ix.X).Underlying().(*types.Map); ok {
								usesSet = true
							}
						}
					}
				}
			}
		}
		if loops >= 2 || usesSet {
			c.OK("uniqueness-all-pairs", c.P.Pos(rs.Pos()), "the duplicate-signer test ranges over all pairs (nested loops or a set)")
		} else {
			c.Fail("uniqueness-all-pairs", c.P.Pos(rs.Pos()), "Transaction.isValid decides ErrNonUniqueSigners in a single loop without a set: each signer is compared with a neighbour only, signers are not sorted, so [A, B, A] decodes - nothing after the decoder re-checks uniqueness, the transaction is pooled, packed and accepted in a block that every node with the full test refuses to decode")
		}
		return true
	})
	if !found {
		c.Lost("uniqueness-all-pairs.shape", "Transaction.isValid no longer returns ErrNonUniqueSigners")
	}
}

// ruleProofNodeByOwnHash (C03, C10): VerifyProof rebuilds a store from the proof and walks it from the root hash. What
// makes the walk a verification is that every element is reachable only under the hash of its own bytes. The key every
// proof element is stored under derives from a hash call over that element in *all* its definitions - never from a
// parameter (the requested root in particular: the first element would be "the root" by decree).
func ruleProofNodeByOwnHash(c *Ctx) {
	fd := c.P.Func("pkg/core/mpt", "", "VerifyProof")
	if fd == nil {
		c.Lost("proof-node-by-own-hash.anchor", "mpt.VerifyProof not found")
		return
	}
	info := fd.Pkg.TypesInfo
	f := c.P.NewFuncCFG(fd)
	n := 0
	isHashOf := func(e ast.Expr, val ast.Expr) bool {
		call, ok := ast.Unparen(e).(*ast.CallExpr)
		if !ok || len(call.Args) != 1 {
			return false
		}
		fn := calleeFunc(info, call)
		if fn == nil || fn.Pkg() == nil || !strings.HasSuffix(fn.Pkg().Path(), "pkg/crypto/hash") {
			return false
		}
		return sameExpr(info, call.Args[0], val)
	}
	ast.Inspect(fd.Decl.Body, func(x ast.Node) bool {
		call, ok := x.(*ast.CallExpr)
		if !ok || len(call.Args) != 2 {
			return true
		}
		se, ok := ast.Unparen(call.Fun).(*ast.SelectorExpr)
		if !ok || se.Sel.Name != "Put" {
			return true
		}
		n++
		val := call.Args[1]
		// the key: makeStorageKey(h) or h itself
		keyArg := ast.Unparen(call.Args[0])
		if kc, ok := keyArg.(*ast.CallExpr); ok && len(kc.Args) == 1 {
			keyArg = ast.Unparen(kc.Args[0])
		}
		good := false
		why := types.ExprString(keyArg)
		if isHashOf(keyArg, val) {
			good = true
		} else if id, ok := keyArg.(*ast.Ident); ok {
			if v, ok := info.ObjectOf(id).(*types.Var); ok && !f.params[v] {
				ds := f.defs[v]
				good = len(ds) > 0
				for _, d := range ds {
					for _, r := range d.rhs {
						if !isHashOf(r, val) {
							good = false
							why = types.ExprString(r)
						}
					}
				}
			}
		}
		if good {
			c.OK("proof-node-by-own-hash", c.P.Pos(call.Pos()), "every proof element is stored under the hash of its own bytes")
		} else {
			c.Fail("proof-node-by-own-hash", c.P.Pos(call.Pos()), fmt.Sprintf("VerifyProof stores a proof element under a key that is not (in every case) the hash of the element's bytes (`%s`): an element placed under the requested root without being hashed makes any self-made extension->leaf sequence verify against any root - a proof for an absent key or another value", why))
		}
		return true
	})
	c.Floor("proof-node-by-own-hash.stores", n, 1)
}

// ruleRootComparedBeforeStore (C03): a state root that arrives signed by the state validators may complete the local
// record of its height with a witness; it may never replace the root the node computed. In AddStateRoot every path to
// a write of the root record (putStateRoot, the validated-height marker) passes the comparison of the local root with
// the received one.
func ruleRootComparedBeforeStore(c *Ctx) {
	fd := c.P.Func("pkg/core/stateroot", "Module", "AddStateRoot")
	if fd == nil {
		c.Lost("root-compared-before-store.anchor", "stateroot.Module.AddStateRoot not found")
		return
	}
	f := c.P.NewFuncCFG(fd)
	info := fd.Pkg.TypesInfo
	var cmps, writes []site
	for _, b := range f.G.Blocks {
		if !b.Live {
			continue
		}
		for i, nd := range b.Nodes {
			inspectNoLit(nd, func(x ast.Node) bool {
				call, ok := x.(*ast.CallExpr)
				if !ok {
					return true
				}
				se, ok := ast.Unparen(call.Fun).(*ast.SelectorExpr)
				if ok && se.Sel.Name == "Equals" && len(call.Args) == 1 {
					// <local>.Root.Equals(<received>.Root)
					l, ok1 := ast.Unparen(se.X).(*ast.SelectorExpr)
					r, ok2 := ast.Unparen(call.Args[0]).(*ast.SelectorExpr)
					if ok1 && ok2 && l.Sel.Name == "Root" && r.Sel.Name == "Root" && !sameExpr(info, l.X, r.X) {
						cmps = append(cmps, site{b, i, nd, call})
					}
				}
				switch sym := f.calleeSym(call); {
				case strings.HasSuffix(sym, "stateroot.putStateRoot"), ok && se.Sel.Name == "Put", ok && se.Sel.Name == "Store" && strings.Contains(types.ExprString(se.X), "validatedHeight"):
					writes = append(writes, site{b, i, nd, call})
				}
				return true
			})
		}
	}
	if len(writes) == 0 {
		c.Lost("root-compared-before-store.shape", "AddStateRoot no longer writes a state root record")
		return
	}
	ok, path := f.mustBefore(f.Entry(), writes, cmps, nil)
	if ok && len(cmps) > 0 {
		c.OK("root-compared-before-store", c.P.Pos(writes[0].call.Pos()), "every path to a write of the root record passes the comparison of the local root with the received one")
	} else {
		c.Fail("root-compared-before-store", c.P.Pos(writes[0].call.Pos()), "AddStateRoot can write the root record / the validated height without having compared the received root with the one the node computed ("+strings.Join(path, " -> ")+"): a correctly signed root that differs from the local one replaces it, and getstateroot, getstate, findstates, getproof and historic invocations of that height name a trie that does not hold the storage of that height")
	}
}

// ruleManifestOfContextUnconditional (C16): since Domovoi the permissions a call is checked against are those of the
// manifest the running context was loaded with (ctx.GetManifest()) - it is there whatever has happened to the stored
// contract in the meantime (a contract that destroyed itself earlier in the invocation has no stored state any more).
// In callInternal the statement that takes the context's manifest does not stand under a condition that mentions the
// outcome of a GetContract lookup.
func ruleManifestOfContextUnconditional(c *Ctx) {
	fd := c.P.Func("pkg/core/interop/contract", "", "callInternal")
	if fd == nil {
		c.Lost("manifest-of-context-unconditional.anchor", "contract.callInternal not found")
		return
	}
	info := fd.Pkg.TypesInfo
	lookup := map[types.Object]bool{}
	ast.Inspect(fd.Decl.Body, func(x ast.Node) bool {
		as, ok := x.(*ast.AssignStmt)
		if !ok || len(as.Rhs) != 1 {
			return true
		}
		call, ok := ast.Unparen(as.Rhs[0]).(*ast.CallExpr)
		if !ok {
			return true
		}
		if se, ok := ast.Unparen(call.Fun).(*ast.SelectorExpr); ok && se.Sel.Name == "GetContract" {
			for _, l := range as.Lhs {
				if id, ok := l.(*ast.Ident); ok && id.Name != "_" {
					lookup[info.ObjectOf(id)] = true
				}
			}
		}
		return true
	})
	n := 0
	var stack []ast.Node
	ast.Inspect(fd.Decl.Body, func(x ast.Node) bool {
		if x == nil {
			stack = stack[:len(stack)-1]
			return true
		}
		stack = append(stack, x)
		call, ok := x.(*ast.CallExpr)
		if !ok {
			return true
		}
		se, ok := ast.Unparen(call.Fun).(*ast.SelectorExpr)
		if !ok || se.Sel.Name != "GetManifest" {
			return true
		}
		n++
		var under ast.Expr
		for i := len(stack) - 2; i >= 0; i-- {
			is, ok := stack[i].(*ast.IfStmt)
			if !ok || stack[i+1] == ast.Node(is.Cond) || (is.Init != nil && stack[i+1] == ast.Node(is.Init)) {
				continue
			}
			ast.Inspect(is.Cond, func(y ast.Node) bool {
				if id, ok := y.(*ast.Ident); ok && lookup[info.ObjectOf(id)] {
					under = is.Cond
				}
				return true
			})
		}
		if under == nil {
			c.OK("manifest-of-context-unconditional", c.P.Pos(call.Pos()), "the context's manifest is taken whatever a lookup of the stored contract says")
		} else {
			c.Fail("manifest-of-context-unconditional", c.P.Pos(call.Pos()), fmt.Sprintf("callInternal takes the running context's manifest only under `%s`, the outcome of a lookup of the stored contract: a contract that destroyed itself earlier in the invocation is not found, the manifest stays nil and the permission check is skipped - it calls any method of any contract", types.ExprString(under)))
		}
		return true
	})
	c.Floor("manifest-of-context-unconditional.sites", n, 1)
}

// ruleTokenFlagsRequested (C16): a method token carries the call flags its call is to be made with; the callee runs
// with the intersection of those and the caller's. The flags LoadToken hands to callInternal are the token's CallFlag
// field (through locals and and-ing at most), not the caller's own flags.
func ruleTokenFlagsRequested(c *Ctx) {
	fd := c.P.Func("pkg/core/interop/contract", "", "LoadToken")
	if fd == nil {
		c.Lost("token-flags-requested.anchor", "contract.LoadToken not found")
		return
	}
	info := fd.Pkg.TypesInfo
	n := 0
	ast.Inspect(fd.Decl.Body, func(x ast.Node) bool {
		call, ok := x.(*ast.CallExpr)
		if !ok {
			return true
		}
		fn := calleeFunc(info, call)
		if fn == nil || fn.Name() != "callInternal" {
			return true
		}
		sig := fn.Type().(*types.Signature)
		for i := 0; i < sig.Params().Len() && i < len(call.Args); i++ {
			if !namedTypeIs(sig.Params().At(i).Type(), "pkg/smartcontract/callflag", "CallFlag") {
				continue
			}
			n++
			arg := resolveLocalOnce(info, fd.Decl.Body, call.Args[i])
			mentions := false
			ast.Inspect(arg, func(y ast.Node) bool {
				if se, ok := y.(*ast.SelectorExpr); ok && se.Sel.Name == "CallFlag" {
					if v, ok := info.ObjectOf(se.Sel).(*types.Var); ok && v.IsField() {
						mentions = true
					}
				}
				return true
			})
			if mentions {
				c.OK("token-flags-requested", c.P.Pos(call.Pos()), "the call is made with the flags the method token requests")
			} else {
				c.Fail("token-flags-requested", c.P.Pos(call.Pos()), fmt.Sprintf("LoadToken hands `%s` to callInternal as the flags of the call, which does not mention the token's CallFlag: a callee reached through a ReadStates token runs with everything the caller has and can write storage and notify", types.ExprString(arg)))
			}
		}
		return true
	})
	c.Floor("token-flags-requested.calls", n, 1)
}

// ruleTrieValueOwned (C10, C03): the value a leaf holds is the trie's; its cached bytes and hash are computed from it
// once. What an exported function of package mpt returns of a leaf's value is a copy: a caller that writes into the
// result of Get would otherwise change what later reads of a long-lived trie (TrieStore, the state module's) return,
// while the root hash and every proof keep saying the old value.
func ruleTrieValueOwned(c *Ctx) {
	pk := c.P.Pkg("pkg/core/mpt")
	if pk == nil {
		c.Lost("trie-value-owned.anchor", "package mpt not found")
		return
	}
	info := pk.TypesInfo
	n := 0
	for _, fd := range c.P.AllFuncDecls() {
		if fd.Pkg != pk || fd.Decl.Body == nil || !fd.Decl.Name.IsExported() {
			continue
		}
		inspectNoLit(fd.Decl.Body, func(x ast.Node) bool {
			rs, ok := x.(*ast.ReturnStmt)
			if !ok {
				return true
			}
			for _, r := range rs.Results {
				e := ast.Unparen(resolveLocalOnce(info, fd.Decl.Body, r))
				se, ok := e.(*ast.SelectorExpr)
				if !ok || se.Sel.Name != "value" {
					// a copy of the value counts as a site too
					if call, ok := e.(*ast.CallExpr); ok && len(call.Args) == 1 {
						if a, ok := ast.Unparen(call.Args[0]).(*ast.SelectorExpr); ok && a.Sel.Name == "value" && namedTypeIs(info.TypeOf(a.X), "pkg/core/mpt", "LeafNode") {
							n++
							c.OK(fmt.Sprintf("trie-value-owned:%s", shortSym(FuncKey(fd.Obj))), c.P.Pos(rs.Pos()), "the leaf's value is returned as a copy")
						}
					}
					continue
				}
				if !namedTypeIs(info.TypeOf(se.X), "pkg/core/mpt", "LeafNode") {
					continue
				}
				n++
				c.Fail(fmt.Sprintf("trie-value-owned:%s", shortSym(FuncKey(fd.Obj))), c.P.Pos(rs.Pos()), fmt.Sprintf("%s returns the value slice of a leaf of the trie itself: a caller that writes into the result changes what later reads of the same trie return (TrieStore and the state module keep one trie alive), while the leaf's cached bytes, the root hash and every proof keep the old value", FuncKey(fd.Obj)))
			}
			return true
		})
	}
	c.Floor("trie-value-owned.returns of a leaf value", n, 2)
}

// ruleReleaseAfterDescent (C10, C11): Delete gives the reference of the node it passes back only once the descent
// below it has succeeded - a descent that fails (a node missing from the store) returns an error with the root
// unchanged, and a -1 left in the counter map would make the next Flush delete a record the unchanged root still
// needs. In every deleteFrom* function of the trie, each removeRef of the function's own node lies behind the
// recursive deleteFromNode call on every path.
func ruleReleaseAfterDescent(c *Ctx) {
	n := 0
	for _, fd := range c.P.AllFuncDecls() {
		if pkgRel(fd.Pkg.Types) != "pkg/core/mpt" || fd.Decl.Body == nil || fd.Decl.Recv == nil || !strings.HasPrefix(fd.Decl.Name.Name, "deleteFrom") {
			continue
		}
		info := fd.Pkg.TypesInfo
		f := c.P.NewFuncCFG(fd)
		descents := f.CallSites("pkg/core/mpt.(*Trie).deleteFromNode")
		if len(descents) == 0 {
			continue
		}
		// the node parameter
		var node types.Object
		for _, fl := range fd.Decl.Type.Params.List {
			for _, nm := range fl.Names {
				if _, ok := info.TypeOf(nm).(*types.Pointer); ok {
					node = info.ObjectOf(nm)
				}
			}
		}
		if node == nil {
			continue
		}
		var own []site
		for _, s := range f.CallSites("pkg/core/mpt.(*Trie).removeRef") {
			if len(s.call.Args) == 0 {
				continue
			}
			a := ast.Unparen(resolveLocalOnce(info, fd.Decl.Body, s.call.Args[0]))
			if hc, ok := a.(*ast.CallExpr); ok {
				if se, ok := ast.Unparen(hc.Fun).(*ast.SelectorExpr); ok && se.Sel.Name == "Hash" {
					if id, ok := ast.Unparen(se.X).(*ast.Ident); ok && info.ObjectOf(id) == node {
						own = append(own, s)
					}
				}
			}
		}
		if len(own) == 0 {
			continue
		}
		n++
		key := "release-after-descent:" + shortSym(FuncKey(fd.Obj))
		ok, path := f.mustBefore(f.Entry(), own, descents, nil)
		if ok {
			c.OK(key, c.P.Pos(own[0].call.Pos()), "the node's reference is given back only after the descent below it succeeded")
		} else {
			c.Fail(key, c.P.Pos(own[0].call.Pos()), shortSym(FuncKey(fd.Obj))+" gives the reference of the node it passes back before the descent below it ("+strings.Join(path, " -> ")+"): when the descent fails (a node below is not in the store) Delete returns an error with the root unchanged, the -1 stays in the counter map, and the next Flush in a counting mode deletes the record of a node the root still needs - after a reload every key under it is gone")
		}
	}
	c.Floor("release-after-descent.functions", n, 2)
}

// ruleResetNoopBothHeights (C02): a reset "to where the chain already is" has nothing to do only when both the blocks
// and the headers end at the target: headers ahead of the blocks (a wrong fork's headers are the usual reason for a
// reset to the tip) must be removed, or the node keeps refusing the right block h+1. Every success exit of the
// pre-check of resetStateInternal - before anything was changed - stands under conditions that mention both the
// current block height and the header height.
func ruleResetNoopBothHeights(c *Ctx) {
	fd := c.P.Func("pkg/core", "Blockchain", "resetStateInternal")
	if fd == nil {
		c.Lost("reset-noop-both-heights.anchor", "Blockchain.resetStateInternal not found")
		return
	}
	info := fd.Pkg.TypesInfo
	var blockH, headerH types.Object
	ast.Inspect(fd.Decl.Body, func(x ast.Node) bool {
		as, ok := x.(*ast.AssignStmt)
		if !ok || len(as.Rhs) != 1 || len(as.Lhs) == 0 {
			return true
		}
		call, ok := ast.Unparen(as.Rhs[0]).(*ast.CallExpr)
		if !ok {
			return true
		}
		se, ok := ast.Unparen(call.Fun).(*ast.SelectorExpr)
		if !ok {
			return true
		}
		id, ok := as.Lhs[0].(*ast.Ident)
		if !ok {
			return true
		}
		switch se.Sel.Name {
		case "GetCurrentBlockHeight":
			blockH = info.ObjectOf(id)
		case "HeaderHeight":
			headerH = info.ObjectOf(id)
		}
		return true
	})
	if blockH == nil || headerH == nil {
		c.Lost("reset-noop-both-heights.shape", "resetStateInternal no longer reads the block height and the header height into locals")
		return
	}
	// the first statement that changes the database: everything before it is the pre-check
	var firstWrite token.Pos
	ast.Inspect(fd.Decl.Body, func(x ast.Node) bool {
		if call, ok := x.(*ast.CallExpr); ok && firstWrite == token.NoPos {
			if se, ok := ast.Unparen(call.Fun).(*ast.SelectorExpr); ok && (strings.HasPrefix(se.Sel.Name, "Put") || strings.HasPrefix(se.Sel.Name, "Delete") || se.Sel.Name == "Persist" || se.Sel.Name == "PersistSync") {
				firstWrite = call.Pos()
			}
		}
		return true
	})
	n := 0
	var stack []ast.Node
	ast.Inspect(fd.Decl.Body, func(x ast.Node) bool {
		if x == nil {
			stack = stack[:len(stack)-1]
			return true
		}
		stack = append(stack, x)
		rs, ok := x.(*ast.ReturnStmt)
		if !ok || len(rs.Results) != 1 || !isNilIdent(info, rs.Results[0]) || (firstWrite != token.NoPos && rs.Pos() > firstWrite) {
			return true
		}
		n++
		sawB, sawH := false, false
		for i := len(stack) - 2; i >= 0; i-- {
			if is, ok := stack[i].(*ast.IfStmt); ok && stack[i+1] == ast.Node(is.Body) {
				ast.Inspect(is.Cond, func(y ast.Node) bool {
					if id, ok := y.(*ast.Ident); ok {
						switch info.ObjectOf(id) {
						case blockH:
							sawB = true
						case headerH:
							sawH = true
						}
					}
					return true
				})
			}
		}
		if sawB && sawH {
			c.OK("reset-noop-both-heights", c.P.Pos(rs.Pos()), "the nothing-to-do exit of the reset asks about blocks and headers")
		} else {
			c.Fail("reset-noop-both-heights", c.P.Pos(rs.Pos()), fmt.Sprintf("resetStateInternal reports success before changing anything under conditions that mention the block height: %v, the header height: %v: with headers ahead of the blocks a reset to the current block height does nothing, the stale headers stay and the node refuses every block h+1 but the one they name - a node that only synchronised to h accepts it", sawB, sawH))
		}
		return true
	})
	c.Floor("reset-noop-both-heights.exits", n, 1)
}

// ruleContextResetBeforeUse (C17, C01): a SerializationContext is kept and reused (dao.GetItemCtx hands one out for
// every stack item, notification and invocation of a block). What one Serialize call remembers about the items it has
// seen - offsets into *its* output buffer - means nothing in the next call, whose buffer starts again at zero. Every
// path of an exported method of the context from its entry to the call of the recursive worker passes a statement
// that empties (clear) or replaces every map field of the context.
func ruleContextResetBeforeUse(c *Ctx) {
	pk := c.P.Pkg("pkg/vm/stackitem")
	if pk == nil {
		c.Lost("context-reset-before-use.anchor", "package stackitem not found")
		return
	}
	info := pk.TypesInfo
	tn, _ := pk.Types.Scope().Lookup("SerializationContext").(*types.TypeName)
	if tn == nil {
		c.Lost("context-reset-before-use.type", "stackitem.SerializationContext not found")
		return
	}
	st, _ := tn.Type().Underlying().(*types.Struct)
	var maps []*types.Var
	for i := 0; st != nil && i < st.NumFields(); i++ {
		if _, ok := st.Field(i).Type().Underlying().(*types.Map); ok {
			maps = append(maps, st.Field(i))
		}
	}
	c.Floor("context-reset-before-use.map fields of the context", len(maps), 1)
	n := 0
	for _, fd := range c.P.AllFuncDecls() {
		if fd.Pkg != pk || fd.Decl.Body == nil || fd.Decl.Recv == nil || !fd.Decl.Name.IsExported() {
			continue
		}
		sig := fd.Obj.Type().(*types.Signature)
		if !namedTypeIsPtr(sig.Recv().Type(), "github.com/nspcc-dev/neo-go/pkg/vm/stackitem", "SerializationContext") {
			continue
		}
		f := c.P.NewFuncCFG(fd)
		workers := f.CallSites("pkg/vm/stackitem.(*SerializationContext).serialize")
		if len(workers) == 0 {
			continue
		}
		for _, mf := range maps {
			n++
			var resets []site
			for _, b := range f.G.Blocks {
				if !b.Live {
					continue
				}
				for i, nd := range b.Nodes {
					inspectNoLit(nd, func(x ast.Node) bool {
						switch y := x.(type) {
						case *ast.CallExpr:
							if id, ok := y.Fun.(*ast.Ident); ok && id.Name == "clear" && len(y.Args) == 1 {
								if se, ok := ast.Unparen(y.Args[0]).(*ast.SelectorExpr); ok && info.ObjectOf(se.Sel) == mf {
									resets = append(resets, site{b, i, nd, y})
								}
							}
						case *ast.AssignStmt:
							for _, l := range y.Lhs {
								if se, ok := ast.Unparen(l).(*ast.SelectorExpr); ok && info.ObjectOf(se.Sel) == mf {
									resets = append(resets, site{b, i, nd, nil})
								}
							}
						}
						return true
					})
				}
			}
			// the older idiom: for k := range m { delete(m, k) } - the loop head is the reset (an empty map needs no pass)
			ast.Inspect(fd.Decl.Body, func(x ast.Node) bool {
				rs, ok := x.(*ast.RangeStmt)
				if !ok {
					return true
				}
				se, ok := ast.Unparen(rs.X).(*ast.SelectorExpr)
				if !ok || info.ObjectOf(se.Sel) != mf || len(rs.Body.List) != 1 {
					return true
				}
				es, ok := rs.Body.List[0].(*ast.ExprStmt)
				if !ok {
					return true
				}
				call, ok := es.X.(*ast.CallExpr)
				if !ok || len(call.Args) != 2 {
					return true
				}
				if id, ok := call.Fun.(*ast.Ident); !ok || id.Name != "delete" {
					return true
				}
				for _, b := range f.G.Blocks {
					if !b.Live {
						continue
					}
					for i, nd := range b.Nodes {
						if nd == ast.Node(rs.X) || containsNode(nd, rs.X) {
							resets = append(resets, site{b, i, nd, nil})
						}
					}
				}
				return true
			})
			key := fmt.Sprintf("context-reset-before-use:%s.%s", fd.Decl.Name.Name, mf.Name())
			ok, path := f.mustBefore(f.Entry(), workers, resets, nil)
			if ok && len(resets) > 0 {
				c.OK(key, c.P.Pos(workers[0].call.Pos()), "the memory of the previous call is dropped before the worker runs")
			} else {
				c.Fail(key, c.P.Pos(workers[0].call.Pos()), fmt.Sprintf("SerializationContext.%s can reach the recursive worker without having emptied %s (%s): the context is reused for every item of a block, the offsets remembered for a compound item point into the previous call's buffer, and an item that appears in two calls is written as whatever bytes lie there now - the stored execution result is not the encoding of the item that ran", fd.Decl.Name.Name, mf.Name(), strings.Join(path, " -> ")))
			}
		}
	}
	c.Floor("context-reset-before-use.obligations", n, 1)
}

// ruleDecodeRefreshesCache (C17, C06): a decoder that fills an object also recomputes what the object caches about
// its content. Header.Hash() computes the hash only when the cache is empty; called from the decoder it leaves the
// hash of whatever the object held before. Among the methods of the type that a decodeHashableFields calls there is one
// that assigns the cached hash field unconditionally (at the top level of its body).
func ruleDecodeRefreshesCache(c *Ctx) {
	n := 0
	for _, loc := range [][2]string{{"pkg/core/block", "Header"}} {
		fd := c.P.Func(loc[0], loc[1], "decodeHashableFields")
		if fd == nil {
			c.Lost("decode-refreshes-cache.anchor", loc[1]+".decodeHashableFields not found")
			continue
		}
		info := fd.Pkg.TypesInfo
		// an assignment of the cached hash none of whose enclosing conditions asks about the cache itself
		assignsUnconditionally := func(d *FuncDecl) bool {
			if d == nil || d.Decl.Body == nil {
				return false
			}
			isHashField := func(e ast.Expr) bool {
				se, ok := ast.Unparen(e).(*ast.SelectorExpr)
				if !ok || se.Sel.Name != "hash" {
					return false
				}
				v, ok := d.Pkg.TypesInfo.ObjectOf(se.Sel).(*types.Var)
				return ok && v.IsField()
			}
			found := false
			var stack []ast.Node
			ast.Inspect(d.Decl.Body, func(x ast.Node) bool {
				if x == nil {
					stack = stack[:len(stack)-1]
					return true
				}
				stack = append(stack, x)
				as, ok := x.(*ast.AssignStmt)
				if !ok {
					return true
				}
				for _, l := range as.Lhs {
					if !isHashField(l) {
						continue
					}
					asks := false
					for _, p := range stack {
						if is, ok := p.(*ast.IfStmt); ok {
							ast.Inspect(is.Cond, func(y ast.Node) bool {
								if e, ok := y.(ast.Expr); ok && isHashField(e) {
									asks = true
								}
								return true
							})
						}
					}
					if !asks {
						found = true
					}
				}
				return true
			})
			return found
		}
		refreshed := assignsUnconditionally(fd)
		var called []string
		ast.Inspect(fd.Decl.Body, func(x ast.Node) bool {
			call, ok := x.(*ast.CallExpr)
			if !ok {
				return true
			}
			fn := calleeFunc(info, call)
			if fn == nil {
				return true
			}
			if d := c.P.DeclOf(fn); d != nil && d.Pkg == fd.Pkg && d.Decl.Recv != nil {
				called = append(called, fn.Name())
				if assignsUnconditionally(d) {
					refreshed = true
				}
			}
			return true
		})
		n++
		key := "decode-refreshes-cache:" + loc[1]
		if refreshed {
			c.OK(key, c.P.Pos(fd.Decl.Pos()), "the decoder recomputes the cached hash")
		} else {
			c.Fail(key, c.P.Pos(fd.Decl.Pos()), fmt.Sprintf("%s.decodeHashableFields calls %s, none of which assigns the cached hash unconditionally (the memoising getter computes it only when the cache is empty): decoding into an object that was hashed or decoded before leaves the old hash next to the new content - Hash() no longer is what the encoding yields, for Block too", loc[1], strings.Join(called, ", ")))
		}
	}
	c.Floor("decode-refreshes-cache.decoders", n, 1)
}

// ruleValidatorsSorted (C01, C19): the validators of the next block are the first N members of the committee *sorted
// by key*: the order decides the multisignature script, hence NextConsensus, the primary index of every view and the
// order of the signatures in the block witness. The committee itself is ordered by votes. Every value that is stored
// into the cached validator lists of the NEO native is a list that went through a sort in the same function, another
// of the cached lists (or a Copy of it), or nil.
func ruleValidatorsSorted(c *Ctx) {
	pk := c.P.Pkg("pkg/core/native")
	if pk == nil {
		c.Lost("validators-sorted.anchor", "package native not found")
		return
	}
	info := pk.TypesInfo
	isValField := func(e ast.Expr) bool {
		if call, ok := ast.Unparen(e).(*ast.CallExpr); ok && len(call.Args) == 0 {
			if se, ok := ast.Unparen(call.Fun).(*ast.SelectorExpr); ok && se.Sel.Name == "Copy" {
				e = se.X
			}
		}
		se, ok := ast.Unparen(e).(*ast.SelectorExpr)
		return ok && (se.Sel.Name == "nextValidators" || se.Sel.Name == "newEpochNextValidators")
	}
	n := 0
	for _, fd := range c.P.AllFuncDecls() {
		if fd.Pkg != pk || fd.Decl.Body == nil {
			continue
		}
		ast.Inspect(fd.Decl.Body, func(x ast.Node) bool {
			as, ok := x.(*ast.AssignStmt)
			if !ok || len(as.Lhs) != len(as.Rhs) {
				return true
			}
			for i, l := range as.Lhs {
				se, ok := ast.Unparen(l).(*ast.SelectorExpr)
				if !ok || (se.Sel.Name != "nextValidators" && se.Sel.Name != "newEpochNextValidators") {
					continue
				}
				if v, ok := info.ObjectOf(se.Sel).(*types.Var); !ok || !v.IsField() {
					continue
				}
				n++
				key := fmt.Sprintf("validators-sorted:%s.%s#%d", shortSym(FuncKey(fd.Obj)), se.Sel.Name, n)
				r := as.Rhs[i]
				good := isNilIdent(info, r) || isValField(r)
				if id, ok := ast.Unparen(r).(*ast.Ident); ok && !good {
					o := info.ObjectOf(id)
					ast.Inspect(fd.Decl.Body, func(y ast.Node) bool {
						call, ok := y.(*ast.CallExpr)
						if !ok || len(call.Args) == 0 || call.Pos() > as.Pos() {
							return true
						}
						fn := types.ExprString(call.Fun)
						if fn == "slices.SortFunc" || fn == "sort.Sort" || fn == "slices.SortStableFunc" || fn == "sort.Slice" {
							if a, ok := ast.Unparen(call.Args[0]).(*ast.Ident); ok && info.ObjectOf(a) == o {
								good = true
							}
						}
						return true
					})
				}
				if good {
					c.OK(key, c.P.Pos(as.Pos()), "the cached validator list is sorted by key (or taken from its sorted sibling)")
				} else {
					c.Fail(key, c.P.Pos(as.Pos()), fmt.Sprintf("%s stores `%s` as the cached %s without sorting it by key: the committee is ordered by votes, the validators by key - the order decides the multisignature script, NextConsensus, the primary of every view and the order of signatures in the witness; a node that fills this cache here (start-up) disagrees with the nodes that filled it while processing blocks", shortSym(FuncKey(fd.Obj)), types.ExprString(r), se.Sel.Name))
				}
			}
			return true
		})
	}
	c.Floor("validators-sorted.stores", n, 4)
}

// ---------------------------------------------------------------------------
// round 10

// txFeeFields: the fee fields of transaction.Transaction an expression mentions.
func txFeeFields(info *types.Info, e ast.Node) map[string]bool {
	out := map[string]bool{}
	ast.Inspect(e, func(x ast.Node) bool {
		if se, ok := x.(*ast.SelectorExpr); ok && (se.Sel.Name == "SystemFee" || se.Sel.Name == "NetworkFee") {
			if v, ok := info.ObjectOf(se.Sel).(*types.Var); ok && v.IsField() && namedTypeIs(info.TypeOf(se.X), "pkg/core/transaction", "Transaction") {
				out[se.Sel.Name] = true
			}
		}
		return true
	})
	return out
}

// ruleDepositChargeMirrorsBurn (C05): a transaction the Notary contract pays for has the contract as its sender: GAS.OnPersist
// burns the transaction's fees from the contract's own balance, and Notary.OnPersist takes the same amount off the
// depositor's record. The two amounts are built from the same fee fields of the transaction, or the GAS the contract owns
// and the sum of the deposits it has recorded drift apart with every sponsored transaction (and the last depositor
// to withdraw finds the contract short).
func ruleDepositChargeMirrorsBurn(c *Ctx) {
	gp := c.P.Func("pkg/core/native", "GAS", "OnPersist")
	np := c.P.Func("pkg/core/native", "Notary", "OnPersist")
	if gp == nil || np == nil {
		c.Lost("deposit-charge-mirrors-burn.anchor", "GAS.OnPersist / Notary.OnPersist not found")
		return
	}
	info := gp.Pkg.TypesInfo
	var burnt map[string]bool
	ast.Inspect(gp.Decl.Body, func(x ast.Node) bool {
		call, ok := x.(*ast.CallExpr)
		if !ok || len(call.Args) < 3 {
			return true
		}
		if se, ok := ast.Unparen(call.Fun).(*ast.SelectorExpr); ok && se.Sel.Name == "Burn" {
			burnt = txFeeFields(info, resolveLocalOnce(info, gp.Decl.Body, call.Args[2]))
		}
		return true
	})
	if len(burnt) == 0 {
		c.Lost("deposit-charge-mirrors-burn.burn", "GAS.OnPersist no longer burns an amount built from the transaction's fee fields")
		return
	}
	n := 0
	ast.Inspect(np.Decl.Body, func(x ast.Node) bool {
		call, ok := x.(*ast.CallExpr)
		if !ok || len(call.Args) != 2 {
			return true
		}
		se, ok := ast.Unparen(call.Fun).(*ast.SelectorExpr)
		if !ok || se.Sel.Name != "Sub" || !strings.HasSuffix(types.ExprString(se.X), ".Amount") {
			return true
		}
		n++
		charged := txFeeFields(info, resolveLocalOnce(info, np.Decl.Body, call.Args[1]))
		same := len(charged) == len(burnt)
		for k := range burnt {
			if !charged[k] {
				same = false
			}
		}
		if same {
			c.OK("deposit-charge-mirrors-burn", c.P.Pos(call.Pos()), "the depositor is charged what is burnt from the contract for the transaction")
		} else {
			c.Fail("deposit-charge-mirrors-burn", c.P.Pos(call.Pos()), fmt.Sprintf("Notary.OnPersist takes %v of a sponsored transaction off the depositor's record while GAS.OnPersist burns %v from the Notary contract, its sender: the GAS the contract owns and the sum of the recorded deposits drift apart with every sponsored transaction", sortedKeys(charged), sortedKeys(burnt)))
		}
		return true
	})
	c.Floor("deposit-charge-mirrors-burn.charges", n, 1)
}

// ruleSupplyFollowsBalance (C05): addTokens changes one account's balance and the total supply by the same amount. Every
// exit of a token function that is reachable from its balance change (incBalance) passes the store of the total supply -
// the branch that deletes an emptied balance record included.
func ruleSupplyFollowsBalance(c *Ctx) {
	n := 0
	for _, fd := range c.P.AllFuncDecls() {
		if pkgRel(fd.Pkg.Types) != "pkg/core/native" || fd.Decl.Body == nil {
			continue
		}
		f := c.P.NewFuncCFG(fd)
		saves := f.CallSites("pkg/core/native.(*nep17TokenNative).saveTotalSupply")
		if len(saves) == 0 {
			continue
		}
		var changes []site
		for _, b := range f.G.Blocks {
			if !b.Live {
				continue
			}
			for i, nd := range b.Nodes {
				inspectNoLit(nd, func(x ast.Node) bool {
					if call, ok := x.(*ast.CallExpr); ok {
						if se, ok := ast.Unparen(call.Fun).(*ast.SelectorExpr); ok && se.Sel.Name == "incBalance" {
							changes = append(changes, site{b, i, nd, call})
						}
					}
					return true
				})
			}
		}
		if len(changes) == 0 {
			continue
		}
		n++
		var from []*cfg.Block
		for _, s := range changes {
			from = append(from, s.blk)
		}
		key := "supply-follows-balance:" + shortSym(FuncKey(fd.Obj))
		// exits after the change: returns that are not error exits
		ok, path := f.mustBefore(from, f.OKReturns(), saves, nil)
		if ok {
			c.OK(key, c.P.Pos(changes[0].call.Pos()), "every exit after the balance change passes the store of the total supply")
		} else {
			c.Fail(key, c.P.Pos(changes[0].call.Pos()), shortSym(FuncKey(fd.Obj))+" can return after changing an account's balance without storing the total supply ("+strings.Join(path, " -> ")+"): burning (or spending as a fee) an account's whole balance deletes its record and leaves totalSupply where it was - the supply exceeds the sum of the balances by that amount for ever")
		}
	}
	c.Floor("supply-follows-balance.functions", n, 1)
}

// ruleCompoundFromValueCopies (C12, C13): a compound stack item owns its element slice; CONVERT between Array and Struct
// makes a new item with the same elements, not a second item over the same backing array (APPEND to one would show, or
// not show, in the other depending on capacity; REVERSEITEMS and CLEARITEMS of one would change the other, and the
// reference counter counts the elements once for two holders). In package stackitem no compound constructor is given
// the `value` field of an existing item bare.
func ruleCompoundFromValueCopies(c *Ctx) {
	pk := c.P.Pkg("pkg/vm/stackitem")
	if pk == nil {
		c.Lost("compound-from-value-copies.anchor", "package stackitem not found")
		return
	}
	info := pk.TypesInfo
	n := 0
	for _, fd := range c.P.AllFuncDecls() {
		if fd.Pkg != pk || fd.Decl.Body == nil {
			continue
		}
		ast.Inspect(fd.Decl.Body, func(x ast.Node) bool {
			call, ok := x.(*ast.CallExpr)
			if !ok || len(call.Args) != 1 {
				return true
			}
			fn := calleeFunc(info, call)
			if fn == nil || fn.Pkg() != pk.Types || (fn.Name() != "NewArray" && fn.Name() != "NewStruct" && fn.Name() != "NewMapWithValue") {
				return true
			}
			arg := ast.Unparen(resolveLocalOnce(info, fd.Decl.Body, call.Args[0]))
			mentionsValue := false
			ast.Inspect(arg, func(y ast.Node) bool {
				if se, ok := y.(*ast.SelectorExpr); ok && se.Sel.Name == "value" {
					if v, ok := info.ObjectOf(se.Sel).(*types.Var); ok && v.IsField() {
						mentionsValue = true
					}
				}
				return true
			})
			if !mentionsValue {
				return true
			}
			n++
			key := fmt.Sprintf("compound-from-value-copies:%s#%d", shortSym(FuncKey(fd.Obj)), n)
			if se, ok := arg.(*ast.SelectorExpr); ok && se.Sel.Name == "value" {
				c.Fail(key, c.P.Pos(call.Pos()), fmt.Sprintf("%s builds a new compound item over `%s`, the element slice of an existing item: the two items share one backing array - what SETITEM, REVERSEITEMS or CLEARITEMS does to one shows in the other, APPEND shows or not depending on capacity, and the reference counter holds the elements once for two holders", shortSym(FuncKey(fd.Obj)), types.ExprString(arg)))
			} else {
				c.OK(key, c.P.Pos(call.Pos()), "the new item gets its own slice")
			}
			return true
		})
	}
	c.Floor("compound-from-value-copies.sites", n, 2)
}

// ruleNativeCallerIsSelf (C15, C16): when a native contract calls a deployed contract, the calling script hash the callee
// sees - and CheckWitness accepts without a signature - is the native's own. CallFromNative is given the receiver's
// Hash as the caller, except at the tabled sites.
var nativeCallerExceptions = map[string]string{
	"pkg/core/native.(*Policy).recoverFundDeferrable": "the committee's fund recovery acts for the blocked account by design (the token must see the account as the caller of balanceOf/transfer)",
}

func ruleNativeCallerIsSelf(c *Ctx) {
	pk := c.P.Pkg("pkg/core/native")
	if pk == nil {
		c.Lost("native-caller-is-self.anchor", "package native not found")
		return
	}
	info := pk.TypesInfo
	n := 0
	for _, fd := range c.P.AllFuncDecls() {
		if fd.Pkg != pk || fd.Decl.Body == nil || fd.Decl.Recv == nil || len(fd.Decl.Recv.List[0].Names) == 0 {
			continue
		}
		recv := info.ObjectOf(fd.Decl.Recv.List[0].Names[0])
		ast.Inspect(fd.Decl.Body, func(x ast.Node) bool {
			call, ok := x.(*ast.CallExpr)
			if !ok || len(call.Args) < 2 {
				return true
			}
			fn := calleeFunc(info, call)
			if fn == nil || fn.Name() != "CallFromNative" {
				return true
			}
			n++
			key := fmt.Sprintf("native-caller-is-self:%s#%d", shortSym(FuncKey(fd.Obj)), n)
			arg := ast.Unparen(resolveLocalOnce(info, fd.Decl.Body, call.Args[1]))
			self := false
			if se, ok := arg.(*ast.SelectorExpr); ok && se.Sel.Name == "Hash" {
				if id, ok := ast.Unparen(se.X).(*ast.Ident); ok && info.ObjectOf(id) == recv {
					self = true
				}
			}
			switch {
			case self:
				c.OK(key, c.P.Pos(call.Pos()), "the callee sees the native contract as its caller")
			case nativeCallerExceptions[FuncKey(fd.Obj)] != "":
				c.OK(key, c.P.Pos(call.Pos()), "tabled: "+nativeCallerExceptions[FuncKey(fd.Obj)])
			default:
				c.Fail(key, c.P.Pos(call.Pos()), fmt.Sprintf("%s calls a contract with `%s` as the calling script hash instead of the native's own: inside the callee CheckWitness of that hash holds without a signature and without that account having made the call (the calling-hash shortcut), and CalledByEntry / GetCallingScriptHash answer for somebody else", FuncKey(fd.Obj), types.ExprString(arg)))
			}
			return true
		})
	}
	c.Floor("native-caller-is-self.calls", n, 5)
}

// ruleTimerUnits (C19): dBFT counts time in nanoseconds, blocks carry milliseconds. Everything the service hands to
// dbft.Start / dbft.Reset as the time of the last block is a millisecond value multiplied by nsInMs; a bare
// millisecond value is a time a million times closer to the epoch, and the timer of the next round fires at once.
func ruleTimerUnits(c *Ctx) {
	pk := c.P.Pkg("pkg/consensus")
	if pk == nil {
		c.Lost("timer-units.anchor", "package consensus not found")
		return
	}
	info := pk.TypesInfo
	n := 0
	for _, fd := range c.P.AllFuncDecls() {
		if fd.Pkg != pk || fd.Decl.Body == nil {
			continue
		}
		ast.Inspect(fd.Decl.Body, func(x ast.Node) bool {
			call, ok := x.(*ast.CallExpr)
			if !ok || len(call.Args) != 1 {
				return true
			}
			se, ok := ast.Unparen(call.Fun).(*ast.SelectorExpr)
			if !ok || (se.Sel.Name != "Start" && se.Sel.Name != "Reset") || !strings.HasSuffix(types.ExprString(se.X), ".dbft") {
				return true
			}
			n++
			key := fmt.Sprintf("timer-units:%s.%s", fd.Decl.Name.Name, se.Sel.Name)
			arg := resolveLocalOnce(info, fd.Decl.Body, call.Args[0])
			scaled := false
			ast.Inspect(arg, func(y ast.Node) bool {
				if id, ok := y.(*ast.Ident); ok && id.Name == "nsInMs" {
					if _, ok := info.ObjectOf(id).(*types.Const); ok {
						scaled = true
					}
				}
				return true
			})
			if scaled {
				c.OK(key, c.P.Pos(call.Pos()), "the block time is handed to dBFT in nanoseconds")
			} else {
				c.Fail(key, c.P.Pos(call.Pos()), fmt.Sprintf("%s hands `%s` to dbft.%s without the nsInMs factor: dBFT counts nanoseconds, block timestamps are milliseconds - the time of the last block lies a million times closer to the epoch, the round's timer is due at once and the node proposes (or changes view) immediately after every block it gets from the network", fd.Decl.Name.Name, types.ExprString(arg), se.Sel.Name))
			}
			return true
		})
	}
	c.Floor("timer-units.calls", n, 2)
}

// ruleSortedBeforeBinarySearch (C19): the server keeps the hashes the consensus service is waiting for in an atomic value
// and looks every incoming transaction up by binary search. What is stored there is sorted by the comparison the search
// uses (or empty): an unsorted list hides some of its members, the service never gets those transactions and the round
// ends in a view change although every transaction of the proposal arrived.
func ruleSortedBeforeBinarySearch(c *Ctx) {
	pk := c.P.Pkg("pkg/network")
	if pk == nil {
		c.Lost("sorted-before-binary-search.anchor", "package network not found")
		return
	}
	info := pk.TypesInfo
	// fields whose loaded value is binary-searched
	searched := map[types.Object]bool{}
	for _, fd := range c.P.AllFuncDecls() {
		if fd.Pkg != pk || fd.Decl.Body == nil {
			continue
		}
		loaded := map[types.Object]types.Object{} // local -> field
		ast.Inspect(fd.Decl.Body, func(x ast.Node) bool {
			as, ok := x.(*ast.AssignStmt)
			if ok && len(as.Lhs) == 1 && len(as.Rhs) == 1 {
				if id, ok := as.Lhs[0].(*ast.Ident); ok {
					r := ast.Unparen(as.Rhs[0])
					if ta, ok := r.(*ast.TypeAssertExpr); ok {
						r = ast.Unparen(ta.X)
					}
					if call, ok := r.(*ast.CallExpr); ok {
						if se, ok := ast.Unparen(call.Fun).(*ast.SelectorExpr); ok && se.Sel.Name == "Load" {
							if fs, ok := ast.Unparen(se.X).(*ast.SelectorExpr); ok {
								loaded[info.ObjectOf(id)] = info.ObjectOf(fs.Sel)
							}
						}
					} else if src, ok := r.(*ast.Ident); ok {
						if f, ok := loaded[info.ObjectOf(src)]; ok {
							loaded[info.ObjectOf(id)] = f
						}
					}
				}
			}
			if vs, ok := x.(*ast.ValueSpec); ok && len(vs.Names) == 1 && len(vs.Values) == 1 {
				r := ast.Unparen(vs.Values[0])
				if ta, ok := r.(*ast.TypeAssertExpr); ok {
					r = ast.Unparen(ta.X)
				}
				if call, ok := r.(*ast.CallExpr); ok {
					if se, ok := ast.Unparen(call.Fun).(*ast.SelectorExpr); ok && se.Sel.Name == "Load" {
						if fs, ok := ast.Unparen(se.X).(*ast.SelectorExpr); ok {
							loaded[info.ObjectOf(vs.Names[0])] = info.ObjectOf(fs.Sel)
						}
					}
				} else if src, ok := r.(*ast.Ident); ok {
					if f, ok := loaded[info.ObjectOf(src)]; ok {
						loaded[info.ObjectOf(vs.Names[0])] = f
					}
				}
			}
			if call, ok := x.(*ast.CallExpr); ok && strings.HasPrefix(types.ExprString(call.Fun), "slices.BinarySearch") && len(call.Args) > 0 {
				if id, ok := ast.Unparen(call.Args[0]).(*ast.Ident); ok {
					if f, ok := loaded[info.ObjectOf(id)]; ok {
						searched[f] = true
					}
				}
			}
			return true
		})
	}
	c.Floor("sorted-before-binary-search.searched fields", len(searched), 1)
	n := 0
	for _, fd := range c.P.AllFuncDecls() {
		if fd.Pkg != pk || fd.Decl.Body == nil {
			continue
		}
		ast.Inspect(fd.Decl.Body, func(x ast.Node) bool {
			call, ok := x.(*ast.CallExpr)
			if !ok || len(call.Args) != 1 {
				return true
			}
			se, ok := ast.Unparen(call.Fun).(*ast.SelectorExpr)
			if !ok || se.Sel.Name != "Store" {
				return true
			}
			fs, ok := ast.Unparen(se.X).(*ast.SelectorExpr)
			if !ok || !searched[info.ObjectOf(fs.Sel)] {
				return true
			}
			n++
			key := fmt.Sprintf("sorted-before-binary-search:%s.%s", fd.Decl.Name.Name, fs.Sel.Name)
			good := false
			why := types.ExprString(call.Args[0])
			if id, ok := ast.Unparen(call.Args[0]).(*ast.Ident); ok {
				o := info.ObjectOf(id)
				// sorted earlier in the function, or declared without a value (empty)
				ast.Inspect(fd.Decl.Body, func(y ast.Node) bool {
					switch z := y.(type) {
					case *ast.CallExpr:
						if z.Pos() < call.Pos() && len(z.Args) > 0 && strings.HasPrefix(types.ExprString(z.Fun), "slices.Sort") {
							if a, ok := ast.Unparen(z.Args[0]).(*ast.Ident); ok && info.ObjectOf(a) == o {
								good = true
							}
						}
					case *ast.ValueSpec:
						for _, nm := range z.Names {
							if info.ObjectOf(nm) == o && len(z.Values) == 0 {
								good = true
							}
						}
					}
					return true
				})
			} else if isNilIdent(info, call.Args[0]) {
				good = true
			}
			if good {
				c.OK(key, c.P.Pos(call.Pos()), "what is stored for the binary search is sorted (or empty)")
			} else {
				c.Fail(key, c.P.Pos(call.Pos()), fmt.Sprintf("%s stores `%s` into Server.%s, which the transaction handler looks up by binary search, without sorting it: members of an unsorted list are not found, the consensus service is never handed those transactions and the round ends in a view change although the whole proposal arrived", fd.Decl.Name.Name, why, fs.Sel.Name))
			}
			return true
		})
	}
	c.Floor("sorted-before-binary-search.stores", n, 2)
}

// ruleBudgetEveryElement (C13, C12): EQUAL on two structures pays one unit of the comparable-size budget for every pair
// of elements it looks at (a byte string pays its length, inside equalsLimited), nested structures included: the budget
// is what bounds the work, and a pair that is not charged is work that is not bounded - and an outcome (HALT instead of
// FAULT) the other implementation does not reach. In the element loop of equalStruct every path from the top of an
// iteration to the recursive call, and to the next iteration, passes a charge.
func ruleBudgetEveryElement(c *Ctx) {
	fd := c.P.Func("pkg/vm/stackitem", "Struct", "equalStruct")
	if fd == nil {
		c.Lost("budget-every-element.anchor", "Struct.equalStruct not found")
		return
	}
	f := c.P.NewFuncCFG(fd)
	info := fd.Pkg.TypesInfo
	// the budgets: the *int parameters (the element limit is charged at the top of every iteration, the comparable
	// size per kind of element); each of them has to satisfy the rule - they are told apart by position, not by name
	var budgets []*types.Var
	sig := fd.Obj.Type().(*types.Signature)
	for i := 0; i < sig.Params().Len(); i++ {
		if pt, ok := sig.Params().At(i).Type().(*types.Pointer); ok {
			if bt, ok := pt.Elem().Underlying().(*types.Basic); ok && bt.Kind() == types.Int {
				budgets = append(budgets, sig.Params().At(i))
			}
		}
	}
	if len(budgets) < 2 {
		c.Lost("budget-every-element.shape", "equalStruct no longer takes the element limit and the comparable-size budget as *int parameters")
		return
	}
	for bi, budget := range budgets {
		var charges, recs []site
		for _, b := range f.G.Blocks {
			if !b.Live {
				continue
			}
			for i, nd := range b.Nodes {
				inspectNoLit(nd, func(x ast.Node) bool {
					switch y := x.(type) {
					case *ast.IncDecStmt:
						if st, ok := ast.Unparen(y.X).(*ast.StarExpr); ok && y.Tok == token.DEC {
							if id, ok := ast.Unparen(st.X).(*ast.Ident); ok && info.ObjectOf(id) == budget {
								charges = append(charges, site{b, i, nd, nil})
							}
						}
					case *ast.CallExpr:
						fn := calleeFunc(info, y)
						if fn == nil {
							return true
						}
						passes := false
						for _, a := range y.Args {
							if id, ok := ast.Unparen(a).(*ast.Ident); ok && info.ObjectOf(id) == budget {
								passes = true
							}
						}
						switch {
						case fn == fd.Obj:
							recs = append(recs, site{b, i, nd, y})
						case passes:
							charges = append(charges, site{b, i, nd, y}) // a callee that is handed the budget charges it itself
						}
					}
					return true
				})
			}
		}
		var loop *Loop
		for _, l := range f.Loops() {
			l := l
			if containsNode(l.Stmt, recs0(recs)) {
				loop = &l
			}
		}
		key := fmt.Sprintf("budget-every-element#%d", bi+1)
		if loop == nil || len(recs) == 0 || len(charges) == 0 {
			c.Lost(key+".shape", "equalStruct no longer recurses inside an element loop that charges its budgets")
			continue
		}
		targets := append([]site{}, recs...)
		targets = append(targets, site{loop.Head, 0, loop.Stmt, nil})
		ok, path := f.mustBefore([]*cfg.Block{loop.Body}, targets, charges, nil)
		if ok {
			c.OK(key, c.P.Pos(loop.Stmt.Pos()), "every pair of elements is charged before it is descended into or passed")
		} else {
			c.Fail(key, c.P.Pos(loop.Stmt.Pos()), fmt.Sprintf("Struct.equalStruct can descend into a pair of elements, or go on to the next pair, without charging its budget parameter #%d (%s): nested structures are compared for free, so a comparison the budget is meant to stop with a FAULT halts with an answer - another outcome than the specification's, and unbounded work", bi+1, strings.Join(path, " -> ")))
		}
	}
}

func recs0(s []site) ast.Node {
	if len(s) == 0 {
		return nil
	}
	return s[0].node
}

// ruleOperandBackUnchanged (C13): an instruction that decides, after popping an operand, to leave it as it was puts the
// same item back. Taking the operand's BigInt() and pushing NewBigInteger of it is not "unchanged": a ByteString or a
// Boolean comes back as an Integer (ISTYPE, EQUAL and the size of the item differ), and an operand that has no integer
// form - which the untouched path never asked for - faults. In execute no NewBigInteger is given the bare BigInt() of a
// popped element.
func ruleOperandBackUnchanged(c *Ctx) {
	fd := c.P.Func("pkg/vm", "VM", "execute")
	if fd == nil {
		c.Lost("operand-back-unchanged.anchor", "VM.execute not found")
		return
	}
	info := fd.Pkg.TypesInfo
	n, bad := 0, 0
	isPoppedBigInt := func(e ast.Expr) bool {
		call, ok := ast.Unparen(e).(*ast.CallExpr)
		if !ok || len(call.Args) != 0 {
			return false
		}
		se, ok := ast.Unparen(call.Fun).(*ast.SelectorExpr)
		if !ok || se.Sel.Name != "BigInt" {
			return false
		}
		return strings.Contains(types.ExprString(se.X), "Pop()")
	}
	// locals are per arm: resolve within the enclosing case clause
	var stack []ast.Node
	ast.Inspect(fd.Decl.Body, func(x ast.Node) bool {
		if x == nil {
			stack = stack[:len(stack)-1]
			return true
		}
		stack = append(stack, x)
		call, ok := x.(*ast.CallExpr)
		if !ok || len(call.Args) != 1 {
			return true
		}
		fn := calleeFunc(info, call)
		if fn == nil || fn.Name() != "NewBigInteger" {
			return true
		}
		n++
		var arm ast.Node = fd.Decl.Body
		for i := len(stack) - 1; i >= 0; i-- {
			if cc, ok := stack[i].(*ast.CaseClause); ok {
				arm = cc
				break
			}
		}
		arg := resolveLocalOnce(info, arm, call.Args[0])
		if isPoppedBigInt(arg) {
			bad++
			c.Fail(fmt.Sprintf("operand-back-unchanged#%d", bad), c.P.Pos(call.Pos()), fmt.Sprintf("execute pushes NewBigInteger(%s), the integer reading of an operand it has just popped, with nothing computed in between: an operand meant to be left as it was comes back as an Integer whatever it was (and faults when it has no integer form)", types.ExprString(call.Args[0])))
		}
		return true
	})
	if bad == 0 {
		c.OK("operand-back-unchanged", c.P.Pos(fd.Decl.Pos()), fmt.Sprintf("none of the %d NewBigInteger calls of execute re-wraps a popped operand", n))
	}
	c.Floor("operand-back-unchanged.integer results in execute", n, 20)
}

// ---------------------------------------------------------------------------
// round 11

// ruleVoterCacheFollowsStorage (C01): NEO keeps the latest reward-per-vote of every candidate both in storage (under
// the voter-reward key) and in gasPerVoteCache, and readers prefer the cache. A function that deletes the stored
// record deletes the cache entry too; a running node would otherwise go on answering from the cache what a restarted
// node, whose cache is rebuilt from storage, no longer finds - and the rewards of a re-elected candidate differ.
func ruleVoterCacheFollowsStorage(c *Ctx) {
	pk := c.P.Pkg("pkg/core/native")
	if pk == nil {
		c.Lost("voter-cache-follows-storage.anchor", "package native not found")
		return
	}
	info := pk.TypesInfo
	n := 0
	for _, fd := range c.P.AllFuncDecls() {
		if fd.Pkg != pk || fd.Decl.Body == nil {
			continue
		}
		var dels []*ast.CallExpr
		cacheDel := false
		ast.Inspect(fd.Decl.Body, func(x ast.Node) bool {
			call, ok := x.(*ast.CallExpr)
			if !ok {
				return true
			}
			if se, ok := ast.Unparen(call.Fun).(*ast.SelectorExpr); ok && se.Sel.Name == "DeleteStorageItem" && len(call.Args) == 2 {
				key := resolveLocalOnce(info, fd.Decl.Body, call.Args[1])
				if kc, ok := ast.Unparen(key).(*ast.CallExpr); ok {
					if fn := calleeFunc(info, kc); fn != nil && fn.Name() == "makeVoterKey" {
						dels = append(dels, call)
					}
				}
			}
			if id, ok := call.Fun.(*ast.Ident); ok && id.Name == "delete" && len(call.Args) == 2 {
				if se, ok := ast.Unparen(call.Args[0]).(*ast.SelectorExpr); ok && se.Sel.Name == "gasPerVoteCache" {
					cacheDel = true
				}
			}
			return true
		})
		for _, d := range dels {
			n++
			key := "voter-cache-follows-storage:" + shortSym(FuncKey(fd.Obj))
			if cacheDel {
				c.OK(key, c.P.Pos(d.Pos()), "the cached reward record is dropped together with the stored one")
			} else {
				c.Fail(key, c.P.Pos(d.Pos()), shortSym(FuncKey(fd.Obj))+" deletes the stored reward-per-vote record of a candidate and leaves its entry in gasPerVoteCache, which readers prefer to storage: the running node keeps answering the old accumulated value, a restarted node (cache rebuilt from storage) finds nothing - when the key is registered and voted for again, the voters' rewards and the state roots of the two differ")
			}
		}
	}
	c.Floor("voter-cache-follows-storage.deletions", n, 1)
}

// ruleAppendToSharedField (C09, C17): `append(x.f, …)` may write into the spare capacity of x.f's backing array; when the
// result goes anywhere but back into x.f, every later call writes over what the earlier one returned. In the storage
// iterator (which builds one key per Value() call from a prefix it keeps) and the other interop iterators, the first
// argument of an append is a struct field only in the statement that assigns the result to that very field.
func ruleAppendToSharedField(c *Ctx) {
	n, bad := 0, 0
	for _, fd := range c.P.AllFuncDecls() {
		rel := pkgRel(fd.Pkg.Types)
		if fd.Decl.Body == nil || !(rel == "pkg/core/interop/storage" || rel == "pkg/core/interop/iterator" || rel == "pkg/core/storage") {
			continue
		}
		info := fd.Pkg.TypesInfo
		ast.Inspect(fd.Decl.Body, func(x ast.Node) bool {
			as, ok := x.(*ast.AssignStmt)
			var calls []*ast.CallExpr
			if ok {
				for _, r := range as.Rhs {
					if call, ok := ast.Unparen(r).(*ast.CallExpr); ok {
						calls = append(calls, call)
					}
				}
			} else if rs, ok := x.(*ast.ReturnStmt); ok {
				for _, r := range rs.Results {
					if call, ok := ast.Unparen(r).(*ast.CallExpr); ok {
						calls = append(calls, call)
					}
				}
			}
			for i, call := range calls {
				id, ok := call.Fun.(*ast.Ident)
				if !ok || id.Name != "append" || len(call.Args) < 2 {
					continue
				}
				se, ok := ast.Unparen(call.Args[0]).(*ast.SelectorExpr)
				if !ok {
					continue
				}
				if v, ok := info.ObjectOf(se.Sel).(*types.Var); !ok || !v.IsField() {
					continue
				}
				n++
				back := as != nil && i < len(as.Lhs) && sameExpr(info, as.Lhs[i], call.Args[0])
				if !back {
					bad++
					c.Fail(fmt.Sprintf("append-to-shared-field:%s#%d", shortSym(FuncKey(fd.Obj)), bad), c.P.Pos(call.Pos()), fmt.Sprintf("%s appends to the field `%s` and gives the result to something else: while the field's backing array has spare capacity (a cloned 1-8 byte prefix has), every call writes into the same bytes, and what an earlier call returned - a key the script still holds - changes under its holder", FuncKey(fd.Obj), types.ExprString(call.Args[0])))
				}
			}
			return true
		})
	}
	if bad == 0 {
		c.OK("append-to-shared-field", "pkg/core/interop/storage", fmt.Sprintf("%d appends to struct fields, each assigned back to its field", n))
	}
}

// ruleAllGroupsVerified (C16, C15): a manifest group means membership only because its signature over the contract hash
// was verified at deployment; Permission.IsAllowed later matches by key alone. In Groups.AreValid the loop that calls
// Group.IsValid visits every group: nothing in its body leaves the iteration (continue / break) before the call, and no
// condition around the call mentions the loop index.
func ruleAllGroupsVerified(c *Ctx) {
	fd := c.P.Func("pkg/smartcontract/manifest", "Groups", "AreValid")
	if fd == nil {
		c.Lost("all-groups-verified.anchor", "manifest.Groups.AreValid not found")
		return
	}
	info := fd.Pkg.TypesInfo
	n := 0
	var stack []ast.Node
	ast.Inspect(fd.Decl.Body, func(x ast.Node) bool {
		if x == nil {
			stack = stack[:len(stack)-1]
			return true
		}
		stack = append(stack, x)
		call, ok := x.(*ast.CallExpr)
		if !ok {
			return true
		}
		fn := calleeFunc(info, call)
		if fn == nil || fn.Name() != "IsValid" || !strings.HasSuffix(FuncKey(fn), "manifest.(*Group).IsValid") {
			return true
		}
		n++
		// the innermost enclosing loop
		var loop ast.Stmt
		var body *ast.BlockStmt
		var idx types.Object
		li := -1
		for i := len(stack) - 1; i >= 0; i-- {
			switch l := stack[i].(type) {
			case *ast.RangeStmt:
				loop, body, li = l, l.Body, i
				if id, ok := l.Key.(*ast.Ident); ok {
					idx = info.ObjectOf(id)
				}
			case *ast.ForStmt:
				loop, body, li = l, l.Body, i
			}
			if loop != nil {
				break
			}
		}
		why := ""
		if loop == nil {
			// outside a loop: one group only is verified
			why = "the call stands outside any loop over the groups"
		} else {
			ast.Inspect(body, func(y ast.Node) bool {
				if bs, ok := y.(*ast.BranchStmt); ok && bs.Pos() < call.Pos() && (bs.Tok == token.CONTINUE || bs.Tok == token.BREAK) {
					why = "the loop body can leave the iteration before the call (" + c.P.Pos(bs.Pos()) + ")"
				}
				return true
			})
			for i := li + 1; i < len(stack) && why == ""; i++ {
				if is, ok := stack[i].(*ast.IfStmt); ok && idx != nil {
					ast.Inspect(is.Cond, func(y ast.Node) bool {
						if id, ok := y.(*ast.Ident); ok && info.ObjectOf(id) == idx {
							why = "the call stands under a condition on the loop index"
						}
						return true
					})
				}
			}
		}
		// a second, unconditional loop-free call for a single group is fine only next to a looped one: judged per call
		if why == "" {
			c.OK(fmt.Sprintf("all-groups-verified#%d", n), c.P.Pos(call.Pos()), "every group's signature is verified")
		} else {
			c.Fail(fmt.Sprintf("all-groups-verified#%d", n), c.P.Pos(call.Pos()), "Groups.AreValid does not verify the signature of every group: "+why+" - a manifest can list another group's key with a garbage signature next to a group of its own, and becomes callable by every contract that granted permission to that group")
		}
		return true
	})
	c.Floor("all-groups-verified.calls", n, 1)
}

// ruleGlobalScopeExclusive (C17, C15): Global is a scope of its own: the decoders refuse it in combination with any
// other bit. The rejecting test of Signer.DecodeBinary compares the whole scope value with Global (== / !=); a test made
// of masks names the bits it knows and lets the others (CalledByEntry: 0x81) through - a value the JSON form cannot
// express and the JSON decoder refuses.
func ruleGlobalScopeExclusive(c *Ctx) {
	fd := c.P.Func("pkg/core/transaction", "Signer", "DecodeBinary")
	if fd == nil {
		c.Lost("global-scope-exclusive.anchor", "Signer.DecodeBinary not found")
		return
	}
	info := fd.Pkg.TypesInfo
	isGlobal := func(e ast.Expr) bool {
		id, ok := ast.Unparen(e).(*ast.Ident)
		if !ok || id.Name != "Global" {
			return false
		}
		_, isConst := info.ObjectOf(id).(*types.Const)
		return isConst
	}
	found, anyWhole := false, false
	var first *ast.IfStmt
	var conds []string
	ast.Inspect(fd.Decl.Body, func(x ast.Node) bool {
		is, ok := x.(*ast.IfStmt)
		if !ok {
			return true
		}
		mentions, whole := false, false
		ast.Inspect(is.Cond, func(y ast.Node) bool {
			switch z := y.(type) {
			case *ast.Ident:
				if isGlobal(z) {
					mentions = true
				}
			case *ast.BinaryExpr:
				if (z.Op == token.NEQ || z.Op == token.EQL) && (isGlobal(z.X) || isGlobal(z.Y)) {
					other := z.X
					if isGlobal(z.X) {
						other = z.Y
					}
					if se, ok := ast.Unparen(other).(*ast.SelectorExpr); ok && se.Sel.Name == "Scopes" {
						whole = true
					}
				}
			}
			return true
		})
		if !mentions {
			return true
		}
		found = true
		if first == nil {
			first = is
		}
		conds = append(conds, types.ExprString(is.Cond))
		if whole {
			anyWhole = true
		}
		return true
	})
	switch {
	case !found:
		c.Lost("global-scope-exclusive.shape", "Signer.DecodeBinary no longer tests the Global scope")
	case anyWhole:
		c.OK("global-scope-exclusive", c.P.Pos(first.Pos()), "Global is refused next to any other bit (the whole scope value is compared with Global)")
	default:
		c.Fail("global-scope-exclusive", c.P.Pos(first.Pos()), fmt.Sprintf("none of the tests of Signer.DecodeBinary that mention Global (`%s`) compares the whole scope value with it: Global next to a bit the masks do not name (CalledByEntry, 0x81) decodes and round-trips in binary, has no JSON form (\"WitnessScope(129)\") and is refused by the JSON decoder - the same transaction is valid on the wire and unreadable over RPC", strings.Join(conds, "`, `")))
	}
}

// ruleIntegerBodyBounded (C17, C12): an Integer stack item is at most 32 bytes; bigint.FromBytes / NewBigInteger panic on
// more. In the stack item decoders the bytes given to bigint.FromBytes come from a ReadVarBytes whose limit is a
// constant not above bigint.MaxBytesLen: a longer body is a decoding error, never a panic.
func ruleIntegerBodyBounded(c *Ctx) {
	pk := c.P.Pkg("pkg/vm/stackitem")
	if pk == nil {
		c.Lost("integer-body-bounded.anchor", "package stackitem not found")
		return
	}
	info := pk.TypesInfo
	n := 0
	for _, fd := range c.P.AllFuncDecls() {
		if fd.Pkg != pk || fd.Decl.Body == nil {
			continue
		}
		var stack []ast.Node
		ast.Inspect(fd.Decl.Body, func(x ast.Node) bool {
			if x == nil {
				stack = stack[:len(stack)-1]
				return true
			}
			stack = append(stack, x)
			call, ok := x.(*ast.CallExpr)
			if !ok || len(call.Args) != 1 {
				return true
			}
			fn := calleeFunc(info, call)
			if fn == nil || fn.Name() != "FromBytes" || fn.Pkg() == nil || !strings.HasSuffix(fn.Pkg().Path(), "encoding/bigint") {
				return true
			}
			// the bytes: a local of the enclosing case clause / function defined by ReadVarBytes(limit)
			var scope ast.Node = fd.Decl.Body
			for i := len(stack) - 1; i >= 0; i-- {
				if cc, ok := stack[i].(*ast.CaseClause); ok {
					scope = cc
					break
				}
			}
			src := ast.Unparen(resolveLocalOnce(info, scope, call.Args[0]))
			rc, ok := src.(*ast.CallExpr)
			if !ok {
				return true
			}
			se, ok := ast.Unparen(rc.Fun).(*ast.SelectorExpr)
			if !ok || se.Sel.Name != "ReadVarBytes" {
				return true
			}
			n++
			key := fmt.Sprintf("integer-body-bounded:%s#%d", shortSym(FuncKey(fd.Obj)), n)
			good := false
			if len(rc.Args) == 1 {
				if tv, ok := info.Types[rc.Args[0]]; ok && tv.Value != nil {
					if v, exact := constant.Int64Val(tv.Value); exact && v <= 32 {
						good = true
					}
				}
			}
			if good {
				c.OK(key, c.P.Pos(call.Pos()), "the integer's bytes are read with a limit of at most bigint.MaxBytesLen")
			} else {
				lim := "no limit"
				if len(rc.Args) == 1 {
					lim = types.ExprString(rc.Args[0])
				}
				c.Fail(key, c.P.Pos(call.Pos()), fmt.Sprintf("%s reads the body of an Integer item with the limit %s and hands it to bigint.FromBytes / NewBigInteger, which panic above 32 bytes: a serialised item with a longer Integer body makes the decoder panic instead of returning an error", FuncKey(fd.Obj), lim))
			}
			return true
		})
	}
	c.Floor("integer-body-bounded.sites", n, 1)
}

// ruleGroupFlagReset (C02): a store walk that handles its pairs group by group (the transfer batches of one account
// after the other) keeps the group it is in, and what it has decided about that group, in variables the callback
// captures. A boolean decision raised inside the callback ("everything that follows of this account goes") is taken
// back inside the callback too - where the group changes - or it holds for every later group: every account sorted
// after the first one that loses a batch loses all but its first. In pkg/core, in a callback that re-assigns a captured
// group variable, each captured boolean that is set to true in the callback is also set to false in it.
func ruleGroupFlagReset(c *Ctx) {
	n := 0
	for _, fd := range c.P.AllFuncDecls() {
		if pkgRel(fd.Pkg.Types) != "pkg/core" || fd.Decl.Body == nil {
			continue
		}
		info := fd.Pkg.TypesInfo
		ast.Inspect(fd.Decl.Body, func(x ast.Node) bool {
			fl, ok := x.(*ast.FuncLit)
			if !ok {
				return true
			}
			captured := func(o types.Object) bool {
				return o != nil && o.Pos() < fl.Pos() && o.Pos() > fd.Decl.Pos()
			}
			tracksGroup := false
			setTrue := map[types.Object]token.Pos{}
			setFalse := map[types.Object]bool{}
			ast.Inspect(fl.Body, func(y ast.Node) bool {
				as, ok := y.(*ast.AssignStmt)
				if !ok || as.Tok != token.ASSIGN || len(as.Lhs) != len(as.Rhs) {
					return true
				}
				for i, l := range as.Lhs {
					id, ok := l.(*ast.Ident)
					if !ok {
						continue
					}
					o := info.ObjectOf(id)
					if !captured(o) {
						continue
					}
					if v, isConst := boolConst(info, as.Rhs[i]); isConst && isBoolType(o.Type()) {
						if v {
							setTrue[o] = as.Pos()
						} else {
							setFalse[o] = true
						}
						continue
					}
					// a captured non-boolean variable re-assigned from a value of the current pair: the group key
					if rid, ok := ast.Unparen(as.Rhs[i]).(*ast.Ident); ok && !captured(info.ObjectOf(rid)) && !isBoolType(o.Type()) {
						if _, isBasic := o.Type().Underlying().(*types.Basic); !isBasic {
							tracksGroup = true
						}
					}
				}
				return true
			})
			if !tracksGroup {
				return true
			}
			for o, pos := range setTrue {
				n++
				key := fmt.Sprintf("group-flag-reset:%s.%s", shortSym(FuncKey(fd.Obj)), o.Name())
				if setFalse[o] {
					c.OK(key, c.P.Pos(pos), "the per-group decision is taken back inside the walk")
				} else {
					c.Fail(key, c.P.Pos(pos), fmt.Sprintf("the walk in %s raises `%s` for the group it is in and never lowers it inside the callback: once one account has a batch above the reset height, every account sorted after it loses all transfer batches but its first - the transfer logs of a reset node differ from those of a node that only synchronised to that height", shortSym(FuncKey(fd.Obj)), o.Name()))
				}
			}
			return true
		})
	}
	c.Floor("group-flag-reset.flags", n, 1)
}

// ruleResetPrecheckStageGated (C02): the "nothing to do" answer of a reset belongs to a reset that has not begun. A
// reset resumed after a crash has already moved the heights (the headers stage puts them at the target) and still has
// state roots, transfers and contract storage to bring back: the success exit that compares heights stands under the
// test that no stage marker was found.
func ruleResetPrecheckStageGated(c *Ctx) {
	fd := c.P.Func("pkg/core", "Blockchain", "resetStateInternal")
	if fd == nil {
		c.Lost("reset-precheck-stage-gated.anchor", "Blockchain.resetStateInternal not found")
		return
	}
	info := fd.Pkg.TypesInfo
	var stage types.Object
	sig := fd.Obj.Type().(*types.Signature)
	for i := 0; i < sig.Params().Len(); i++ {
		if nt, ok := sig.Params().At(i).Type().(*types.Named); ok && nt.Obj().Name() == "stateChangeStage" {
			stage = sig.Params().At(i)
		}
	}
	if stage == nil {
		c.Lost("reset-precheck-stage-gated.shape", "resetStateInternal has no stage parameter")
		return
	}
	var firstWrite token.Pos
	ast.Inspect(fd.Decl.Body, func(x ast.Node) bool {
		if call, ok := x.(*ast.CallExpr); ok && firstWrite == token.NoPos {
			if se, ok := ast.Unparen(call.Fun).(*ast.SelectorExpr); ok && (strings.HasPrefix(se.Sel.Name, "Put") || strings.HasPrefix(se.Sel.Name, "Delete") || se.Sel.Name == "Persist" || se.Sel.Name == "PersistSync") {
				firstWrite = call.Pos()
			}
		}
		return true
	})
	n := 0
	var stack []ast.Node
	ast.Inspect(fd.Decl.Body, func(x ast.Node) bool {
		if x == nil {
			stack = stack[:len(stack)-1]
			return true
		}
		stack = append(stack, x)
		rs, ok := x.(*ast.ReturnStmt)
		if !ok || len(rs.Results) != 1 || !isNilIdent(info, rs.Results[0]) || (firstWrite != token.NoPos && rs.Pos() > firstWrite) {
			return true
		}
		n++
		gated := false
		for i := len(stack) - 2; i >= 0; i-- {
			if is, ok := stack[i].(*ast.IfStmt); ok && stack[i+1] == ast.Node(is.Body) {
				ast.Inspect(is.Cond, func(y ast.Node) bool {
					if id, ok := y.(*ast.Ident); ok && info.ObjectOf(id) == stage {
						gated = true
					}
					return true
				})
			}
		}
		if gated {
			c.OK("reset-precheck-stage-gated", c.P.Pos(rs.Pos()), "the nothing-to-do exit is taken only by a reset that has not begun")
		} else {
			c.Fail("reset-precheck-stage-gated", c.P.Pos(rs.Pos()), "resetStateInternal can report success before changing anything without having looked at the stage it was resumed in: a reset interrupted after its headers stage finds blocks and headers at the target on restart and returns at once - state roots, transfers and contract storage of the dropped blocks, the stage marker and the sync point stay in the database, on this start and every later one")
		}
		return true
	})
	c.Floor("reset-precheck-stage-gated.exits", n, 1)
}
