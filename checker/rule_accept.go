package main

import (
	"fmt"
	"go/ast"
	"go/token"
	"go/types"
)

// Guard tables for block acceptance (C06) and transaction admission (C07).
// Every symbol below is re-resolved against the loaded program on each run; a guard whose
// condition disappears, stops gating, or is conjoined with an escape hatch is reported.

const (
	symBC          = "pkg/core.(*Blockchain)."
	symStoreBlock  = symBC + "storeBlock"
	symHHadd       = "pkg/core.(*HeaderHashes).addHeaders"
	symPoolAdd     = "pkg/core/mempool.(*Pool).Add"
	symVerifyPool  = symBC + "verifyAndPoolTx"
	cfgSkipVerify  = "pkg/config#SkipBlockVerification"
	cfgVerifyTxs   = "pkg/config#VerifyTransactions"
	cfgSRInHeader  = "pkg/config#StateRootInHeader"
	fldBlockIndex  = "pkg/core/block#Index"
	fldBlockTxs    = "pkg/core/block#Transactions"
	symHeaderHash  = "pkg/core/block.(*Header).Hash"
	symTxSize      = "pkg/core/transaction.(*Transaction).Size"
	symTxHashM     = "pkg/core/transaction.(*Transaction).Hash"
	fldTxNetFee    = "pkg/core/transaction#NetworkFee"
	fldTxVUB       = "pkg/core/transaction#ValidUntilBlock"
	symBlockHeight = symBC + "BlockHeight"
)

var acceptGates = []GateSpec{
	{
		ID: "AddBlock.storeBlock", Fn: [3]string{"pkg/core", "Blockchain", "AddBlock"}, Target: "call:" + symStoreBlock,
		Guards: []Guard{
			{ID: "next-index", Doc: "block index equals current height + 1", Alts: [][]string{{symBlockHeight, fldBlockIndex}}},
			{ID: "state-root-setting", Doc: "StateRootInHeader setting matches the block", Alts: [][]string{{cfgSRInHeader, "pkg/core/block#StateRootEnabled"}}},
			{ID: "header-linked", Doc: "header is either added through addHeaders (verified) or equals the already known header hash",
				Alts: [][]string{{symBC + "addHeaders"}, {"pkg/core.(*HeaderHashes).GetHeaderHash", symHeaderHash}}},
			// on *every* path, also the one through addHeaders: AddHeaders does not take addLock and addHeaders drops what
			// is known by the time it looks, so "I have just handed the header to addHeaders" does not mean "the header
			// recorded at this height is this block's" (finding 79)
			{ID: "header-is-this-block", Doc: "the header hash recorded for the block's index equals the block's hash, whoever recorded it",
				Alts: [][]string{{"pkg/core.(*HeaderHashes).GetHeaderHash", symHeaderHash}}},
		},
	},
	{
		// check-then-act: the height the index is compared with is read inside the critical section that also stores
		// the block, otherwise two callers holding the same next block both pass the test and both store it
		ID: "AddBlock.height-under-lock", Fn: [3]string{"pkg/core", "Blockchain", "AddBlock"}, Target: "call:" + symBlockHeight,
		MustNode: [][]string{{"sync.(*Mutex).Lock", "pkg/core#addLock"}},
	},
	{
		ID: "AddBlock.storeBlock.verified", Fn: [3]string{"pkg/core", "Blockchain", "AddBlock"}, Target: "call:" + symStoreBlock,
		Assume: symAssume(cfgSkipVerify, false),
		Guards: []Guard{
			{ID: "merkle-root", Doc: "Merkle root of the transactions equals the header's", Alts: [][]string{{"pkg/core/block#MerkleRoot", "pkg/core/block.(*Block).ComputeMerkleRoot"}}},
		},
	},
	{
		ID: "AddBlock.tx-loop", Fn: [3]string{"pkg/core", "Blockchain", "AddBlock"}, LoopOver: fldBlockTxs, Target: "loop-next",
		Assume: symAssume(cfgSkipVerify, false, cfgVerifyTxs, true),
		Guards: []Guard{
			{ID: "tx-verified", Doc: "every transaction of the block is pooled into the scratch pool (already verified) or fully verified, and its error rejects the block",
				Alts: [][]string{{symPoolAdd}, {symVerifyPool}}},
		},
		MustCall: [][]string{{symPoolAdd, symVerifyPool}},
	},
	{
		ID: "addHeaders.verify-loop", Fn: [3]string{"pkg/core", "Blockchain", "addHeaders"}, LoopOver: "param#1", Target: "loop-next",
		Guards:   []Guard{{ID: "verifyHeader", Doc: "each header is verified against its predecessor and a failure leaves", Alts: [][]string{{symBC + "verifyHeader"}}}},
		MustCall: [][]string{{symBC + "verifyHeader"}},
	},
	{
		ID: "verifyHeader.ok", Fn: [3]string{"pkg/core", "Blockchain", "verifyHeader"}, Target: "ok-return",
		Guards: []Guard{
			{ID: "prev-hash", Doc: "previous hash links to the previous header", Alts: [][]string{{"pkg/core/block#PrevHash", symHeaderHash}}},
			{ID: "index", Doc: "index is previous index + 1", Alts: [][]string{{fldBlockIndex, "param#1", "param#0"}}},
			{ID: "timestamp", Doc: "timestamp strictly increases", Alts: [][]string{{"pkg/core/block#Timestamp"}}},
		},
		MustCall: [][]string{{symBC + "verifyHeaderWitnesses"}},
	},
	{
		ID: "verifyHeader.state-root", Fn: [3]string{"pkg/core", "Blockchain", "verifyHeader"}, Target: "ok-return",
		Assume: &Assume{Sym: map[string]bool{cfgSRInHeader: true}, Conds: []AssumeCond{{Mentions: []string{"pkg/core/stateroot.(*Module).CurrentLocalHeight", fldBlockIndex}, Val: true}}},
		Guards: []Guard{{ID: "prev-state-root", Doc: "previous state root equals the local one when the local state is at the previous height",
			Alts: [][]string{{"pkg/core/block#PrevStateRoot", "pkg/core/stateroot.(*Module).CurrentLocalStateRoot"}}}},
	},
}

func ruleAcceptDominators(c *Ctx) {
	ruleDeferredRootCoverage(c)
	runGates(c, acceptGates)
	// the header of a block being added is verified unless verification is switched off by configuration
	argMentions(c, "AddBlock.addHeaders.verify-arg", [3]string{"pkg/core", "Blockchain", "AddBlock"}, symBC+"addHeaders", 0, cfgSkipVerify)
	argMentions(c, "AddHeaders.addHeaders.verify-arg", [3]string{"pkg/core", "Blockchain", "AddHeaders"}, symBC+"addHeaders", 0, cfgSkipVerify)
	// header witnesses are checked against the consensus address designated by the previous header
	argMentions(c, "verifyHeaderWitnesses.next-consensus", [3]string{"pkg/core", "Blockchain", "verifyHeaderWitnesses"}, symBC+"VerifyWitness", 0, "pkg/core/block#NextConsensus", "param#1")
	argMentions(c, "verifyHeaderWitnesses.script", [3]string{"pkg/core", "Blockchain", "verifyHeaderWitnesses"}, symBC+"VerifyWitness", 2, "pkg/core/block#Script", "param#0")
	// the transaction list of an accepted block has no repeated element: the Merkle root alone does not say so (the
	// tree duplicates the last leaf of an odd level, [a,b,c,c] has the root of [a,b,c]). Shape: a loop over the
	// block's transactions that looks each hash up in a set it fills and leaves AddBlock with an error on a hit,
	// not nested under anything but the block-verification switch, and placed before storeBlock.
	for _, tg := range []struct {
		fn    [3]string
		store string
		key   string
	}{
		{[3]string{"pkg/core", "Blockchain", "AddBlock"}, symStoreBlock, "AddBlock.tx-unique"},
		{[3]string{"pkg/core/statesync", "Module", "AddBlock"}, "pkg/core/dao.(*Simple).StoreAsBlock", "statesync.AddBlock.tx-unique"},
	} {
		fd := c.P.Func(tg.fn[0], tg.fn[1], tg.fn[2])
		if fd == nil {
			c.Lost(tg.key+".anchor", tg.fn[1]+"."+tg.fn[2]+" not found")
			continue
		}
		f := c.P.NewFuncCFG(fd)
		info := f.Info
		found, foundPos := false, token.NoPos
		var stack []ast.Node
		ast.Inspect(fd.Decl.Body, func(n ast.Node) bool {
			if n == nil {
				stack = stack[:len(stack)-1]
				return true
			}
			stack = append(stack, n)
			rs, ok := n.(*ast.RangeStmt)
			if !ok || !f.Mentions(rs.X, nil)[fldBlockTxs] {
				return true
			}
			// enclosing conditions: only the SkipBlockVerification test may enclose the loop
			for _, a := range stack[:len(stack)-1] {
				if is, ok := a.(*ast.IfStmt); ok && !f.Mentions(is.Cond, nil)[cfgSkipVerify] {
					return true
				}
				if _, ok := a.(*ast.RangeStmt); ok {
					return true
				}
				if _, ok := a.(*ast.ForStmt); ok {
					return true
				}
			}
			var set types.Object
			rejects := false
			ast.Inspect(rs.Body, func(x ast.Node) bool {
				switch y := x.(type) {
				case *ast.IfStmt:
					lookup := false
					chk := func(e ast.Node) {
						ast.Inspect(e, func(z ast.Node) bool {
							if ix, ok := z.(*ast.IndexExpr); ok {
								if _, isMap := info.TypeOf(ix.X).Underlying().(*types.Map); isMap && f.Mentions(ix.Index, nil)[symTxHashM] {
									lookup = true
									set = rootObj(info, ix.X)
								}
							}
							return true
						})
					}
					chk(y.Cond)
					if y.Init != nil {
						chk(y.Init)
					}
					if lookup && dropsBlock(y.Body) {
						rejects = true
					}
				}
				return true
			})
			fills := false
			if set != nil {
				ast.Inspect(rs.Body, func(x ast.Node) bool {
					if as, ok := x.(*ast.AssignStmt); ok {
						for _, l := range as.Lhs {
							if ix, ok := ast.Unparen(l).(*ast.IndexExpr); ok && rootObj(info, ix.X) == set && f.Mentions(ix.Index, nil)[symTxHashM] {
								fills = true
							}
						}
					}
					return true
				})
			}
			if rejects && fills {
				found, foundPos = true, rs.Pos()
			}
			return true
		})
		before := false
		if found {
			for _, s := range f.CallSites(tg.store) {
				if foundPos < s.call.Pos() {
					before = true
				}
			}
		}
		if found && before {
			c.OK(tg.key, c.P.Pos(foundPos), "the transactions of a block are checked for uniqueness (set of hashes, error on a hit) before the block is stored")
		} else {
			c.Fail(tg.key, c.P.Pos(fd.Decl.Pos()), tg.fn[1]+"."+tg.fn[2]+" stores a block without checking that its transactions are distinct: the Merkle tree duplicates the last leaf of an odd level, so the list with its last transaction repeated has the same root, block hash and witness; with VerifyTransactions off the repeated transaction is executed twice")
		}
	}
	c.Floor("guards", len(c.Obls), 14)
}

var admitGates = []GateSpec{
	{
		ID: "verifyAndPoolTx.Add", Fn: [3]string{"pkg/core", "Blockchain", "verifyAndPoolTx"}, Target: "call:" + symPoolAdd,
		Guards: []Guard{
			{ID: "script", Doc: "script passes the static script check", Alts: [][]string{{"pkg/smartcontract/scparser.IsScriptCorrect", "pkg/core/transaction#Script"}}},
			{ID: "not-expired", Doc: "ValidUntilBlock is above the current height", Alts: [][]string{{fldTxVUB, symBlockHeight}}},
			{ID: "policy", Doc: "policy contract allows the signers", Alts: [][]string{{"pkg/core/native.(IPolicy).CheckPolicy"}}},
			{ID: "max-size", Doc: "size does not exceed MaxTransactionSize", Alts: [][]string{{symTxSize, "pkg/core/transaction.MaxTransactionSize"}}},
			{ID: "network-fee", Doc: "network fee covers size*FeePerByte + attribute fees", Alts: [][]string{{fldTxNetFee, symTxSize, symBC + "FeePerByte", symBC + "CalculateAttributesFee"}}},
			{ID: "not-on-chain", Doc: "neither on chain nor named as a conflict by an on-chain transaction of a signer", Alts: [][]string{{"pkg/core/dao.(*Simple).HasTransaction", "pkg/core/transaction#Signers"}}},
			{ID: "witnesses", Doc: "witnesses verify within the remaining fee", Alts: [][]string{{symBC + "verifyTxWitnesses"}}},
			{ID: "attributes", Doc: "attribute rules hold", Alts: [][]string{{symBC + "verifyTxAttributes"}}},
		},
	},
	{
		ID: "verifyAndPoolTx.Add.complete-tx", Fn: [3]string{"pkg/core", "Blockchain", "verifyAndPoolTx"}, Target: "call:" + symPoolAdd,
		Assume: symAssume("local<-param#3", false),
		Guards: []Guard{{ID: "vub-window", Doc: "ValidUntilBlock is not further than the allowed increment", Alts: [][]string{{fldTxVUB, symBlockHeight, symBC + "GetMaxValidUntilBlockIncrement"}}}},
	},
	{
		ID: "verifyAndPoolOffChainTx", Fn: [3]string{"pkg/core", "Blockchain", "verifyAndPoolOffChainTx"}, Target: "call:" + symVerifyPool,
		Guards: []Guard{{ID: "max-system-fee", Doc: "system fee does not exceed MaxBlockSystemFee", Alts: [][]string{{"pkg/core/transaction#SystemFee", "pkg/config#MaxBlockSystemFee"}}}},
	},
}

func ruleAdmitDominators(c *Ctx) {
	runGates(c, admitGates)
	// the policy check refuses a transaction signed by a blocked account - *any* signer, not the sender alone (a
	// blocked account co-signing a transaction that a clean account sends still moves its funds): the check is a
	// loop over the transaction's signers whose every iteration passes the blocked-account lookup
	if fd := c.P.Func("pkg/core/native", "Policy", "CheckPolicy"); fd != nil {
		hasLoop := false
		ast.Inspect(fd.Decl.Body, func(n ast.Node) bool {
			if rs, ok := n.(*ast.RangeStmt); ok && c.P.NewFuncCFG(fd).DirectMentions(rs.X)["pkg/core/transaction#Signers"] {
				hasLoop = true
			}
			return true
		})
		if !hasLoop {
			c.Fail("CheckPolicy.signers-loop.all-signers", c.P.Pos(fd.Decl.Pos()), "Policy.CheckPolicy does not range over the transaction's signers: a blocked account that is not the one signer looked at can still sign (co-sign, or pay through Notary) an admitted transaction")
			goto afterPolicy
		}
	}
	runGates(c, []GateSpec{{
		ID: "CheckPolicy.signers-loop", Fn: [3]string{"pkg/core/native", "Policy", "CheckPolicy"}, LoopOver: "pkg/core/transaction#Signers", Target: "loop-next",
		Guards:   []Guard{{ID: "not-blocked", Doc: "a blocked signer rejects the transaction", Alts: [][]string{{"pkg/core/native.(*Policy).isBlockedInternal"}}}},
		MustCall: [][]string{{"pkg/core/native.(*Policy).isBlockedInternal"}},
	}})
afterPolicy:
	// boundaries of the admission checks: exactly-at-the-limit cases are part of what the ledger accepts in a block
	fnV := [3]string{"pkg/core", "Blockchain", "verifyAndPoolTx"}
	boundary(c, "verifyAndPoolTx.size-boundary", fnV, "pkg/core/transaction.MaxTransactionSize", true, "above", "a transaction size", false, 1)
	boundary(c, "verifyAndPoolTx.vub-window-boundary", fnV, symBC+"GetMaxValidUntilBlockIncrement", true, "above", "a ValidUntilBlock", false, 1)
	boundary(c, "verifyAndPoolTx.fee-boundary", fnV, fldTxNetFee, false, "below", "the network fee left after the size and attribute part (limit 0)", true, 1)
	// fee exactness: witnesses are verified with exactly what is left of the network fee after the size/attribute part
	argMentions(c, "verifyAndPoolTx.witness-budget", [3]string{"pkg/core", "Blockchain", "verifyAndPoolTx"}, symBC+"verifyTxWitnesses", 3,
		fldTxNetFee, symTxSize, symBC+"FeePerByte", symBC+"CalculateAttributesFee")
	// the on-chain conflict lookup examines every signer: inside the per-signer loop only the "has conflicts" error may leave
	if fd := c.P.Func("pkg/core/dao", "Simple", "HasTransaction"); fd == nil {
		c.Lost("HasTransaction.anchor", "dao.(*Simple).HasTransaction not found")
	} else {
		f := c.P.NewFuncCFG(fd)
		var loops []Loop
		for _, l := range f.Loops() {
			if l.X != nil && f.Mentions(l.X, nil)["param#1"] {
				loops = append(loops, l)
			}
		}
		if len(loops) != 1 {
			c.Lost("HasTransaction.signers-loop", fmt.Sprintf("expected one loop over the signers, found %d", len(loops)))
		} else {
			bad := false
			nret := 0
			for _, r := range f.Returns() {
				if !containsNode(loops[0].Stmt, r.node) {
					continue
				}
				nret++
				if !f.isErrorExit(r.blk, r.node.(*ast.ReturnStmt)) {
					bad = true
					c.Fail("HasTransaction.signers-loop.complete", c.P.Pos(r.node.Pos()), "HasTransaction can return success from inside the per-signer loop: conflict records of the remaining signers are not examined")
				}
			}
			if !bad {
				c.OK("HasTransaction.signers-loop.complete", c.P.Pos(loops[0].Stmt.Pos()), fmt.Sprintf("the %d exit(s) inside the per-signer loop all report a conflict; success is returned only after every signer was examined", nret))
			}
		}
	}
	// fee exactness for multisignature witnesses: the calculator prices the very opcode the script emitter produces
	// for the key/signature count (emit.Int picks PUSHn or PUSHINT8.. depending on the value)
	if fd := c.P.Func("pkg/core/fee", "", "calculateMultisig"); fd == nil {
		c.Lost("fee.calculateMultisig.anchor", "fee.calculateMultisig not found")
	} else {
		f := c.P.NewFuncCFG(fd)
		found := false
		for _, s := range f.CallSites("pkg/core/fee.Opcode") {
			for _, a := range s.call.Args[1:] {
				if f.Mentions(a, s.blk)["pkg/io.(*BufBinWriter).Bytes"] && len(f.CallSites("pkg/vm/emit.Int")) > 0 {
					found = true
				}
			}
		}
		if found {
			c.OK("fee.calculateMultisig.count-opcode", c.P.Pos(fd.Decl.Pos()), "the count-push opcode priced by the fee calculator is obtained from emit.Int, the emitter the multisig script builder uses")
		} else {
			c.Fail("fee.calculateMultisig.count-opcode", c.P.Pos(fd.Decl.Pos()), "fee.calculateMultisig no longer derives the count-push opcode from emit.Int: for counts the emitter encodes differently (>16) the calculated fee and the verification cost disagree")
		}
	}
	// pooling from the network goes through the off-chain variant (system fee cap) everywhere outside block acceptance
	c.Floor("guards", len(c.Obls), 11)
}
