package main

import (
	"encoding/json"
	"fmt"
	"os"
	"path/filepath"
	"regexp"
	"sort"
	"strings"
	"time"
)

// Status of an obligation.
const (
	StOK           = "ok"
	StViolation    = "violation"
	StUnclassified = "unclassified" // shape not recognised: reported, never an alarm
	StLost         = "coverage-lost"
	StKnown        = "known-finding"
)

// Obligation is one decided instance of a rule: rule + construct (never a line number in Key).
type Obligation struct {
	Rule   string   `json:"rule"`
	Key    string   `json:"key"`
	Pos    string   `json:"pos"`
	Status string   `json:"status"`
	Msg    string   `json:"msg"`
	Path   []string `json:"path,omitempty"`
}

// Ctx is handed to each rule.
type Ctx struct {
	P        *Program
	Property string
	Tier     string
	Rule     string
	Obls     []Obligation
	Notes    []string
	counts   map[string]int
}

func (c *Ctx) add(st, key, pos, msg string, path []string) {
	c.Obls = append(c.Obls, Obligation{Rule: c.Rule, Key: c.Rule + ":" + key, Pos: pos, Status: st, Msg: msg, Path: path})
}

// OK records a discharged obligation.
func (c *Ctx) OK(key, pos, msg string) { c.add(StOK, key, pos, msg, nil) }

// Fail records a violated obligation.
func (c *Ctx) Fail(key, pos, msg string, path ...string) { c.add(StViolation, key, pos, msg, path) }

// Unclassified records a shape the rule cannot decide (no alarm).
func (c *Ctx) Unclassified(key, pos, msg string) { c.add(StUnclassified, key, pos, msg, nil) }

// Lost records lost coverage (anchor missing, floor not reached): fails the check.
func (c *Ctx) Lost(key, msg string) { c.add(StLost, key, "", msg, nil) }

// Note adds a free-text line to the evidence explanation.
func (c *Ctx) Note(format string, a ...any) {
	c.Notes = append(c.Notes, c.Rule+": "+fmt.Sprintf(format, a...))
}

// Floor fails with coverage-lost if the measured instance count is below the hand-confirmed floor.
func (c *Ctx) Floor(what string, got, min int) {
	if c.counts == nil {
		c.counts = map[string]int{}
	}
	c.counts[c.Rule+"/"+what] = got
	if got < min {
		c.Lost("floor."+what, fmt.Sprintf("rule %s sees %d %s, hand-confirmed floor is %d: the rule no longer sees the code it is about", c.Rule, got, what, min))
	}
}

// ---------------------------------------------------------------------------

// KnownFindings is /verif/known_findings.json.
type KnownFindings struct {
	Known []struct {
		Property string `json:"property"`
		Key      string `json:"key"`
		What     string `json:"what"`
	} `json:"known"`
	Fixed []string `json:"fixed"`
}

func loadKnown(path string) (*KnownFindings, error) {
	k := &KnownFindings{}
	if path == "" {
		return k, nil
	}
	b, err := os.ReadFile(path)
	if err != nil {
		if os.IsNotExist(err) {
			return k, nil
		}
		return nil, err
	}
	return k, json.Unmarshal(b, k)
}

var unsafeFile = regexp.MustCompile(`[^A-Za-z0-9_.\-]+`)

type evidence struct {
	PropertyID  string         `json:"property_id"`
	Tier        string         `json:"tier"`
	Seed        int            `json:"seed"`
	Level       string         `json:"level"`
	Coverage    map[string]any `json:"coverage"`
	Assumptions []string       `json:"assumptions"`
	WallS       float64        `json:"wall_s"`
	Violations  int            `json:"violations"`
}

// finish prints the verdict lines, writes replay files and the evidence file; returns the exit code.
func finish(prop *PropertySpec, tier string, seed int, obls []Obligation, notes []string, counts map[string]int,
	known *KnownFindings, outDir, evidencePath string, start time.Time, loadInfo map[string]any, controls []map[string]any) int {

	knownKeys := map[string]string{}
	for _, k := range known.Known {
		if k.Property == prop.ID {
			knownKeys[k.Key] = k.What
		}
	}
	sort.SliceStable(obls, func(i, j int) bool { return obls[i].Key < obls[j].Key })
	nviol := 0
	stat := map[string]int{}
	distinct := map[string]bool{}
	perRule := map[string]map[string]int{}
	var samples []any
	sampleSeen := map[string]int{}
	os.RemoveAll(filepath.Join(outDir, prop.ID))
	for i := range obls {
		o := &obls[i]
		if o.Status == StViolation {
			if what, ok := knownKeys[o.Key]; ok {
				o.Status = StKnown
				fmt.Printf("KNOWN-FINDING: property=%s %s [%s at %s]\n", prop.ID, what, o.Key, o.Pos)
			}
		}
		stat[o.Status]++
		if perRule[o.Rule] == nil {
			perRule[o.Rule] = map[string]int{}
		}
		perRule[o.Rule][o.Status]++
		distinct[o.Key] = true
		if o.Status == StViolation || o.Status == StLost {
			nviol++
			dir := filepath.Join(outDir, prop.ID)
			os.MkdirAll(dir, 0o755)
			fn := filepath.Join(dir, unsafeFile.ReplaceAllString(o.Key, "_")+".json")
			rep := map[string]any{"property": prop.ID, "obligation": o, "tier": tier}
			if o.Status == StLost {
				rep["note"] = "coverage lost: the rule cannot see the code it is about (anchor, table row or instance floor missing). No counter-example to the property itself is claimed."
			}
			b, _ := json.MarshalIndent(rep, "", " ")
			os.WriteFile(fn, b, 0o644)
			fmt.Printf("VIOLATION property=%s replay=%s\n", prop.ID, fn)
			fmt.Printf("  %s  rule %s [%s]: %s\n", o.Pos, o.Rule, o.Status, o.Msg)
			for _, p := range o.Path {
				fmt.Printf("      %s\n", p)
			}
		}
		if sampleSeen[o.Rule] < 3 && (o.Status == StOK || o.Status == StKnown) {
			sampleSeen[o.Rule]++
			samples = append(samples, map[string]any{"rule": o.Rule, "obligation": o.Key, "at": o.Pos, "status": o.Status, "what": o.Msg})
		}
	}
	// the complete list of obligations of this run (not committed; evidence keeps samples and counts)
	if outDir != "" {
		os.MkdirAll(filepath.Join(outDir, prop.ID), 0o755)
		if ab, err := json.MarshalIndent(obls, "", " "); err == nil {
			os.WriteFile(filepath.Join(outDir, prop.ID, "obligations.json"), ab, 0o644)
		}
	}
	if len(samples) == 0 {
		for i := range obls {
			if i < 5 {
				samples = append(samples, obls[i])
			}
		}
	}
	var ruleLines []string
	for _, r := range prop.Rules {
		ruleLines = append(ruleLines, fmt.Sprintf("%s — %s", r.Name, r.Doc))
	}
	cov := map[string]any{
		"explanation": fmt.Sprintf("Static analysis of /repo's current source (go/packages + go/types + go/cfg + go/ssa; no neo-go code is executed). Decides structural necessary conditions of %s, not the behaviour itself. Rules applied: %s. NOT covered: %s",
			prop.ID, strings.Join(ruleLines, " || "), prop.NotCovered),
		"evaluations":         len(obls),
		"distinct_nontrivial": len(distinct),
		"rule":                "one evaluation = one obligation (rule instance on a program construct: call site, function exit, table row, registration); distinct = distinct obligation keys (rule + construct, line-free); every obligation is derived from the loaded program, so all are non-trivial",
		"obligations":         len(obls),
		"discharged":          stat[StOK],
		"unclassified":        stat[StUnclassified],
		"known_findings":      stat[StKnown],
		"by_rule":             perRule,
		"instance_counts":     counts,
		"samples":             samples,
		"notes":               notes,
		"analysed":            loadInfo,
		"exhaustive":          true,
	}
	if controls != nil {
		cov["negative_controls"] = controls
	}
	ev := evidence{PropertyID: prop.ID, Tier: tier, Seed: seed, Level: "other", Coverage: cov,
		Assumptions: append([]string{
			"Go type checker and go/ssa of golang.org/x/tools v0.50.0 are correct",
			"call resolution is the module-restricted graph of DESIGN.md §2.2 (static callees, closures charged to their creator, module interfaces resolved over all module types, function-value slots fed only by the recognised registration tables)",
			"frozen tables in /verif/checker (one reason per row) reflect a correct reading of the pinned tree",
		}, prop.Assumptions...),
		WallS: time.Since(start).Seconds(), Violations: nviol}
	b, _ := json.MarshalIndent(ev, "", " ")
	if evidencePath != "" {
		os.MkdirAll(filepath.Dir(evidencePath), 0o755)
		if err := os.WriteFile(evidencePath, b, 0o644); err != nil {
			fmt.Fprintln(os.Stderr, "cannot write evidence:", err)
			return 2
		}
	}
	fmt.Printf("property=%s tier=%s obligations=%d ok=%d unclassified=%d known=%d failing=%d wall=%.1fs\n",
		prop.ID, tier, len(obls), stat[StOK], stat[StUnclassified], stat[StKnown], nviol, time.Since(start).Seconds())
	if nviol > 0 {
		return 1
	}
	return 0
}
