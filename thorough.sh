#!/bin/bash
# Thorough tier: (1) negative controls — every seeded/control patch registered for the property is applied to an
# in-memory overlay of the current tree (one process each) and the result (detected / missed / stale) is recorded in the
# evidence; (2) the full rule set on the real tree with tier=thorough (rules widen their scope, e.g. lock pairing over the
# whole module), which writes the evidence.
set -uo pipefail
. "$(dirname "${BASH_SOURCE[0]}")/env.sh"
REPO="${VERIF_REPO:-/repo}"
BIN="$VERIF_DIR/bin/nvcheck"
ID="$1"
EV="$VERIF_DIR/evidence/$ID.json"
WORK="$(mktemp -d)"
trap 'rm -rf "$WORK"' EXIT
CTL="$WORK/controls.json"
python3 "$VERIF_DIR/controls.py" "$ID" "$REPO" "$WORK" "$BIN" > "$CTL.log" 2>&1
CRC=$?
cat "$CTL.log"
RC=0
# (A GOARCH=386 pass was planned; the module does not type-check on 32-bit targets — untyped constants overflow int in
# internal/basicchain, pkg/rpcclient/rolemgmt, pkg/services/rpcsrv, pkg/vm — so it cannot be loaded whole. See DESIGN.md §2.1.)
"$BIN" -repo "$REPO" -property "$ID" -tier thorough -known "$VERIF_DIR/known_findings.json" -out "$VERIF_DIR/out" -evidence "$EV" -controls-json "$CTL" || RC=1
# A missed or stale control says something about the checker, not about the property: it is recorded in the
# evidence (coverage.negative_controls) and printed, but never raises a VIOLATION.
[ $CRC -ne 0 ] && echo "note: some negative controls were missed or stale (see evidence)"
exit $RC
