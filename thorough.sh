#!/bin/bash
# Thorough tier: (1) negative controls — every seeded/control patch registered for the property is applied to an
# in-memory overlay of the current tree and the named rule must report it; (2) the full rule set on GOARCH=386
# (build-tagged files, 32-bit int); (3) the full rule set on the real tree, which writes the evidence.
set -uo pipefail
. "$(dirname "${BASH_SOURCE[0]}")/env.sh"
REPO="${VERIF_REPO:-/repo}"
BIN="$VERIF_DIR/bin/nvcheck"
ID="$1"
EV="$VERIF_DIR/evidence/$ID.json"
WORK="$(mktemp -d)"
trap 'rm -rf "$WORK"' EXIT
CTL="$WORK/controls.json"
python3 "$VERIF_DIR/controls.py" "$ID" "$REPO" "$WORK" "$BIN" > "$CTL.log" 2>&1
CRC=$?
cat "$CTL.log"
RC=0
"$BIN" -repo "$REPO" -property "$ID" -tier thorough -goarch 386 -known "$VERIF_DIR/known_findings.json" -out "$VERIF_DIR/out" > "$WORK/386.log" 2>&1 || RC=1
sed 's/^/[386] /' "$WORK/386.log"
"$BIN" -repo "$REPO" -property "$ID" -tier thorough -known "$VERIF_DIR/known_findings.json" -out "$VERIF_DIR/out" -evidence "$EV" -controls-json "$CTL" || RC=1
# A missed or stale control says something about the checker, not about the property: it is recorded in the
# evidence (coverage.negative_controls) and printed, but never raises a VIOLATION.
[ $CRC -ne 0 ] && echo "note: some negative controls were missed or stale (see evidence)"
exit $RC
