# Sourced by every command of the framework. Offline Go environment:
# go1.26.8 as `go` (shim dir first on PATH), no toolchain switching, no network.
VERIF_DIR="$(cd "$(dirname "${BASH_SOURCE[0]}")" && pwd)"
export VERIF_DIR
mkdir -p "$VERIF_DIR/bin/shim"
if [ ! -x "$VERIF_DIR/bin/shim/go" ]; then
  G="$(command -v go1.26.8 || true)"
  [ -z "$G" ] && G=/opt/veriftools/go1.26.8/bin/go
  printf '#!/bin/sh\nexec %s "$@"\n' "$G" > "$VERIF_DIR/bin/shim/go"
  chmod +x "$VERIF_DIR/bin/shim/go"
fi
export PATH="$VERIF_DIR/bin/shim:$PATH"
export GOTOOLCHAIN=local GOFLAGS=-mod=mod GOPROXY=off GOSUMDB=off GOWORK=off
unset GOARCH GOOS
