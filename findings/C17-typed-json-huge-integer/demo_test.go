package stackitem

import (
	"strings"
	"testing"

	"github.com/stretchr/testify/require"
)

// An Integer item whose decimal value does not fit into 256 bits: the typed JSON
// decoder (RPC results, notifications, invocation parameters read back by
// clients and tools) must return an error.
func TestHEAD_FromJSONWithTypesHugeInteger(t *testing.T) {
	data := []byte(`{"type":"Integer","value":"1` + strings.Repeat("0", 80) + `"}`)
	require.NotPanics(t, func() {
		_, err := FromJSONWithTypes(data)
		require.Error(t, err)
	})
}
