package core_test

// NOT a seeded mutation: a genuine defect of the unmodified HEAD found while looking for
// mutation sites. Policy.setWhitelistFeeContract called for an already whitelisted
// contract method (to change the fee) updates the storage, but leaves the old
// entry in PolicyCache.whitelistedContracts (the cache is only updated when the entry
// is new, see pkg/core/native/policy.go, `if !ok { ...slices.Insert... }` without `else`).
// A running node keeps charging the old fee, a restarted one (cache rebuilt from
// storage) charges the new one.
//
// Copy into pkg/core/ (package core_test), run
//
//	GOFLAGS=-mod=mod go test -count=1 -run TestC01Genuine ./pkg/core/
//
// It FAILS on the unmodified HEAD.

import (
	"encoding/json"
	"testing"

	"github.com/nspcc-dev/neo-go/pkg/core"
	"github.com/nspcc-dev/neo-go/pkg/core/native/nativehashes"
	"github.com/nspcc-dev/neo-go/pkg/core/storage"
	"github.com/nspcc-dev/neo-go/pkg/core/storage/dbconfig"
	"github.com/nspcc-dev/neo-go/pkg/crypto/keys"
	"github.com/nspcc-dev/neo-go/pkg/neotest"
	"github.com/nspcc-dev/neo-go/pkg/neotest/chain"
	"github.com/nspcc-dev/neo-go/pkg/smartcontract/trigger"
	"github.com/nspcc-dev/neo-go/pkg/vm/stackitem"
	"github.com/stretchr/testify/assert"
	"github.com/stretchr/testify/require"
)

func c01wlOpenDB(t *testing.T, path string) storage.Store {
	st, err := storage.NewLevelDBStore(dbconfig.LevelDBOptions{DataDirectoryPath: path})
	require.NoError(t, err)
	return st
}

// c01wlReplay feeds all blocks of src to a fresh on-disk replica, stopping and
// starting the replica again after block restartAt.
func c01wlReplay(t *testing.T, src *core.Blockchain, restartAt uint32) *core.Blockchain {
	path := t.TempDir()
	bc, _ := chain.NewSingleWithCustomConfigAndStore(t, nil, c01wlOpenDB(t, path), false)
	go bc.Run()
	for h := uint32(1); h <= restartAt; h++ {
		b, err := src.GetBlock(src.GetHeaderHash(h))
		require.NoError(t, err)
		require.NoError(t, bc.AddBlock(b), "replica, block %d", h)
	}
	bc.Close() // flushes everything and closes the DB.

	bc, _ = chain.NewSingleWithCustomConfigAndStore(t, nil, c01wlOpenDB(t, path), true)
	require.Equal(t, restartAt, bc.BlockHeight())
	for h := restartAt + 1; h <= src.BlockHeight(); h++ {
		b, err := src.GetBlock(src.GetHeaderHash(h))
		require.NoError(t, err)
		require.NoError(t, bc.AddBlock(b), "restarted replica, block %d", h)
	}
	return bc
}

func c01wlKeys(ks keys.PublicKeys) []string {
	res := make([]string, len(ks))
	for i := range ks {
		res[i] = ks[i].StringCompressed()
	}
	return res
}

func c01wlCompare(t *testing.T, a, b *core.Blockchain) {
	require.Equal(t, a.BlockHeight(), b.BlockHeight())
	for h := uint32(1); h <= a.BlockHeight(); h++ {
		blk, err := a.GetBlock(a.GetHeaderHash(h))
		require.NoError(t, err)
		for _, tx := range blk.Transactions {
			aerA, err := a.GetAppExecResults(tx.Hash(), trigger.All)
			require.NoError(t, err)
			aerB, err := b.GetAppExecResults(tx.Hash(), trigger.All)
			require.NoError(t, err)
			jA, err := json.Marshal(aerA)
			require.NoError(t, err)
			jB, err := json.Marshal(aerB)
			require.NoError(t, err)
			assert.Equal(t, string(jA), string(jB), "execution result of tx %s in block %d", tx.Hash().StringLE(), h)
		}
		srA, err := a.GetStateRoot(h)
		require.NoError(t, err)
		srB, err := b.GetStateRoot(h)
		require.NoError(t, err)
		assert.Equal(t, srA.Root.StringLE(), srB.Root.StringLE(), "state root at height %d", h)
	}
}

func TestC01Genuine_WhitelistFeeReSetIsRestartTransparent(t *testing.T) {
	bcA, acc := chain.NewSingle(t)
	e := neotest.NewExecutor(t, bcA, acc, acc)
	p := e.CommitteeInvoker(nativehashes.PolicyContract)
	p.Invoke(t, stackitem.Null{}, "setWhitelistFeeContract", nativehashes.StdLib, "hexEncode", 1, 0)
	p.Invoke(t, stackitem.Null{}, "setWhitelistFeeContract", nativehashes.StdLib, "hexEncode", 1, 500000)
	restartAt := bcA.BlockHeight()
	std := e.CommitteeInvoker(nativehashes.StdLib)
	std.Invoke(t, "010203", "hexEncode", []byte{1, 2, 3})
	bcB := c01wlReplay(t, bcA, restartAt)
	c01wlCompare(t, bcA, bcB)
}
