package core_test

import (
	"testing"

	"github.com/nspcc-dev/neo-go/pkg/config"
	"github.com/nspcc-dev/neo-go/pkg/core/native/nativenames"
	"github.com/nspcc-dev/neo-go/pkg/core/transaction"
	"github.com/nspcc-dev/neo-go/pkg/io"
	"github.com/nspcc-dev/neo-go/pkg/neotest"
	"github.com/nspcc-dev/neo-go/pkg/neotest/chain"
	"github.com/nspcc-dev/neo-go/pkg/util"
	"github.com/stretchr/testify/require"
)

// ApplyPolicyToTxSet estimates the size of the block to be proposed with a header
// that has no PrevStateRoot, whatever StateRootInHeader says: with state roots in
// headers the estimate is 32 bytes short, so a proposal that passes the cut can be
// up to 32 bytes above MaxBlockSize - and every backup rejects it (verifyBlock
// compares the real size with MaxBlockSize).
func TestHEAD_PolicyCutWithStateRootInHeader(t *testing.T) {
	const n = 5
	build := func(maxBlockSize uint32) (int, int) {
		bc, acc := chain.NewSingleWithCustomConfig(t, func(c *config.Blockchain) {
			c.StateRootInHeader = true
			if maxBlockSize != 0 {
				c.MaxBlockSize = maxBlockSize
			}
		})
		e := neotest.NewExecutor(t, bc, acc, acc)
		gasHash := e.NativeHash(t, nativenames.Gas)
		var txs []*transaction.Transaction
		for i := 0; i < n; i++ {
			txs = append(txs, e.NewTx(t, []neotest.Signer{acc}, gasHash, "transfer", acc.ScriptHash(), util.Uint160{1}, 1, nil))
		}
		cut := bc.ApplyPolicyToTxSet(txs)
		b := e.NewUnsignedBlock(t, cut...)
		e.SignBlock(b)
		return len(cut), io.GetVarSize(b)
	}
	// measure the real size of a block with all n transactions
	kept, full := build(0)
	require.Equal(t, n, kept)
	// a limit the real block misses by 10 bytes: the last transaction must be cut off
	limit := uint32(full - 10)
	kept, size := build(limit)
	require.LessOrEqual(t, size, int(limit), "a proposal of %d transactions is %d bytes long, MaxBlockSize is %d", kept, size, limit)
}
