// Copy to pkg/neorpc/result/ (package result); run: go test -count=1 -run TestDemoC17_ProofWithKey ./pkg/neorpc/result/ ; fails before fix 36a9950 (16777215 phantom items, 3.5 s), passes after it.
package result

import (
	"testing"
	"time"

	"github.com/nspcc-dev/neo-go/pkg/io"
	"github.com/stretchr/testify/require"
)

// The `verifyproof` RPC decodes a caller-supplied string into a ProofWithKey. Six bytes that announce 2^24 proof
// items and contain none of them must be refused at once.
func TestDemoC17_ProofWithKeyCountIsBounded(t *testing.T) {
	data := []byte{0x00 /* empty key */, 0xfe, 0xff, 0xff, 0xff, 0x00 /* 0x00ffffff items */}
	done := make(chan int, 1)
	go func() {
		var p ProofWithKey
		r := io.NewBinReaderFromBuf(data)
		p.DecodeBinary(r)
		done <- len(p.Proof)
	}()
	select {
	case n := <-done:
		require.Less(t, n, 2, "the decoder appended %d items that are not in the input", n)
	case <-time.After(20 * time.Second):
		t.Fatal("still decoding 6 bytes after 20 s")
	}
}
