// Copy to pkg/neorpc/result/ (package result); run: go test -count=1 -run TestDemoC17_ApplicationLogJSONRoundTrip ./pkg/neorpc/result/
// Fails on the current tree (known finding: the two-line repair makes pkg/rpcclient TestRPCClients/getapplicationlog fail,
// whose expected literal omits IsTransaction).
package result

import (
	"encoding/json"
	"testing"

	"github.com/nspcc-dev/neo-go/pkg/core/state"
	"github.com/nspcc-dev/neo-go/pkg/smartcontract/trigger"
	"github.com/nspcc-dev/neo-go/pkg/util"
	"github.com/nspcc-dev/neo-go/pkg/vm/vmstate"
	"github.com/stretchr/testify/require"
)

func TestDemoC17_ApplicationLogJSONRoundTrip(t *testing.T) {
	l := NewApplicationLog(util.Uint256{1, 2, 3}, []state.AppExecResult{{Container: util.Uint256{1, 2, 3},
		Execution: state.Execution{Trigger: trigger.Application, VMState: vmstate.Halt}}}, trigger.All)
	require.True(t, l.IsTransaction)
	first, err := json.Marshal(l)
	require.NoError(t, err)
	require.Contains(t, string(first), `"txid"`)

	var decoded ApplicationLog
	require.NoError(t, json.Unmarshal(first, &decoded))
	require.Equal(t, l.IsTransaction, decoded.IsTransaction, "the decoded log no longer knows it belongs to a transaction")
	second, err := json.Marshal(decoded)
	require.NoError(t, err)
	require.JSONEq(t, string(first), string(second))
}
