// Copy to: pkg/core ; run: go test ./pkg/core/ -run 'TestC01Defect_RestartBeforeValidatorsCount' -count=1
package core

import (
	"testing"
	"time"

	"github.com/nspcc-dev/neo-go/internal/testchain"
	"github.com/nspcc-dev/neo-go/pkg/config"
	"github.com/nspcc-dev/neo-go/pkg/core/block"
	"github.com/nspcc-dev/neo-go/pkg/core/storage"
	"github.com/nspcc-dev/neo-go/pkg/core/storage/dbconfig"
	"github.com/nspcc-dev/neo-go/pkg/core/transaction"
	"github.com/nspcc-dev/neo-go/pkg/crypto/keys"
	"github.com/nspcc-dev/neo-go/pkg/smartcontract"
	"github.com/nspcc-dev/neo-go/pkg/vm/opcode"
	"github.com/stretchr/testify/require"
)

// TestC01Defect_RestartBeforeValidatorsCountChange: the protocol configuration
// changes the number of validators (and the committee size) at height 4
// (ValidatorsHistory / CommitteeHistory, the same configuration that
// TestChainWithVolatileNumOfValidators uses). A node that is stopped at
// height 3, the last block of the old epoch, must come up again and answer
// GetNextBlockValidators / GetCommittee / ComputeNextBlockValidators exactly as
// a node that was never stopped.
//
// NEO.InitializeCache -> NEO.updateCache(cache, committee, blockHeight) cuts
// the *stored* committee (the one of the current epoch, 1 member here) with
// the validators count of the *next* block, cfg.GetNumOfCNs(blockHeight+1),
// which is 4 here: the node panics with "slice bounds out of range [:4] with
// capacity 1" and can't be started at this height at all. If the count goes
// down instead (4 -> 1) there is no panic, but GetNextBlockValidators of the
// restarted node gives 1 key where the running node gives 4.
func TestC01Defect_RestartBeforeValidatorsCountChange(t *testing.T) {
	cfgHook := func(c *config.Config) {
		c.ProtocolConfiguration.ValidatorsCount = 0
		c.ProtocolConfiguration.CommitteeHistory = map[uint32]uint32{
			0: 1,
			4: 4,
		}
		c.ProtocolConfiguration.ValidatorsHistory = map[uint32]uint32{
			0: 1,
			4: 4,
		}
		require.NoError(t, c.ProtocolConfiguration.Validate())
	}
	dir := t.TempDir()
	open := func() *Blockchain {
		ps, err := storage.NewLevelDBStore(dbconfig.LevelDBOptions{DataDirectoryPath: dir})
		require.NoError(t, err)
		bc := initTestChain(t, ps, cfgHook)
		go bc.Run()
		return bc
	}

	bc := open()
	priv0 := testchain.PrivateKeyByID(0)
	vals := bc.ComputeNextBlockValidators()
	script, err := smartcontract.CreateDefaultMultiSigRedeemScript(vals)
	require.NoError(t, err)
	curWit := transaction.Witness{VerificationScript: script}
	for i := 1; i < 4; i++ {
		if bc.config.ShouldUpdateCommitteeAt(uint32(i)) {
			vals = bc.ComputeNextBlockValidators()
		} else {
			vals, err = bc.GetNextBlockValidators()
			require.NoError(t, err)
		}
		script, err := smartcontract.CreateDefaultMultiSigRedeemScript(vals)
		require.NoError(t, err)
		nextWit := transaction.Witness{VerificationScript: script}
		b := &block.Block{
			Header: block.Header{
				NextConsensus: nextWit.ScriptHash(),
				Script:        curWit,
			},
		}
		curWit = nextWit
		b.PrevHash = bc.GetHeaderHash(uint32(i) - 1)
		b.Timestamp = uint64(time.Now().UTC().Unix())*1000 + uint64(i)
		b.Index = uint32(i)
		b.RebuildMerkleRoot()
		signa := priv0.SignHashable(uint32(bc.config.Magic), b)
		b.Script.InvocationScript = append([]byte{byte(opcode.PUSHDATA1), byte(len(signa))}, signa...)
		require.NoErrorf(t, bc.AddBlock(b), "at %d", i)
	}
	require.EqualValues(t, 3, bc.BlockHeight())

	// What the running node says at height 3.
	nextVals, err := bc.GetNextBlockValidators()
	require.NoError(t, err)
	committee, err := bc.GetCommittee()
	require.NoError(t, err)
	computed := keys.PublicKeys(bc.ComputeNextBlockValidators())
	require.Equal(t, 1, len(nextVals))
	require.Equal(t, 4, len(computed))

	bc.Close()

	// Restart at height 3.
	var restarted *Blockchain
	require.NotPanics(t, func() { restarted = open() }, "the node must be able to start at height 3")
	defer restarted.Close()
	require.EqualValues(t, 3, restarted.BlockHeight())

	nextVals2, err := restarted.GetNextBlockValidators()
	require.NoError(t, err)
	require.Equal(t, keys.PublicKeys(nextVals), keys.PublicKeys(nextVals2), "GetNextBlockValidators after the restart")
	committee2, err := restarted.GetCommittee()
	require.NoError(t, err)
	require.Equal(t, committee, committee2, "GetCommittee after the restart")
	require.Equal(t, computed, keys.PublicKeys(restarted.ComputeNextBlockValidators()), "ComputeNextBlockValidators after the restart")
}

// TestC01Defect_RestartBeforeValidatorsCountDecrease is the silent variant of
// the defect above: the number of validators goes down (4 -> 1) at height 6.
// Run: go test ./pkg/core/ -run 'TestC01Defect_RestartBeforeValidatorsCountDecrease' -count=1
func TestC01Defect_RestartBeforeValidatorsCountDecrease(t *testing.T) {
	cfgHook := func(c *config.Config) {
		c.ProtocolConfiguration.ValidatorsCount = 0
		c.ProtocolConfiguration.ValidatorsHistory = map[uint32]uint32{
			0: 4,
			6: 1, // the committee has 6 members, so 6 is an epoch boundary.
		}
		require.NoError(t, c.ProtocolConfiguration.Validate())
	}
	dir := t.TempDir()
	open := func() *Blockchain {
		ps, err := storage.NewLevelDBStore(dbconfig.LevelDBOptions{DataDirectoryPath: dir})
		require.NoError(t, err)
		bc := initTestChain(t, ps, cfgHook)
		go bc.Run()
		return bc
	}

	bc := open()
	for i := 1; i <= 5; i++ {
		b := bc.newBlock()
		require.NoErrorf(t, bc.AddBlock(b), "at %d", i)
	}
	require.EqualValues(t, 5, bc.BlockHeight())

	nextVals, err := bc.GetNextBlockValidators()
	require.NoError(t, err)
	require.Equal(t, 4, len(nextVals)) // the validators of the current epoch.
	require.Equal(t, 1, len(bc.ComputeNextBlockValidators()))
	bc.Close()

	restarted := open()
	defer restarted.Close()
	require.EqualValues(t, 5, restarted.BlockHeight())
	nextVals2, err := restarted.GetNextBlockValidators()
	require.NoError(t, err)
	require.Equal(t, keys.PublicKeys(nextVals), keys.PublicKeys(nextVals2), "GetNextBlockValidators after the restart at height 5")
}
