// copy to: pkg/core/storage ; run: go test ./pkg/core/storage/ -run 'TestC09Defect_SeekAsyncLowerPrivateLayerSnapshotIsLazy' -count=1
package storage

import (
	"context"
	"runtime"
	"testing"

	"github.com/stretchr/testify/require"
)

// MemCachedStore.SeekAsync snapshots only the TOP layer synchronously. The
// snapshots of all lower MemCachedStore layers are taken by ps.Seek() inside the
// goroutine SeekAsync spawns, i.e. at some later moment. If a lower layer is a
// private (lock-free) store that the caller continues to write to, the result of
// the already-started seek depends on goroutine scheduling: it may or may not
// contain writes made AFTER SeekAsync returned (and the unlocked map iteration
// races with the map writes, "fatal error: concurrent map iteration and map
// write" is possible).
//
// This is the layer stack of a contract call wrapped into a try block
// (pkg/core/interop/contract/call.go: ic.DAO = ic.DAO.GetPrivate()): `parent` is
// the transaction-level private DAO store, `child` is the callee's private DAO
// store. The callee calls System.Storage.Find (child.SeekAsync) and returns, on
// unload the child is persisted into the parent and the caller continues to
// put/delete items in the parent while the seek goroutine may not have
// snapshotted the parent yet.
//
// GOMAXPROCS(1) makes the unlucky schedule deterministic (the seek goroutine
// can't run until the test goroutine blocks on the channel).
func TestC09Defect_SeekAsyncLowerPrivateLayerSnapshotIsLazy(t *testing.T) {
	defer runtime.GOMAXPROCS(runtime.GOMAXPROCS(1))

	prefix := []byte{byte(STStorage), 1, 0, 0, 0}
	key := func(s string) []byte { return append(append([]byte{}, prefix...), s...) }

	bottom := NewMemoryStore()
	blockLevel := NewMemCachedStore(bottom)
	parent := NewPrivateMemCachedStore(blockLevel) // tx-level DAO
	parent.Put(key("a"), []byte("va"))
	child := NewPrivateMemCachedStore(parent) // DAO of a call wrapped in try
	child.Put(key("b"), []byte("vb"))

	// Callee: System.Storage.Find(prefix).
	ch := child.SeekAsync(context.Background(), SeekRange{Prefix: prefix}, true)

	// Callee returns, its DAO is flushed to the parent; caller goes on writing.
	_, err := child.Persist()
	require.NoError(t, err)
	parent.Delete(key("a"))
	parent.Put(key("c"), []byte("vc"))

	// Iterating over the Find result: must be the state at the moment of Find.
	var got []string
	for kv := range ch {
		got = append(got, string(kv.Key)+"="+string(kv.Value))
	}
	require.Equal(t, []string{"a=va", "b=vb"}, got)
}
