// Copy to pkg/vm/ ; run: go test ./pkg/vm/ -run 'TestC12Defect_MultisigBadKeyLeaksGoroutines' -count=1
package vm_test

import (
	"crypto/elliptic"
	"runtime"
	"testing"
	"time"

	"github.com/nspcc-dev/neo-go/pkg/crypto/keys"
	"github.com/nspcc-dev/neo-go/pkg/vm"
	"github.com/nspcc-dev/neo-go/pkg/vm/opcode"
	"github.com/stretchr/testify/require"
)

// CheckMultisigPar starts three worker goroutines and only then decodes the
// first public keys (in the calling goroutine). A key that can't be decoded makes
// bytesToPublicKey panic: the VM turns that into FAULT, but close(tasks) at the
// end of the function is never reached and the three workers stay blocked on the
// task channel for the rest of the process life. Every verification of a witness
// with two or more signatures and a malformed key (anybody can send such a
// transaction, it is rejected, but only after the check has run) leaves three
// goroutines behind: the execution is not bounded in what it leaves allocated.
func TestC12Defect_MultisigBadKeyLeaksGoroutines(t *testing.T) {
	msg := make([]byte, 32)
	k1, err := keys.NewPrivateKey()
	require.NoError(t, err)
	k2, err := keys.NewPrivateKey()
	require.NoError(t, err)
	bad := make([]byte, 33)
	bad[0] = 0x02
	for i := 1; i < len(bad); i++ {
		bad[i] = 0xff
	}
	sigs := []any{k1.SignHash([32]byte(msg)), k2.SignHash([32]byte(msg))}
	pubs := []any{bad, k1.PublicKey().Bytes(), k2.PublicKey().Bytes()}

	run := func() {
		v := vm.New()
		v.SyscallHandler = func(v *vm.VM, _ uint32) error {
			pk, err := v.Estack().PopSigElements()
			if err != nil {
				return err
			}
			sg, err := v.Estack().PopSigElements()
			if err != nil {
				return err
			}
			v.Estack().PushVal(vm.CheckMultisigPar(elliptic.P256(), msg, pk, sg))
			return nil
		}
		v.LoadScript([]byte{byte(opcode.SYSCALL), 1, 2, 3, 4})
		v.Estack().PushVal(sigs)
		v.Estack().PushVal(pubs)
		require.Error(t, v.Run()) // FAULT, as it should be.
		require.True(t, v.HasFailed())
	}
	run() // Warm up whatever is started lazily.
	time.Sleep(50 * time.Millisecond)
	before := runtime.NumGoroutine()
	const n = 50
	for range n {
		run()
	}
	var after int
	for range 20 { // Give the workers time to exit if they are going to.
		time.Sleep(50 * time.Millisecond)
		after = runtime.NumGoroutine()
		if after <= before {
			break
		}
	}
	require.LessOrEqual(t, after, before, "%d executions left %d goroutines behind", n, after-before)
}
