// Copy to pkg/core/statesync/ (package statesync_test); run: go test -count=1 -run 'TestC20Defect_MPTDataWithBadTail' ./pkg/core/statesync/
package statesync_test

import (
	"bytes"
	"testing"

	"github.com/nspcc-dev/neo-go/pkg/config"
	"github.com/nspcc-dev/neo-go/pkg/core/mpt"
	"github.com/nspcc-dev/neo-go/pkg/neotest"
	"github.com/nspcc-dev/neo-go/pkg/neotest/chain"
	"github.com/nspcc-dev/neo-go/pkg/util"
	"github.com/stretchr/testify/require"
)

// (*Module).AddMPTNodes returns from inside its loop on the first node it can't
// accept and so skips the "pool is empty -> MPT is in sync" step that follows
// the loop. If the message that brings the LAST missing node also has a junk
// node after it, the node is restored (and stored), the pool becomes empty, but
// the stage stays "need storage data". From there on the server has nothing to
// ask for (GetUnknownMPTNodesBatch is empty, requestMPTNodes sends nothing for
// an empty list), AddMPTNodes is never called again and the node neither
// requests blocks nor jumps: it is stuck until it is restarted.
func TestC20Defect_MPTDataWithBadTail(t *testing.T) {
	const (
		stateSyncInterval = 2
		maxTraceable      = 3
	)
	spoutCfg := func(c *config.Blockchain) {
		c.StateRootInHeader = true
		c.StateSyncInterval = stateSyncInterval
		c.MaxTraceableBlocks = maxTraceable
	}
	bcSpout, validators, committee := chain.NewMultiWithCustomConfig(t, spoutCfg)
	e := neotest.NewExecutor(t, bcSpout, validators, committee)
	e.GenerateNewBlocks(t, 2*stateSyncInterval+maxTraceable+2)

	bcBolt, _, _ := chain.NewMultiWithCustomConfig(t, func(c *config.Blockchain) {
		spoutCfg(c)
		c.P2PStateExchangeExtensions = true
		c.KeepOnlyLatestState = true
		c.RemoveUntraceableBlocks = true
	})
	module := bcBolt.GetStateSyncModule()
	require.NoError(t, module.Init(bcSpout.BlockHeight()))
	p := module.GetStateSyncPoint()
	for i := uint32(1); i <= p+1; i++ {
		h, err := bcSpout.GetHeader(bcSpout.GetHeaderHash(i))
		require.NoError(t, err)
		require.NoError(t, module.AddHeaders(h))
	}
	require.True(t, module.NeedStorageData())

	fetch := func(h util.Uint256) (mpt.Node, []byte) {
		var (
			node mpt.Node
			bs   []byte
		)
		require.NoError(t, bcSpout.GetStateSyncModule().Traverse(h, func(n mpt.Node, nodeBytes []byte) bool {
			node, bs = n, bytes.Clone(nodeBytes)
			return true
		}))
		require.NotNil(t, node)
		return node, bs
	}
	junk := []byte{0xff} // not an MPT node at all.
	for {
		unknown := module.GetUnknownMPTNodesBatch(1000)
		require.NotEmpty(t, unknown)
		var leaves, inner [][]byte
		for _, h := range unknown {
			n, bs := fetch(h)
			if n.Type() == mpt.LeafT {
				leaves = append(leaves, bs)
			} else {
				inner = append(inner, bs)
			}
		}
		if len(inner) > 0 {
			require.NoError(t, module.AddMPTNodes(inner))
			continue
		}
		// Only leaves are missing, they bring no new unknown nodes. The last
		// message has all of them and a junk node at the end.
		require.Error(t, module.AddMPTNodes(append(leaves, junk)))
		break
	}

	// Everything is fetched and there is nothing to ask the peers for...
	require.Empty(t, module.GetUnknownMPTNodesBatch(10))
	// ...so the module must not keep waiting for MPT data.
	require.False(t, module.NeedStorageData(), "no unknown MPT nodes left, but the module still waits for MPT data and doesn't ask for blocks")
	require.True(t, module.NeedBlocks())
}
