// Copy to pkg/consensus/ ; run: go test ./pkg/consensus/ -run 'TestC19Defect_ResetReadsHashAndHeightApart' -count=1
package consensus

import (
	"testing"

	"github.com/nspcc-dev/neo-go/internal/testchain"
	"github.com/nspcc-dev/neo-go/pkg/config"
	"github.com/nspcc-dev/neo-go/pkg/core"
	npayload "github.com/nspcc-dev/neo-go/pkg/network/payload"
	"github.com/nspcc-dev/neo-go/pkg/util"
	"github.com/stretchr/testify/require"
	"go.uber.org/zap"
)

// c19RaceLedger is the ledger with a hook between the two reads dBFT does when
// it's (re)initialized: Context.reset takes PrevHash from CurrentBlockHash()
// and then BlockIndex from CurrentHeight()+1. The ledger is written by another
// goroutine (block queue), storeBlock does topBlock.Store(block) and then
// atomic.StoreUint32(&bc.blockHeight, ...), so a block that is stored while
// reset runs can fall exactly between the two reads. The hook stores that block
// synchronously, which gives the same values to the reader.
type c19RaceLedger struct {
	*core.Blockchain
	between func()
}

func (l *c19RaceLedger) CurrentBlockHash() util.Uint256 {
	h := l.Blockchain.CurrentBlockHash()
	if f := l.between; f != nil {
		l.between = nil
		f()
	}
	return h
}

func TestC19Defect_ResetReadsHashAndHeightApart(t *testing.T) {
	bc := newTestChain(t, false)
	ledger := &c19RaceLedger{Blockchain: bc}
	s, err := NewService(Config{
		Logger:                zap.NewNop(),
		Broadcast:             func(*npayload.Extensible) {},
		Chain:                 ledger,
		BlockQueue:            testBlockQueuer{bc: bc},
		ProtocolConfiguration: bc.GetConfig().ProtocolConfiguration,
		RequestTx:             func(...util.Uint256) {},
		StopTxFlow:            func() {},
		Wallet:                config.Wallet{Path: "./testdata/wallet1.json", Password: "one"},
	})
	require.NoError(t, err)
	srv := s.(*service)
	srv.started.Store(true)
	srv.dbft.Start(0)
	require.EqualValues(t, 1, srv.dbft.BlockIndex)

	// Block 1 comes from the network, the service gets the notification. While
	// it handles it block 2 is stored.
	b1 := testchain.NewBlock(t, bc, 1, 1)
	require.NoError(t, bc.AddBlock(b1))
	b2 := testchain.NewBlock(t, bc, 1, 2)
	ledger.between = func() { require.NoError(t, bc.AddBlock(b2)) }
	srv.handleChainBlock(b1)
	// And then it gets the notification about block 2.
	srv.handleChainBlock(b2)

	// Nothing else is going to happen before block 3, and block 3 needs this
	// validator if f others are silent.
	require.EqualValues(t, bc.BlockHeight()+1, srv.dbft.BlockIndex)
	require.Equal(t, bc.CurrentBlockHash(), srv.dbft.PrevHash,
		"the context for block %d is built upon block %d", srv.dbft.BlockIndex, 1)

	// The consequence: a proper proposal for block 3 is rejected (the node
	// asks to change the view instead of sending PrepareResponse), the node's
	// own proposals and commits are for a header nobody else has.
	priv, _ := getTestValidator(3)
	p := new(Payload)
	p.message.ValidatorIndex = 3
	p.BlockIndex = 3
	p.payload = &prepareRequest{prevHash: bc.CurrentBlockHash()}
	require.NoError(t, p.Sign(priv))
	require.NoError(t, srv.verifyRequest(p))
}
