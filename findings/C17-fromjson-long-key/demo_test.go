package stackitem

import (
	"strings"
	"testing"

	"github.com/stretchr/testify/require"
)

// A JSON object whose property name is longer than MaxKeySize: FromJSON must
// return an error (FromJSONWithTypes, its sibling, validates map keys).
func TestHEAD_FromJSONLongKey(t *testing.T) {
	data := []byte(`{"` + strings.Repeat("k", MaxKeySize+1) + `":1}`)
	require.NotPanics(t, func() {
		_, err := FromJSON(data, MaxDeserialized, true)
		require.Error(t, err)
	})
}
