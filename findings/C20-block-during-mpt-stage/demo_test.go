// Copy to pkg/network/ (package network); run: go test -count=1 -run TestDemoC20_BlockMessageDuringMPTStage ./pkg/network/
// Fails (panics) on the tree before the fix, passes after it. module_demo_test.go (package statesync_test) shows the
// same through the real statesync.Module and a copy of the queue adapter.
package network

import (
	"testing"

	"github.com/nspcc-dev/neo-go/internal/fakechain"
	"github.com/nspcc-dev/neo-go/pkg/core/block"
	"github.com/nspcc-dev/neo-go/pkg/network/bqueue"
	"github.com/stretchr/testify/require"
	"go.uber.org/zap/zaptest"
)

// mptStageSync behaves like statesync.Module while headers or MPT data are still being synchronised:
// it is active, does not need blocks yet, and its BlockHeight panics.
type mptStageSync struct{ *fakechain.FakeStateSync }

func (mptStageSync) IsActive() bool   { return true }
func (mptStageSync) NeedBlocks() bool { return false }
func (mptStageSync) BlockHeight() uint32 {
	panic("block height is not yet initialized since MPT is not in sync")
}

func TestDemoC20_BlockMessageDuringMPTStage(t *testing.T) {
	s := newTestServer(t, ServerConfig{})
	s.stateSync = mptStageSync{new(fakechain.FakeStateSync)}
	s.bSyncQueue = bqueue.New[*block.Block](stateSyncBlockQueueAdapter{s.stateSync}, zaptest.NewLogger(t), nil, bqueue.DefaultCacheSize, nil, bqueue.NonBlocking)
	b := &block.Block{Header: block.Header{Index: 5}}
	require.NotPanics(t, func() {
		require.NoError(t, s.handleBlockCmd(nil, b))
	})
}
