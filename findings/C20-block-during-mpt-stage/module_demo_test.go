// package dir: pkg/core/statesync ; go test -run TestC20Defect_ ./pkg/core/statesync/
package statesync_test

import (
	"testing"

	"github.com/nspcc-dev/neo-go/pkg/config"
	"github.com/nspcc-dev/neo-go/pkg/core/block"
	"github.com/nspcc-dev/neo-go/pkg/core/statesync"
	"github.com/nspcc-dev/neo-go/pkg/neotest"
	"github.com/nspcc-dev/neo-go/pkg/neotest/chain"
	"github.com/nspcc-dev/neo-go/pkg/network/bqueue"
	"github.com/stretchr/testify/require"
	"go.uber.org/zap/zaptest"
)

// c20SyncAdapter is a copy of network.stateSyncBlockQueueAdapter (pkg/network/bqueue_adapters.go:14-33),
// which is what Server.bSyncQueue is built over (pkg/network/server.go:258).
type c20SyncAdapter struct{ m *statesync.Module }

func (a c20SyncAdapter) AddItem(b *block.Block) error     { return a.m.AddBlock(b) }
func (a c20SyncAdapter) AddItems(_ ...*block.Block) error { panic("not implemented") }
func (a c20SyncAdapter) Height() uint32                   { return a.m.BlockHeight() }

// Server.handleBlockCmd (pkg/network/server.go:915-923) routes every received
// block to bSyncQueue.Put while the (P2P) state sync module IsActive(). Put starts
// with bq.chain.Height(), i.e. Module.BlockHeight(), and that one panics until
// the MPT is in sync. IsActive() is true in the none/initialized/headersSynced
// stages too, so a `block` message (e.g. the answer to the getdata the node
// itself sends in response to a regular new-block inv) kills a node that is
// still fetching headers or MPT nodes.
func TestC20Defect_BlockMessageBeforeMPTIsSyncedPanics(t *testing.T) {
	const (
		stateSyncInterval = 2
		maxTraceable      = 3
	)
	spoutCfg := func(c *config.Blockchain) {
		c.StateRootInHeader = true
		c.StateSyncInterval = stateSyncInterval
		c.MaxTraceableBlocks = maxTraceable
	}
	bcSpout, validators, committee := chain.NewMultiWithCustomConfig(t, spoutCfg)
	e := neotest.NewExecutor(t, bcSpout, validators, committee)
	for range 2*stateSyncInterval + maxTraceable + 2 {
		e.AddNewBlock(t)
	}
	boltCfg := func(c *config.Blockchain) {
		spoutCfg(c)
		c.P2PStateExchangeExtensions = true
		c.KeepOnlyLatestState = true
		c.RemoveUntraceableBlocks = true
	}
	bcBolt, _, _ := chain.NewMultiWithCustomConfig(t, boltCfg)
	module := bcBolt.GetStateSyncModule()
	bSyncQueue := bqueue.New[*block.Block](c20SyncAdapter{module}, zaptest.NewLogger(t), nil, bqueue.DefaultCacheSize, nil, bqueue.NonBlocking)
	require.NoError(t, module.Init(bcSpout.BlockHeight()))
	require.True(t, module.IsActive()) // => handleBlockCmd does `return s.bSyncQueue.Put(block)`

	b, err := bcSpout.GetBlock(bcSpout.GetHeaderHash(bcSpout.BlockHeight()))
	require.NoError(t, err)
	require.NotPanics(t, func() {
		_ = bSyncQueue.Put(b)
	})
}
