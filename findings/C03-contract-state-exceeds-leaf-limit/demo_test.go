// Copy to pkg/core/ ; run: go test ./pkg/core/ -run 'TestC03Defect_BigContractStateLeaf' -count=1
package core_test

import (
	"encoding/binary"
	"encoding/json"
	"fmt"
	"strings"
	"testing"

	"github.com/nspcc-dev/neo-go/pkg/compiler"
	"github.com/nspcc-dev/neo-go/pkg/core/mpt"
	"github.com/nspcc-dev/neo-go/pkg/core/native"
	"github.com/nspcc-dev/neo-go/pkg/core/native/nativenames"
	"github.com/nspcc-dev/neo-go/pkg/core/storage"
	"github.com/nspcc-dev/neo-go/pkg/core/storage/dbconfig"
	"github.com/nspcc-dev/neo-go/pkg/neotest"
	"github.com/nspcc-dev/neo-go/pkg/neotest/chain"
	"github.com/nspcc-dev/neo-go/pkg/smartcontract/manifest"
	"github.com/nspcc-dev/neo-go/pkg/vm/stackitem"
	"github.com/stretchr/testify/require"
)

// A contract state (ContractManagement storage item) is NEF + manifest, each of
// which is limited by what fits into a transaction script (64K), but not their
// sum. Deploying a contract with a ~50K NEF and then updating only its manifest
// to ~60K gives a ~110K storage value. It is put into the MPT as is (PutBatch
// has no length checks), the root of the block commits to it, but the leaf can
// never be decoded back from the DB (mpt.MaxValueLength is 65539), so the
// committed pair is unreadable through the root: GetState says "item not
// found", no proof can be produced, and after the in-memory trie is dropped
// (restart) every block touching this leaf is rejected.

func c03BigContract(t *testing.T, e *neotest.Executor) (*neotest.Contract, []byte) {
	src := fmt.Sprintf(`package bigc
import "github.com/nspcc-dev/neo-go/pkg/interop/native/management"
func Pad() string { return "%s" }
func Update(nef, manifest []byte) { management.Update(nef, manifest) }
`, strings.Repeat("a", 50000))
	c := neotest.CompileSource(t, e.Validator.ScriptHash(), strings.NewReader(src), &compiler.Options{
		Name:        "bigc",
		Permissions: []manifest.Permission{*manifest.NewPermission(manifest.PermissionWildcard)},
	})
	m2 := *c.Manifest
	m2.Extra = json.RawMessage(`"` + strings.Repeat("b", 60000) + `"`)
	mBytes, err := json.Marshal(&m2)
	require.NoError(t, err)
	require.LessOrEqual(t, len(mBytes), manifest.MaxManifestSize)
	return c, mBytes
}

func TestC03Defect_BigContractStateLeaf(t *testing.T) {
	bc, acc := chain.NewSingle(t)
	e := neotest.NewExecutor(t, bc, acc, acc)
	c, mBytes := c03BigContract(t, e)
	e.DeployContract(t, c, nil)
	e.ValidatorInvoker(c.Hash).Invoke(t, stackitem.Null{}, "update", nil, mBytes)

	mgmtID := e.NativeID(t, nativenames.Management)
	live := bc.GetStorageItem(mgmtID, native.MakeContractKey(c.Hash))
	require.NotNil(t, live)
	t.Logf("contract state value length: %d (mpt.MaxValueLength=%d)", len(live), mpt.MaxValueLength)
	require.Greater(t, len(live), mpt.MaxValueLength)

	sr, err := bc.GetStateModule().GetStateRoot(bc.BlockHeight())
	require.NoError(t, err)
	key := make([]byte, 4, 4+21)
	binary.LittleEndian.PutUint32(key, uint32(mgmtID))
	key = append(key, native.MakeContractKey(c.Hash)...)

	v, err := bc.GetStateModule().GetState(sr.Root, key)
	require.NoError(t, err, "the pair is in contract storage and the root of this height commits to it")
	require.Equal(t, []byte(live), v)

	proof, err := bc.GetStateModule().GetStateProof(sr.Root, key)
	require.NoError(t, err)
	pv, ok := mpt.VerifyProof(sr.Root, key, proof)
	require.True(t, ok)
	require.Equal(t, []byte(live), pv)
}

func TestC03Defect_BigContractStateLeaf_Restart(t *testing.T) {
	dir := t.TempDir()
	open := func() storage.Store {
		st, err := storage.NewLevelDBStore(dbconfig.LevelDBOptions{DataDirectoryPath: dir})
		require.NoError(t, err)
		return st
	}
	bc, acc := chain.NewSingleWithCustomConfigAndStore(t, nil, open(), false)
	go bc.Run()
	e := neotest.NewExecutor(t, bc, acc, acc)
	c, mBytes := c03BigContract(t, e)
	e.DeployContract(t, c, nil)
	e.ValidatorInvoker(c.Hash).Invoke(t, stackitem.Null{}, "update", nil, mBytes)
	h := bc.BlockHeight()
	bc.Close()

	bc2, acc2 := chain.NewSingleWithCustomConfigAndStore(t, nil, open(), true)
	require.Equal(t, h, bc2.BlockHeight())
	e2 := neotest.NewExecutor(t, bc2, acc2, acc2)
	// A perfectly valid transaction (shrink the manifest back) can not be
	// accepted any more: the leaf has to be read from the DB to be replaced.
	mSmall, err := json.Marshal(c.Manifest)
	require.NoError(t, err)
	e2.ValidatorInvoker(c.Hash).Invoke(t, stackitem.Null{}, "update", nil, mSmall)
}
