package core_test

// Demonstration for finding C03/historic-reader-mode (copy into pkg/core of a scratch worktree of the unrepaired tree
// and run  go test -count=1 -run TestHEAD_HistoricVM ./pkg/core/ ). Both tests fail there and passes on the
// repaired tree: with RemoveUntraceableBlocks (state garbage collection) a historic invocation for a height that is
// still retained must return what the live node returned at that height.

import (
	"math/big"
	"testing"

	"github.com/nspcc-dev/neo-go/pkg/config"
	"github.com/nspcc-dev/neo-go/pkg/core"
	"github.com/nspcc-dev/neo-go/pkg/core/native/nativenames"
	"github.com/nspcc-dev/neo-go/pkg/core/transaction"
	"github.com/nspcc-dev/neo-go/pkg/io"
	"github.com/nspcc-dev/neo-go/pkg/neotest"
	"github.com/nspcc-dev/neo-go/pkg/neotest/chain"
	"github.com/nspcc-dev/neo-go/pkg/smartcontract/callflag"
	"github.com/nspcc-dev/neo-go/pkg/smartcontract/trigger"
	"github.com/nspcc-dev/neo-go/pkg/util"
	"github.com/nspcc-dev/neo-go/pkg/vm/emit"
	"github.com/stretchr/testify/require"
)

// Window longer than the chain: the unsigned difference BlockHeight()-MaxTraceableBlocks wrapped around (fix 09f38b3).
func TestHEAD_HistoricVMShortChain(t *testing.T) { historicVMWithStateGC(t, 1000, 1) }

// Window shorter than the chain: heights 2..3 are retained but their nodes are partly inactive (fix fc5bedf).
func TestHEAD_HistoricVMWithStateGC(t *testing.T) { historicVMWithStateGC(t, 3, 2) }

func historicVMWithStateGC(t *testing.T, maxTraceable uint32, firstRetained uint32) {
	bc, acc := chain.NewSingleWithCustomConfig(t, func(c *config.Blockchain) {
		c.Ledger.RemoveUntraceableBlocks = true
		c.MaxTraceableBlocks = maxTraceable
	})
	e := neotest.NewExecutor(t, bc, acc, acc)
	neoH := e.NativeHash(t, nativenames.Neo)
	neoInv := e.ValidatorInvoker(neoH)
	accA := util.Uint160{0xA}

	balanceOf := func(t *testing.T, bc *core.Blockchain, historicNextHeight uint32) (*big.Int, error) {
		w := io.NewBufBinWriter()
		emit.AppCall(w.BinWriter, neoH, "balanceOf", callflag.ReadOnly, accA)
		require.NoError(t, w.Err)
		tx := transaction.New(w.Bytes(), 0)
		if historicNextHeight == 0 {
			ic, err := bc.GetTestVM(trigger.Application, tx, nil)
			require.NoError(t, err)
			defer ic.Finalize()
			ic.VM.LoadScriptWithFlags(tx.Script, callflag.ReadOnly)
			require.NoError(t, ic.VM.Run())
			return ic.VM.Estack().Pop().BigInt(), nil
		}
		ic, err := bc.GetTestHistoricVM(trigger.Application, tx, historicNextHeight)
		if err != nil {
			return nil, err
		}
		defer ic.Finalize()
		ic.VM.LoadScriptWithFlags(tx.Script, callflag.ReadOnly)
		if err := ic.VM.Run(); err != nil {
			return nil, err
		}
		return ic.VM.Estack().Pop().BigInt(), nil
	}

	live := map[uint32]*big.Int{}
	for h, amount := range []int{10, 5, 1, 7} {
		neoInv.Invoke(t, true, "transfer", acc.ScriptHash(), accA, amount, nil)
		v, err := balanceOf(t, bc, 0)
		require.NoError(t, err)
		live[uint32(h+1)] = v
	}
	require.EqualValues(t, 23, live[4].Int64())

	for h := firstRetained; h <= 4; h++ {
		got, err := balanceOf(t, bc, h+1)
		if err != nil {
			t.Errorf("historic invocation for retained height %d fails: %v", h, err)
			continue
		}
		if got.Cmp(live[h]) != 0 {
			t.Errorf("historic balance at height %d: got %s, the live node returned %s", h, got, live[h])
		}
	}
}
