package native_test

// NOT a deliverable of the mutation task: experiments checking two suspected latent
// restart-transparency defects on the UNMODIFIED HEAD. Copy into
// pkg/core/native/native_test/ as head_findings_test.go to run.

import (
	"testing"

	"github.com/nspcc-dev/neo-go/pkg/core"
	"github.com/nspcc-dev/neo-go/pkg/core/native/nativenames"
	"github.com/nspcc-dev/neo-go/pkg/core/storage"
	"github.com/nspcc-dev/neo-go/pkg/core/storage/dbconfig"
	"github.com/nspcc-dev/neo-go/pkg/core/transaction"
	"github.com/nspcc-dev/neo-go/pkg/crypto/keys"
	"github.com/nspcc-dev/neo-go/pkg/neotest"
	"github.com/nspcc-dev/neo-go/pkg/neotest/chain"
	"github.com/nspcc-dev/neo-go/pkg/vm/stackitem"
	"github.com/stretchr/testify/require"
)

func hfOpenLevelDB(t *testing.T, path string) storage.Store {
	st, err := storage.NewLevelDBStore(dbconfig.LevelDBOptions{DataDirectoryPath: path})
	require.NoError(t, err)
	return st
}

func hfHex(pubs keys.PublicKeys) []string {
	res := make([]string, len(pubs))
	for i := range pubs {
		res[i] = pubs[i].StringCompressed()
	}
	return res
}

func hfCompare(t *testing.T, a, b *core.Blockchain) {
	require.Equal(t, a.BlockHeight(), b.BlockHeight())
	ca, err := a.GetCommittee()
	require.NoError(t, err)
	cb, err := b.GetCommittee()
	require.NoError(t, err)
	require.Equal(t, hfHex(ca), hfHex(cb), "committee differs between replicas at height %d", a.BlockHeight())
	for h := uint32(0); h <= a.BlockHeight(); h++ {
		ra, err := a.GetStateRoot(h)
		require.NoError(t, err)
		rb, err := b.GetStateRoot(h)
		require.NoError(t, err)
		require.Equal(t, ra.Root, rb.Root, "state root mismatch at %d", h)
	}
}

type hfEnv struct {
	t             *testing.T
	bcA, bcB      *core.Blockchain
	e             *neotest.Executor
	path          string
	committeeSize int
	bClosed       bool
}

func newHFEnv(t *testing.T) *hfEnv {
	bcA, validators, committee := chain.NewMulti(t)
	e := neotest.NewExecutor(t, bcA, validators, committee)
	env := &hfEnv{t: t, bcA: bcA, e: e, path: t.TempDir()}
	env.bcB, _, _ = chain.NewMultiWithCustomConfigAndStore(t, nil, hfOpenLevelDB(t, env.path), false)
	go env.bcB.Run()
	t.Cleanup(func() {
		if !env.bClosed {
			env.bcB.Close()
		}
	})
	cfg := bcA.GetConfig()
	env.committeeSize = cfg.GetCommitteeSize(0)
	return env
}

func (env *hfEnv) syncB() {
	for h := env.bcB.BlockHeight() + 1; h <= env.bcA.BlockHeight(); h++ {
		require.NoError(env.t, env.bcB.AddBlock(env.e.GetBlockByIndex(env.t, h)))
	}
}

func (env *hfEnv) toEpochStart() {
	env.e.AddNewBlock(env.t)
	for int(env.bcA.BlockHeight())%env.committeeSize != 0 {
		env.e.AddNewBlock(env.t)
	}
	env.syncB()
}

func (env *hfEnv) restartB() {
	env.bcB.Close()
	env.bClosed = true
	env.bcB, _, _ = chain.NewMultiWithCustomConfigAndStore(env.t, nil, hfOpenLevelDB(env.t, env.path), true)
}

// Suspect 1: dropCandidateIfZero deletes gasPerVoteCache entry using 34-byte voter key whereas
// the map is keyed by 33-byte public key => stale gasPerVote survives in RAM, but not in the DB.
func TestHEAD_StaleGasPerVoteCacheAfterCandidateDrop(t *testing.T) {
	env := newHFEnv(t)
	e := env.e
	neoInv := e.ValidatorInvoker(e.NativeHash(t, nativenames.Neo))
	n := env.committeeSize + 1
	voters := make([]neotest.Signer, n)
	candidates := make([]neotest.Signer, n)
	for i := range n {
		voters[i] = e.NewAccount(t, 100_0000_0000)
		candidates[i] = e.NewAccount(t, 5000_0000_0000)
	}
	pub := func(i int) *keys.PublicKey { return candidates[i].(neotest.SingleSigner).Account().PublicKey() }
	var txes []*transaction.Transaction
	for i := range n {
		txes = append(txes,
			neoInv.PrepareInvoke(t, "transfer", e.Validator.ScriptHash(), voters[i].ScriptHash(), int64(n-i)*1000000, nil),
			neoInv.WithSigners(candidates[i]).PrepareInvoke(t, "registerCandidate", pub(i).Bytes()),
			neoInv.WithSigners(voters[i]).PrepareInvoke(t, "vote", voters[i].ScriptHash(), pub(i).Bytes()))
	}
	e.AddNewBlock(t, txes...)
	for _, tx := range txes {
		e.CheckHalt(t, tx.Hash(), stackitem.Make(true))
	}
	env.toEpochStart() // candidates elected
	env.toEpochStart() // rewards for elected committee are accumulated => gasPerVoteCache is filled.
	hfCompare(t, env.bcA, env.bcB)

	// Voter 0 revokes its vote, candidate 0 unregisters => candidate record and voter reward record are dropped.
	neoInv.WithSigners(voters[0]).Invoke(t, true, "vote", voters[0].ScriptHash(), nil)
	neoInv.WithSigners(candidates[0]).Invoke(t, true, "unregisterCandidate", pub(0).Bytes())
	env.syncB()
	env.restartB()
	hfCompare(t, env.bcA, env.bcB)

	// Candidate 0 is back and voter 0 votes for it again.
	neoInv.WithSigners(candidates[0]).Invoke(t, true, "registerCandidate", pub(0).Bytes())
	neoInv.WithSigners(voters[0]).Invoke(t, true, "vote", voters[0].ScriptHash(), pub(0).Bytes())
	env.syncB()
	hfCompare(t, env.bcA, env.bcB)
	env.toEpochStart()
	env.toEpochStart()
	hfCompare(t, env.bcA, env.bcB)
}

// Suspect 2: Policy.blockAccount of a committee candidate doesn't set NEO votesChanged flag, thus
// in a quiet epoch running node doesn't recalculate committee whereas restarted one does.
func TestHEAD_BlockedCandidateQuietEpochRestart(t *testing.T) {
	env := newHFEnv(t)
	e := env.e
	neoInv := e.ValidatorInvoker(e.NativeHash(t, nativenames.Neo))
	gasInv := e.ValidatorInvoker(e.NativeHash(t, nativenames.Gas))
	gasInv.Invoke(t, true, "transfer", e.Validator.ScriptHash(), e.CommitteeHash, 1000_0000_0000, nil)

	// Standby committee members register themselves as candidates, one more outsider candidate.
	cs := env.committeeSize
	standby := make([]neotest.SingleSigner, cs)
	for i := range cs {
		standby[i] = e.Committee.(neotest.MultiSigner).Single(i)
		gasInv.Invoke(t, true, "transfer", e.Validator.ScriptHash(), standby[i].ScriptHash(), 3000_0000_0000, nil)
	}
	outsider := e.NewAccount(t, 5000_0000_0000)
	outsiderPub := outsider.(neotest.SingleSigner).Account().PublicKey()
	n := cs + 1
	voters := make([]neotest.Signer, n)
	for i := range n {
		voters[i] = e.NewAccount(t, 100_0000_0000)
	}
	var txes []*transaction.Transaction
	for i := range n {
		var (
			cand neotest.Signer
			p    *keys.PublicKey
		)
		if i < cs {
			cand = standby[i]
			p = standby[i].Account().PublicKey()
		} else {
			cand = outsider
			p = outsiderPub
		}
		txes = append(txes,
			neoInv.PrepareInvoke(t, "transfer", e.Validator.ScriptHash(), voters[i].ScriptHash(), int64(n-i)*1000000, nil),
			neoInv.WithSigners(cand).PrepareInvoke(t, "registerCandidate", p.Bytes()),
			neoInv.WithSigners(voters[i]).PrepareInvoke(t, "vote", voters[i].ScriptHash(), p.Bytes()))
	}
	e.AddNewBlock(t, txes...)
	for _, tx := range txes {
		e.CheckHalt(t, tx.Hash(), stackitem.Make(true))
	}
	env.toEpochStart()
	env.toEpochStart()
	hfCompare(t, env.bcA, env.bcB)
	comm, err := env.bcA.GetCommittee()
	require.NoError(t, err)
	require.False(t, comm.Contains(outsiderPub))

	// Quiet epoch: committee blocks the account of one of (elected) committee members.
	victim := standby[0]
	e.CommitteeInvoker(e.NativeHash(t, nativenames.Policy)).Invoke(t, true, "blockAccount", victim.ScriptHash())
	env.syncB()
	env.restartB()
	hfCompare(t, env.bcA, env.bcB)
	env.toEpochStart()
	hfCompare(t, env.bcA, env.bcB)
}
