// Copy to pkg/core/mempool/ ; run: go test -count=1 -run 'TestC08Defect_DuplicateConflicts' ./pkg/core/mempool/
//
// checkTxConflicts collects the pooled transactions to be replaced into
// conflictsToBeRemoved without deduplication. A transaction that names the
// same pooled transaction in two Conflicts attributes (the wire format allows
// it, only Blockchain.verifyTxAttributes rejects it, the pool itself does not)
// gets that transaction's fee subtracted twice from the expected fee sum of the
// payer in "Step 3", although it is removed (and its fee released) only once.
// The balance check is then too lenient and the payer ends up with more pooled
// fees than its balance.
package mempool

import (
	"math/big"
	"testing"

	"github.com/nspcc-dev/neo-go/pkg/core/transaction"
	"github.com/nspcc-dev/neo-go/pkg/util"
	"github.com/nspcc-dev/neo-go/pkg/vm/opcode"
	"github.com/stretchr/testify/require"
)

type c08ddFeer struct{ balance int64 }

func (f c08ddFeer) FeePerByte() int64   { return 0 }
func (f c08ddFeer) BlockHeight() uint32 { return 0 }
func (f c08ddFeer) GetUtilityTokenBalance(util.Uint160, util.Uint160) *big.Int {
	return big.NewInt(f.balance)
}

func c08ddTx(nonce uint32, netFee int64, acc util.Uint160, conflicts ...util.Uint256) *transaction.Transaction {
	tx := transaction.New([]byte{byte(opcode.PUSH1)}, 0)
	tx.NetworkFee = netFee
	tx.Nonce = nonce
	tx.Signers = []transaction.Signer{{Account: acc}}
	for _, h := range conflicts {
		tx.Attributes = append(tx.Attributes, transaction.Attribute{
			Type:  transaction.ConflictsT,
			Value: &transaction.Conflicts{Hash: h},
		})
	}
	return tx
}

func TestC08Defect_DuplicateConflictsAttributeOverdraw(t *testing.T) {
	var (
		acc = util.Uint160{1, 2, 3}
		f   = c08ddFeer{balance: 100}
		mp  = New(10, false, nil)
	)
	a := c08ddTx(1, 30, acc)
	b := c08ddTx(2, 60, acc)
	require.NoError(t, mp.Add(a, f))
	require.NoError(t, mp.Add(b, f)) // 90 of 100 reserved

	// Replaces a (30), costs 65: 60 + 65 = 125 > 100, must be rejected.
	// Sanity: with a single Conflicts attribute it is rejected.
	single := c08ddTx(3, 65, acc, a.Hash())
	require.ErrorIs(t, mp.Add(single, f), ErrConflict)

	dup := c08ddTx(4, 65, acc, a.Hash(), a.Hash())
	err := mp.Add(dup, f)

	var sum int64
	for _, tx := range mp.GetVerifiedTransactions() {
		sum += tx.SystemFee + tx.NetworkFee
	}
	require.LessOrEqualf(t, sum, f.balance, "pooled fees of the payer exceed its balance (Add returned %v)", err)
}
