package stackitem

import (
	"testing"

	"github.com/stretchr/testify/require"
)

// A serialized Map whose key is an Array: the bytes are what nobody's
// serializer emits, but every decoder of stored or received stack items
// (StdLib.deserialize, storage iterators, notifications read from the DB,
// RPC parameters) must reject them with an error.
func TestHEAD_DeserializeMapWithCompoundKey(t *testing.T) {
	data := []byte{byte(MapT), 1, byte(ArrayT), 0, byte(BooleanT), 1}
	require.NotPanics(t, func() {
		_, err := Deserialize(data)
		require.Error(t, err)
	})
}
