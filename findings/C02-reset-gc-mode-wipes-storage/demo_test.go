// Copy to pkg/core/ (package core_test); run: go test -count=1 -run TestC02DefectExt_ResetWithRemoveUntraceableBlocks ./pkg/core/ (the file holds another probe of the round-5 C02 agent too). Fails before the fix ('failed to decode committee: EOF'), passes after it.
// All the tests of this file FAIL on the unmodified tree, each of them shows a separate defect.
package core_test

import (
	"testing"

	"github.com/nspcc-dev/neo-go/pkg/config"
	"github.com/nspcc-dev/neo-go/pkg/core"
	"github.com/nspcc-dev/neo-go/pkg/core/native/nativenames"
	"github.com/nspcc-dev/neo-go/pkg/core/storage"
	"github.com/nspcc-dev/neo-go/pkg/core/transaction"
	"github.com/nspcc-dev/neo-go/pkg/neotest"
	"github.com/nspcc-dev/neo-go/pkg/neotest/chain"
	"github.com/nspcc-dev/neo-go/pkg/util"
	"github.com/stretchr/testify/require"
)

// c02dKeepStore is an in-memory DB that survives Blockchain.Close().
type c02dKeepStore struct{ storage.Store }

func (c02dKeepStore) Close() error { return nil }

// Defect 5 (state reset): with RemoveUntraceableBlocks the reset reads contract
// storage of the target height via a trie store with mpt.ModeGCFlag, which hides
// every MPT node superseded by a later block, the root of the target height being
// the first of them. No storage items are copied, all stages are committed
// nevertheless, the old storage is removed and the reset fails in the very end
// leaving a database with no contract storage at all (the node can't start any
// more). Compare with GetTestHistoricVM that had the same problem.
func TestC02DefectExt_ResetWithRemoveUntraceableBlocks(t *testing.T) {
	cfg := func(c *config.Blockchain) {
		c.RemoveUntraceableBlocks = true // MaxTraceableBlocks is big, nothing is removed in fact.
	}
	st := c02dKeepStore{storage.NewMemoryStore()}
	bc, acc := chain.NewSingleWithCustomConfigAndStore(t, cfg, st, false)
	go bc.Run()
	e := neotest.NewExecutor(t, bc, acc, acc)
	e.GenerateNewBlocks(t, 10)
	sr5, err := bc.GetStateRoot(5)
	require.NoError(t, err)
	bc.Close()

	bc, _ = chain.NewSingleWithCustomConfigAndStore(t, cfg, st, false)
	require.Equal(t, uint32(10), bc.BlockHeight())
	require.NoError(t, bc.Reset(5))
	require.Equal(t, uint32(5), bc.BlockHeight())
	sr, err := bc.GetStateRoot(5)
	require.NoError(t, err)
	require.Equal(t, sr5.Root, sr.Root)
}

// Defect 6 (state reset): a conflict record (the stub stored for the hash
// mentioned in Conflicts attribute) is overwritten by every new transaction
// that conflicts with the same hash and is removed with the block of the last
// of them. A reset to the height between two such transactions removes the
// record completely though the first transaction is still on the chain, so the
// reset node accepts a transaction that the node synchronised to the same
// height rejects.
func TestC02DefectExt_ResetLosesConflictRecord(t *testing.T) {
	st := c02dKeepStore{storage.NewMemoryStore()}
	bc, acc := chain.NewSingleWithCustomConfigAndStore(t, nil, st, false)
	go bc.Run()
	e := neotest.NewExecutor(t, bc, acc, acc)
	gas := e.NativeHash(t, nativenames.Gas)
	newTx := func(nonce uint32, conflicts ...util.Uint256) *transaction.Transaction {
		tx := e.NewUnsignedTx(t, gas, "transfer", acc.ScriptHash(), util.Uint160{1, 2, 3}, 1, nil)
		tx.Nonce = nonce
		tx.ValidUntilBlock = 100
		for _, h := range conflicts {
			tx.Attributes = append(tx.Attributes, transaction.Attribute{Type: transaction.ConflictsT, Value: &transaction.Conflicts{Hash: h}})
		}
		return e.SignTx(t, tx, -1, acc)
	}
	victim := newTx(1)
	e.AddNewBlock(t, newTx(2, victim.Hash())) // 1
	e.AddNewBlock(t)                          // 2
	e.AddNewBlock(t, newTx(3, victim.Hash())) // 3
	e.AddNewBlock(t)                          // 4
	require.ErrorIs(t, bc.VerifyTx(victim), core.ErrHasConflicts)

	// The node that has only ever been synchronised to 2.
	ref, _ := chain.NewSingleWithCustomConfigAndStore(t, nil, nil, true)
	for i := uint32(1); i <= 2; i++ {
		b, err := bc.GetBlock(bc.GetHeaderHash(i))
		require.NoError(t, err)
		require.NoError(t, ref.AddBlock(b))
	}
	require.ErrorIs(t, ref.VerifyTx(victim), core.ErrHasConflicts)
	bc.Close()

	bc, _ = chain.NewSingleWithCustomConfigAndStore(t, nil, st, false)
	require.NoError(t, bc.Reset(2))
	require.Equal(t, uint32(2), bc.BlockHeight())
	require.ErrorIs(t, bc.VerifyTx(victim), core.ErrHasConflicts, "the reset node accepts a transaction that conflicts with the on-chain one")
}
