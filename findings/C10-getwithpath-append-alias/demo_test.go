package mpt

// Demonstration for finding C10/append-alias: (*Trie).getWithPath returns append(n.key, prefix...) for an
// extension node. Extension keys created by the batch path are sub-slices of the batch's key nibbles, so they
// have spare capacity: the append writes the looked-up path over the nibbles that follow the extension key in
// the shared array, i.e. over the keys of the nodes below it. A read changes the trie.
// Copy into /repo/pkg/core/mpt/ and run: go test -run TestVerifDemoGetDoesNotCorruptTrie ./pkg/core/mpt/

import (
	"testing"

	"github.com/nspcc-dev/neo-go/pkg/core/storage"
	"github.com/stretchr/testify/require"
)

func TestVerifDemoGetDoesNotCorruptTrie(t *testing.T) {
	tr := NewTrie(EmptyNode{}, ModeAll, storage.NewMemCachedStore(storage.NewMemoryStore()))
	b := MapToMPTBatch(map[string][]byte{
		string([]byte{0x70, 0xAB, 0x12}): {1}, // MapToMPTBatch strips the leading storage prefix byte
		string([]byte{0x70, 0xAB, 0x25}): {2},
	})
	_, err := tr.PutBatch(b)
	require.NoError(t, err)
	root := tr.StateRoot()

	for i := 0; i < 2; i++ { // reads must be repeatable and must not depend on their order
		v, err := tr.Get([]byte{0xAB, 0x12})
		require.NoError(t, err)
		require.Equal(t, []byte{1}, v)
		v, err = tr.Get([]byte{0xAB, 0x25})
		require.NoError(t, err, "second key is lost after reading the first one")
		require.Equal(t, []byte{2}, v)
	}
	require.Equal(t, root, tr.StateRoot())
}
