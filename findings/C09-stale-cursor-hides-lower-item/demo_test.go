// copy to: pkg/core/storage ; run: go test ./pkg/core/storage/ -run 'TestC09Defect_StaleCutMemKeyHidesLowerItem' -count=1
package storage

import (
	"context"
	"slices"
	"testing"

	"github.com/stretchr/testify/require"
)

// performSeek's merge callback compares the lower-store key with kvMem.Key even
// when there are no more in-memory items left (haveMem == false). With
// cutPrefix == true (SeekAsync as used by dao.SeekAsync / System.Storage.Find)
// kvMem.Key then still holds the *prefix-trimmed* key of the last in-memory
// item. If that trimmed key happens to be byte-equal to the full key of a
// lower-store item, the lower item is taken for "overridden by the cache" and
// silently dropped from the result.
func TestC09Defect_StaleCutMemKeyHidesLowerItem(t *testing.T) {
	// Contract storage prefix: STStorage + contract ID 1 (LE).
	prefix := []byte{byte(STStorage), 1, 0, 0, 0}
	lowerKey := slices.Concat(prefix, []byte("zz"))         // user key "zz", committed in the lower layer
	upperKey := slices.Concat(prefix, prefix, []byte("zz")) // user key "\x70\x01\x00\x00\x00zz", pending in the upper layer

	for name, newCached := range map[string]func(Store) *MemCachedStore{
		"shared":  NewMemCachedStore,
		"private": NewPrivateMemCachedStore,
	} {
		t.Run(name, func(t *testing.T) {
			ps := NewMemoryStore()
			require.NoError(t, ps.PutChangeSet(nil, map[string][]byte{string(lowerKey): []byte("lower")}))
			ts := newCached(ps)
			ts.Put(upperKey, []byte("upper"))

			// Reference: plain Seek (no trimming) sees both.
			var plain []string
			ts.Seek(SeekRange{Prefix: prefix}, func(k, v []byte) bool {
				plain = append(plain, string(k))
				return true
			})
			require.Equal(t, []string{string(upperKey), string(lowerKey)}, plain)

			// Trimming variant must return the same items with the prefix cut.
			var got []string
			for kv := range ts.SeekAsync(context.Background(), SeekRange{Prefix: prefix}, true) {
				got = append(got, string(kv.Key))
			}
			require.Equal(t, []string{string(upperKey[len(prefix):]), string(lowerKey[len(prefix):])}, got)
		})
	}
}
