// Copy to pkg/core/mempool/ ; run: go test ./pkg/core/mempool/ -run 'TestC08Defect_VerifyWritesUnderReadLock' -count=1
// (the test binary dies with "fatal error: concurrent map writes"; with -race it reports DATA RACE at mem_pool.go:666/187 first).
package mempool_test

import (
	"math/big"
	"sync"
	"testing"

	"github.com/nspcc-dev/neo-go/pkg/core/mempool"
	"github.com/nspcc-dev/neo-go/pkg/core/transaction"
	"github.com/nspcc-dev/neo-go/pkg/util"
	"github.com/nspcc-dev/neo-go/pkg/vm/opcode"
)

type c08defFeer struct{}

func (c08defFeer) FeePerByte() int64   { return 0 }
func (c08defFeer) BlockHeight() uint32 { return 1 }
func (c08defFeer) GetUtilityTokenBalance(_, _ util.Uint160) *big.Int {
	return big.NewInt(1000)
}

// Pool.Verify is a query: it takes the read lock only. But checkTxConflicts,
// which it calls, stores the balance of a payer it sees for the first time
// into mp.fees (`if !ok && err == nil { mp.fees[p] = actualPayerFee }`), so
// two concurrent Verify calls (or Verify and any other reader) write to the
// same map under a shared lock.
func TestC08Defect_VerifyWritesUnderReadLock(t *testing.T) {
	const workers = 8
	var (
		mp = mempool.New(100, false, nil)
		fs = c08defFeer{}
		wg sync.WaitGroup
	)
	wg.Add(workers)
	for w := range workers {
		go func() {
			defer wg.Done()
			for i := range 2000 {
				tx := transaction.New([]byte{byte(opcode.PUSH1)}, 0)
				tx.NetworkFee = 1
				tx.Signers = []transaction.Signer{{Account: util.Uint160{byte(w), byte(i), byte(i >> 8), 1}}}
				if !mp.Verify(tx, fs) {
					t.Error("solvent payer is not verified")
					return
				}
			}
		}()
	}
	wg.Wait()
}
