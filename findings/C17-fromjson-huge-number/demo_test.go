package stackitem

import (
	"testing"

	"github.com/stretchr/testify/require"
)

// A JSON number that is an exact integer but does not fit into 256 bits.
func TestHEAD_FromJSONHugeNumber(t *testing.T) {
	for _, best := range []bool{false, true} {
		require.NotPanics(t, func() {
			_, err := FromJSON([]byte(`1e100`), MaxDeserialized, best)
			require.Error(t, err)
		})
	}
}
