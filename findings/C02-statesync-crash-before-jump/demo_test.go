package core_test

import (
	"bytes"
	"fmt"
	"sort"
	"testing"

	"github.com/nspcc-dev/neo-go/internal/basicchain"
	"github.com/nspcc-dev/neo-go/pkg/config"
	"github.com/nspcc-dev/neo-go/pkg/core"
	"github.com/nspcc-dev/neo-go/pkg/core/block"
	"github.com/nspcc-dev/neo-go/pkg/core/mpt"
	"github.com/nspcc-dev/neo-go/pkg/core/storage"
	"github.com/nspcc-dev/neo-go/pkg/neotest"
	"github.com/nspcc-dev/neo-go/pkg/neotest/chain"
	"github.com/nspcc-dev/neo-go/pkg/util"
	"github.com/stretchr/testify/require"
)

type xSnapStore struct {
	*storage.MemoryStore
	snaps []map[string][]byte
	kinds []string
	on    bool
}

func xDump(s storage.Store) map[string][]byte {
	res := make(map[string][]byte)
	for p := range 256 {
		s.Seek(storage.SeekRange{Prefix: []byte{byte(p)}}, func(k, v []byte) bool {
			res[string(k)] = bytes.Clone(v)
			return true
		})
	}
	return res
}

func xRestore(m map[string][]byte) *xSnapStore {
	s := storage.NewMemoryStore()
	mem := make(map[string][]byte)
	stor := make(map[string][]byte)
	for k, v := range m {
		switch storage.KeyPrefix(k[0]) {
		case storage.STStorage, storage.STTempStorage:
			stor[k] = bytes.Clone(v)
		default:
			mem[k] = bytes.Clone(v)
		}
	}
	_ = s.PutChangeSet(mem, stor)
	return &xSnapStore{MemoryStore: s}
}

func (c *xSnapStore) PutChangeSet(p, s map[string][]byte) error {
	err := c.MemoryStore.PutChangeSet(p, s)
	if c.on {
		c.snaps = append(c.snaps, xDump(c.MemoryStore))
		c.kinds = append(c.kinds, fmt.Sprintf("put(%d)", len(p)+len(s)))
	}
	return err
}

func (c *xSnapStore) SeekGC(rng storage.SeekRange, keep func(k, v []byte) (bool, bool)) error {
	err := c.MemoryStore.SeekGC(rng, keep)
	if c.on {
		c.snaps = append(c.snaps, xDump(c.MemoryStore))
		c.kinds = append(c.kinds, fmt.Sprintf("gc(%x)", rng.Prefix))
	}
	return err
}

func (c *xSnapStore) Close() error { return nil }

func xDiff(a, b map[string][]byte) []string {
	var res []string
	for k, v := range a {
		w, ok := b[k]
		if !ok {
			res = append(res, fmt.Sprintf("only in A: %x", k))
		} else if !bytes.Equal(v, w) {
			res = append(res, fmt.Sprintf("differs: %x", k))
		}
	}
	for k := range b {
		if _, ok := a[k]; !ok {
			res = append(res, fmt.Sprintf("only in B: %x", k))
		}
	}
	sort.Strings(res)
	return res
}

func TestExploreStateSyncCrash(t *testing.T) {
	const (
		stateSyncInterval = 4
		maxTraceable      = 6
		stateSyncPoint    = 24
		trustedHeader     = stateSyncPoint - 2*maxTraceable + 2
	)
	spoutCfg := func(c *config.Blockchain) {
		c.StateRootInHeader = true
		c.StateSyncInterval = stateSyncInterval
		c.MaxTraceableBlocks = maxTraceable
		c.P2PStateExchangeExtensions = true
		c.Hardforks = map[string]uint32{
			config.HFAspidochelone.String(): 0,
			config.HFBasilisk.String():      0,
			config.HFCockatrice.String():    0,
			config.HFDomovoi.String():       0,
			config.HFEchidna.String():       0,
		}
	}
	bcSpout, validators, committee := chain.NewMultiWithCustomConfigAndStore(t, spoutCfg, nil, true)
	e := neotest.NewExecutor(t, bcSpout, validators, committee)
	basicchain.Init(t, "../../", e)
	e.AddNewBlock(t)
	e.AddNewBlock(t)
	e.AddNewBlock(t)
	require.Equal(t, stateSyncPoint+2, int(bcSpout.BlockHeight()))

	boltCfg := func(c *config.Blockchain) {
		spoutCfg(c)
		c.KeepOnlyLatestState = true
		c.RemoveUntraceableBlocks = true
		c.TrustedHeader = config.HashIndex{
			Hash:  bcSpout.GetHeaderHash(trustedHeader),
			Index: trustedHeader,
		}
	}

	var headers []*block.Header
	for i := uint32(trustedHeader); i <= bcSpout.HeaderHeight(); i++ {
		h, err := bcSpout.GetHeader(bcSpout.GetHeaderHash(i))
		require.NoError(t, err)
		headers = append(headers, h)
	}
	hdr, err := bcSpout.GetHeader(bcSpout.GetHeaderHash(stateSyncPoint + 1))
	require.NoError(t, err)
	nodesMap := make(map[util.Uint256][]byte)
	require.NoError(t, bcSpout.GetStateSyncModule().Traverse(hdr.PrevStateRoot, func(n mpt.Node, nodeBytes []byte) bool {
		nodesMap[n.Hash()] = bytes.Clone(nodeBytes)
		return false
	}))

	// drive performs (the rest of) the state sync and adds the remaining blocks.
	drive := func(t *testing.T, bcBolt *core.Blockchain) {
		module := bcBolt.GetStateSyncModule()
		require.NoError(t, module.Init(bcSpout.BlockHeight()))
		if module.IsActive() {
			if module.NeedHeaders() {
				require.NoError(t, module.AddHeaders(headers...))
			}
			for module.NeedStorageData() {
				need := module.GetUnknownMPTNodesBatch(3)
				require.NotEmpty(t, need)
				add := make([][]byte, len(need))
				for i, h := range need {
					nb, ok := nodesMap[h]
					require.True(t, ok)
					add[i] = nb
				}
				require.NoError(t, module.AddMPTNodes(add))
			}
			if module.NeedBlocks() {
				for i := module.BlockHeight() + 1; i <= stateSyncPoint; i++ {
					b, err := bcSpout.GetBlock(bcSpout.GetHeaderHash(i))
					require.NoError(t, err)
					require.NoError(t, module.AddBlock(b))
				}
			}
		}
		require.False(t, module.IsActive())
		require.Equal(t, uint32(stateSyncPoint), bcBolt.BlockHeight())
	}
	finish := func(t *testing.T, bcBolt *core.Blockchain) {
		go bcBolt.Run()
		for i := uint32(stateSyncPoint + 1); i <= bcSpout.BlockHeight(); i++ {
			b, err := bcSpout.GetBlock(bcSpout.GetHeaderHash(i))
			require.NoError(t, err)
			require.NoError(t, bcBolt.AddBlock(b))
		}
		bcBolt.Close()
	}

	ref := &xSnapStore{MemoryStore: storage.NewMemoryStore(), on: true}
	bcBolt, _, _ := chain.NewMultiWithCustomConfigAndStore(t, boltCfg, ref, false)
	drive(t, bcBolt)
	snaps := ref.snaps
	kinds := ref.kinds
	ref.on = false
	finish(t, bcBolt)
	final := xDump(ref.MemoryStore)
	t.Logf("batches: %v", kinds)

	for k := 1; k <= len(snaps); k++ {
		t.Run(fmt.Sprintf("crash after %d %s", k, kinds[k-1]), func(t *testing.T) {
			s := xRestore(snaps[k-1])
			bc, _, _, err := chain.NewMultiWithCustomConfigAndStoreNoCheck(t, boltCfg, s)
			require.NoError(t, err)
			drive(t, bc)
			finish(t, bc)
			require.Empty(t, xDiff(final, xDump(s.MemoryStore)))
		})
	}
}
