package statesync

import (
	"bytes"
	"testing"

	"github.com/nspcc-dev/neo-go/pkg/config"
	"github.com/nspcc-dev/neo-go/pkg/core/block"
	"github.com/nspcc-dev/neo-go/pkg/core/dao"
	"github.com/nspcc-dev/neo-go/pkg/core/mpt"
	"github.com/nspcc-dev/neo-go/pkg/core/storage"
	"github.com/nspcc-dev/neo-go/pkg/core/transaction"
	"github.com/nspcc-dev/neo-go/pkg/crypto/hash"
	"github.com/nspcc-dev/neo-go/pkg/util"
	"github.com/stretchr/testify/require"
	"go.uber.org/zap/zaptest"
)

// demoLedger is the smallest Ledger defineSyncStage needs: headers are synced,
// the header after the sync point names the state root to restore.
type demoLedger struct {
	root util.Uint256
}

func (l *demoLedger) AddHeaders(...*block.Header) error { return nil }
func (l *demoLedger) BlockHeight() uint32               { return 0 }
func (l *demoLedger) IsHardforkEnabled(*config.Hardfork, uint32) bool {
	return false
}
func (l *demoLedger) GetConfig() config.Blockchain {
	return config.Blockchain{Ledger: config.Ledger{KeepOnlyLatestState: true}, ProtocolConfiguration: config.ProtocolConfiguration{MaxTraceableBlocks: 1000}}
}
func (l *demoLedger) GetHeader(util.Uint256) (*block.Header, error) {
	return &block.Header{PrevStateRoot: l.root}, nil
}
func (l *demoLedger) GetHeaderHash(uint32) util.Uint256 { return util.Uint256{1} }
func (l *demoLedger) HeaderHeight() uint32              { return 200 }
func (l *demoLedger) NativePolicyID() int32             { return -7 }
func (l *demoLedger) VerifyWitness(util.Uint160, hash.Hashable, *transaction.Witness, int64) (int64, error) {
	return 0, nil
}

// A state in which two keys that differ in their last nibble hold the same
// value (two accounts with equal balances, say): the branch above them has two
// leaf children with one and the same hash. The node restores both of them,
// is restarted before the rest of the trie arrived, and must resume the
// synchronisation.
func TestHEAD_RestartWithEqualHashSiblings(t *testing.T) {
	src := storage.NewMemCachedStore(storage.NewMemoryStore())
	tr := mpt.NewTrie(nil, mpt.ModeLatest, src)
	require.NoError(t, tr.Put([]byte{0x11, 0x21}, []byte("same")))
	require.NoError(t, tr.Put([]byte{0x11, 0x22}, []byte("same")))
	require.NoError(t, tr.Put([]byte{0x33}, []byte("other")))
	sr := tr.StateRoot()
	tr.Flush(0)
	nodes := make(map[util.Uint256][]byte)
	src.Seek(storage.SeekRange{Prefix: []byte{byte(storage.DataMPT)}}, func(k, v []byte) bool {
		h, err := util.Uint256DecodeBytesBE(k[1:])
		require.NoError(t, err)
		nodes[h] = bytes.Clone(v[:len(v)-4])
		return true
	})
	otherLeaf := mpt.NewLeafNode([]byte("other")).Hash()

	db := storage.NewMemCachedStore(storage.NewMemoryStore())
	newModule := func() *Module {
		return &Module{
			log:          zaptest.NewLogger(t),
			mode:         MPTBased,
			syncPoint:    100,
			syncInterval: 100,
			dao:          dao.NewSimple(db, true),
			mptpool:      NewPool(),
			bc:           &demoLedger{root: sr},
		}
	}
	s := newModule()
	require.NoError(t, s.defineSyncStage()) // fresh start: only the root is unknown
	require.Equal(t, 1, s.mptpool.Count())

	// Everything but one leaf arrives.
	for {
		var sent bool
		for _, h := range s.GetUnknownMPTNodesBatch(100) {
			if h == otherLeaf {
				continue
			}
			require.NoError(t, s.AddMPTNodes([][]byte{nodes[h]}))
			sent = true
		}
		if !sent {
			break
		}
	}
	require.Equal(t, []util.Uint256{otherLeaf}, s.GetUnknownMPTNodesBatch(100))
	_, err := s.dao.Persist() // what the node's regular flush does
	require.NoError(t, err)

	// Restart.
	s = newModule()
	require.NotPanics(t, func() { require.NoError(t, s.defineSyncStage()) })
	require.Equal(t, []util.Uint256{otherLeaf}, s.GetUnknownMPTNodesBatch(100))
	require.NoError(t, s.AddMPTNodes([][]byte{nodes[otherLeaf]}))
	require.NotZero(t, s.syncStage&mptSynced)
}
