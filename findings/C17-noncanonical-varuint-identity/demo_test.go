package transaction

// Demonstration for finding 3 (C07/C17 hash-canonical, repaired): NewTransactionFromBytes (used for transactions
// arriving in P2P "tx" messages and over RPC) hashes and sizes the RECEIVED bytes, while io.BinReader.ReadVarUint
// accepts non-minimal length prefixes. The same transaction content encoded with `fd 01 00` instead of `01` for
// the signer count therefore gets another Hash() and Size() than the canonical encoding that block peers
// (and this node itself after re-encoding) compute: identity depends on the path by which the bytes arrived.
// The test fails on the tree before the repair and passes after it: a decoder may refuse the other encodings (the
// repair does), or accept them and give the content its one identity - what it may not do is accept them under another.
// This test uses a non-minimal length prefix; a group key in uncompressed form and a boolean other than 0/1 are other
// encodings of one content that the same repair refuses.
// Copy into /repo/pkg/core/transaction/ and run: go test -run TestVerifDemoHashIndependentOfLengthPrefix ./pkg/core/transaction/

import (
	"bytes"
	"testing"

	"github.com/nspcc-dev/neo-go/pkg/util"
	"github.com/stretchr/testify/require"
)

func TestVerifDemoHashIndependentOfLengthPrefix(t *testing.T) {
	tx := New([]byte{0x11}, 1)
	tx.Signers = []Signer{{Account: util.Uint160{1, 2, 3}}}
	tx.Scripts = []Witness{{InvocationScript: []byte{}, VerificationScript: []byte{}}}
	canonical := tx.Bytes()
	want := tx.Hash()

	// version(1) nonce(4) sysfee(8) netfee(8) vub(4) => the signer count is byte 25
	const off = 1 + 4 + 8 + 8 + 4
	require.Equal(t, byte(1), canonical[off])
	alt := bytes.Join([][]byte{canonical[:off], {0xfd, 0x01, 0x00}, canonical[off+1:]}, nil)

	got, err := NewTransactionFromBytes(alt)
	if err != nil {
		return // refused: nothing has two identities
	}
	// Same content...
	reenc, err := NewTransactionFromBytes(got.Bytes())
	require.NoError(t, err)
	require.Equal(t, want, reenc.Hash())
	// ...must mean same identity.
	require.Equal(t, want, got.Hash(), "hash of a transaction depends on the length-prefix form it arrived in")
	require.Equal(t, len(canonical), got.Size(), "size of a transaction depends on the length-prefix form it arrived in")
}
