// Copy to pkg/core/mpt/ (package mpt); run: go test ./pkg/core/mpt/ -run 'TestC17Defect_' -count=1
package mpt

import (
	"testing"

	"github.com/nspcc-dev/neo-go/pkg/io"
	"github.com/stretchr/testify/require"
)

// An extension node with an empty child is accepted by the decoder, but its
// Size() assumes a hash child ("e.next is never empty"), so the reported size
// is 32 bytes bigger than the encoding. (Low severity: Size() is used for
// buffer preallocation only.)
func TestC17Defect_DecodedExtensionNodeSize(t *testing.T) {
	raw := []byte{byte(ExtensionT), 1, 0x05, byte(EmptyT)}
	var n NodeObject
	r := io.NewBinReaderFromBuf(raw)
	n.DecodeBinary(r)
	if r.Err != nil {
		return // refused: nothing to report a size for (the repaired behaviour)
	}

	w := io.NewBufBinWriter()
	n.Node.EncodeBinary(w.BinWriter)
	require.NoError(t, w.Err)
	require.Equal(t, len(w.Bytes()), n.Node.Size())
}
