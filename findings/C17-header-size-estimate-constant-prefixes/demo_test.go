// Copy to pkg/core/block/ ; run: go test ./pkg/core/block/ -run 'TestC17Defect3' -count=1
package block

import (
	"testing"

	"github.com/nspcc-dev/neo-go/pkg/crypto/keys"
	"github.com/nspcc-dev/neo-go/pkg/io"
	"github.com/nspcc-dev/neo-go/pkg/smartcontract"
	"github.com/nspcc-dev/neo-go/pkg/vm/emit"
	"github.com/stretchr/testify/require"
)

// DEFECT (unmodified tree): GetExpectedHeaderSize equals the length of a
// header's encoding only for 5..7 validators. It is 2 bytes too big for 1..4
// validators (the invocation script of m<=3 signatures needs a 1-byte length
// prefix, 3 are counted) and 2-3 bytes too SMALL for 8 and more (the
// verification script gets longer than 252 bytes and needs a 3-byte prefix,
// PUSHINT8 is needed for n>16). The NeoFS block fetcher uses the value as the
// length of the range to read a header from a block object, so with >7
// validators the header is cut and can't be decoded.
func TestC17Defect3_ExpectedHeaderSize(t *testing.T) {
	for _, n := range []int{1, 4, 7, 10, 21} {
		for _, sr := range []bool{false, true} {
			pubs := make(keys.PublicKeys, n)
			for i := range pubs {
				p, err := keys.NewPrivateKey()
				require.NoError(t, err)
				pubs[i] = p.PublicKey()
			}
			m := smartcontract.GetDefaultHonestNodeCount(n)
			vs, err := smartcontract.CreateMultiSigRedeemScript(m, pubs)
			require.NoError(t, err)
			w := io.NewBufBinWriter()
			for range m {
				emit.Bytes(w.BinWriter, make([]byte, keys.SignatureLen))
			}
			h := &Header{StateRootEnabled: sr}
			h.Script.InvocationScript = w.Bytes()
			h.Script.VerificationScript = vs

			bw := io.NewBufBinWriter()
			h.EncodeBinary(bw.BinWriter)
			require.NoError(t, bw.Err)
			require.Equal(t, bw.Len(), GetExpectedHeaderSize(sr, n), "validators: %d, state root: %t", n, sr)
		}
	}
}
