package bqueue

// Demonstration for finding C20/chan-typestate: Queue.Put (Blocking mode) re-acquires the lock after waiting
// and signals on checkBlocks without re-checking `discarded`; a Discard() that lands between the in-loop
// check and the re-lock closes the channel first => "send on closed channel" panic in the P2P handler.
// The schedule is forced deterministically: the chain's Height() (called by Put inside the wait loop, right
// after the discarded check) performs the Discard() and then reports a height that lets Put proceed.
// Copy into /repo/pkg/network/bqueue/ and run: go test -run TestVerifDemoPutAfterDiscard ./pkg/network/bqueue/

import (
	"sync/atomic"
	"testing"

	"github.com/stretchr/testify/require"
	"go.uber.org/zap/zaptest"
)

type demoItem struct{ idx uint32 }

func (d *demoItem) GetIndex() uint32 { return d.idx }

type demoChain struct {
	calls  atomic.Int32
	height atomic.Uint32
	hook   func()
}

func (c *demoChain) AddItem(*demoItem) error     { return nil }
func (c *demoChain) AddItems(...*demoItem) error { return nil }
func (c *demoChain) Height() uint32 {
	if c.calls.Add(1) == 2 && c.hook != nil { // 1st call: top of Put; 2nd call: inside the wait loop
		c.hook()
	}
	return c.height.Load()
}

func TestVerifDemoPutAfterDiscard(t *testing.T) {
	chain := &demoChain{}
	q := New[*demoItem](chain, zaptest.NewLogger(t), nil, 2, nil, Blocking)
	chain.hook = func() {
		q.Discard()            // node switches sync stage: queue is dropped...
		chain.height.Store(49) // ...while the chain has moved on, so the waiting Put may proceed
	}
	require.NotPanics(t, func() { _ = q.Put(&demoItem{idx: 50}) })
}
