package stackitem

import "testing"

func TestHEAD_DeserializeHugeCount(t *testing.T) {
	for name, data := range map[string][]byte{
		"array":  {byte(ArrayT), 0xff, 0xff, 0xff, 0xff, 0xff, 0xff, 0xff, 0xff, 0xff},
		"struct": {byte(StructT), 0xff, 0xff, 0xff, 0xff, 0xff, 0xff, 0xff, 0xff, 0xff},
		"map":    {byte(MapT), 0xff, 0xff, 0xff, 0xff, 0xff, 0xff, 0xff, 0xff, 0xff},
	} {
		func() {
			defer func() {
				if r := recover(); r != nil {
					t.Errorf("%s: Deserialize panics on a 10-byte input: %v", name, r)
				}
			}()
			if _, err := Deserialize(data); err == nil {
				t.Errorf("%s: Deserialize accepts an element count of 2^64-1", name)
			}
		}()
	}
}
