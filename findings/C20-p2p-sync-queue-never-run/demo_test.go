// Copy to pkg/network/ ; run: go test ./pkg/network/ -count=1 -run 'TestC20Defect_P2PStateSyncBlocksAreNeverApplied'
package network

import (
	"sync"
	"testing"
	"time"

	"github.com/nspcc-dev/neo-go/internal/fakechain"
	"github.com/nspcc-dev/neo-go/pkg/config"
	"github.com/nspcc-dev/neo-go/pkg/core/block"
	"github.com/stretchr/testify/require"
	"go.uber.org/zap/zaptest"
)

// c20StateSync is a state sync module at its third stage: headers and MPT are
// in sync, blocks up to the sync point are needed.
type c20StateSync struct {
	*fakechain.FakeStateSync
	mtx    sync.Mutex
	height uint32
}

func (s *c20StateSync) NeedBlocks() bool      { return true }
func (s *c20StateSync) NeedStorageData() bool { return false }
func (s *c20StateSync) BlockHeight() uint32 {
	s.mtx.Lock()
	defer s.mtx.Unlock()
	return s.height
}
func (s *c20StateSync) AddBlock(b *block.Block) error {
	s.mtx.Lock()
	defer s.mtx.Unlock()
	if b.Index == s.height+1 {
		s.height++
	}
	return nil
}

// In the P2P state exchange mode (P2PStateExchangeExtensions without
// NeoFSStateSyncExtensions) blocks received at the third stage of state sync are
// put into Server.bSyncQueue, but the only place that starts the loop draining
// this queue is stateSyncCallBack, and it is registered as the module's callback
// only if NeoFSStateSyncExtensions is on. The blocks never reach the module,
// the node can't complete state synchronisation.
func TestC20Defect_P2PStateSyncBlocksAreNeverApplied(t *testing.T) {
	stSync := &c20StateSync{FakeStateSync: new(fakechain.FakeStateSync)}
	stSync.IsActiveFlag.Store(true)
	stSync.IsInitializedFlag.Store(true)
	chain := fakechain.NewFakeChainWithCustomCfg(func(c *config.Blockchain) {
		c.P2PStateExchangeExtensions = true
		c.StateRootInHeader = true
		c.RemoveUntraceableBlocks = true
	})
	s, err := newServerFromConstructors(ServerConfig{
		UserAgent: "/test/",
		Addresses: []config.AnnounceableAddress{{Address: ":0"}},
	}, chain, stSync, zaptest.NewLogger(t), newFakeTransp, newTestDiscovery)
	require.NoError(t, err)
	startWithCleanup(t, s)

	for i := uint32(1); i <= 3; i++ {
		b := block.New(true)
		b.Index = i
		s.testHandleMessage(t, nil, CMDBlock, b)
	}
	require.Eventually(t, func() bool { return stSync.BlockHeight() == 3 }, 3*time.Second, 50*time.Millisecond,
		"blocks received from peers must reach the state sync module")
}
