package mempool

// Demonstration for finding C08/add-failure-atomic (Pool.Add records oracleResp[id] before the capacity exit).
// Copy into /repo/pkg/core/mempool/ and run: go test -run TestVerifDemoOracleRespBeforeOOM ./pkg/core/mempool/
// On the unrepaired tree the failed Add leaves an index entry for a transaction that is not pooled and the
// next response to the same request panics with a nil dereference; passes after the fix.

import (
	"testing"

	"github.com/nspcc-dev/neo-go/pkg/core/transaction"
	"github.com/nspcc-dev/neo-go/pkg/util"
	"github.com/nspcc-dev/neo-go/pkg/vm/opcode"
	"github.com/stretchr/testify/require"
)

func TestVerifDemoOracleRespBeforeOOM(t *testing.T) {
	fs := &FeerStub{balance: 1000000}
	mp := New(1, false, nil)
	mk := func(fee int64, nonce uint32, oracleID int64) *transaction.Transaction {
		tx := transaction.New([]byte{byte(opcode.PUSH1)}, 0)
		tx.Nonce = nonce
		tx.NetworkFee = fee
		tx.Signers = []transaction.Signer{{Account: util.Uint160{1, 2, 3}}}
		if oracleID >= 0 {
			tx.Attributes = []transaction.Attribute{{Type: transaction.OracleResponseT, Value: &transaction.OracleResponse{ID: uint64(oracleID)}}}
		}
		return tx
	}
	require.NoError(t, mp.Add(mk(1000, 1, -1), fs)) // pool is full with a rich transaction
	require.ErrorIs(t, mp.Add(mk(10, 2, 7), fs), ErrOOM)
	// The failed addition must leave the pool unchanged: a better response for the same request is simply judged on its own.
	require.NotPanics(t, func() { _ = mp.Add(mk(20, 3, 7), fs) })
	require.Equal(t, 0, len(mp.oracleResp), "failed Add left an oracle-response index entry behind")
}
