package mpt

// Demonstration for finding C11/store-value-immutable: (*Trie).updateRefCount patches the reference counter
// inside the slice it got from Store.Get. MemCachedStore/MemoryStore return their stored slice by reference,
// so the record of the LOWER layer is modified in place, before (and independently of) the Put that records
// the change in the trie's own layer. A block whose MPT changes are computed on a private layer and then
// dropped (storeBlock returning an error after AddMPTBatch) therefore still changes stored reference counts.
// Copy into /repo/pkg/core/mpt/ and run: go test -run TestVerifDemoDroppedBlockLeavesCountsAlone ./pkg/core/mpt/

import (
	"bytes"
	"testing"

	"github.com/nspcc-dev/neo-go/pkg/core/storage"
	"github.com/stretchr/testify/require"
)

func dumpMPT(s storage.Store) map[string][]byte {
	res := map[string][]byte{}
	s.Seek(storage.SeekRange{Prefix: []byte{byte(storage.DataMPT)}}, func(k, v []byte) bool {
		res[string(k)] = bytes.Clone(v)
		return true
	})
	return res
}

func TestVerifDemoDroppedBlockLeavesCountsAlone(t *testing.T) {
	shared := storage.NewMemCachedStore(storage.NewMemoryStore()) // plays bc.dao.Store
	tr := NewTrie(EmptyNode{}, ModeLatest, shared)

	// Block 1 (committed): one key.
	_, err := tr.PutBatch(MapToMPTBatch(map[string][]byte{string([]byte{0x70, 0x11, 0x11}): {0xCA, 0xFE}}))
	require.NoError(t, err)
	tr.Flush(1)
	tr.Collapse(0)
	before := dumpMPT(shared)
	require.NotEmpty(t, before)

	// Block 2 is computed the way stateroot.Module.AddMPTBatch does it (copy of the trie over a private layer):
	// another key gets the same value, so the value's leaf node goes from 1 to 2 references...
	priv := storage.NewPrivateMemCachedStore(shared)
	tr2 := *tr
	tr2.Store = priv
	_, err = tr2.PutBatch(MapToMPTBatch(map[string][]byte{string([]byte{0x70, 0x22, 0x22}): {0xCA, 0xFE}}))
	require.NoError(t, err)
	tr2.Flush(2)
	// ...but the block is rejected afterwards: priv is simply dropped, nothing is persisted.

	require.Equal(t, before, dumpMPT(shared), "a block that was computed but never committed changed stored trie node records")
}
