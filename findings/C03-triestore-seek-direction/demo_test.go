package mpt

// Demonstration for finding C03/seek-orientation (copy into pkg/core/mpt of a scratch worktree of the
// unrepaired tree, i.e. the parent of the fix commit, and run
//   go test -count=1 -run TestHEAD_TrieStoreSeek ./pkg/core/mpt/
// Both tests fail there and pass on the repaired tree). They compare TrieStore.Seek — the store behind
// historic invocations — with a plain MemoryStore holding the same contract-storage pairs.

import (
	"bytes"
	"fmt"
	"math/rand"
	"testing"

	"github.com/nspcc-dev/neo-go/pkg/core/storage"
	"github.com/stretchr/testify/require"
)

// Differential demonstration: TrieStore.Seek must return what a plain store holding the same
// contract-storage pairs returns for the same range.
func seekAll(s storage.Store, rng storage.SeekRange) [][]byte {
	var res [][]byte
	s.Seek(rng, func(k, v []byte) bool {
		res = append(res, append([]byte{}, k...))
		return true
	})
	return res
}

func TestHEAD_TrieStoreSeekStartDiverges(t *testing.T) {
	// one contract (id bytes 01 00 00 00), role-like sub-prefix 0x04, one record at big-endian index 16
	pairs := map[string][]byte{
		string([]byte{1, 0, 0, 0, 4, 0, 0, 0, 16}): []byte("nodes@16"),
	}
	mem := storage.NewMemoryStore()
	tr := NewTrie(EmptyNode{}, ModeAll, storage.NewMemCachedStore(storage.NewMemoryStore()))
	puts := map[string][]byte{}
	for k, v := range pairs {
		require.NoError(t, tr.Put([]byte(k), v))
		puts[string(append([]byte{byte(storage.STStorage)}, k...))] = v
	}
	require.NoError(t, mem.PutChangeSet(nil, puts))
	tr.Flush(0)
	st := NewTrieStore(tr.root.Hash(), ModeAll, tr.Store)

	prefix := []byte{byte(storage.STStorage), 1, 0, 0, 0, 4}
	for _, tc := range []struct {
		name      string
		start     []byte
		backwards bool
	}{
		{"backwards from 100 (record 16 is below: must be found)", []byte{0, 0, 0, 100}, true},
		{"backwards from 5 (record 16 is above: nothing)", []byte{0, 0, 0, 5}, true},
		{"forwards from 5 (record 16 is above: must be found)", []byte{0, 0, 0, 5}, false},
		{"forwards from 100 (record 16 is below: nothing)", []byte{0, 0, 0, 100}, false},
	} {
		rng := storage.SeekRange{Prefix: prefix, Start: tc.start, Backwards: tc.backwards}
		want := seekAll(mem, rng)
		got := seekAll(st, rng)
		t.Logf("%s: plain store %x, trie store %x", tc.name, want, got)
		if len(want) != len(got) {
			t.Errorf("%s: plain store returns %d keys, TrieStore %d", tc.name, len(want), len(got))
		}
	}
}

func TestHEAD_TrieStoreSeekRandom(t *testing.T) {
	rnd := rand.New(rand.NewSource(1))
	fails := map[string]int{}
	shown := map[string]bool{}
	for iter := 0; iter < 3000; iter++ {
		n := 1 + rnd.Intn(4)
		mem := storage.NewMemoryStore()
		tr := NewTrie(EmptyNode{}, ModeAll, storage.NewMemCachedStore(storage.NewMemoryStore()))
		puts := map[string][]byte{}
		var keys [][]byte
		for i := 0; i < n; i++ {
			k := []byte{1, byte(rnd.Intn(2)), byte(rnd.Intn(3) * 0x11), byte(rnd.Intn(4))}
			if _, ok := puts[string(append([]byte{byte(storage.STStorage)}, k...))]; ok {
				continue
			}
			if err := tr.Put(k, []byte{byte(i + 1)}); err != nil {
				t.Fatal(err)
			}
			puts[string(append([]byte{byte(storage.STStorage)}, k...))] = []byte{byte(i + 1)}
			keys = append(keys, k)
		}
		mem.PutChangeSet(nil, puts)
		tr.Flush(0)
		st := NewTrieStore(tr.root.Hash(), ModeAll, tr.Store)
		for _, plen := range []int{1, 2} {
			for _, bw := range []bool{false, true} {
				start := []byte{byte(rnd.Intn(2)), byte(rnd.Intn(3) * 0x11), byte(rnd.Intn(4))}[plen-1:]
				// fixed-length keys: start completes the key, so no key is a strict extension of prefix+start
				prefix := append([]byte{byte(storage.STStorage)}, []byte{1, byte(rnd.Intn(2))}[:plen]...)
				rng := storage.SeekRange{Prefix: prefix, Start: start, Backwards: bw}
				want := seekAll(mem, rng)
				var got [][]byte
				func() {
					defer func() {
						if r := recover(); r != nil {
							got = [][]byte{[]byte(fmt.Sprint("panic:", r))}
						}
					}()
					got = seekAll(st, rng)
				}()
				eq := len(want) == len(got)
				for i := 0; eq && i < len(want); i++ {
					eq = bytes.Equal(want[i], got[i])
				}
				if !eq {
					kind := fmt.Sprintf("backwards=%v", bw)
					fails[kind]++
					if !shown[kind] || fails[kind] < 4 {
						shown[kind] = true
						t.Logf("%s keys=%x prefix=%x start=%x: plain=%x trie=%x", kind, keys, prefix, start, want, got)
					}
				}
			}
		}
	}
	if len(fails) > 0 {
		t.Errorf("mismatches: %v", fails)
	}
}
