// Copy to pkg/core/transaction/ (package transaction); run: go test ./pkg/core/transaction/ -run 'TestC15Defect_ScopesFromStringGlobalCombined' -count=1
package transaction

import (
	"encoding/json"
	"testing"

	"github.com/stretchr/testify/require"
)

// TestC15Defect_ScopesFromStringGlobalCombined shows that ScopesFromString (used
// to parse signers given over RPC, in the CLI and in JSON) refuses "Global"
// combined with other scopes only if "Global" comes first: the exclusivity check
// looks at the scopes that FOLLOW "Global", the ones seen before it are kept.
// "CalledByEntry,Global" yields the scope byte 0x81, which the binary codec and
// ScopesFromByte refuse, and which CheckWitness treats as plain CalledByEntry
// (checkScope compares the whole byte with Global): a signer that was asked to be
// Global silently gets a narrower witness in invokefunction/invokescript.
func TestC15Defect_ScopesFromStringGlobalCombined(t *testing.T) {
	for _, s := range []string{"CalledByEntry,Global", "CustomContracts, Global", "CalledByEntry,CustomGroups,Global"} {
		scope, err := ScopesFromString(s)
		if err == nil {
			_, errB := ScopesFromByte(byte(scope))
			require.NoError(t, errB, "ScopesFromString(%q) = 0x%x which ScopesFromByte refuses", s, byte(scope))
		}
		require.Error(t, err, s)
	}

	var signer Signer
	err := json.Unmarshal([]byte(`{"account":"0x0000000000000000000000000000000000000001","scopes":"CalledByEntry,Global"}`), &signer)
	require.Error(t, err, "got scopes 0x%x", byte(signer.Scopes))
}
