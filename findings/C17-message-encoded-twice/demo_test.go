package network

import (
	"testing"

	"github.com/nspcc-dev/neo-go/pkg/io"
	"github.com/nspcc-dev/neo-go/pkg/network/payload"
	"github.com/stretchr/testify/require"
)

// iteratePeersWithSendMsg serializes one Message twice when the peer set is
// mixed: BytesCompressed(true) for peers that support compression and then
// BytesCompressed(false) for those that don't. The first call leaves the
// Compressed flag set in the Message, the second one skips compression but
// still writes the flag: peers without compression get an uncompressed body
// announced as compressed and cannot decode it. The same happens when a decoded
// (compressed) message is encoded again.
func TestHEAD_MessageEncodedTwice(t *testing.T) {
	e := payload.NewExtensible()
	e.Category = "dBFT"
	e.Data = make([]byte, 4*CompressionMinSize) // well compressible, like a long list of hashes
	e.Witness.InvocationScript = []byte{1}
	e.Witness.VerificationScript = []byte{2}
	msg := NewMessage(CMDExtensible, e)

	compressed, err := msg.BytesCompressed(true)
	require.NoError(t, err)
	plain, err := msg.BytesCompressed(false)
	require.NoError(t, err)

	for name, b := range map[string][]byte{"compressed": compressed, "plain": plain} {
		var m Message
		require.NoError(t, m.Decode(io.NewBinReaderFromBuf(b)), name)
		require.Equal(t, e.Data, m.Payload.(*payload.Extensible).Data, name)
	}

	// decode-then-encode of a compressed message
	var m Message
	require.NoError(t, m.Decode(io.NewBinReaderFromBuf(compressed)))
	again, err := m.Bytes()
	require.NoError(t, err)
	var m2 Message
	require.NoError(t, m2.Decode(io.NewBinReaderFromBuf(again)))
}
