package core_test

// C02 demonstration (mutation 1): crash at every atomic batch boundary of a
// state reset, reopen the database, check that the interrupted reset is resumed
// and ends in the same state / database content as an uninterrupted one, and
// that the recovered node then accepts the remaining blocks with identical
// state roots.
//
// Copy this file into pkg/core/ and run
//   go test -count=1 -run TestVerifC02_ResetCrashAtEveryBatchBoundary ./pkg/core/

import (
	"bytes"
	"fmt"
	"reflect"
	"sort"
	"sync"
	"testing"

	"github.com/nspcc-dev/neo-go/pkg/core/block"
	"github.com/nspcc-dev/neo-go/pkg/core/native/nativenames"
	"github.com/nspcc-dev/neo-go/pkg/core/state"
	"github.com/nspcc-dev/neo-go/pkg/core/storage"
	"github.com/nspcc-dev/neo-go/pkg/io"
	"github.com/nspcc-dev/neo-go/pkg/neotest"
	"github.com/nspcc-dev/neo-go/pkg/neotest/chain"
	"github.com/nspcc-dev/neo-go/pkg/util"
	"github.com/stretchr/testify/require"
)

// c02CrashStore wraps a MemoryStore and remembers the full database content
// after every atomic batch (PutChangeSet / SeekGC), i.e. what would be found on
// disk if the power was lost right after that batch.
type c02CrashStore struct {
	storage.Store
	mu     sync.Mutex
	record bool
	snaps  []map[string][]byte
}

func c02Dump(s storage.Store) map[string][]byte {
	res := make(map[string][]byte)
	for p := range 256 {
		s.Seek(storage.SeekRange{Prefix: []byte{byte(p)}}, func(k, v []byte) bool {
			res[string(k)] = bytes.Clone(v)
			return true
		})
	}
	return res
}

func c02StoreFrom(content map[string][]byte) *storage.MemoryStore {
	var (
		mem  = make(map[string][]byte)
		stor = make(map[string][]byte)
	)
	for k, v := range content {
		switch storage.KeyPrefix(k[0]) {
		case storage.STStorage, storage.STTempStorage:
			stor[k] = bytes.Clone(v)
		default:
			mem[k] = bytes.Clone(v)
		}
	}
	st := storage.NewMemoryStore()
	_ = st.PutChangeSet(mem, stor)
	return st
}

func (s *c02CrashStore) snap() {
	if s.record {
		s.snaps = append(s.snaps, c02Dump(s.Store))
	}
}

func (s *c02CrashStore) PutChangeSet(puts map[string][]byte, stor map[string][]byte) error {
	s.mu.Lock()
	defer s.mu.Unlock()
	err := s.Store.PutChangeSet(puts, stor)
	s.snap()
	return err
}

func (s *c02CrashStore) SeekGC(rng storage.SeekRange, keepCont func(k, v []byte) (bool, bool)) error {
	s.mu.Lock()
	defer s.mu.Unlock()
	err := s.Store.SeekGC(rng, keepCont)
	s.snap()
	return err
}

// Close is a no-op: the content must outlive the Blockchain instance.
func (s *c02CrashStore) Close() error { return nil }

func c02DiffKeys(a, b map[string][]byte) []string {
	var res []string
	for k, v := range a {
		if bv, ok := b[k]; !ok {
			res = append(res, fmt.Sprintf("-%x", k))
		} else if !bytes.Equal(v, bv) {
			if storage.KeyPrefix(k[0]) == storage.STTokenTransferInfo {
				// Serialization of this structure iterates over a Go map,
				// so compare decoded values.
				var ia, ib = state.NewTokenTransferInfo(), state.NewTokenTransferInfo()
				ra, rb := io.NewBinReaderFromBuf(v), io.NewBinReaderFromBuf(bv)
				ia.DecodeBinary(ra)
				ib.DecodeBinary(rb)
				if ra.Err == nil && rb.Err == nil && reflect.DeepEqual(ia, ib) {
					continue
				}
			}
			res = append(res, fmt.Sprintf("~%x", k))
		}
	}
	for k := range b {
		if _, ok := a[k]; !ok {
			res = append(res, fmt.Sprintf("+%x", k))
		}
	}
	sort.Strings(res)
	if len(res) > 20 {
		res = append(res[:20], fmt.Sprintf("... %d more", len(res)-20))
	}
	return res
}

func TestVerifDemoResetResumesFromEveryStage(t *testing.T) {
	const resetTo = 6

	// 1. Build the block history on a source node and persist it.
	src := &c02CrashStore{Store: storage.NewMemoryStore()}
	bc, acc := chain.NewSingleWithCustomConfigAndStore(t, nil, src, false)
	go bc.Run()
	e := neotest.NewExecutor(t, bc, acc, acc)
	gasH := e.NativeHash(t, nativenames.Gas)
	var accs []neotest.Signer
	for range 5 {
		accs = append(accs, e.NewAccount(t)) // a block with GAS transfer each
	}
	for i := range 4 { // more state changes before and after the reset point
		e.NewInvoker(gasH, accs[i]).Invoke(t, true, "transfer",
			accs[i].ScriptHash(), accs[i+1].ScriptHash(), 1_0000_0000+i, nil)
	}
	e.GenerateNewBlocks(t, 2)
	top := bc.BlockHeight()
	require.Greater(t, top, uint32(resetTo+2))

	var (
		blocks = make([]*block.Block, top+1)
		roots  = make([]util.Uint256, top+1)
	)
	for i := uint32(0); i <= top; i++ {
		b, err := bc.GetBlock(bc.GetHeaderHash(i))
		require.NoError(t, err)
		blocks[i] = b
		sr, err := bc.GetStateRoot(i)
		require.NoError(t, err)
		roots[i] = sr.Root
	}
	bc.Close() // flushes everything to src
	full := c02Dump(src.Store)

	// 2. Reference: uninterrupted reset.
	refStore := &c02CrashStore{Store: c02StoreFrom(full)}
	bcRef, _ := chain.NewSingleWithCustomConfigAndStore(t, nil, refStore, false)
	require.Equal(t, top, bcRef.BlockHeight())
	require.NoError(t, bcRef.Reset(resetTo))
	require.Equal(t, uint32(resetTo), bcRef.BlockHeight())
	refDump := c02Dump(refStore.Store)

	// 3. The same reset with every batch boundary recorded. Reset flushes its
	// stages asynchronously, so two adjacent stages can occasionally be merged
	// into a single batch; retry until both crash points of interest are seen.
	var snaps []map[string][]byte
	for range 50 {
		recStore := &c02CrashStore{Store: c02StoreFrom(full)}
		bcRec, _ := chain.NewSingleWithCustomConfigAndStore(t, nil, recStore, false)
		recStore.mu.Lock()
		recStore.record = true
		recStore.mu.Unlock()
		require.NoError(t, bcRec.Reset(resetTo))
		recStore.mu.Lock()
		recStore.record = false
		snaps = recStore.snaps
		recStore.mu.Unlock()
		var seen = make(map[byte]bool)
		for _, snap := range snaps {
			if v, ok := snap[string([]byte{byte(storage.SYSStateChangeStage)})]; ok && len(v) == 1 {
				seen[v[0]] = true
			}
		}
		if seen[0x82] && seen[0x90] {
			break
		}
	}
	require.GreaterOrEqual(t, len(snaps), 4, "reset is expected to be split into several batches")

	// 4. Crash after every batch, restart, compare with the reference.
	var checked int
	defer func() { require.GreaterOrEqual(t, checked, 2, "both 0x82 and 0x90 crash points must be exercised") }()
	for i, snap := range snaps {
		stage := "none"
		if v, ok := snap[string([]byte{byte(storage.SYSStateChangeStage)})]; ok {
			stage = fmt.Sprintf("%#x", v)
		}
		t.Run(fmt.Sprintf("crash after batch %d (stage marker %s)", i+1, stage), func(t *testing.T) {
			// Only the crash points the unmodified code recovers from are
			// checked: right after the "reset started" batch (0x82) and right
			// after the "headers reset" batch (0x90, the one that switches the
			// contract storage prefix). Recovery from the other reset stages
			// (0x88, 0x84, 0xa0) is broken in the unmodified code already, see
			// NOTES.md.
			if false {
				t.Skipf("stage %s: recovery is broken on unmodified HEAD as well, not a subject of this demo", stage)
			}
			checked++
			st := &c02CrashStore{Store: c02StoreFrom(snap)}
			// The interrupted reset must be resumed by the constructor.
			bcN, _ := chain.NewSingleWithCustomConfigAndStore(t, nil, st, false)
			require.Equal(t, uint32(resetTo), bcN.BlockHeight())
			require.Equal(t, uint32(resetTo), bcN.HeaderHeight())
			require.Equal(t, blocks[resetTo].Hash(), bcN.CurrentBlockHash())
			sr, err := bcN.GetStateRoot(resetTo)
			require.NoError(t, err)
			require.Equal(t, roots[resetTo], sr.Root)
			require.Equal(t, roots[resetTo], bcN.GetStateModule().CurrentLocalStateRoot())

			// Same database content as after an uninterrupted reset.
			require.Empty(t, c02DiffKeys(refDump, c02Dump(st.Store)),
				"DB content differs from the one of uninterrupted reset (-missing, +extra, ~changed)")

			// And the node is able to continue: it accepts the remaining blocks
			// and computes identical state roots.
			go bcN.Run()
			defer bcN.Close()
			for j := uint32(resetTo + 1); j <= top; j++ {
				require.NoError(t, bcN.AddBlock(blocks[j]), "block %d", j)
				sr, err := bcN.GetStateRoot(j)
				require.NoError(t, err)
				require.Equal(t, roots[j], sr.Root, "state root at %d", j)
			}
			require.Equal(t, top, bcN.BlockHeight())
		})
	}
}
