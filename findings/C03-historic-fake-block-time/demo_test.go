// copy to: pkg/core ; run: go test ./pkg/core/ -run 'TestC03Defect_Historic' -count=1
// TestC03Defect_HistoricFakeBlockTime is finding 90 and TestC03Defect_HistoricAtHardforkHeight finding 91 (both fixed); TestC03Defect_HistoricLedgerTxGetters is recorded in DESIGN section 6 as not acted upon.
// Three defects of the unmodified tree around Blockchain.GetTestHistoricVM: a
// read-only script run against the state of height h does not return what the
// live node returned at height h.
package core_test

import (
	"testing"

	"github.com/nspcc-dev/neo-go/pkg/config"
	"github.com/nspcc-dev/neo-go/pkg/core"
	"github.com/nspcc-dev/neo-go/pkg/core/interop/interopnames"
	"github.com/nspcc-dev/neo-go/pkg/core/native/nativenames"
	"github.com/nspcc-dev/neo-go/pkg/core/transaction"
	"github.com/nspcc-dev/neo-go/pkg/io"
	"github.com/nspcc-dev/neo-go/pkg/neotest"
	"github.com/nspcc-dev/neo-go/pkg/neotest/chain"
	"github.com/nspcc-dev/neo-go/pkg/smartcontract/callflag"
	"github.com/nspcc-dev/neo-go/pkg/smartcontract/trigger"
	"github.com/nspcc-dev/neo-go/pkg/util"
	"github.com/nspcc-dev/neo-go/pkg/vm/emit"
	"github.com/nspcc-dev/neo-go/pkg/vm/stackitem"
	"github.com/stretchr/testify/require"
)

// c03RunLive runs the read-only script on top of the current chain state (the
// way invokescript does it).
func c03RunLive(t *testing.T, bc *core.Blockchain, script []byte) stackitem.Item {
	tx := transaction.New(script, 0)
	ic, err := bc.GetTestVM(trigger.Application, tx, nil)
	require.NoError(t, err)
	defer ic.Finalize()
	ic.VM.LoadWithFlags(script, callflag.All)
	require.NoError(t, ic.VM.Run())
	require.Equal(t, 1, ic.VM.Estack().Len())
	return ic.VM.Estack().Pop().Item()
}

// c03RunHistoric runs the read-only script against the state of height h (the
// way invokescripthistoric does it).
func c03RunHistoric(t *testing.T, bc *core.Blockchain, h uint32, script []byte) stackitem.Item {
	tx := transaction.New(script, 0)
	ic, err := bc.GetTestHistoricVM(trigger.Application, tx, h+1)
	require.NoError(t, err)
	defer ic.Finalize()
	ic.VM.LoadWithFlags(script, callflag.All)
	require.NoError(t, ic.VM.Run())
	require.Equal(t, 1, ic.VM.Estack().Len())
	return ic.VM.Estack().Pop().Item()
}

// TestC03Defect_HistoricLedgerTxGetters: Ledger.getTransactionHeight (and
// getTransaction, getTransactionSigners, getTransactionVMState) read the
// transaction through ic.DAO; the historic DAO is backed by a TrieStore which
// supports contract storage keys only, so a historic invocation gets -1/Null
// for a transaction that the live node reported at that height.
func TestC03Defect_HistoricLedgerTxGetters(t *testing.T) {
	bc, acc := chain.NewSingle(t)
	e := neotest.NewExecutor(t, bc, acc, acc)
	neoInv := e.ValidatorInvoker(e.NativeHash(t, nativenames.Neo))
	txHash := neoInv.Invoke(t, true, "transfer", acc.ScriptHash(), util.Uint160{1, 2, 3}, 1, nil)
	h := bc.BlockHeight()

	w := io.NewBufBinWriter()
	emit.AppCall(w.BinWriter, e.NativeHash(t, nativenames.Ledger), "getTransactionHeight", callflag.ReadStates, txHash)
	require.NoError(t, w.Err)
	script := w.Bytes()

	live := c03RunLive(t, bc, script)
	liveH, err := live.TryInteger()
	require.NoError(t, err)
	require.Equal(t, int64(h), liveH.Int64())

	e.AddNewBlock(t)
	e.AddNewBlock(t)

	hist := c03RunHistoric(t, bc, h, script)
	histH, err := hist.TryInteger()
	require.NoError(t, err)
	require.Equal(t, liveH.Int64(), histH.Int64(), "historic invocation at height %d must see what the live node saw", h)
}

// TestC03Defect_HistoricFakeBlockTime: the fake "next block" of a historic
// invocation gets its timestamp from the CURRENT Policy.MillisecondsPerBlock
// (Blockchain.GetFakeNextBlock -> GetMillisecondsPerBlock reads bc.dao at the
// current height), so System.Runtime.GetTime of a historic invocation differs
// from what the live node returned at that height once the committee has
// changed the block time.
func TestC03Defect_HistoricFakeBlockTime(t *testing.T) {
	bc, acc := chain.NewSingle(t)
	e := neotest.NewExecutor(t, bc, acc, acc)
	policyInv := e.CommitteeInvoker(e.NativeHash(t, nativenames.Policy))

	e.AddNewBlock(t)
	h := bc.BlockHeight()

	w := io.NewBufBinWriter()
	emit.Syscall(w.BinWriter, interopnames.SystemRuntimeGetTime)
	require.NoError(t, w.Err)
	script := w.Bytes()

	live, err := c03RunLive(t, bc, script).TryInteger()
	require.NoError(t, err)

	policyInv.Invoke(t, nil, "setMillisecondsPerBlock", 20_000)
	e.AddNewBlock(t)

	hist, err := c03RunHistoric(t, bc, h, script).TryInteger()
	require.NoError(t, err)
	require.Equal(t, live.Int64(), hist.Int64(), "Runtime.GetTime of a historic invocation at height %d differs from the live one", h)
}

// TestC03Defect_HistoricAtHardforkHeight: GetTestHistoricVM(nextBlockHeight=H)
// initializes native caches with blockHeight=H from the state of H-1. If H is
// a hardfork height, natives (or native fields) introduced by that hardfork
// are considered active, but their storage is written by block H only, so
// getIntWithKey panics (Policy: maxVUBIncrement etc., Notary: maxNVBDelta). The
// live node at height H-1 served the same read-only script fine.
func TestC03Defect_HistoricAtHardforkHeight(t *testing.T) {
	const hfHeight = 3
	bc, acc := chain.NewSingleWithCustomConfig(t, func(c *config.Blockchain) {
		c.Hardforks = map[string]uint32{config.HFEchidna.String(): hfHeight}
	})
	e := neotest.NewExecutor(t, bc, acc, acc)
	for bc.BlockHeight() < hfHeight-1 {
		e.AddNewBlock(t)
	}
	h := bc.BlockHeight() // hfHeight-1

	w := io.NewBufBinWriter()
	emit.AppCall(w.BinWriter, e.NativeHash(t, nativenames.Policy), "getFeePerByte", callflag.ReadStates)
	require.NoError(t, w.Err)
	script := w.Bytes()

	live, err := c03RunLive(t, bc, script).TryInteger()
	require.NoError(t, err)

	e.AddNewBlock(t)
	e.AddNewBlock(t)

	var hist int64
	require.NotPanics(t, func() {
		v, err := c03RunHistoric(t, bc, h, script).TryInteger()
		require.NoError(t, err)
		hist = v.Int64()
	})
	require.Equal(t, live.Int64(), hist)
}
