package payload

import (
	"runtime"
	"testing"

	"github.com/nspcc-dev/neo-go/pkg/core/block"
	"github.com/nspcc-dev/neo-go/pkg/core/transaction"
	"github.com/nspcc-dev/neo-go/pkg/io"
	"github.com/stretchr/testify/require"
)

// A MerkleBlock whose transaction count is 2^64-1 turns into txCount == -1
// after int(); -1 passes `txCount > MaxTransactionsPerBlock` and then is
// given to ReadArray as the maximum, where uint64(-1) disables the limit
// completely: a message of ~120 bytes makes the decoder allocate a slice of
// any length the sender names (here 2^25 hashes = 1 GiB, well over
// MaxArraySize elements; 2^32-1 is possible as well).
func TestHEAD_MerkleBlockHugeCount(t *testing.T) {
	h := &block.Header{Script: transaction.Witness{InvocationScript: []byte{}, VerificationScript: []byte{}}}
	w := io.NewBufBinWriter()
	h.EncodeBinary(w.BinWriter)
	w.WriteB(0xff) // txCount = 2^64-1
	w.WriteU64LE(0xffffffffffffffff)
	w.WriteB(0xfe) // 2^25 hashes, none of them present
	w.WriteU32LE(1 << 25)
	require.NoError(t, w.Err)
	data := w.Bytes()

	var before, after runtime.MemStats
	runtime.ReadMemStats(&before)
	m := &MerkleBlock{}
	r := io.NewBinReaderFromBuf(data)
	m.DecodeBinary(r)
	runtime.ReadMemStats(&after)
	require.Error(t, r.Err)
	alloc := after.TotalAlloc - before.TotalAlloc
	require.Less(t, alloc, uint64(64<<20), "decoding %d bytes allocated %d bytes", len(data), alloc)
}
