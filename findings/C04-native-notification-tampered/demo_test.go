// Copy to pkg/core/interop/contract/ (package contract_test); run: go test -count=1 -run TestC04Defect_NativeNotificationTampered ./pkg/core/interop/contract/ ; fails before fix 70a4177 (amount 1 instead of 1000 in a HALTed transaction), passes after it (the tampering attempt faults the transaction).
//
// Defect of the UNMODIFIED code: notifications emitted by native contracts
// (ic.AddNotification called directly from native code) are stored as mutable
// stack items, unlike notifications emitted through System.Runtime.Notify
// (those are DeepCopy'ed with asImmutable=true). System.Runtime.GetNotifications
// hands out the very same Array that is kept in ic.Notifications, so any
// contract can rewrite the payload of an already emitted native event (for
// example GAS "Transfer") in place. When this contract is a callee that throws
// and whose caller catches the exception, its own notifications are truncated
// and its storage layer is dropped, but the in-place modification of the
// earlier (kept) notification survives: the failed callee leaves a trace in
// the application log (and in NEP-17 transfer tracking that is derived from
// "Transfer" events).
package contract_test

import (
	"fmt"
	"math/big"
	"strings"
	"testing"

	"github.com/nspcc-dev/neo-go/pkg/compiler"
	"github.com/nspcc-dev/neo-go/pkg/core/native/nativenames"
	"github.com/nspcc-dev/neo-go/pkg/neotest"
	"github.com/nspcc-dev/neo-go/pkg/neotest/chain"
	"github.com/nspcc-dev/neo-go/pkg/smartcontract/manifest"
	"github.com/nspcc-dev/neo-go/pkg/util"
	"github.com/nspcc-dev/neo-go/pkg/vm/stackitem"
	"github.com/nspcc-dev/neo-go/pkg/vm/vmstate"
	"github.com/stretchr/testify/require"
)

func TestC04Defect_NativeNotificationTamperedByFailedCallee(t *testing.T) {
	bc, acc := chain.NewSingle(t)
	e := neotest.NewExecutor(t, bc, acc, acc)

	// B rewrites the amount of the first GAS Transfer event and throws.
	srcB := `package contractB
		import (
			"github.com/nspcc-dev/neo-go/pkg/interop"
			"github.com/nspcc-dev/neo-go/pkg/interop/native/gas"
			"github.com/nspcc-dev/neo-go/pkg/interop/runtime"
		)
		func TamperAndPanic() {
			ntfs := runtime.GetNotifications(interop.Hash160(gas.Hash))
			st := ntfs[0][2].([]any)
			st[2] = 1
			panic("B fails")
		}`
	ctrB := neotest.CompileSource(t, acc.ScriptHash(), strings.NewReader(srcB), &compiler.Options{
		Name:               "contractB",
		NoEventsCheck:      true,
		NoPermissionsCheck: true,
		Permissions:        []manifest.Permission{{Methods: manifest.WildStrings{Value: nil}}},
	})
	e.DeployContract(t, ctrB, nil)

	var hashB strings.Builder
	for i := range util.Uint160Size {
		fmt.Fprintf(&hashB, "%#x", ctrB.Hash[i])
		if i != util.Uint160Size-1 {
			hashB.WriteString(", ")
		}
	}
	// A moves 1000 GAS fractions from the signer, then calls B inside try/catch.
	srcA := `package contractA
		import (
			"github.com/nspcc-dev/neo-go/pkg/interop"
			"github.com/nspcc-dev/neo-go/pkg/interop/contract"
			"github.com/nspcc-dev/neo-go/pkg/interop/native/gas"
		)
		func Pay(from, to interop.Hash160) bool {
			ok := gas.Transfer(from, to, 1000, nil)
			callB()
			return ok
		}
		func callB() {
			defer func() {
				_ = recover()
			}()
			contract.Call(interop.Hash160{` + hashB.String() + `}, "tamperAndPanic", contract.All)
		}`
	ctrA := neotest.CompileSource(t, acc.ScriptHash(), strings.NewReader(srcA), &compiler.Options{
		Name:               "contractA",
		NoEventsCheck:      true,
		NoPermissionsCheck: true,
		Permissions:        []manifest.Permission{{Methods: manifest.WildStrings{Value: nil}}},
	})
	e.DeployContract(t, ctrA, nil)

	to := util.Uint160{1, 2, 3}
	inv := e.NewInvoker(ctrA.Hash, e.Committee)
	tx := inv.PrepareInvoke(t, "pay", e.Committee.ScriptHash(), to)
	e.AddNewBlock(t, tx)
	h := tx.Hash()
	aer := e.GetTxExecResult(t, h)
	if aer.VMState != vmstate.Halt {
		// An attempt to modify an emitted event faults the transaction (as the reference does): nothing is kept at all.
		require.Equal(t, 0, bc.GetUtilityTokenBalance(to, util.Uint160{}).Sign())
		return
	}

	// The transfer itself is real.
	require.Equal(t, big.NewInt(1000), bc.GetUtilityTokenBalance(to, util.Uint160{}))
	require.Equal(t, 1, len(aer.Events)) // B emitted nothing and was rolled back.
	ev := aer.Events[0]
	require.Equal(t, e.NativeHash(t, nativenames.Gas), ev.ScriptHash)
	require.Equal(t, "Transfer", ev.Name)
	arr := ev.Item.Value().([]stackitem.Item)
	amount, err := arr[2].TryInteger()
	require.NoError(t, err)
	// The failed (and caught) callee must not be able to leave a trace in the
	// event emitted before it was called.
	require.Equal(t, int64(1000), amount.Int64(), "GAS Transfer event was rewritten by a callee that threw and was rolled back")
}
