// Copy into pkg/core/mpt/ and run: go test ./pkg/core/mpt/ -run 'TestC10Defect_FindOnBatchBuiltTrie' -count=1
package mpt_test

import (
	"testing"

	"github.com/nspcc-dev/neo-go/pkg/core/mpt"
	"github.com/nspcc-dev/neo-go/pkg/core/storage"
	"github.com/stretchr/testify/require"
)

// Trie.Find over a live (not reloaded) trie built by PutBatch returns a key that
// is not in the trie and corrupts the key of an extension node under its cached
// hash, after which a key that is present cannot be read any more.
//
// Cause: for a search prefix that ends at/inside an extension node the non-strict
// getWithPath returns n.key itself as the found path ("return curr, n.next, n.key, nil",
// two places). Find/TrieStore.Seek then hand path[len(prefixP):] to Billet.traverse,
// which does append(path, i) / append(path, n.key...). Extension keys made by PutBatch
// are sub-slices of the batch's nibble arrays (lcpMany/lcp do not copy) and have spare
// capacity, so the appends write over the nibbles that follow in the same array, i.e.
// over the keys of the extension nodes below. Same family as the defect fixed in 2f22f41
// (that fix covered only the slices.Concat line of getWithPath).
func TestC10Defect_FindOnBatchBuiltTrie(t *testing.T) {
	tr := mpt.NewTrie(nil, mpt.ModeAll, storage.NewMemCachedStore(storage.NewMemoryStore()))
	k1 := []byte{0x11, 0x11, 0x01, 0x10}
	k2 := []byte{0x11, 0x11, 0xab, 0x10}
	_, err := tr.PutBatch(mpt.MapToMPTBatch(map[string][]byte{
		"\x70" + string(k1): {1},
		"\x70" + string(k2): {2},
	}))
	require.NoError(t, err)
	root := tr.StateRoot()

	res, err := tr.Find([]byte{}, nil, 10)
	require.NoError(t, err)
	require.Equal(t, []storage.KeyValue{
		{Key: k1, Value: []byte{1}},
		{Key: k2, Value: []byte{2}},
	}, res)

	v, err := tr.Get(k2)
	require.NoError(t, err)
	require.Equal(t, []byte{2}, v)
	require.Equal(t, root, tr.StateRoot())
}
