// Copy to pkg/core/state/ ; run: go test ./pkg/core/state/ -run 'TestC17Defect9' -count=1
package state

import (
	"encoding/json"
	"testing"

	"github.com/nspcc-dev/neo-go/pkg/io"
	"github.com/nspcc-dev/neo-go/pkg/util"
	"github.com/nspcc-dev/neo-go/pkg/vm/stackitem"
	"github.com/stretchr/testify/require"
)

// DEFECT (unmodified tree, minor: the bytes come from the node's own DB):
// ContractInvocation.DecodeBinary takes any bytes as the serialized arguments,
// MarshalJSON then asserts the deserialized item to be *stackitem.Array and
// panics if it is not (a serialized Struct, Integer, ...), instead of
// returning an error.
func TestC17Defect9_ContractInvocationDecodedValueMarshals(t *testing.T) {
	args, err := stackitem.Serialize(stackitem.NewStruct([]stackitem.Item{stackitem.NewBool(true)}))
	require.NoError(t, err)

	w := io.NewBufBinWriter()
	h := util.Uint160{1, 2, 3}
	h.EncodeBinary(w.BinWriter)
	w.WriteString("method")
	w.WriteU32LE(1)
	w.WriteBool(false)
	w.WriteVarBytes(args)
	require.NoError(t, w.Err)

	ci := new(ContractInvocation)
	r := io.NewBinReaderFromBuf(w.Bytes())
	ci.DecodeBinary(r)
	require.NoError(t, r.Err) // accepted by the decoder...

	require.NotPanics(t, func() { // ...so its JSON form must not blow up.
		_, _ = json.Marshal(ci)
	})
}
