// Copy to: pkg/core/interop/runtime/   Run: go test ./pkg/core/interop/runtime/ -run 'TestC15Defect_CalledByContractZeroInEntry' -count=1
package runtime_test

import (
	"testing"

	"github.com/nspcc-dev/neo-go/pkg/core/interop/interopnames"
	"github.com/nspcc-dev/neo-go/pkg/core/transaction"
	"github.com/nspcc-dev/neo-go/pkg/io"
	"github.com/nspcc-dev/neo-go/pkg/neotest"
	"github.com/nspcc-dev/neo-go/pkg/neotest/chain"
	"github.com/nspcc-dev/neo-go/pkg/util"
	"github.com/nspcc-dev/neo-go/pkg/vm/emit"
	"github.com/nspcc-dev/neo-go/pkg/wallet"
	"github.com/stretchr/testify/require"
)

// TestC15Defect_CalledByContractZeroInEntry: the entry script has no calling
// contract at all, the VM represents that with a zero calling script hash.
// CheckHashedWitness guards its calling-hash shortcut against this value, but
// ConditionCalledByContract.Match does not: a CalledByContract(0x00..00)
// condition matches in the entry script (and only there), i.e. the rule is
// evaluated over a calling contract that doesn't exist. The reference
// implementation compares with a null CallingScriptHash, which never equals
// UInt160.Zero, so the results (and the state) diverge:
//
//	Allow CalledByContract(0)         -> witness is valid in the entry script (must not be)
//	Deny  CalledByContract(0), Allow true -> witness is denied in the entry script (must be valid)
func TestC15Defect_CalledByContractZeroInEntry(t *testing.T) {
	bc, acc := chain.NewSingle(t)
	e := neotest.NewExecutor(t, bc, acc, acc)

	a, err := wallet.NewAccount()
	require.NoError(t, err)
	s := neotest.NewSingleSigner(a)

	// Entry script: CheckWitness(S); RET.
	w := io.NewBufBinWriter()
	emit.Bytes(w.BinWriter, s.ScriptHash().BytesBE())
	emit.Syscall(w.BinWriter, interopnames.SystemRuntimeCheckWitness)
	require.NoError(t, w.Err)
	script := w.Bytes()

	run := func(t *testing.T, rules []transaction.WitnessRule) bool {
		tx := e.PrepareInvocationNoSign(t, script)
		tx.Signers = []transaction.Signer{
			{Account: e.Validator.ScriptHash(), Scopes: transaction.None},
			{Account: s.ScriptHash(), Scopes: transaction.Rules, Rules: rules},
		}
		tx.SystemFee = 1_0000_0000
		tx.NetworkFee = 1_0000_0000
		magic := e.Chain.GetConfig().Magic
		require.NoError(t, e.Validator.SignTx(magic, tx))
		require.NoError(t, s.SignTx(magic, tx))
		e.AddNewBlock(t, tx)
		aer := e.CheckHalt(t, tx.Hash())
		res, err := aer.Stack[0].TryBool()
		require.NoError(t, err)
		return res
	}

	zero := util.Uint160{}
	bTrue := true
	t.Run("allow", func(t *testing.T) {
		res := run(t, []transaction.WitnessRule{
			{Action: transaction.WitnessAllow, Condition: (*transaction.ConditionCalledByContract)(&zero)},
		})
		require.False(t, res, "the entry script is not called by any contract, CalledByContract must not match")
	})
	t.Run("deny", func(t *testing.T) {
		res := run(t, []transaction.WitnessRule{
			{Action: transaction.WitnessDeny, Condition: (*transaction.ConditionCalledByContract)(&zero)},
			{Action: transaction.WitnessAllow, Condition: (*transaction.ConditionBoolean)(&bTrue)},
		})
		require.True(t, res, "the entry script is not called by any contract, CalledByContract must not match")
	})
}
