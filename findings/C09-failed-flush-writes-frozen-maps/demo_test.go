// Copy to pkg/core/storage/ (package storage); run: go test -race ./pkg/core/storage/ -run 'TestC09Defect_FailedFlushRacesWithSeek' -count=1
// (without -race the Go runtime usually still aborts the binary with "fatal error: concurrent map iteration and map write")
package storage

import (
	"encoding/binary"
	"errors"
	"sync"
	"sync/atomic"
	"testing"
	"time"

	"github.com/stretchr/testify/require"
)

// c09FailingStore is an empty backend whose PutChangeSet fails when told to (disk full).
type c09FailingStore struct {
	MemoryStore
	entered chan struct{}
	release chan struct{}
}

func (s *c09FailingStore) PutChangeSet(map[string][]byte, map[string][]byte) error {
	close(s.entered)
	<-s.release
	return errors.New("no space left on device")
}

// When the flush fails, persist merges the maps written meanwhile into the
// swapped-out ones (maps.Copy(tempstore.mem, s.mem)) holding s.mut only. A
// Seek that started during the flush has captured tempstore as its lower store
// and iterates tempstore.mem under tempstore's own (different) mutex, so the
// merge is a write concurrent with that iteration; afterwards s.mem IS
// tempstore.mem and every later Put races with that reader as well.
// Blockchain only logs a failed persist and keeps running.
func TestC09Defect_FailedFlushRacesWithSeek(t *testing.T) {
	const n = 100_000
	backend := &c09FailingStore{MemoryStore: *NewMemoryStore(), entered: make(chan struct{}), release: make(chan struct{})}
	ts := NewMemCachedStore(backend)
	key := func(gen byte, i int) []byte {
		k := make([]byte, 6)
		k[0] = byte(DataMPT)
		k[1] = gen
		binary.BigEndian.PutUint32(k[2:], uint32(i))
		return k
	}
	for i := range n {
		ts.Put(key(0, i), []byte{1})
	}
	flushed := make(chan error, 1)
	go func() {
		_, err := ts.Persist()
		flushed <- err
	}()
	<-backend.entered // maps are swapped, tempstore is the lower store now.
	for i := range n {
		ts.Put(key(1, i), []byte{2})
	}

	var (
		stop atomic.Bool
		wg   sync.WaitGroup
	)
	for range 4 {
		wg.Add(1)
		go func() {
			defer wg.Done()
			for !stop.Load() {
				cnt := 0
				ts.Seek(SeekRange{Prefix: []byte{byte(DataMPT), 0, 0, 0}}, func(k, v []byte) bool {
					cnt++
					return true
				})
			}
		}()
	}
	time.Sleep(50 * time.Millisecond)
	close(backend.release)
	require.Error(t, <-flushed)
	for i := range n {
		ts.Put(key(2, i), []byte{3})
	}
	stop.Store(true)
	wg.Wait()
}
