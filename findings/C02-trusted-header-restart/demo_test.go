// Copy to pkg/core/ (package core_test); run: go test ./pkg/core/ -run TestC02Defect_TrustedHeaderRestart -count=1 (the file holds the other C02 demonstrations of the round-6 agent too)
//
// Every test here FAILS on the unmodified tree: each one demonstrates a defect
// of the code as it is (see the report).
//
// TestC02Defect_JumpVersionAndMarkerSplit builds the split database by hand (all batches before the
// one that carries the version and the marker, plus the version alone): it shows what the node does
// on that database and keeps failing after fix d6ad643 - the fix makes that database unreachable
// (version and marker reach the store in one change set), it does not change what happens on it.
package core_test

import (
	"bytes"
	"fmt"
	"maps"
	"sync"
	"testing"

	"github.com/nspcc-dev/neo-go/internal/basicchain"
	"github.com/nspcc-dev/neo-go/pkg/config"
	"github.com/nspcc-dev/neo-go/pkg/core"
	"github.com/nspcc-dev/neo-go/pkg/core/block"
	"github.com/nspcc-dev/neo-go/pkg/core/mpt"
	"github.com/nspcc-dev/neo-go/pkg/core/storage"
	"github.com/nspcc-dev/neo-go/pkg/core/transaction"
	"github.com/nspcc-dev/neo-go/pkg/neotest"
	"github.com/nspcc-dev/neo-go/pkg/neotest/chain"
	"github.com/nspcc-dev/neo-go/pkg/util"
	"github.com/nspcc-dev/neo-go/pkg/vm/opcode"
	"github.com/stretchr/testify/require"
)

// c02Batch is one atomic write of the backend.
type c02Batch struct {
	puts, stores map[string][]byte
	tag          string
}

// c02RecStore passes everything to the wrapped store and records every atomic
// batch (PutChangeSet or SeekGC commit) that reaches it. Close is a no-op so
// that the in-memory "disk" outlives the chain.
type c02RecStore struct {
	storage.Store
	mtx     sync.Mutex
	batches []c02Batch
}

func (r *c02RecStore) Close() error { return nil }

func c02CloneMap(m map[string][]byte) map[string][]byte {
	res := make(map[string][]byte, len(m))
	for k, v := range m {
		if v != nil {
			v = bytes.Clone(v)
		}
		res[k] = v
	}
	return res
}

func (r *c02RecStore) PutChangeSet(p, s map[string][]byte) error {
	b := c02Batch{puts: c02CloneMap(p), stores: c02CloneMap(s), tag: fmt.Sprintf("put %d+%d", len(p), len(s))}
	r.mtx.Lock()
	r.batches = append(r.batches, b)
	r.mtx.Unlock()
	return r.Store.PutChangeSet(p, s)
}

func (r *c02RecStore) SeekGC(rng storage.SeekRange, keepCont func(k, v []byte) (bool, bool)) error {
	b := c02Batch{puts: map[string][]byte{}, stores: map[string][]byte{}}
	err := r.Store.SeekGC(rng, func(k, v []byte) (bool, bool) {
		keep, cont := keepCont(k, v)
		if !keep {
			if k[0] == byte(storage.STStorage) || k[0] == byte(storage.STTempStorage) {
				b.stores[string(k)] = nil
			} else {
				b.puts[string(k)] = nil
			}
		}
		return keep, cont
	})
	b.tag = fmt.Sprintf("gc %x: %d", rng.Prefix, len(b.puts)+len(b.stores))
	r.mtx.Lock()
	r.batches = append(r.batches, b)
	r.mtx.Unlock()
	return err
}

func (r *c02RecStore) reset() {
	r.mtx.Lock()
	r.batches = nil
	r.mtx.Unlock()
}

func (r *c02RecStore) tags(n int) []string {
	var res []string
	for _, b := range r.batches[:n] {
		res = append(res, b.tag)
	}
	return res
}

// c02Copy returns a copy of the store content.
func c02Copy(s storage.Store) *c02RecStore {
	var (
		res  = storage.NewMemoryStore()
		mem  = make(map[string][]byte)
		stor = make(map[string][]byte)
	)
	for p := range 256 {
		s.Seek(storage.SeekRange{Prefix: []byte{byte(p)}}, func(k, v []byte) bool {
			m := mem
			if p == int(storage.STStorage) || p == int(storage.STTempStorage) {
				m = stor
			}
			m[string(k)] = bytes.Clone(v)
			return true
		})
	}
	_ = res.PutChangeSet(mem, stor)
	return &c02RecStore{Store: res}
}

// c02CrashState returns the content of the disk after the first n of batches
// were applied to base.
func c02CrashState(base storage.Store, batches []c02Batch, n int) *c02RecStore {
	res := c02Copy(base)
	for _, b := range batches[:n] {
		_ = res.Store.PutChangeSet(maps.Clone(b.puts), maps.Clone(b.stores))
	}
	return res
}

// c02BasicChain returns a stopped basic chain DB and its blocks (1..top).
func c02BasicChain(t *testing.T, cfg func(c *config.Blockchain)) (*c02RecStore, []*block.Block) {
	base := &c02RecStore{Store: storage.NewMemoryStore()}
	bc, validators, committee := chain.NewMultiWithCustomConfigAndStore(t, cfg, base, false)
	go bc.Run()
	e := neotest.NewExecutor(t, bc, validators, committee)
	basicchain.Init(t, "../../", e)
	var blocks []*block.Block
	for i := uint32(1); i <= bc.BlockHeight(); i++ {
		b, err := bc.GetBlock(bc.GetHeaderHash(i))
		require.NoError(t, err)
		blocks = append(blocks, b)
	}
	bc.Close()
	return base, blocks
}

// c02AddBlocks starts the chain and feeds it with blocks above its height. A
// panic is converted to an error.
func c02AddBlocks(bc *core.Blockchain, blocks []*block.Block) (err error) {
	defer func() {
		if r := recover(); r != nil {
			err = fmt.Errorf("panic: %v", r)
		}
	}()
	go bc.Run()
	defer bc.Close()
	for _, b := range blocks {
		if b.Index <= bc.BlockHeight() {
			continue
		}
		if err := bc.AddBlock(b); err != nil {
			return fmt.Errorf("block %d: %w", b.Index, err)
		}
	}
	return nil
}

// TestC02Defect_ResetCrashPoints performs Blockchain.Reset of the basic chain to
// height 15 over a recording backend and then, for every prefix of the batches
// the reset has issued (= every moment the power could be lost), opens the
// database again (that resumes the reset) and feeds the node with the blocks
// above 15.
//
// Expected: every crash point gives a node at the old height or at 15 that
// accepts the blocks. Actual (unmodified tree):
//   - after the batch that removes blocks/transactions (stage marker
//     staleBlocksRemoved) and before the batch that resets the headers the node
//     can't be started at all: "could not get header ...: key not found"
//     (HeaderHashes.init walks the headers down from SYSCurrentHeader, but
//     dao.DeleteBlock has removed them together with the blocks);
//   - after the batch with marker transfersReset the resumed reset completes,
//     but nothing initialises the stateroot module in that path
//     (Blockchain.init returns right after resetStateInternal, which calls
//     stateRoot.ResetState only in the headersReset stage): the next AddBlock
//     dereferences a nil trie in stateroot.Module.AddMPTBatch.
//
// The batches a reset issues are coalesced differently from run to run (they
// are flushed by a separate goroutine), so several resets are tried until both
// kinds of crash points were seen.
func TestC02Defect_ResetCrashPoints(t *testing.T) {
	const h = 15
	base, blocks := c02BasicChain(t, nil)

	var failures = make(map[string]struct{})
	for range 20 {
		rec := c02Copy(base)
		bcr, _, _ := chain.NewMultiWithCustomConfigAndStore(t, nil, rec, false)
		rec.reset()
		require.NoError(t, bcr.Reset(h))
		batches := rec.batches

		for i := 0; i <= len(batches); i++ {
			st := c02CrashState(base, batches, i)
			bc2, _, _, err := chain.NewMultiWithCustomConfigAndStoreNoCheck(t, nil, st)
			if err != nil {
				failures[fmt.Sprintf("can't reopen the DB: %v", err)] = struct{}{}
				t.Logf("crash after %v: can't reopen: %v", rec.tags(i), err)
				continue
			}
			if i > 0 {
				require.Equal(t, uint32(h), bc2.BlockHeight())
			}
			if err := c02AddBlocks(bc2, blocks); err != nil {
				failures[fmt.Sprintf("can't continue: %v", err)] = struct{}{}
				t.Logf("crash after %v: can't add blocks: %v", rec.tags(i), err)
			}
		}
		if len(failures) >= 2 {
			break
		}
	}
	for f := range failures {
		t.Error(f)
	}
}

// TestC02Defect_ResetOfGCNode: a completed Reset on a node with
// RemoveUntraceableBlocks (allowed while the height is below
// MaxTraceableBlocks) leaves a node that can't accept block h+1: the stateroot
// module is re-created in GC mode where MPT nodes that later blocks made
// inactive are invisible, and the root of the target state is one of them
// ("error while trying to apply MPT changes: key not found"). 38ecd9c fixed the
// same for the storage copy only.
func TestC02Defect_ResetOfGCNode(t *testing.T) {
	const h = 15
	cfg := func(c *config.Blockchain) {
		c.RemoveUntraceableBlocks = true
	}
	base, blocks := c02BasicChain(t, cfg)
	st := c02Copy(base)
	bcr, _, _ := chain.NewMultiWithCustomConfigAndStore(t, cfg, st, false)
	require.NoError(t, bcr.Reset(h))
	require.Equal(t, uint32(h), bcr.BlockHeight())
	require.NoError(t, c02AddBlocks(bcr, blocks))
}

// TestC02Defect_TrustedHeaderRestart: a node started on an empty DB with
// TrustedHeader above the first page of header hashes (index 2010) fetches a
// few headers, is stopped cleanly and can't be started again:
// "failed to retrieve header hash page 0: key not found; stored: 2000,
// missing: 2000, trusted: 2010, curr: 2015". HeaderHashes.init wants the page
// preceding the current one whenever curr%2000 != trusted%2000, but a node that
// started from a trusted header never had it.
func TestC02Defect_TrustedHeaderRestart(t *testing.T) {
	const trusted = 2010
	spoutCfg := func(c *config.Blockchain) {
		c.StateRootInHeader = true
		c.StateSyncInterval = 4
		c.MaxTraceableBlocks = 6
		c.P2PStateExchangeExtensions = true
	}
	bcSpout, validators, committee := chain.NewMultiWithCustomConfigAndStore(t, spoutCfg, storage.NewMemoryStore(), false)
	go bcSpout.Run()
	defer bcSpout.Close()
	e := neotest.NewExecutor(t, bcSpout, validators, committee)
	e.GenerateNewBlocks(t, trusted+20)
	boltCfg := func(c *config.Blockchain) {
		spoutCfg(c)
		c.KeepOnlyLatestState = true
		c.RemoveUntraceableBlocks = true
		c.TrustedHeader = config.HashIndex{Hash: bcSpout.GetHeaderHash(trusted), Index: trusted}
	}
	st := &c02RecStore{Store: storage.NewMemoryStore()}
	bcBolt, _, _ := chain.NewMultiWithCustomConfigAndStore(t, boltCfg, st, false)
	go bcBolt.Run()
	for i := uint32(trusted); i <= trusted+5; i++ {
		h, err := bcSpout.GetHeader(bcSpout.GetHeaderHash(i))
		require.NoError(t, err)
		require.NoError(t, bcBolt.AddHeaders(h))
	}
	require.Equal(t, uint32(trusted+5), bcBolt.HeaderHeight())
	bcBolt.Close()

	bc2, _, _, err := chain.NewMultiWithCustomConfigAndStoreNoCheck(t, boltCfg, st)
	require.NoError(t, err)
	require.Equal(t, uint32(trusted+5), bc2.HeaderHeight())
	require.Equal(t, bcSpout.GetHeaderHash(trusted+3), bc2.GetHeaderHash(trusted+3))
}

// c02SyncDrive brings MPT-based state synchronisation of bcBolt to the end
// from whatever state it is in.
func c02SyncDrive(bcBolt, bcSpout *core.Blockchain, nodes map[util.Uint256][]byte, p uint32) (err error) {
	defer func() {
		if r := recover(); r != nil {
			err = fmt.Errorf("panic: %v", r)
		}
	}()
	module := bcBolt.GetStateSyncModule()
	if err := module.Init(bcSpout.BlockHeight()); err != nil {
		return fmt.Errorf("module init: %w", err)
	}
	if module.NeedHeaders() {
		var headers []*block.Header
		for i := bcBolt.HeaderHeight() + 1; i <= bcSpout.HeaderHeight(); i++ {
			h, err := bcSpout.GetHeader(bcSpout.GetHeaderHash(i))
			if err != nil {
				return err
			}
			headers = append(headers, h)
		}
		if err := module.AddHeaders(headers...); err != nil {
			return fmt.Errorf("add headers: %w", err)
		}
	}
	if module.NeedStorageData() {
		for {
			need := module.GetUnknownMPTNodesBatch(2)
			if len(need) == 0 {
				break
			}
			add := make([][]byte, len(need))
			for i, h := range need {
				nb, ok := nodes[h]
				if !ok {
					return fmt.Errorf("unknown node requested %s", h.StringLE())
				}
				add[i] = nb
			}
			if err := module.AddMPTNodes(add); err != nil {
				return fmt.Errorf("add mpt nodes: %w", err)
			}
		}
	}
	if module.NeedBlocks() {
		for i := module.BlockHeight() + 1; i <= p; i++ {
			b, err := bcSpout.GetBlock(bcSpout.GetHeaderHash(i))
			if err != nil {
				return err
			}
			if err := module.AddBlock(b); err != nil {
				return fmt.Errorf("add block %d: %w", i, err)
			}
		}
	}
	if module.IsActive() {
		return fmt.Errorf("module is still active")
	}
	if bcBolt.BlockHeight() < p {
		return fmt.Errorf("height is %d after the synchronisation", bcBolt.BlockHeight())
	}
	return nil
}

// TestC02Defect_JumpVersionAndMarkerSplit shows what a power loss does when the
// periodic flush of Blockchain.Run falls between the two unprotected writes of
// the second stage of jumpToStateInternal:
//
//	bc.dao.PutVersion(v)                                  // storage prefix swapped
//	bc.dao.Store.Put(jumpStageKey, newStorageItemsAdded)  // stage marker
//
// Both go to the shared write cache of the running chain (unlike the reset,
// which stages its changes in a private cache), the jump runs in the network
// goroutine under bc.lock, which persist() does not take. The DB state used
// here is constructed from the recorded batches of a real jump: everything up
// to the stateJumpStarted marker plus the SYSVersion key of the next batch
// alone. The window is a few instructions wide, so the test does not try to
// hit it for real.
//
// Expected: the resumed jump ends like an uninterrupted one. Actual: the
// resumed stage swaps the prefix once more (back to the old one, the storage of
// the genesis block), the next stage treats the freshly synchronised contract
// storage as the old one to be removed, and here it does not even get that far:
// NewBlockchain fails with "failed to get MaxTraceableBlocks from DAO: item
// with id = -7 and key = 17 is not initialized", the node can't be started.
func TestC02Defect_JumpVersionAndMarkerSplit(t *testing.T) {
	const (
		stateSyncInterval = 4
		maxTraceable      = 6
		stateSyncPoint    = 24
	)
	spoutCfg := func(c *config.Blockchain) {
		c.StateRootInHeader = true
		c.StateSyncInterval = stateSyncInterval
		c.MaxTraceableBlocks = maxTraceable
		c.P2PStateExchangeExtensions = true
	}
	bcSpout, validators, committee := chain.NewMultiWithCustomConfigAndStore(t, spoutCfg, storage.NewMemoryStore(), false)
	go bcSpout.Run()
	defer bcSpout.Close()
	e := neotest.NewExecutor(t, bcSpout, validators, committee)
	basicchain.Init(t, "../../", e)
	for bcSpout.BlockHeight() < stateSyncPoint+3 {
		e.AddNewBlock(t)
	}
	var blocks []*block.Block
	for i := uint32(1); i <= bcSpout.BlockHeight(); i++ {
		b, err := bcSpout.GetBlock(bcSpout.GetHeaderHash(i))
		require.NoError(t, err)
		blocks = append(blocks, b)
	}
	boltCfg := func(c *config.Blockchain) {
		spoutCfg(c)
		c.KeepOnlyLatestState = true
		c.RemoveUntraceableBlocks = true
	}
	hdr, err := bcSpout.GetHeader(bcSpout.GetHeaderHash(stateSyncPoint + 1))
	require.NoError(t, err)
	nodes := make(map[util.Uint256][]byte)
	require.NoError(t, bcSpout.GetStateSyncModule().Traverse(hdr.PrevStateRoot, func(n mpt.Node, nodeBytes []byte) bool {
		nodes[n.Hash()] = nodeBytes
		return false
	}))

	// An uninterrupted synchronisation, recorded.
	rec := &c02RecStore{Store: storage.NewMemoryStore()}
	bcBolt, _, _ := chain.NewMultiWithCustomConfigAndStore(t, boltCfg, rec, false)
	require.NoError(t, c02SyncDrive(bcBolt, bcSpout, nodes, stateSyncPoint))
	batches := rec.batches
	require.NoError(t, c02AddBlocks(bcBolt, blocks))

	// Find the batch of the second stage: it has the version and the marker.
	var (
		verKey    = string([]byte{byte(storage.SYSVersion)})
		markerKey = string([]byte{byte(storage.SYSStateChangeStage)})
		split     = -1
	)
	for i, b := range batches {
		if _, ok := b.puts[verKey]; ok && i > 0 {
			if _, ok := b.puts[markerKey]; ok {
				split = i
			}
		}
	}
	require.True(t, split > 0, "the batch with the version and the stage marker is not found")

	empty := &c02RecStore{Store: storage.NewMemoryStore()}
	st := c02CrashState(empty, batches, split)
	_ = st.Store.PutChangeSet(map[string][]byte{verKey: batches[split].puts[verKey]}, nil)

	bc2, _, _, err := chain.NewMultiWithCustomConfigAndStoreNoCheck(t, boltCfg, st)
	require.NoError(t, err)
	require.Equal(t, uint32(stateSyncPoint), bc2.BlockHeight())
	require.NoError(t, c02AddBlocks(bc2, blocks))
}

// TestC02Defect_ResetDropsEarlierConflictRecord: block 1 has a transaction with
// Conflicts(H), block 3 has another transaction with Conflicts(H) as well. The
// conflict record stub of H is one key that the second transaction overwrites
// (the stub carries the index of the latest block), the per-signer record too.
// Reset to height 2 removes block 3 through dao.DeleteBlock, whose clean-up of
// conflict records never runs: it works on the block read back by dao.getBlock,
// which is a trimmed block, its transactions are bare hashes without attributes
// (block.NewTrimmedFromReader / transaction.NewTrimmedTX), so
// tx.GetAttributes(ConflictsT) is always empty there (the same makes the
// collector of untraceable blocks leave all conflict records behind). After the
// reset the records say "H conflicts with a transaction of block 3", a block
// above the chain: dao.HasTransaction treats such a record as not traceable and
// reports no conflict, while a node that has only ever synchronised to height 2
// holds index 1 and rejects H with ErrHasConflicts. The two nodes disagree on
// the validity of transaction H, and the databases differ.
func TestC02Defect_ResetDropsEarlierConflictRecord(t *testing.T) {
	base := &c02RecStore{Store: storage.NewMemoryStore()}
	bc, acc := chain.NewSingleWithCustomConfigAndStore(t, nil, base, false)
	go bc.Run()
	e := neotest.NewExecutor(t, bc, acc, acc)
	conflict := util.Uint256{1, 2, 3}
	newTx := func(nonce uint32) *transaction.Transaction {
		tx := transaction.New([]byte{byte(opcode.PUSHT)}, 0)
		tx.Nonce = nonce
		tx.ValidUntilBlock = e.Chain.BlockHeight() + 1
		tx.Attributes = []transaction.Attribute{{Type: transaction.ConflictsT, Value: &transaction.Conflicts{Hash: conflict}}}
		e.SignTx(t, tx, -1, acc)
		return tx
	}
	b1 := e.AddNewBlock(t, newTx(1))
	b2 := e.AddNewBlock(t)
	e.AddNewBlock(t, newTx(2))
	bc.Close()

	// The reset node.
	st := c02Copy(base)
	bcr, _ := chain.NewSingleWithCustomConfigAndStore(t, nil, st, false)
	require.NoError(t, bcr.Reset(2))

	// The node that never saw block 3.
	fresh := &c02RecStore{Store: storage.NewMemoryStore()}
	bcf, _ := chain.NewSingleWithCustomConfigAndStore(t, nil, fresh, false)
	go bcf.Run()
	require.NoError(t, bcf.AddBlock(b1))
	require.NoError(t, bcf.AddBlock(b2))
	bcf.Close()

	stubKey := append([]byte{byte(storage.DataExecutable)}, conflict.BytesBE()...)
	expected, err := fresh.Get(stubKey)
	require.NoError(t, err)
	actual, err := st.Get(stubKey)
	require.NoError(t, err)
	require.Equal(t, expected, actual, "the conflict record of H must be the one block 1 has made")
}
