// Copy to pkg/consensus/ ; run: go test ./pkg/consensus/ -run 'TestC17Defect4' -count=1
package consensus

import (
	"testing"

	"github.com/nspcc-dev/dbft"
	"github.com/nspcc-dev/neo-go/internal/testchain"
	"github.com/nspcc-dev/neo-go/pkg/config/netmode"
	"github.com/nspcc-dev/neo-go/pkg/crypto/keys"
	"github.com/nspcc-dev/neo-go/pkg/io"
	"github.com/stretchr/testify/require"
)

// DEFECT (unmodified tree, suspected): a Commit that travels inside a recovery
// message is rebuilt with the view number of the RECOVERY message, the view
// number kept in its compact form (commitCompact.ViewNumber, written to and
// read from the wire) is ignored by recoveryMessage.GetCommits (the C# node
// uses it, GetChangeViews here uses the compact's OriginalViewNumber too).
// dbft keeps commits of other views in CommitPayloads ("received commit for
// different view") and puts all of them into the recovery messages it makes,
// so the views can differ. The rebuilt payload then has another hash than the
// original one and its witness (a signature of that hash) is no longer valid:
// the identity of the payload depends on the path it arrived by.
func TestC17Defect4_CommitFromRecoveryKeepsItsView(t *testing.T) {
	privs := make([]*keys.PrivateKey, testchain.Size())
	pubs := make([]dbft.PublicKey, testchain.Size())
	for i := range testchain.Size() {
		privs[i], pubs[i] = getTestValidator(i)
	}
	const height = 10

	// Validator 3 has committed at view 1.
	c := NewPayload(netmode.UnitTestNet, false)
	c.message.Type = messageType(dbft.CommitType)
	c.BlockIndex = height
	c.message.ViewNumber = 1
	c.message.ValidatorIndex = 3
	c.payload = randomMessage(t, commitType)
	c.Sender = privs[3].GetScriptHash()
	require.NoError(t, c.Sign(privs[3]))

	// Validator 0 is still at view 0, it has got that commit and relays it in
	// its recovery message.
	rec := &recoveryMessage{}
	p := NewPayload(netmode.UnitTestNet, false)
	p.message.Type = messageType(dbft.RecoveryMessageType)
	p.BlockIndex = height
	p.message.ViewNumber = 0
	p.payload = rec
	rec.AddPayload(c)
	require.NoError(t, p.Sign(privs[0]))

	// Over the wire.
	w := io.NewBufBinWriter()
	p.EncodeBinary(w.BinWriter)
	require.NoError(t, w.Err)
	got := NewPayload(netmode.UnitTestNet, false)
	r := io.NewBinReaderFromBuf(w.Bytes())
	got.DecodeBinary(r)
	require.NoError(t, r.Err)

	commits := got.GetRecoveryMessage().GetCommits(got, pubs)
	require.Len(t, commits, 1)
	require.Equal(t, byte(1), got.GetRecoveryMessage().(*recoveryMessage).commitPayloads[0].ViewNumber, "the view is on the wire")
	require.Equal(t, c.ViewNumber(), commits[0].ViewNumber(), "the rebuilt commit is of another view")
	require.Equal(t, c.Hash(), commits[0].Hash(), "the rebuilt commit has another hash")
}
