package io_test

// Demonstration for finding C17/varint-agreement (copy into pkg/io of a scratch worktree of the unrepaired tree and run
//   go test -count=1 -run TestHEAD_VarUintBoundary ./pkg/io/ ). It fails there and passes on the repaired tree.
// The encoder, the size function and the decoder of the variable-length integer must agree at the boundaries
// 0xFFFF and 0xFFFFFFFF, which the protocol encodes in 3 and 5 bytes.

import (
	"testing"

	"github.com/nspcc-dev/neo-go/pkg/io"
	"github.com/stretchr/testify/require"
)

func TestHEAD_VarUintBoundary(t *testing.T) {
	for _, tc := range []struct {
		val  uint64
		size int
	}{{0xfc, 1}, {0xfd, 3}, {0xfffe, 3}, {0xffff, 3}, {0x10000, 5}, {0xfffffffe, 5}, {0xffffffff, 5}, {0x100000000, 9}} {
		w := io.NewBufBinWriter()
		w.WriteVarUint(tc.val)
		require.NoError(t, w.Err)
		enc := w.Bytes()
		if len(enc) != tc.size {
			t.Errorf("WriteVarUint(%#x) takes %d bytes, the protocol (and GetVarSize) say %d", tc.val, len(enc), tc.size)
		}
		if tc.val <= 0xffffffff {
			if sz := io.GetVarSize(int(tc.val)); sz != len(enc) {
				t.Errorf("GetVarSize(%#x) = %d, but the encoder writes %d bytes", tc.val, sz, len(enc))
			}
		}
		r := io.NewBinReaderFromBuf(enc)
		require.Equal(t, tc.val, r.ReadVarUint())
	}
	// what that means one level up: a byte string of the maximum script length
	b := make([]byte, 0xffff)
	w := io.NewBufBinWriter()
	w.WriteVarBytes(b)
	if got, want := len(w.Bytes()), io.GetVarSize(b); got != want {
		t.Errorf("a %d-byte string is written in %d bytes, GetVarSize says %d", len(b), got, want)
	}
}
