// Copy to pkg/core/ (package core_test); run: go test ./pkg/core/ -count=1 -run 'TestC01Defect_BlockAccountReentrancyUnsortsCache'
package core_test

import (
	"strings"
	"testing"

	"github.com/nspcc-dev/neo-go/pkg/compiler"
	"github.com/nspcc-dev/neo-go/pkg/core/native/nativenames"
	"github.com/nspcc-dev/neo-go/pkg/core/storage"
	"github.com/nspcc-dev/neo-go/pkg/core/storage/dbconfig"
	"github.com/nspcc-dev/neo-go/pkg/neotest"
	"github.com/nspcc-dev/neo-go/pkg/neotest/chain"
	"github.com/nspcc-dev/neo-go/pkg/smartcontract/manifest"
	"github.com/nspcc-dev/neo-go/pkg/smartcontract/trigger"
	"github.com/nspcc-dev/neo-go/pkg/util"
	"github.com/nspcc-dev/neo-go/pkg/vm/stackitem"
	"github.com/stretchr/testify/require"
)

// The contract blocks one more account (00..01, the smallest possible hash) as
// soon as some GAS is minted to it.
const c01dReenterSrc = `package c01reenter

import (
	"github.com/nspcc-dev/neo-go/pkg/interop"
	"github.com/nspcc-dev/neo-go/pkg/interop/native/policy"
)

// OnNEP17Payment accepts NEO and reacts to minted GAS.
func OnNEP17Payment(from interop.Hash160, amount int, data any) {
	if from == nil {
		policy.BlockAccount(interop.Hash160("\x00\x00\x00\x00\x00\x00\x00\x00\x00\x00\x00\x00\x00\x00\x00\x00\x00\x00\x00\x01"))
	}
}
`

// TestC01Defect_BlockAccountReentrancyUnsortsCache: Policy.BlockAccountInternalDeferrable
// computes the position of the new entry in the sorted PolicyCache.blockedAccounts list
// BEFORE it (since Faun) revokes the votes of the account, which mints the unclaimed
// GAS to it and calls its onNEP17Payment. If that code blocks another account that
// sorts before the first one (the committee witness has the Global scope, so it is
// honoured there), the remembered position is stale and the cached list is no longer
// sorted. Binary search then misses an account that IS blocked according to storage.
// A restarted node rebuilds the list from storage (sorted), so the two disagree on
// isBlocked and on everything that follows from it.
func TestC01Defect_BlockAccountReentrancyUnsortsCache(t *testing.T) {
	bc1, acc := chain.NewSingle(t)
	e := neotest.NewExecutor(t, bc1, acc, acc)
	e.DisableCoverage()

	open := func(path string) storage.Store {
		st, err := storage.NewLevelDBStore(dbconfig.LevelDBOptions{DataDirectoryPath: path})
		require.NoError(t, err)
		return st
	}
	path := t.TempDir()
	bc2, _ := chain.NewSingleWithCustomConfigAndStore(t, nil, open(path), false)
	go bc2.Run()
	t.Cleanup(func() { bc2.Close() })
	sync := func() {
		for h := bc2.BlockHeight() + 1; h <= bc1.BlockHeight(); h++ {
			require.NoError(t, bc2.AddBlock(e.GetBlockByIndex(t, h)))
		}
	}

	victim := util.Uint160{19: 1}
	c := neotest.CompileSource(t, e.Validator.ScriptHash(), strings.NewReader(c01dReenterSrc), &compiler.Options{
		Name:        "c01-reenter",
		Permissions: []manifest.Permission{*manifest.NewPermission(manifest.PermissionWildcard)},
	})
	require.True(t, victim.Compare(c.Hash) < 0)
	e.DeployContract(t, c, nil)

	neoInv := e.ValidatorInvoker(e.NativeHash(t, nativenames.Neo))
	neoInv.Invoke(t, true, "transfer", e.Validator.ScriptHash(), c.Hash, 1_000_000, nil)
	e.GenerateNewBlocks(t, 5) // some GAS to claim

	policyInv := e.CommitteeInvoker(e.NativeHash(t, nativenames.Policy))
	policyInv.Invoke(t, true, "blockAccount", c.Hash)
	sync()

	// Storage has both records.
	var blocked int
	bc1.SeekStorage(e.NativeID(t, nativenames.Policy), []byte{15}, func(k, v []byte) bool {
		blocked++
		return true
	})
	require.Equal(t, 2, blocked)

	// Replica 2 is restarted.
	bc2.Close()
	bc2, _ = chain.NewSingleWithCustomConfigAndStore(t, nil, open(path), false)
	go bc2.Run()

	// Both are asked whether the second account is blocked.
	tx := policyInv.PrepareInvoke(t, "isBlocked", victim)
	e.AddNewBlock(t, tx)
	sync()
	aer1, err := bc1.GetAppExecResults(tx.Hash(), trigger.Application)
	require.NoError(t, err)
	aer2, err := bc2.GetAppExecResults(tx.Hash(), trigger.Application)
	require.NoError(t, err)
	j1, err := stackitem.ToJSONWithTypes(aer1[0].Stack[0])
	require.NoError(t, err)
	j2, err := stackitem.ToJSONWithTypes(aer2[0].Stack[0])
	require.NoError(t, err)
	require.Equal(t, string(j2), string(j1), "isBlocked(00..01): restarted replica vs the one that never stopped")
}
