// Copy to pkg/network/bqueue/ (package bqueue); run: go test -count=1 -run TestC20Defect_LenLeaks ./pkg/network/bqueue/ ; fails before the fix (capacity 0 of 4 with an empty queue), passes after it.
package bqueue

import (
	"testing"
	"time"

	"github.com/nspcc-dev/neo-go/internal/fakechain"
	"github.com/nspcc-dev/neo-go/pkg/core/block"
	"github.com/stretchr/testify/require"
	"go.uber.org/zap/zaptest"
)

// Blocks that were queued and then added to the chain by another producer
// (consensus) are never taken out of the bookkeeping: the clean-up loop of Run
// looks at slot i+1 and compares the index found there with i, which never
// matches. Each such block leaves `len` one too high forever, the capacity
// reported by LastQueued shrinks, and when it reaches zero the server stops
// requesting blocks (requestBlocks: "No more blocks will fit into the queue").
func TestC20Defect_LenLeaksWhenConsensusOvertakesQueue(t *testing.T) {
	const size = 4
	chain := fakechain.NewFakeChain()
	bq := New(fakechainBlockQueueAdapter{chain}, zaptest.NewLogger(t), nil, size, nil, NonBlocking)
	go bq.Run()
	time.Sleep(100 * time.Millisecond) // let Run read the initial height before anything is queued
	defer bq.Discard()
	blk := func(i uint32) *block.Block { return &block.Block{Header: block.Header{Index: i}} }

	h := uint32(0)
	for range size {
		// h+2 comes from the network first, it can't be applied yet.
		require.NoError(t, bq.Put(blk(h+2)))
		// Consensus produces h+1 and h+2 itself.
		require.NoError(t, chain.AddBlock(blk(h+1)))
		require.NoError(t, chain.AddBlock(blk(h+2)))
		// h+3 comes from the network and is applied by the queue.
		require.NoError(t, bq.Put(blk(h+3)))
		require.Eventually(t, func() bool { return chain.BlockHeight() == h+3 }, 2*time.Second, 10*time.Millisecond)
		h += 3
	}
	// Let Run finish its iteration.
	time.Sleep(100 * time.Millisecond)
	// Everything given was applied, nothing is pending.
	_, capLeft := bq.LastQueued()
	require.Equal(t, size, capLeft, "the queue is empty, but reports it's occupied")
}
