// Copy to pkg/core/state/ (package state); run: go test -count=1 -run TestDemoC17_ContractInvocationJSONRoundTrip ./pkg/core/state/
// Fails on the tree before fix 39d3a51, passes after it.
package state

import (
	"encoding/json"
	"testing"

	"github.com/nspcc-dev/neo-go/pkg/io"
	"github.com/nspcc-dev/neo-go/pkg/util"
	"github.com/nspcc-dev/neo-go/pkg/vm/stackitem"
	"github.com/stretchr/testify/require"
)

// A ContractInvocation as the node records it (serialized arguments), sent over RPC as JSON, decoded by a client and
// encoded again (what the CLI does when it prints a result) must still carry its arguments.
func TestDemoC17_ContractInvocationJSONRoundTrip(t *testing.T) {
	args, err := stackitem.Serialize(stackitem.NewArray([]stackitem.Item{stackitem.Make(42), stackitem.Make("x")}))
	require.NoError(t, err)
	ci := NewContractInvocation(util.Uint160{1, 2, 3}, "transfer", args, 2)

	first, err := json.Marshal(ci)
	require.NoError(t, err)
	require.Contains(t, string(first), `"arguments"`)

	var decoded ContractInvocation
	require.NoError(t, json.Unmarshal(first, &decoded))
	require.NotNil(t, decoded.Arguments)

	second, err := json.Marshal(decoded)
	require.NoError(t, err)
	require.JSONEq(t, string(first), string(second), "decode-then-encode lost the arguments")

	// the same value through the binary codec
	w := io.NewBufBinWriter()
	decoded.EncodeBinary(w.BinWriter)
	require.NoError(t, w.Err)
	var fromBin ContractInvocation
	r := io.NewBinReaderFromBuf(w.Bytes())
	fromBin.DecodeBinary(r)
	require.NoError(t, r.Err)
	third, err := json.Marshal(fromBin)
	require.NoError(t, err)
	require.JSONEq(t, string(first), string(third), "JSON -> binary -> JSON lost the arguments")
}
