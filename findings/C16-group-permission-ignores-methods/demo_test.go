package manifest

// Demonstration for finding C16/perm-method-check: Permission.IsAllowed returns from the PermissionGroup arm
// with the group-membership answer alone, so the permission's explicit method list is never consulted for
// group permissions: a deployed contract whose only permission is {contract: <group key>, methods: ["a"]}
// may call ANY non-safe method of any contract of that group (the C# reference node checks the method list
// for all three permission kinds). Copy into /repo/pkg/smartcontract/manifest/ and run:
//   go test -run TestVerifDemoGroupPermissionHonoursMethods ./pkg/smartcontract/manifest/

import (
	"testing"

	"github.com/nspcc-dev/neo-go/pkg/crypto/keys"
	"github.com/nspcc-dev/neo-go/pkg/util"
	"github.com/stretchr/testify/require"
)

func TestVerifDemoGroupPermissionHonoursMethods(t *testing.T) {
	priv, err := keys.NewPrivateKey()
	require.NoError(t, err)
	callee := NewManifest("callee")
	callee.Groups = []Group{{PublicKey: priv.PublicKey()}}

	perm := NewPermission(PermissionGroup, priv.PublicKey())
	perm.Methods.Add("allowedMethod")

	caller := NewManifest("caller")
	caller.Permissions = []Permission{*perm}

	h := util.Uint160{1, 2, 3}
	require.True(t, caller.CanCall(h, callee, "allowedMethod"))
	require.False(t, caller.CanCall(h, callee, "otherMethod"), "a group permission with an explicit method list must not allow a method outside the list")
}
