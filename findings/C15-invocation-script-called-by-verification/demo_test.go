// Copy to pkg/core/ (package core_test); run: go test ./pkg/core/ -run 'TestC15Defect_InvocationScriptIsCalledByVerificationScript' -count=1
package core_test

import (
	"testing"

	"github.com/nspcc-dev/neo-go/pkg/core"
	"github.com/nspcc-dev/neo-go/pkg/core/interop/interopnames"
	"github.com/nspcc-dev/neo-go/pkg/core/native/nativehashes"
	"github.com/nspcc-dev/neo-go/pkg/core/transaction"
	"github.com/nspcc-dev/neo-go/pkg/crypto/hash"
	"github.com/nspcc-dev/neo-go/pkg/io"
	"github.com/nspcc-dev/neo-go/pkg/neotest"
	"github.com/nspcc-dev/neo-go/pkg/neotest/chain"
	"github.com/nspcc-dev/neo-go/pkg/util"
	"github.com/nspcc-dev/neo-go/pkg/vm/emit"
	"github.com/nspcc-dev/neo-go/pkg/vm/opcode"
	"github.com/stretchr/testify/require"
)

// TestC15Defect_InvocationScriptIsCalledByVerificationScript shows that the
// invocation script of a witness is loaded as if it were CALLED BY the
// verification script: Blockchain.InitVerificationContext loads it with
// VM.LoadScript, which takes the hash of the context on top of the invocation
// stack (the verification script, i.e. the signer's account) as the calling
// script hash. System.Runtime.CheckWitness(account) executed in the invocation
// script then succeeds through the "calling script" shortcut of
// CheckHashedWitness whatever the scope of the signer is, although the
// verification script never called anything. (The reference implementation loads
// the invocation script with no calling context at all, so the check goes
// through the signer's scope there; the same transaction is valid for neo-go
// and invalid for the reference node or vice versa.)
//
// The account used here has the verification script `RET`: its witness is valid
// iff the invocation script leaves `true` on the stack. The invocation script is
// `CheckWitness(account)`.
func TestC15Defect_InvocationScriptIsCalledByVerificationScript(t *testing.T) {
	bc, acc := chain.NewSingle(t)
	e := neotest.NewExecutor(t, bc, acc, acc)

	verif := []byte{byte(opcode.RET)}
	account := hash.Hash160(verif)

	w := io.NewBufBinWriter()
	emit.Bytes(w.BinWriter, account.BytesBE())
	emit.Syscall(w.BinWriter, interopnames.SystemRuntimeCheckWitness)
	require.NoError(t, w.Err)
	witness := &transaction.Witness{InvocationScript: w.Bytes(), VerificationScript: verif}

	check := func(signer transaction.Signer) error {
		tx := e.NewUnsignedTx(t, nativehashes.GasToken, "symbol")
		signer.Account = account
		tx.Signers = []transaction.Signer{signer}
		tx.Scripts = []transaction.Witness{*witness}
		_, err := e.Chain.VerifyWitness(account, tx, witness, 1_0000_0000)
		return err
	}

	// Sanity: where the scope allows it the check succeeds.
	require.NoError(t, check(transaction.Signer{Scopes: transaction.Global}))
	require.NoError(t, check(transaction.Signer{Scopes: transaction.CalledByEntry}))

	// The None scope is valid nowhere, CheckWitness must return false.
	require.ErrorIs(t, check(transaction.Signer{Scopes: transaction.None}), core.ErrInvalidSignature)
	// The invocation script is not the GAS contract.
	require.ErrorIs(t, check(transaction.Signer{
		Scopes:           transaction.CustomContracts,
		AllowedContracts: []util.Uint160{nativehashes.GasToken},
	}), core.ErrInvalidSignature)
	// Nobody called the invocation script.
	require.ErrorIs(t, check(transaction.Signer{
		Scopes: transaction.Rules,
		Rules: []transaction.WitnessRule{{
			Action:    transaction.WitnessAllow,
			Condition: (*transaction.ConditionCalledByContract)(&account),
		}},
	}), core.ErrInvalidSignature)
}
