// Copy into pkg/network/capability/ ; run: go test ./pkg/network/capability/ -run 'TestC17Defect_' -count=1 (FAILS on the unmodified tree)
package capability

import (
	"testing"

	"github.com/nspcc-dev/neo-go/pkg/io"
	"github.com/stretchr/testify/require"
)

// MaxDataSize (1024) is declared as "the maximum size of capability payload" but nothing enforces it.
func TestC17Defect_UnknownCapabilityIgnoresMaxDataSize(t *testing.T) {
	w := io.NewBufBinWriter()
	w.WriteVarUint(1)
	w.WriteB(0xf0) // reserved/unknown type
	w.WriteVarBytes(make([]byte, 100*MaxDataSize))
	var cs Capabilities
	r := io.NewBinReaderFromBuf(w.Bytes())
	cs.DecodeBinary(r)
	require.Error(t, r.Err)
}
