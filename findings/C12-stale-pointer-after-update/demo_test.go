// Copy to pkg/vm/ (package vm); run: go test ./pkg/vm/ -count=1 -run 'TestC12Defect_StalePointerAfterUpdateRunsMidInstruction'
package vm

import (
	"github.com/nspcc-dev/neo-go/pkg/smartcontract/callflag"
	"github.com/nspcc-dev/neo-go/pkg/smartcontract/scparser"
	"github.com/nspcc-dev/neo-go/pkg/util"
	"github.com/nspcc-dev/neo-go/pkg/util/bitfield"
	"github.com/nspcc-dev/neo-go/pkg/vm/opcode"
	"github.com/nspcc-dev/neo-go/pkg/vm/stackitem"
	"github.com/stretchr/testify/require"
	"testing"
)

// Defect 2: CALLA accepts a pointer when its script hash equals the hash of
// the executing context. For deployed contracts that hash is the contract
// hash (LoadNEFMethod/LoadScriptWithHash), which does not change when the
// contract is updated, so a pointer made by the old script is accepted by the
// new one (update and the second call can happen within one transaction) and
// execution continues at an offset that is not an instruction boundary of the
// new script although it passed IsScriptCorrect.
func TestC12Defect_StalePointerAfterUpdateRunsMidInstruction(t *testing.T) {
	contract := util.Uint160{0xc0, 0x17}
	// Old version: returns a pointer to its offset 7.
	v1 := makeProgram(
		/* 0 */ opcode.PUSHA, 7, 0, 0, 0,
		/* 5 */ opcode.RET,
		/* 6 */ opcode.NOP,
		/* 7 */ opcode.RET,
	)
	// New version: takes a pointer and calls it. Offset 7 is inside the
	// PUSHDATA1 operand.
	v2 := makeProgram(
		/* 0 */ opcode.CALLA,
		/* 1 */ opcode.RET,
		/* 2 */ opcode.PUSHDATA1, 8, 0, 0, 0, 0, 0, 0, 0, 0,
		/* 12 */ opcode.RET,
	)
	v2[7] = byte(opcode.PUSH11) // "hidden" code
	v2[8] = byte(opcode.RET)
	require.NoError(t, scparser.IsScriptCorrect(v1, nil))
	require.NoError(t, scparser.IsScriptCorrect(v2, nil))

	boundaries := bitfield.New(len(v2))
	for c := scparser.NewContext(v2, 0); c.NextIP() < len(v2); {
		_, _, err := c.Next()
		require.NoError(t, err)
		boundaries.Set(c.IP())
	}

	v := newTestVM()
	v.LoadScriptWithHash(v1, contract, callflag.All)
	require.NoError(t, v.Run())
	ptr := v.estack.Pop().Item()
	require.Equal(t, stackitem.PointerT, ptr.Type())

	v = newTestVM()
	var bad []int
	v.SetOnExecHook(func(h util.Uint160, off int, op opcode.Opcode) {
		if off < len(v2) && !boundaries.IsSet(off) {
			bad = append(bad, off)
		}
	})
	v.LoadScriptWithHash(v2, contract, callflag.All)
	v.estack.PushItem(ptr)
	err := v.Run()
	require.Empty(t, bad, "executed offsets that are not instruction boundaries (err=%v, stack top=%v)", err, v.estack.Top().value)
	require.Error(t, err, "a pointer into another script must not be callable")
}
