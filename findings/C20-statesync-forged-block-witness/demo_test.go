// Copy to pkg/core/statesync/ ; go test ./pkg/core/statesync/ -run 'TestC20Defect_BlockWithForgedWitnessStored' -count=1
package statesync_test

import (
	"github.com/nspcc-dev/neo-go/pkg/vm/opcode"
	"testing"

	"github.com/nspcc-dev/neo-go/pkg/config"
	"github.com/nspcc-dev/neo-go/pkg/core/block"
	"github.com/nspcc-dev/neo-go/pkg/core/mpt"
	"github.com/nspcc-dev/neo-go/pkg/core/native/nativenames"
	"github.com/nspcc-dev/neo-go/pkg/core/transaction"
	"github.com/nspcc-dev/neo-go/pkg/neotest"
	"github.com/nspcc-dev/neo-go/pkg/neotest/chain"
	"github.com/stretchr/testify/require"
)

// TestC20Defect_BlockWithForgedWitnessStored: statesync.Module.AddBlock checks
// the header hash and the Merkle root of a block it stores without executing.
// The Merkle tree repeats the last element of an odd level, hence a block with
// transactions [t1 t2 t3] and the "same" block with [t1 t2 t3 t3] have one
// Merkle root and one hash. Blockchain.AddBlock rejects the second form
// ("duplicate transaction"), Module.AddBlock stores it: the synchronised node
// keeps a block that differs from the one every other node has (Ledger.getBlock
// / getTransactionFromBlock and the RPC report 4 transactions).
func TestC20Defect_BlockWithForgedWitnessStored(t *testing.T) {
	const (
		stateSyncInterval = 4
		maxTraceable      = 6
	)
	spoutCfg := func(c *config.Blockchain) {
		c.StateRootInHeader = true
		c.StateSyncInterval = stateSyncInterval
		c.MaxTraceableBlocks = maxTraceable
		c.Hardforks = map[string]uint32{
			config.HFAspidochelone.String(): 0,
			config.HFBasilisk.String():      0,
			config.HFCockatrice.String():    0,
			config.HFDomovoi.String():       0,
			config.HFEchidna.String():       0,
		}
	}
	bcSpout, validators, committee := chain.NewMultiWithCustomConfig(t, spoutCfg)
	e := neotest.NewExecutor(t, bcSpout, validators, committee)
	gasHash := e.NativeHash(t, nativenames.Gas)
	accs := []neotest.Signer{e.NewAccount(t, 100_0000_0000), e.NewAccount(t, 100_0000_0000), e.NewAccount(t, 100_0000_0000)}
	for bcSpout.BlockHeight() < 3*stateSyncInterval+1 {
		e.AddNewBlock(t)
	}
	// A block with three transactions inside the window of blocks to be fetched.
	var txs []*transaction.Transaction
	for _, a := range accs {
		txs = append(txs, e.NewInvoker(gasHash, a).PrepareInvoke(t, "transfer", a.ScriptHash(), validators.ScriptHash(), 1, nil))
	}
	b3 := e.AddNewBlock(t, txs...)
	for bcSpout.BlockHeight() < 4*stateSyncInterval+1 {
		e.AddNewBlock(t)
	}
	stateSyncPoint := (bcSpout.BlockHeight() / stateSyncInterval) * stateSyncInterval
	require.True(t, b3.Index > stateSyncPoint-maxTraceable && b3.Index <= stateSyncPoint)

	boltCfg := func(c *config.Blockchain) {
		spoutCfg(c)
		c.P2PStateExchangeExtensions = true
		c.KeepOnlyLatestState = true
		c.RemoveUntraceableBlocks = true
	}
	bcBolt, _, _ := chain.NewMultiWithCustomConfig(t, boltCfg)
	module := bcBolt.GetStateSyncModule()
	require.NoError(t, module.Init(bcSpout.BlockHeight()))

	var hdrs []*block.Header
	for i := uint32(1); i <= bcSpout.HeaderHeight(); i++ {
		h, err := bcSpout.GetHeader(bcSpout.GetHeaderHash(i))
		require.NoError(t, err)
		hdrs = append(hdrs, h)
	}
	require.NoError(t, module.AddHeaders(hdrs...))
	srv := bcSpout.GetStateSyncModule()
	for module.NeedStorageData() {
		var resp [][]byte
		for _, h := range module.GetUnknownMPTNodesBatch(10) {
			require.NoError(t, srv.Traverse(h, func(_ mpt.Node, nodeBytes []byte) bool {
				resp = append(resp, append([]byte{}, nodeBytes...))
				return true
			}))
		}
		require.NoError(t, module.AddMPTNodes(resp))
	}

	var accepted bool
	for i := module.BlockHeight() + 1; i <= stateSyncPoint; i++ {
		b, err := bcSpout.GetBlock(bcSpout.GetHeaderHash(i))
		require.NoError(t, err)
		if i == b3.Index {
			bad := *b
			bad.Script.InvocationScript = []byte{byte(opcode.PUSH1)} // the hash covers no witness
			require.Equal(t, b.Hash(), bad.Hash())
			if module.AddBlock(&bad) == nil {
				accepted = true
				continue
			}
		}
		require.NoError(t, module.AddBlock(b))
	}
	require.False(t, module.IsActive())
	require.Equal(t, stateSyncPoint, bcBolt.BlockHeight())

	exp, err := bcSpout.GetBlock(b3.Hash())
	require.NoError(t, err)
	got, err := bcBolt.GetBlock(b3.Hash())
	require.NoError(t, err)
	require.Equal(t, exp.Script, got.Script, "the synchronised node stores (and serves) a block whose witness nobody signed (forged block accepted: %v)", accepted)
}
