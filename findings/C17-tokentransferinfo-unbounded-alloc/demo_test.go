package state

// Demonstration for finding C17/bounded-alloc: TokenTransferInfo.DecodeBinary passes a length prefix read
// from the input straight to make(map, n) and loops n times: a 33-byte record makes the decoder allocate
// hundreds of megabytes. Copy into /repo/pkg/core/state/ and run:
//   go test -run TestVerifDemoTokenTransferInfoBoundedDecode ./pkg/core/state/

import (
	"runtime"
	"testing"

	"github.com/nspcc-dev/neo-go/pkg/io"
	"github.com/stretchr/testify/require"
)

func TestVerifDemoTokenTransferInfoBoundedDecode(t *testing.T) {
	w := io.NewBufBinWriter()
	w.WriteU32LE(0)
	w.WriteU32LE(0)
	w.WriteU64LE(0)
	w.WriteU64LE(0)
	w.WriteBool(true)
	w.WriteBool(true)
	w.WriteVarUint(1 << 24) // claims 16M entries, none follows
	data := w.Bytes()
	require.Less(t, len(data), 40)

	var before, after runtime.MemStats
	runtime.GC()
	runtime.ReadMemStats(&before)
	var tti TokenTransferInfo
	r := io.NewBinReaderFromBuf(data)
	tti.DecodeBinary(r)
	runtime.ReadMemStats(&after)

	require.Error(t, r.Err, "truncated input must be rejected")
	require.Less(t, after.TotalAlloc-before.TotalAlloc, uint64(1<<20), "decoding %d bytes allocated %d MB", len(data), (after.TotalAlloc-before.TotalAlloc)>>20)
}
