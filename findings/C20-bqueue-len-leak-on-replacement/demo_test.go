// Copy to pkg/network/bqueue/ ; run: go test ./pkg/network/bqueue/ -run 'TestC20Defect_LenLeakOnStaleReplacement' -count=1
package bqueue

import (
	"testing"
	"time"

	"github.com/nspcc-dev/neo-go/internal/fakechain"
	"github.com/nspcc-dev/neo-go/pkg/core/block"
	"github.com/stretchr/testify/require"
	"go.uber.org/zap/zaptest"
)

// TestC20Defect_LenLeakOnStaleReplacement shows that the queue's element counter
// (the second value of LastQueued is cacheSize-len, the server stops requesting
// blocks when it is 0) leaks when a queued block is added to the chain by
// another producer (consensus) and a block exactly cacheSize ahead of it is put
// into the same ring slot before Run() cleans the slot: Put() replaces the stale
// element and increments len, but nobody decrements it for the replaced one
// (the clean-up loop of Run() finds an element of another index in the slot).
func TestC20Defect_LenLeakOnStaleReplacement(t *testing.T) {
	const cacheSize = 8
	chain := fakechain.NewFakeChain()
	bq := New(fakechainBlockQueueAdapter{chain}, zaptest.NewLogger(t), nil, cacheSize, nil, NonBlocking)
	mk := func(i uint32) *block.Block { return &block.Block{Header: block.Header{Index: i}} }

	// A peer gives us block 1 (the queue routine hasn't processed it yet)...
	require.NoError(t, bq.Put(mk(1)))
	_, capLeft := bq.LastQueued()
	require.Equal(t, cacheSize-1, capLeft)
	// ...consensus adds block 1 itself...
	require.NoError(t, chain.AddBlock(mk(1)))
	require.Equal(t, uint32(1), chain.BlockHeight())
	// ...and another peer gives block 1+cacheSize, it's within the window (height+cacheSize).
	require.NoError(t, bq.Put(mk(1+cacheSize)))

	go bq.Run()
	defer bq.Discard()
	// Give Run() something to wake up on and let it drain blocks 2 and 3.
	require.NoError(t, bq.Put(mk(2)))
	require.NoError(t, bq.Put(mk(3)))
	require.Eventually(t, func() bool { return chain.BlockHeight() == 3 }, 4*time.Second, 10*time.Millisecond)
	require.Eventually(t, func() bool {
		bq.queueLock.RLock()
		defer bq.queueLock.RUnlock()
		return bq.queue[bq.indexToPosition(3)] == nil
	}, 4*time.Second, 10*time.Millisecond)

	// The only element left in the queue is block 1+cacheSize.
	var stored int
	bq.queueLock.RLock()
	for _, b := range bq.queue {
		if b != nil {
			stored++
		}
	}
	bq.queueLock.RUnlock()
	require.Equal(t, 1, stored)
	_, capLeft = bq.LastQueued()
	require.Equal(t, cacheSize-stored, capLeft, "capacity left must correspond to the number of stored elements")
}
