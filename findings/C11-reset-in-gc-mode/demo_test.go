// Copy to pkg/core/ (package core_test); run: go test -count=1 -run 'TestC11Defect_ResetStateInGCMode' ./pkg/core/
//
// Defect of the unmodified code: state reset (`neo-go db reset`, (*Blockchain).Reset)
// is allowed with RemoveUntraceableBlocks while height < MaxTraceableBlocks.
// (*stateroot.Module).ResetState leaves MPT node records as is and reopens the
// working trie at the old root in GC mode. Every node of the target state that
// was replaced by a later block (the root at least) is marked inactive, GC mode
// hides it, so no block can be added after the reset ("error while trying to
// apply MPT changes: key not found"). Even if the nodes were visible, their
// stored counters describe the abandoned top state, not the state reset to.
package core_test

import (
	"testing"

	"github.com/nspcc-dev/neo-go/pkg/config"
	"github.com/nspcc-dev/neo-go/pkg/neotest"
	"github.com/nspcc-dev/neo-go/pkg/neotest/chain"
	"github.com/stretchr/testify/require"
)

// A node with RemoveUntraceableBlocks (MPT in GC mode) is reset to an earlier
// height (allowed while height < MaxTraceableBlocks). The MPT nodes are left as
// is by ResetState, so every node of the target state replaced by a later
// block is marked inactive; the working trie is reopened in GC mode, can't read
// them and no block can be added after the reset.
func TestC11Defect_ResetStateInGCMode(t *testing.T) {
	cfg := func(c *config.Blockchain) {
		c.RemoveUntraceableBlocks = true
	}
	db, path := newLevelDBForTestingWithPath(t, t.TempDir())
	bc, validators, committee := chain.NewMultiWithCustomConfigAndStore(t, cfg, db, false)
	e := neotest.NewExecutor(t, bc, validators, committee)
	go bc.Run()
	for range 5 {
		e.AddNewBlock(t)
	}
	bc.Close()

	db, _ = newLevelDBForTestingWithPath(t, path)
	defer db.Close()
	bc, validators, committee = chain.NewMultiWithCustomConfigAndStore(t, cfg, db, false)
	require.NoError(t, bc.Reset(2))
	require.Equal(t, uint32(2), bc.BlockHeight())

	e = neotest.NewExecutor(t, bc, validators, committee)
	b := e.NewUnsignedBlock(t)
	e.SignBlock(b)
	require.NoError(t, bc.AddBlock(b))
}
