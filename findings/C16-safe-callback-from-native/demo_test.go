// Copy into pkg/core/interop/contract/ (package contract_test); run with: go test ./pkg/core/interop/contract/ -run TestC16Defect_SafeCallback -count=1
// FAILS on the unmodified tree: genuine defect, see the final report.
package contract_test

import (
	"strings"
	"testing"

	"github.com/nspcc-dev/neo-go/pkg/compiler"
	"github.com/nspcc-dev/neo-go/pkg/core/native/nativenames"
	"github.com/nspcc-dev/neo-go/pkg/neotest"
	"github.com/nspcc-dev/neo-go/pkg/neotest/chain"
	"github.com/nspcc-dev/neo-go/pkg/smartcontract"
	"github.com/nspcc-dev/neo-go/pkg/smartcontract/manifest"
	"github.com/nspcc-dev/neo-go/pkg/vm/stackitem"
)

// TestC16Defect_SafeCallbackFromNative: onNEP17Payment is marked safe in the
// manifest. When it's invoked by a native contract (GAS.transfer) it is loaded
// with callflag.All & <native's flags>, safe methods' WriteStates/AllowNotify
// stripping is done only in callInternal (System.Contract.Call / CALLT path).
func TestC16Defect_SafeCallbackFromNative(t *testing.T) {
	bc, acc := chain.NewSingle(t)
	e := neotest.NewExecutor(t, bc, acc, acc)

	src := `package recv
	import (
		"github.com/nspcc-dev/neo-go/pkg/interop"
		"github.com/nspcc-dev/neo-go/pkg/interop/runtime"
		"github.com/nspcc-dev/neo-go/pkg/interop/storage"
	)
	func OnNEP17Payment(from interop.Hash160, amount int, data any) {
		storage.Put(storage.GetContext(), "paid", amount)
		runtime.Notify("Paid", amount)
	}
	func Get() any {
		return storage.Get(storage.GetContext(), "paid")
	}`
	ctr := neotest.CompileSource(t, acc.ScriptHash(), strings.NewReader(src), &compiler.Options{
		Name:               "safe-receiver",
		NoEventsCheck:      true,
		ContractEvents: []compiler.HybridEvent{{Name: "Paid", Parameters: []compiler.HybridParameter{
			{Parameter: manifest.NewParameter("amount", smartcontract.IntegerType)},
		}}},
		NoPermissionsCheck: true,
	})
	// Mark the callback safe (compiler refuses to do that because of NEP-27 check,
	// but ContractManagement has no such check on deploy).
	ctr.Manifest.ABI.GetMethod("onNEP17Payment", 3).Safe = true
	e.DeployContract(t, ctr, nil)
	inv := e.ValidatorInvoker(ctr.Hash)

	// Direct call of the safe method with callflag.All: flags are stripped, FAULT.
	inv.InvokeFail(t, "missing call flags", "onNEP17Payment", acc.ScriptHash(), 1, nil)

	// The same safe method called back by native GAS: must not be able to change
	// the state either (whether by FAULTing or not).
	gasInv := e.ValidatorInvoker(e.NativeHash(t, nativenames.Gas))
	tx := gasInv.PrepareInvoke(t, "transfer", acc.ScriptHash(), ctr.Hash, 5, nil)
	e.AddNewBlock(t, tx)
	res := e.GetTxExecResult(t, tx.Hash())
	t.Logf("GAS.transfer to a contract with safe onNEP17Payment: %s %s", res.VMState, res.FaultException)
	for _, n := range res.Events {
		if n.ScriptHash == ctr.Hash {
			t.Errorf("safe method emitted notification %q", n.Name)
		}
	}
	inv.Invoke(t, stackitem.Null{}, "get") // storage must be untouched
}
