// Copy to pkg/vm/ (package vm); run: go test ./pkg/vm/ -count=1 -run 'TestC12Defect_RightAllocatesBeforeCheck'
package vm

import (
	"github.com/nspcc-dev/neo-go/pkg/vm/opcode"
	"github.com/stretchr/testify/require"
	"runtime"
	"testing"
)

// Defect 3: RIGHT allocates the result before checking the requested length
// against the operand, so a 2-byte operand and a length of 2^31-1 make the VM
// allocate 2 GiB before it FAULTs (LEFT and SUBSTR check first).
func TestC12Defect_RightAllocatesBeforeCheck(t *testing.T) {
	prog := makeProgram(opcode.PUSHDATA1, 2, 1, 2, opcode.PUSHINT32, 0, 0, 0, 0x10, opcode.RIGHT) // 256 MiB is enough to show it
	v := load(prog)
	var before, after runtime.MemStats
	runtime.GC()
	runtime.ReadMemStats(&before)
	err := v.Run()
	runtime.ReadMemStats(&after)
	require.Error(t, err)
	require.Less(t, after.TotalAlloc-before.TotalAlloc, uint64(1<<20), "allocated before FAULT (%v)", err)
}
