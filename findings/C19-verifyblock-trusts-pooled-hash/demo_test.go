// Copy to pkg/consensus/ (package consensus); run: go test ./pkg/consensus/ -count=1 -run 'TestC07Defect_VerifyBlockTakesWitnessOnTrust'
package consensus

import (
	"testing"

	"github.com/nspcc-dev/neo-go/internal/testchain"
	"github.com/nspcc-dev/neo-go/pkg/core"
	"github.com/nspcc-dev/neo-go/pkg/core/transaction"
	"github.com/nspcc-dev/neo-go/pkg/vm/opcode"
	"github.com/stretchr/testify/require"
)

// Backup-side verification of a proposal (service.verifyBlock) skips the
// verification of a transaction if the node's memory pool has a transaction with
// the same hash (mainPool.ContainsKey(tx.Hash())). The hash doesn't cover the
// witnesses, so the transaction the dBFT context holds can be another one: the
// network server hands every received transaction that the proposal is waiting
// for to the consensus service BEFORE it's verified (Server.txHandlerLoop calls
// txCallback first, verifyAndPoolTX second), so a peer can feed the context with
// a copy that has garbage for a witness; as soon as the valid copy reaches the
// pool (from another peer) verifyBlock approves the garbage. The block this node
// then assembles from its context is one the ledger (Blockchain.AddBlock, which
// compares the witnesses with the pooled ones since "don't take a witness on
// trust because the hash is known") refuses.
func TestC07Defect_VerifyBlockTakesWitnessOnTrust(t *testing.T) {
	srv := newTestService(t)
	bc := srv.Chain.(*core.Blockchain)
	srv.lastTimestamp = 1

	tx := transaction.New([]byte{byte(opcode.RET)}, 100000)
	tx.ValidUntilBlock = 1
	addSender(t, tx)
	signTx(t, srv.Chain, tx)
	require.NoError(t, srv.Chain.PoolTx(tx))

	// The same transaction (the same hash) with a broken signature.
	bad := tx.Copy()
	bad.Scripts[0].InvocationScript[16] = ^bad.Scripts[0].InvocationScript[16]
	require.Equal(t, tx.Hash(), bad.Hash())
	require.Error(t, bc.VerifyTx(bad))

	b := testchain.NewBlock(t, bc, 1, 0, bad)
	approved := srv.verifyBlock(&neoBlock{Block: *b})
	require.Error(t, bc.AddBlock(b), "the ledger accepts the block")
	require.False(t, approved, "a backup approves a block that the ledger refuses")
}
