// Copy into pkg/smartcontract/nef/ ; run: go test ./pkg/smartcontract/nef/ -run 'TestC17Defect_' -count=1  (each test FAILS on the unmodified tree: it asserts the property)
package nef

import (
	"runtime"
	"testing"

	"github.com/nspcc-dev/neo-go/pkg/io"
	"github.com/stretchr/testify/require"
)

func TestC17Defect_TokensAlloc(t *testing.T) {
	w := io.NewBufBinWriter()
	w.WriteU32LE(Magic)
	w.WriteBytes(make([]byte, 64))
	w.WriteString("")
	w.WriteB(0)
	w.WriteVarUint(0x100000) // 1M tokens (0x1000000 is accepted too: 2.5 GB, 5 s)
	data := w.Bytes()
	var ms1, ms2 runtime.MemStats
	runtime.ReadMemStats(&ms1)
	_, err := FileFromBytes(data)
	runtime.ReadMemStats(&ms2)
	t.Logf("err=%v, allocated %d MB for %d input bytes", err, (ms2.TotalAlloc-ms1.TotalAlloc)>>20, len(data))
	require.Error(t, err)
	require.Less(t, ms2.TotalAlloc-ms1.TotalAlloc, uint64(8<<20))
}
