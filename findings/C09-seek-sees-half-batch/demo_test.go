package storage

import (
	"testing"

	"github.com/stretchr/testify/require"
)

// midSeekStore runs a hook when its Seek starts: that is the moment after the
// reader above it took its snapshot of the cache and released the lock.
type midSeekStore struct {
	*MemoryStore
	hook func()
}

func (s *midSeekStore) Seek(rng SeekRange, f func(k, v []byte) bool) {
	if s.hook != nil {
		h := s.hook
		s.hook = nil
		h()
	}
	s.MemoryStore.Seek(rng, f)
}

// MemCachedStore.Seek snapshots the cache under the lock and scans the lower
// store after releasing it. A batch {K: v1 -> v2, K2: new} that is written and
// flushed in between is seen by half: K comes from the snapshot (old), K2 from
// the lower store (new) - a state no writer ever produced.
func TestHEAD_SeekDuringFlushSeesHalfOfBatch(t *testing.T) {
	lower := &midSeekStore{MemoryStore: NewMemoryStore()}
	c := NewMemCachedStore(lower)
	k, k2 := []byte{0x03, 1}, []byte{0x03, 2}
	c.Put(k, []byte("v1")) // state A: {K: v1}, unflushed

	lower.hook = func() { // the writer: state B = {K: v2, K2: x}, committed and flushed
		require.NoError(t, c.PutChangeSet(map[string][]byte{string(k): []byte("v2"), string(k2): []byte("x")}, nil))
		_, err := c.Persist()
		require.NoError(t, err)
	}
	got := map[string]string{}
	c.Seek(SeekRange{Prefix: []byte{0x03}}, func(key, v []byte) bool {
		got[string(key)] = string(v)
		return true
	})
	stateA := map[string]string{string(k): "v1"}
	stateB := map[string]string{string(k): "v2", string(k2): "x"}
	if !(equalMaps(got, stateA) || equalMaps(got, stateB)) {
		t.Fatalf("the scan returned %v: neither the state before the batch %v nor the state after it %v", got, stateA, stateB)
	}
}

func equalMaps(a, b map[string]string) bool {
	if len(a) != len(b) {
		return false
	}
	for k, v := range a {
		if b[k] != v {
			return false
		}
	}
	return true
}
