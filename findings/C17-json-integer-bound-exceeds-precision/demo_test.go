// copy to: pkg/consensus ; run: go test ./pkg/consensus/ -run 'TestC17Defect_JSONIntegerAbove53Bits' -count=1
// (uses the exported API of pkg/vm/stackitem only; it is in package consensus just to keep one package per directory in deliver/defects)
package consensus

import (
	"math/big"
	"testing"

	"github.com/nspcc-dev/neo-go/pkg/vm/stackitem"
	"github.com/stretchr/testify/require"
)

// stackitem.MaxAllowedInteger is written as `2<<53 - 1`, which is 2^54-1, not
// the 2^53-1 "max safe integer" of JSON (and of the reference implementation,
// which refuses to serialize anything outside of +-(2^53-1)). So ToJSON (and
// StdLib.jsonSerialize on top of it) accepts integers with magnitudes in
// [2^53, 2^54), but FromJSON keeps 53 bits of them only, with and without the
// Basilisk precision: the JSON form of such an item decodes into another item.
func TestC17Defect_JSONIntegerAbove53Bits(t *testing.T) {
	v := new(big.Int).Lsh(big.NewInt(1), 53)
	v.Add(v, big.NewInt(1)) // 2^53+1 = 9007199254740993
	item := stackitem.NewBigInteger(v)

	data, err := stackitem.ToJSON(item)
	if err != nil {
		return // refusing to encode it is fine
	}
	for _, precise := range []bool{true, false} {
		actual, err := stackitem.FromJSON(data, stackitem.MaxDeserialized, precise)
		require.NoError(t, err)
		require.Equal(t, v.String(), actual.Value().(*big.Int).String(),
			"JSON form %s of %s decodes into another integer (precise=%t)", data, v, precise)
	}
}
