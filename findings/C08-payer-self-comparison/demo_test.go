package mempool

// Demonstration for finding C08/tautology (checkTxConflicts compares conflictingPayer.secondary with itself).
// Copy into /repo/pkg/core/mempool/ and run: go test -run TestVerifDemoPayerSelfComparison ./pkg/core/mempool/
// Fails on the unrepaired tree (depositor A ends up with pooled fees 140 > deposit 100), passes after the fix.

import (
	"testing"

	"github.com/nspcc-dev/neo-go/pkg/core/native/nativehashes"
	"github.com/nspcc-dev/neo-go/pkg/core/transaction"
	"github.com/nspcc-dev/neo-go/pkg/util"
	"github.com/nspcc-dev/neo-go/pkg/vm/opcode"
	"github.com/stretchr/testify/require"
)

func TestVerifDemoPayerSelfComparison(t *testing.T) {
	fs := &FeerStub{balance: 1000000, notaryBalance: 100} // every notary depositor has a deposit of 100
	mp := New(10, false, nil)
	a := util.Uint160{0xA}
	b := util.Uint160{0xB}
	mk := func(dep util.Uint160, fee int64, nonce uint32, conflicts ...util.Uint256) *transaction.Transaction {
		tx := transaction.New([]byte{byte(opcode.PUSH1)}, 0)
		tx.Nonce = nonce
		tx.NetworkFee = fee
		tx.Signers = []transaction.Signer{{Account: nativehashes.Notary}, {Account: dep}}
		for _, h := range conflicts {
			tx.Attributes = append(tx.Attributes, transaction.Attribute{Type: transaction.ConflictsT, Value: &transaction.Conflicts{Hash: h}})
		}
		return tx
	}
	txA1 := mk(a, 60, 1)
	require.NoError(t, mp.Add(txA1, fs))
	// B's transaction is also signed by A (so that A may name it as a conflict), but is paid from B's deposit.
	txB := mk(b, 50, 2)
	txB.Signers = append(txB.Signers, transaction.Signer{Account: a})
	require.NoError(t, mp.Add(txB, fs))
	// A's second transaction conflicts with B's one. A already has 60 pooled, 60+80 > 100: must be rejected.
	txA2 := mk(a, 80, 3, txB.Hash())
	err := mp.Add(txA2, fs)
	var sumA int64
	for _, tx := range mp.GetVerifiedTransactions() {
		if tx.Signers[1].Account.Equals(a) {
			sumA += tx.NetworkFee + tx.SystemFee
		}
	}
	require.LessOrEqual(t, sumA, int64(100), "pooled fees of depositor A exceed its deposit (Add returned %v)", err)
}
