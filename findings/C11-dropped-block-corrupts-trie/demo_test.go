// Copy to pkg/core/stateroot/ (package stateroot_test); run: go test ./pkg/core/stateroot/ -run TestC11Defect_DroppedBlock -count=1
// These tests FAIL on the unmodified tree: they demonstrate defects of the original code.
package stateroot_test

import (
	"testing"

	"github.com/nspcc-dev/neo-go/pkg/config"
	"github.com/nspcc-dev/neo-go/pkg/core/mpt"
	"github.com/nspcc-dev/neo-go/pkg/core/state"
	"github.com/nspcc-dev/neo-go/pkg/core/stateroot"
	"github.com/nspcc-dev/neo-go/pkg/core/storage"
	"github.com/stretchr/testify/require"
	"go.uber.org/zap/zaptest"
)

type c11DefectChain struct {
	t   *testing.T
	ps  *storage.MemoryStore
	st  *storage.MemCachedStore
	mod *stateroot.Module
	h   uint32
}

func newC11DefectChain(t *testing.T, gc bool) *c11DefectChain {
	ps := storage.NewMemoryStore()
	st := storage.NewMemCachedStore(ps)
	cfg := config.Blockchain{}
	cfg.KeepOnlyLatestState = !gc
	cfg.RemoveUntraceableBlocks = gc
	mod := stateroot.NewModule(cfg, nil, zaptest.NewLogger(t), st)
	require.NoError(t, mod.Init(0))
	return &c11DefectChain{t: t, ps: ps, st: st, mod: mod}
}

func c11Batch(changes map[string][]byte) mpt.Batch {
	m := make(map[string][]byte, len(changes))
	for k, v := range changes {
		m["\x70"+k] = v
	}
	return mpt.MapToMPTBatch(m)
}

// compute does what storeBlock does up to (and including) AddMPTBatch.
func (c *c11DefectChain) compute(changes map[string][]byte) (*mpt.Trie, *state.MPTRoot, *storage.MemCachedStore, error) {
	cache := storage.NewMemCachedStore(c.st)
	tr, sr, err := c.mod.AddMPTBatch(c.h+1, c11Batch(changes), cache)
	return tr, sr, cache, err
}

// commit does what storeBlock does after AddMPTBatch when nothing fails.
func (c *c11DefectChain) commit(tr *mpt.Trie, sr *state.MPTRoot, cache *storage.MemCachedStore) {
	_, err := cache.Persist()
	require.NoError(c.t, err)
	tr.Store = c.st
	c.mod.UpdateCurrentLocal(tr, sr)
	c.h++
	_, err = c.st.Persist()
	require.NoError(c.t, err)
}

func (c *c11DefectChain) add(changes map[string][]byte) *state.MPTRoot {
	tr, sr, cache, err := c.compute(changes)
	require.NoError(c.t, err)
	c.commit(tr, sr, cache)
	return sr
}

// D1. A block computed (AddMPTBatch) and then dropped (storeBlock returns an
// error after AddMPTBatch: PrevStateRoot mismatch with the next header or
// aerdone error) leaves the module's in-memory trie and the shared refcount
// map changed, because AddMPTBatch works on a shallow copy of the trie. The
// next block is then applied to the wrong in-memory state.


// D1. A block computed (AddMPTBatch) and then dropped (storeBlock returns an
// error after AddMPTBatch: PrevStateRoot mismatch with the next header or
// aerdone error) leaves the module's in-memory trie and the shared refcount
// map changed, because AddMPTBatch works on a shallow copy of the trie. The
// next block is then applied to the wrong in-memory state.
func TestC11Defect_DroppedBlockCorruptsInMemoryTrie(t *testing.T) {
	for _, gc := range []bool{false, true} {
		c := newC11DefectChain(t, gc)
		c.add(map[string][]byte{"\x11\x11": {1}, "\x11\x22": {2}, "\x33\x33": {3}})
		c.add(map[string][]byte{"\x11\x33": {4}})

		// Computed and dropped.
		_, _, _, err := c.compute(map[string][]byte{"\x11\x44": {5}, "\x33\x33": nil})
		require.NoError(t, err)

		// Reference: the same block applied to a trie freshly opened on the DB.
		cfg := config.Blockchain{}
		cfg.KeepOnlyLatestState = !gc
		cfg.RemoveUntraceableBlocks = gc
		ref := stateroot.NewModule(cfg, nil, zaptest.NewLogger(t), c.st)
		require.NoError(t, ref.Init(c.h))
		_, expected, err := ref.AddMPTBatch(c.h+1, c11Batch(map[string][]byte{"\x11\x55": {6}}), storage.NewMemCachedStore(c.st))
		require.NoError(t, err)

		var actual *state.MPTRoot
		require.NotPanics(t, func() { // "negative reference count" panic on the unmodified tree.
			_, actual, _, err = c.compute(map[string][]byte{"\x11\x55": {6}})
		})
		require.NoError(t, err)
		require.Equal(t, expected.Root, actual.Root)
	}
}
