// Copy to pkg/core/statesync/ ; go test ./pkg/core/statesync/ -run 'TestC20Defect_InlineChildrenAreLost' -count=1
package statesync_test

import (
	"testing"

	"github.com/nspcc-dev/neo-go/pkg/config"
	"github.com/nspcc-dev/neo-go/pkg/core/block"
	"github.com/nspcc-dev/neo-go/pkg/core/mpt"
	"github.com/nspcc-dev/neo-go/pkg/io"
	"github.com/nspcc-dev/neo-go/pkg/neotest"
	"github.com/nspcc-dev/neo-go/pkg/neotest/chain"
	"github.com/nspcc-dev/neo-go/pkg/util"
	"github.com/stretchr/testify/require"
)

// TestC20Defect_InlineChildrenAreLost: a peer answers the MPT data requests with
// nodes that are perfectly authentic (every hash matches), but branch nodes carry
// their leaf children inline (type + value) instead of by hash. Such a node has
// the very same hash as the regular one (the hash is computed over the form with
// hashed children), so it is taken from the pool and restored; its inline
// children are not HashNodes, so they are never requested, never stored and
// their contract storage items are never written. The pool gets empty, the
// module reports MPT as synchronised, the jump is performed, and the node ends
// with contract storage (and MPT) that lacks items.
func TestC20Defect_InlineChildrenAreLost(t *testing.T) {
	const (
		stateSyncInterval = 4
		maxTraceable      = 6
	)
	spoutCfg := func(c *config.Blockchain) {
		c.StateRootInHeader = true
		c.StateSyncInterval = stateSyncInterval
		c.MaxTraceableBlocks = maxTraceable
		c.Hardforks = map[string]uint32{
			config.HFAspidochelone.String(): 0,
			config.HFBasilisk.String():      0,
			config.HFCockatrice.String():    0,
			config.HFDomovoi.String():       0,
			config.HFEchidna.String():       0,
		}
	}
	bcSpout, validators, committee := chain.NewMultiWithCustomConfig(t, spoutCfg)
	e := neotest.NewExecutor(t, bcSpout, validators, committee)
	for range 5 {
		e.NewAccount(t, 100_0000_0000)
	}
	for bcSpout.BlockHeight() < 4*stateSyncInterval+1 {
		e.AddNewBlock(t)
	}
	stateSyncPoint := (bcSpout.BlockHeight() / stateSyncInterval) * stateSyncInterval

	boltCfg := func(c *config.Blockchain) {
		spoutCfg(c)
		c.P2PStateExchangeExtensions = true
		c.KeepOnlyLatestState = true
		c.RemoveUntraceableBlocks = true
	}
	bcBolt, _, _ := chain.NewMultiWithCustomConfig(t, boltCfg)
	module := bcBolt.GetStateSyncModule()
	require.NoError(t, module.Init(bcSpout.BlockHeight()))
	require.Equal(t, stateSyncPoint, module.GetStateSyncPoint())

	var hdrs []*block.Header
	for i := uint32(1); i <= bcSpout.HeaderHeight(); i++ {
		h, err := bcSpout.GetHeader(bcSpout.GetHeaderHash(i))
		require.NoError(t, err)
		hdrs = append(hdrs, h)
	}
	require.NoError(t, module.AddHeaders(hdrs...))
	require.True(t, module.NeedStorageData())

	srv := bcSpout.GetStateSyncModule()
	getNode := func(h util.Uint256) (mpt.Node, []byte) {
		var (
			node mpt.Node
			bs   []byte
		)
		require.NoError(t, srv.Traverse(h, func(n mpt.Node, nodeBytes []byte) bool {
			node = n
			bs = append([]byte{}, nodeBytes...)
			return true
		}))
		require.NotNil(t, node)
		return node, bs
	}
	var inlined int
	for module.NeedStorageData() {
		need := module.GetUnknownMPTNodesBatch(10)
		require.NotEmpty(t, need)
		var resp [][]byte
		for _, h := range need {
			n, bs := getNode(h)
			if b, ok := n.(*mpt.BranchNode); ok {
				// Serialize the branch with leaf children inlined.
				w := io.NewBufBinWriter()
				w.WriteB(byte(mpt.BranchT))
				for _, c := range b.Children {
					switch c.Type() {
					case mpt.EmptyT:
						w.WriteB(byte(mpt.EmptyT))
					case mpt.HashT:
						cn, cbs := getNode(c.Hash())
						if cn.Type() == mpt.LeafT {
							w.WriteBytes(cbs) // type + value, a valid serialized child
							inlined++
						} else {
							w.WriteB(byte(mpt.HashT))
							w.WriteBytes(c.Hash().BytesBE())
						}
					default:
						t.Fatalf("unexpected child type %d", c.Type())
					}
				}
				require.NoError(t, w.Err)
				bs = w.Bytes()
				// The crafted node is authentic: it has the requested hash.
				var no mpt.NodeObject
				r := io.NewBinReaderFromBuf(bs)
				no.DecodeBinary(r)
				require.NoError(t, r.Err)
				require.Equal(t, h, no.Hash())
			}
			resp = append(resp, bs)
		}
		if err := module.AddMPTNodes(resp); err != nil {
			// The repaired behaviour: a node that is not in its canonical form is refused,
			// nothing of it was stored; an honest peer's answer completes the sync.
			require.ErrorContains(t, err, "non-canonical")
			return
		}
	}
	require.True(t, inlined > 0)

	// The module believes that the state is complete.
	require.True(t, module.NeedBlocks())

	// But the MPT it has collected lacks the nodes that were delivered inline
	// (and the temporary contract storage lacks their items). Don't go on with
	// the blocks: the state jump over such a DB ends with log.Fatal (natives
	// can't initialise their caches), which kills the test binary.
	sr, err := bcSpout.GetStateModule().GetStateRoot(stateSyncPoint)
	require.NoError(t, err)
	var missing, total int
	bcSpout.GetStateModule().SeekStates(sr.Root, nil, func(k, v []byte) bool {
		total++
		actual, err := bcBolt.GetStateModule().GetState(sr.Root, k)
		if err != nil {
			missing++
		} else {
			require.Equal(t, v, actual)
		}
		return true
	})
	require.Equal(t, 0, missing, "%d of %d items of the state at P can't be read from the MPT of the node that reports MPT as synchronised (%d leaves were delivered inline)", missing, total, inlined)
}
