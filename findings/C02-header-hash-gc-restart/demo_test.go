package core_test

import (
	"bytes"
	"fmt"
	"testing"
	"time"

	"github.com/nspcc-dev/neo-go/pkg/config"
	"github.com/nspcc-dev/neo-go/pkg/core/storage"
	"github.com/nspcc-dev/neo-go/pkg/neotest"
	"github.com/nspcc-dev/neo-go/pkg/neotest/chain"
	"github.com/stretchr/testify/require"
	"go.uber.org/zap"
)

type keepStore struct{ *storage.MemoryStore }

func (keepStore) Close() error { return nil } // MemoryStore.Close drops the data: keep it for the "restart"

func copyOf(s storage.Store) *keepStore {
	mem, stor := map[string][]byte{}, map[string][]byte{}
	for p := range 256 {
		s.Seek(storage.SeekRange{Prefix: []byte{byte(p)}}, func(k, v []byte) bool {
			if storage.KeyPrefix(k[0]) == storage.STStorage || storage.KeyPrefix(k[0]) == storage.STTempStorage {
				stor[string(k)] = bytes.Clone(v)
			} else {
				mem[string(k)] = bytes.Clone(v)
			}
			return true
		})
	}
	n := storage.NewMemoryStore()
	_ = n.PutChangeSet(mem, stor)
	return &keepStore{n}
}

// A node that removes untraceable blocks with MaxTraceableBlocks below the size of a
// header hash page (2000) is stopped cleanly a few blocks after a page boundary and
// must start again.
func TestHEAD_RestartAfterHeaderHashGC(t *testing.T) {
	for _, mtb := range []uint32{3, 1000} {
		t.Run(fmt.Sprintf("mtb=%d", mtb), func(t *testing.T) {
			const n = 4010
			cfg := func(c *config.Blockchain) {
				c.MaxTraceableBlocks = mtb
				c.GarbageCollectionPeriod = 1
				c.RemoveUntraceableBlocks = true
			}
			st := &keepStore{storage.NewMemoryStore()}
			bc, acc := chain.NewSingleWithOptions(t, &chain.Options{BlockchainConfigHook: cfg, Store: st, SkipRun: true, Logger: zap.NewNop()})
			go bc.Run()
			e := neotest.NewExecutor(t, bc, acc, acc)
			e.GenerateNewBlocks(t, n)
			time.Sleep(2500 * time.Millisecond) // let the persist loop flush and collect
			e.GenerateNewBlocks(t, 2)
			time.Sleep(2500 * time.Millisecond)
			bc.Close()
			// NewSingleWithOptions requires the constructor to succeed: on the unrepaired tree it fails here with
			// "failed to retrieve header hash page 2000: key not found"
			bc2, _ := chain.NewSingleWithOptions(t, &chain.Options{BlockchainConfigHook: cfg, Store: copyOf(st), SkipRun: true, Logger: zap.NewNop()})
			require.EqualValues(t, n+2, bc2.BlockHeight())
		})
	}
}
