// Copy to pkg/core/ (package core_test); run: go test ./pkg/core/ -run 'TestC06Defect_AlteredWitnessOfMempooledTransaction' -count=1
package core_test

import (
	"testing"

	"github.com/nspcc-dev/neo-go/pkg/core/transaction"
	"github.com/nspcc-dev/neo-go/pkg/neotest"
	"github.com/nspcc-dev/neo-go/pkg/neotest/chain"
	"github.com/nspcc-dev/neo-go/pkg/vm/opcode"
	"github.com/stretchr/testify/require"
)

// TestC06Defect_AlteredWitnessOfMempooledTransaction: the transaction hash
// doesn't cover witnesses, neither does the Merkle root or the block hash (so
// the block signature stays valid). AddBlock skips the verification of an
// in-block transaction if a transaction with the same *hash* is in the
// mempool. A relayed copy of a valid block with the witness of such a
// transaction replaced by garbage is accepted and the garbage is stored (and
// served to other nodes, which reject that block).
func TestC06Defect_AlteredWitnessOfMempooledTransaction(t *testing.T) {
	bc, acc := chain.NewSingle(t)
	e := neotest.NewExecutor(t, bc, acc, acc)

	tx := e.PrepareInvocation(t, []byte{byte(opcode.PUSH1)}, []neotest.Signer{acc}, bc.BlockHeight()+5)
	require.NoError(t, bc.PoolTx(tx))

	bad, err := transaction.NewTransactionFromBytes(tx.Bytes())
	require.NoError(t, err)
	bad.Scripts[0].InvocationScript = []byte{byte(opcode.PUSH1)} // not a signature at all
	require.Equal(t, tx.Hash(), bad.Hash())
	require.Error(t, bc.VerifyTx(bad), "the altered transaction is invalid on its own")

	b := e.NewUnsignedBlock(t, bad)
	e.SignBlock(b)
	err = bc.AddBlock(b)
	if err == nil {
		stored, _, gerr := bc.GetTransaction(tx.Hash())
		require.NoError(t, gerr)
		t.Logf("block accepted, stored invocation script of the transaction: %x", stored.Scripts[0].InvocationScript)
	}
	require.Error(t, err, "a block with an improperly witnessed transaction must be rejected")
	require.Equal(t, b.Index-1, bc.BlockHeight())
	require.True(t, bc.GetMemPool().ContainsKey(tx.Hash()))
}
