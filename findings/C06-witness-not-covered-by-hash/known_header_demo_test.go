// Copy to pkg/core/ (package core_test); run: go test ./pkg/core/ -run 'TestC06Defect_BlockWitnessIgnoredForKnownHeader' -count=1
package core_test

import (
	"testing"

	"github.com/nspcc-dev/neo-go/pkg/neotest"
	"github.com/nspcc-dev/neo-go/pkg/neotest/chain"
	"github.com/nspcc-dev/neo-go/pkg/vm/opcode"
	"github.com/stretchr/testify/require"
)

// TestC06Defect_BlockWitnessIgnoredForKnownHeader: when the header of the next
// block is known already (headers were synchronized first, or a previous
// AddBlock recorded the valid header and rejected the body) AddBlock only
// compares the block hash with the known one. The hash doesn't cover the
// witness, so a block with a corrupted (here: unsigned, `PUSH1`) witness is
// accepted and StoreAsBlock overwrites the good stored header with it.
func TestC06Defect_BlockWitnessIgnoredForKnownHeader(t *testing.T) {
	bc, acc := chain.NewSingle(t)
	e := neotest.NewExecutor(t, bc, acc, acc)

	good := e.NewUnsignedBlock(t)
	e.SignBlock(good)
	require.NoError(t, bc.AddHeaders(&good.Header))

	bad := e.NewUnsignedBlock(t) // The same block, but not signed by the consensus address.
	bad.Script.InvocationScript = []byte{byte(opcode.PUSH1)}
	require.Equal(t, good.Hash(), bad.Hash())

	err := bc.AddBlock(bad)
	if err == nil {
		stored, gerr := bc.GetBlock(good.Hash())
		require.NoError(t, gerr)
		t.Logf("block accepted, stored block invocation script: %x (the proper one is %d bytes long)",
			stored.Script.InvocationScript, len(good.Script.InvocationScript))
	}
	require.Error(t, err, "a block not signed by the designated consensus address must be rejected")
	require.Equal(t, good.Index-1, bc.BlockHeight())
	// And the correct block is to be accepted afterwards.
	require.NoError(t, bc.AddBlock(good))
}
