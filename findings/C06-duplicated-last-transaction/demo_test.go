package core_test

import (
	"testing"

	"github.com/nspcc-dev/neo-go/pkg/config"
	"github.com/nspcc-dev/neo-go/pkg/core/block"
	"github.com/nspcc-dev/neo-go/pkg/core/native/nativenames"
	"github.com/nspcc-dev/neo-go/pkg/core/transaction"
	"github.com/nspcc-dev/neo-go/pkg/io"
	"github.com/nspcc-dev/neo-go/pkg/neotest"
	"github.com/nspcc-dev/neo-go/pkg/neotest/chain"
	"github.com/nspcc-dev/neo-go/pkg/util"
	"github.com/stretchr/testify/require"
)

// The Merkle tree duplicates the last leaf of an odd level, so the transaction
// list [a, b, c, c] has the Merkle root of [a, b, c]: the block with the last
// transaction repeated has the hash and the (valid) consensus witness of the
// block the validators signed. With the default VerifyTransactions = false the
// per-transaction failure ("already in the pool") is only logged and the block
// is stored: c is executed twice, and the correct block can no longer be added.
func TestHEAD_BlockWithDuplicatedLastTransaction(t *testing.T) {
	for _, verify := range []bool{false, true} {
		bc, acc := chain.NewSingleWithCustomConfig(t, func(c *config.Blockchain) {
			c.VerifyTransactions = verify
		})
		e := neotest.NewExecutor(t, bc, acc, acc)
		gasHash := e.NativeHash(t, nativenames.Gas)
		receiver := util.Uint160{9, 9, 9}
		var txs []*transaction.Transaction
		for i := 0; i < 3; i++ {
			txs = append(txs, e.NewTx(t, []neotest.Signer{acc}, gasHash, "transfer", acc.ScriptHash(), receiver, 1000, nil))
		}
		good := e.NewUnsignedBlock(t, txs...)
		e.SignBlock(good)

		bad := &block.Block{Header: good.Header, Transactions: append(append([]*transaction.Transaction{}, txs...), txs[2])}
		require.Equal(t, good.Hash(), bad.Hash())
		require.Equal(t, good.MerkleRoot, bad.ComputeMerkleRoot(), "the duplicated last leaf does not change the root")

		// the mutated list survives the wire
		w := io.NewBufBinWriter()
		bad.EncodeBinary(w.BinWriter)
		require.NoError(t, w.Err)
		dec := block.New(false)
		dec.DecodeBinary(io.NewBinReaderFromBuf(w.Bytes()))
		if dec != nil && len(dec.Transactions) == 4 {
			t.Logf("VerifyTransactions=%v: the block with a repeated transaction decodes", verify)
		}

		err := bc.AddBlock(bad)
		require.Error(t, err, "VerifyTransactions=%v: a block carrying the same transaction twice was accepted", verify)
		require.EqualValues(t, 0, bc.BlockHeight())
		require.NoError(t, bc.AddBlock(good))
		require.EqualValues(t, 3000, bc.GetUtilityTokenBalance(receiver, util.Uint160{}).Int64())
	}
}
