// Copy to pkg/core/statesync/ ; run: go test ./pkg/core/statesync/ -run 'TestC20Defect_TransactionVMStateAfterStateSync' -count=1
package statesync_test

import (
	"bytes"
	"testing"

	"github.com/nspcc-dev/neo-go/pkg/config"
	"github.com/nspcc-dev/neo-go/pkg/core/block"
	"github.com/nspcc-dev/neo-go/pkg/core/mpt"
	"github.com/nspcc-dev/neo-go/pkg/core/native/nativenames"
	"github.com/nspcc-dev/neo-go/pkg/io"
	"github.com/nspcc-dev/neo-go/pkg/neotest"
	"github.com/nspcc-dev/neo-go/pkg/neotest/chain"
	"github.com/nspcc-dev/neo-go/pkg/smartcontract/callflag"
	"github.com/nspcc-dev/neo-go/pkg/smartcontract/trigger"
	"github.com/nspcc-dev/neo-go/pkg/util"
	"github.com/nspcc-dev/neo-go/pkg/vm/emit"
	"github.com/nspcc-dev/neo-go/pkg/vm/opcode"
	"github.com/nspcc-dev/neo-go/pkg/vm/vmstate"
	"github.com/stretchr/testify/require"
)

// TestC20Defect_TransactionVMStateAfterStateSync shows that a node bootstrapped
// by state synchronisation does NOT stay in lockstep with the source chain:
// statesync.Module.AddBlock stores transactions of the blocks (P-MaxTraceableBlocks, P]
// without their application execution results (dao.StoreAsTransaction(tx, index, nil)),
// so Ledger.getTransactionVMState answers NONE for these (still traceable)
// transactions on the synchronised node while a fully synchronised node answers
// HALT/FAULT. A transaction of a later block that depends on this value is
// executed differently, the state root of the synchronised node differs and the
// next block of the source chain is rejected (StateRootInHeader) or the node
// silently diverges (no StateRootInHeader).
func TestC20Defect_TransactionVMStateAfterStateSync(t *testing.T) {
	const (
		stateSyncInterval = 2
		maxTraceable      = 3
	)
	spoutCfg := func(c *config.Blockchain) {
		c.StateRootInHeader = true
		c.StateSyncInterval = stateSyncInterval
		c.MaxTraceableBlocks = maxTraceable
		c.P2PStateExchangeExtensions = true
	}
	bcSpout, validators, committee := chain.NewMultiWithCustomConfig(t, spoutCfg)
	e := neotest.NewExecutor(t, bcSpout, validators, committee)
	gasHash := e.NativeHash(t, nativenames.Gas)
	ledgerHash := e.NativeHash(t, nativenames.Ledger)
	gasInv := e.ValidatorInvoker(gasHash)
	txs := make(map[uint32]util.Uint256)
	for i := range 2*stateSyncInterval + maxTraceable + 2 {
		h := gasInv.Invoke(t, true, "transfer", validators.ScriptHash(), util.Uint160{1, 2, byte(i % 3)}, 1000+i, nil)
		txs[bcSpout.BlockHeight()] = h
	}
	spoutHeight := bcSpout.BlockHeight()
	stateSyncPoint := (spoutHeight / stateSyncInterval) * stateSyncInterval
	require.Greater(t, spoutHeight, stateSyncPoint)

	boltCfg := func(c *config.Blockchain) {
		spoutCfg(c)
		c.RemoveUntraceableBlocks = true
		c.KeepOnlyLatestState = true
	}
	bcBolt, _, _ := chain.NewMultiWithCustomConfig(t, boltCfg)
	module := bcBolt.GetStateSyncModule()
	require.NoError(t, module.Init(spoutHeight))

	var hdrs []*block.Header
	for i := uint32(1); i <= bcSpout.HeaderHeight(); i++ {
		h, err := bcSpout.GetHeader(bcSpout.GetHeaderHash(i))
		require.NoError(t, err)
		hdrs = append(hdrs, h)
	}
	require.NoError(t, module.AddHeaders(hdrs...))
	srcRoot, err := bcSpout.GetStateModule().GetStateRoot(stateSyncPoint)
	require.NoError(t, err)
	nodes := make(map[util.Uint256][]byte)
	require.NoError(t, bcSpout.GetStateSyncModule().Traverse(srcRoot.Root, func(n mpt.Node, nodeBytes []byte) bool {
		nodes[n.Hash()] = bytes.Clone(nodeBytes)
		return false
	}))
	for {
		need := module.GetUnknownMPTNodesBatch(5)
		if len(need) == 0 {
			break
		}
		batch := make([][]byte, 0, len(need))
		for _, h := range need {
			batch = append(batch, nodes[h])
		}
		require.NoError(t, module.AddMPTNodes(batch))
	}
	for i := module.BlockHeight() + 1; i <= stateSyncPoint; i++ {
		b, err := bcSpout.GetBlock(bcSpout.GetHeaderHash(i))
		require.NoError(t, err)
		require.NoError(t, module.AddBlock(b))
	}
	require.False(t, module.IsActive())
	require.Equal(t, stateSyncPoint, bcBolt.BlockHeight())

	// A transaction from the block P-1: it is known to both nodes and it is
	// traceable for the blocks P+1, P+2 (MaxTraceableBlocks is 3).
	oldTx := txs[stateSyncPoint-1]
	_, hSpout, err := bcSpout.GetTransaction(oldTx)
	require.NoError(t, err)
	_, hBolt, err := bcBolt.GetTransaction(oldTx)
	require.NoError(t, err)
	require.Equal(t, hSpout, hBolt)

	// The script transfers some GAS iff Ledger says that the old transaction has HALTed.
	w := io.NewBufBinWriter()
	emit.AppCall(w.BinWriter, ledgerHash, "getTransactionVMState", callflag.ReadStates, oldTx)
	emit.Int(w.BinWriter, int64(vmstate.Halt))
	emit.Opcodes(w.BinWriter, opcode.NUMEQUAL, opcode.ASSERT)
	emit.AppCall(w.BinWriter, gasHash, "transfer", callflag.All, validators.ScriptHash(), util.Uint160{9, 9, 9}, 12345, nil)
	emit.Opcodes(w.BinWriter, opcode.ASSERT)
	require.NoError(t, w.Err)
	scriptTx := e.InvokeScript(t, w.Bytes(), []neotest.Signer{validators}) // block spoutHeight+1.
	e.CheckHalt(t, scriptTx)                                               // HALTs on the source chain.
	e.AddNewBlock(t)                                                       // one more block which header carries the state root of the previous one.

	for i := stateSyncPoint + 1; i <= bcSpout.BlockHeight(); i++ {
		b, err := bcSpout.GetBlock(bcSpout.GetHeaderHash(i))
		require.NoError(t, err)
		require.NoError(t, bcBolt.AddBlock(b), "block %d", i)
		if aer, err := bcBolt.GetAppExecResults(scriptTx, trigger.Application); err == nil && len(aer) > 0 {
			require.Equal(t, vmstate.Halt, aer[0].VMState, "the synchronised node executed the transaction differently: %s", aer[0].FaultException)
		}
		exp, err := bcSpout.GetStateModule().GetStateRoot(i)
		require.NoError(t, err)
		act, err := bcBolt.GetStateModule().GetStateRoot(i)
		require.NoError(t, err)
		require.Equal(t, exp.Root, act.Root, "state root at %d", i)
	}
}
