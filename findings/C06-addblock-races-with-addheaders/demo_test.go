// Copy to pkg/core/ (package core_test); run: go test ./pkg/core/ -run 'TestC06Defect_AddBlockRacesWithAddHeaders' -count=1
package core_test

import (
	"strings"
	"sync"
	"testing"

	"github.com/nspcc-dev/neo-go/pkg/core/block"
	"github.com/nspcc-dev/neo-go/pkg/neotest"
	"github.com/nspcc-dev/neo-go/pkg/neotest/chain"
	"github.com/stretchr/testify/require"
)

// AddBlock decides that it has to add the header itself by looking at
// HeaderHeight() and then calls addHeaders, which looks at HeaderHeight()
// again to drop the headers that are known already. AddHeaders takes no
// addLock, so when another goroutine records the valid header of the same
// height between these two reads, addHeaders drops the block's own header as
// "known" and returns nil: the header of the block is neither verified nor
// compared with the recorded one, and a block that is not linked to the tip and
// not signed at all is stored.
func TestC06Defect_AddBlockRacesWithAddHeaders(t *testing.T) {
	const rounds = 30000

	bc, validator := chain.NewSingle(t)
	e := neotest.NewExecutor(t, bc, validator, validator)

	for r := range rounds {
		good := e.NewUnsignedBlock(t)
		e.SignBlock(good)

		// Not linked to anything, not signed by anybody.
		bad := &block.Block{Header: block.Header{
			Index:         good.Index,
			Timestamp:     good.Timestamp + 12345,
			NextConsensus: good.NextConsensus,
		}}
		bad.PrevHash[0] = 0xBA
		bad.Script.VerificationScript = good.Script.VerificationScript
		bad.Script.InvocationScript = []byte{0x0C, 0x40} // garbage
		bad.RebuildMerkleRoot()

		var (
			wg       sync.WaitGroup
			accepted bool
			tries    int
		)
		wg.Add(1)
		go func() {
			defer wg.Done()
			for {
				err := bc.AddBlock(bad)
				tries++
				if err == nil {
					accepted = true
					return
				}
				if strings.Contains(err.Error(), "hash mismatch") || strings.Contains(err.Error(), "already") {
					return // the valid header is known now
				}
			}
		}()
		hdr := good.Header
		require.NoError(t, bc.AddHeaders(&hdr))
		wg.Wait()
		if accepted {
			t.Fatalf("round %d (after %d tries): block %d with a wrong PrevHash and no signature was accepted; tip is %s, recorded header is %s",
				r, tries, bad.Index, bc.CurrentBlockHash().StringLE(), bc.GetHeaderHash(bad.Index).StringLE())
		}
		require.NoError(t, bc.AddBlock(good))
	}
}
