// Copy to pkg/rpcclient/ ; run: go test ./pkg/rpcclient/ -run 'TestC17Defect5' -count=1
package rpcclient

import (
	"context"
	"encoding/base64"
	"encoding/json"
	"net/http"
	"net/http/httptest"
	"testing"

	"github.com/nspcc-dev/neo-go/pkg/config/netmode"
	"github.com/nspcc-dev/neo-go/pkg/core/block"
	"github.com/nspcc-dev/neo-go/pkg/core/transaction"
	"github.com/nspcc-dev/neo-go/pkg/io"
	"github.com/nspcc-dev/neo-go/pkg/neorpc/result"
	"github.com/nspcc-dev/neo-go/pkg/util"
	"github.com/stretchr/testify/require"
)

// DEFECT (unmodified tree): on a network with StateRootInHeader the same
// header is accepted when it arrives in binary form (getblockheader, verbose=0)
// and refused when it arrives as JSON (getblockheader, verbose=1):
// Client.getHeaderVerbose is the only header/block getter that does not set
// StateRootEnabled of the value it decodes into (getBlock, getBlockVerbose and
// getHeader do), so the hash is computed without PrevStateRoot and the
// `json 'hash' doesn't match block hash` check fails.
func TestC17Defect5_VerboseHeaderWithStateRootInHeader(t *testing.T) {
	hdr := &block.Header{
		Version:          0,
		PrevHash:         util.Uint256{1, 2, 3},
		MerkleRoot:       util.Uint256{4, 5, 6},
		Timestamp:        123456,
		Nonce:            42,
		Index:            7,
		NextConsensus:    util.Uint160{7, 8, 9},
		StateRootEnabled: true,
		PrevStateRoot:    util.Uint256{9, 9, 9},
		Script:           transaction.Witness{InvocationScript: []byte{1}, VerificationScript: []byte{2}},
	}
	bw := io.NewBufBinWriter()
	hdr.EncodeBinary(bw.BinWriter)
	require.NoError(t, bw.Err)
	binHdr := base64.StdEncoding.EncodeToString(bw.Bytes())
	jsHdr, err := json.Marshal(result.Header{Header: *hdr, BlockMetadata: result.BlockMetadata{Size: bw.Len(), Confirmations: 1}})
	require.NoError(t, err)
	ver, err := json.Marshal(result.Version{
		UserAgent: "/test/",
		Protocol:  result.Protocol{Network: netmode.UnitTestNet, StateRootInHeader: true, MillisecondsPerBlock: 1000, ValidatorsCount: 1},
	})
	require.NoError(t, err)

	srv := httptest.NewServer(http.HandlerFunc(func(w http.ResponseWriter, r *http.Request) {
		var req struct {
			ID     json.RawMessage   `json:"id"`
			Method string            `json:"method"`
			Params []json.RawMessage `json:"params"`
		}
		require.NoError(t, json.NewDecoder(r.Body).Decode(&req))
		var res string
		switch req.Method {
		case "getversion":
			res = string(ver)
		case "getnativecontracts":
			res = `[]`
		case "getblockheader":
			if len(req.Params) > 1 && string(req.Params[1]) == "1" {
				res = string(jsHdr)
			} else {
				res = `"` + binHdr + `"`
			}
		default:
			t.Errorf("unexpected method %s", req.Method)
		}
		w.Header().Set("Content-Type", "application/json")
		_, _ = w.Write([]byte(`{"jsonrpc":"2.0","id":` + string(req.ID) + `,"result":` + res + `}`))
	}))
	defer srv.Close()

	c, err := New(context.Background(), srv.URL, Options{})
	require.NoError(t, err)
	require.NoError(t, c.Init())

	fromBin, err := c.GetBlockHeaderByIndex(7)
	require.NoError(t, err)
	require.Equal(t, hdr.Hash(), fromBin.Hash())

	fromJSON, err := c.GetBlockHeaderByIndexVerbose(7)
	require.NoError(t, err, "the header the binary path accepts is refused by the JSON path")
	require.Equal(t, hdr.Hash(), fromJSON.Hash())
	require.Equal(t, hdr.PrevStateRoot, fromJSON.PrevStateRoot)
}
