// Copy to pkg/vm/ (package vm); run: go test ./pkg/vm/ -run 'TestC12Defect_RemoveSelfMap' -count=1
package vm

import (
	"testing"

	"github.com/nspcc-dev/neo-go/pkg/vm/opcode"
	"github.com/stretchr/testify/require"
)

// REMOVE of the entry through which a map references itself makes the item
// counter go below what is reachable (below zero here): the key of the removed
// entry is released twice, once explicitly and once more by the recursive
// release of the map's elements that starts when the map's own reference count
// drops to zero (the entry is dropped from the map only after that).
// Repeating the sequence gives any desired credit against the 2048 items limit.
func TestC12Defect_RemoveSelfMap(t *testing.T) {
	block := []byte{
		byte(opcode.NEWMAP), byte(opcode.DUP), byte(opcode.PUSH0), byte(opcode.OVER), byte(opcode.SETITEM), // m[0] = m
		byte(opcode.PUSH0), byte(opcode.REMOVE), // delete m[0]; nothing is left on the stack.
	}
	t.Run("counter goes negative", func(t *testing.T) {
		v := New()
		v.SetGasLimit(-1)
		v.LoadScript(block)
		for v.Context().NextIP() < len(block) {
			require.NoError(t, v.Step())
		}
		require.Equal(t, 0, v.estack.Len()) // nothing is reachable: no slots, empty stack.
		require.GreaterOrEqual(t, int(v.refs), 0)
	})
	t.Run("more than 2048 items on the stack", func(t *testing.T) {
		var prog []byte
		for range 100 {
			prog = append(prog, block...)
		}
		for range MaxStackSize + 50 {
			prog = append(prog, byte(opcode.PUSH1))
		}
		v := New()
		v.SetGasLimit(-1)
		v.LoadScript(prog)
		for v.Context().NextIP() < len(prog) {
			if err := v.Step(); err != nil {
				require.ErrorContains(t, err, "stack is too big")
				return
			}
			require.LessOrEqual(t, v.estack.Len(), MaxStackSize)
		}
		t.Fatal("the script must FAULT")
	})
}
