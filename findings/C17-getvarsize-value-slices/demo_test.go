// Copy to pkg/core/transaction/ (package transaction); run: go test ./pkg/core/transaction/ -run 'TestC17Defect_' -count=1
package transaction

import (
	"encoding/json"
	"testing"

	"github.com/nspcc-dev/neo-go/pkg/crypto/keys"
	"github.com/nspcc-dev/neo-go/pkg/io"
	"github.com/nspcc-dev/neo-go/pkg/util"
	"github.com/stretchr/testify/require"
)

func c17BaseTx() *Transaction {
	tx := New([]byte{0x40}, 1)
	tx.Nonce = 42
	tx.ValidUntilBlock = 100
	tx.Signers = []Signer{{Account: util.Uint160{1, 2, 3}, Scopes: CalledByEntry}}
	tx.Scripts = []Witness{{InvocationScript: []byte{1}, VerificationScript: []byte{2}}}
	return tx
}

// c17BothPaths decodes the same bytes the way P2P `tx` message / RPC
// sendrawtransaction do it (NewTransactionFromBytes) and the way a block body
// or a DB record is decoded (DecodeBinary).
func c17BothPaths(t *testing.T, raw []byte) (*Transaction, *Transaction) {
	fromBytes, err := NewTransactionFromBytes(raw)
	require.NoError(t, err)

	fromReader := new(Transaction)
	r := io.NewBinReaderFromBuf(raw)
	fromReader.DecodeBinary(r)
	require.NoError(t, r.Err)
	return fromBytes, fromReader
}

func c17CheckPaths(t *testing.T, raw []byte) {
	a, b := c17BothPaths(t, raw)
	// The same bytes, the same decoded fields...
	require.Equal(t, a.Bytes(), b.Bytes())
	// ...and hence the same identity and the same size is expected.
	require.Equal(t, b.Hash(), a.Hash(), "hash depends on the decoding path")
	require.Equal(t, len(a.Bytes()), a.Size(), "size doesn't match the encoding")
}

// Non-minimal varuint (0xfd 0x01 0x00 instead of 0x01) for the signers count.
func TestC17Defect_TxHashDependsOnPath_NonMinimalVarUint(t *testing.T) {
	raw := c17BaseTx().Bytes()
	const off = 1 + 4 + 8 + 8 + 4 // version, nonce, sysfee, netfee, vub
	require.EqualValues(t, 1, raw[off])
	mal := append([]byte{}, raw[:off]...)
	mal = append(mal, 0xfd, 0x01, 0x00)
	mal = append(mal, raw[off+1:]...)
	c17CheckPaths(t, mal)
}

// Boolean witness condition encoded as 0x02 (any non-zero byte is "true").
func TestC17Defect_TxHashDependsOnPath_NonCanonicalBool(t *testing.T) {
	tx := c17BaseTx()
	cond := ConditionBoolean(true)
	tx.Signers[0].Scopes = Rules
	tx.Signers[0].Rules = []WitnessRule{{Action: WitnessAllow, Condition: &cond}}
	raw := tx.Bytes()
	// account(20) scopes(1) nrules(1) action(1) condtype(1) value(1)
	off := 1 + 4 + 8 + 8 + 4 + 1 + 20 + 1 + 1 + 1 + 1
	require.EqualValues(t, 1, raw[off])
	require.EqualValues(t, WitnessBoolean, raw[off-1])
	mal := append([]byte{}, raw...)
	mal[off] = 2
	c17CheckPaths(t, mal)
}

// Uncompressed (0x04-prefixed) public key in allowed groups.
func TestC17Defect_TxHashDependsOnPath_UncompressedKey(t *testing.T) {
	priv, err := keys.NewPrivateKey()
	require.NoError(t, err)
	pub := priv.PublicKey()

	tx := c17BaseTx()
	tx.Signers[0].Scopes = CustomGroups
	tx.Signers[0].AllowedGroups = []*keys.PublicKey{pub}
	raw := tx.Bytes()
	off := 1 + 4 + 8 + 8 + 4 + 1 + 20 + 1 + 1 // ... account, scopes, ngroups
	require.Equal(t, pub.Bytes(), raw[off:off+33])
	mal := append([]byte{}, raw[:off]...)
	mal = append(mal, pub.UncompressedBytes()...)
	mal = append(mal, raw[off+33:]...)
	c17CheckPaths(t, mal)
}

// A transaction with a Reserved attribute is decodable from binary and can be
// marshalled to JSON, but that JSON can't be unmarshalled back.
func TestC17Defect_ReservedAttributeJSONRoundTrip(t *testing.T) {
	tx := c17BaseTx()
	tx.Attributes = []Attribute{{Type: ReservedLowerBound + 1, Value: &Reserved{Value: []byte{1, 2, 3}}}}
	raw := tx.Bytes()

	dec, err := NewTransactionFromBytes(raw)
	require.NoError(t, err)

	js, err := json.Marshal(dec)
	require.NoError(t, err)

	back := new(Transaction)
	require.NoError(t, json.Unmarshal(js, back), string(js))
	require.Equal(t, dec.Hash(), back.Hash())
}

// io.GetVarSize silently returns just the length of the count prefix for a
// slice of structures that are Serializable via pointer receivers
// ([]Attribute, []Signer, []Witness). (*Oracle).CreateResponseTx relies on
// io.GetVarSize(tx.Attributes).
func TestC17Defect_GetVarSizeOfValueSlice(t *testing.T) {
	attrs := []Attribute{{Type: OracleResponseT, Value: &OracleResponse{ID: 1, Code: Success, Result: make([]byte, 100)}}}
	w := io.NewBufBinWriter()
	w.WriteArray(attrs)
	require.NoError(t, w.Err)
	require.Equal(t, len(w.Bytes()), io.GetVarSize(attrs))
}
