// Copy to pkg/core/ (package core_test); run: go test -count=1 -run 'TestC07Defect_D2' ./pkg/core/
//
// Defect of the UNMODIFIED code: after a block is stored the memory pool is
// refiltered with Blockchain.IsTxStillRelevant + mempool.checkPolicy only.
// Neither of them re-applies Policy.CheckPolicy (blocked accounts) nor
// re-computes the required network fee (checkPolicy compares
// NetworkFee/size with the new FeePerByte, witnesses of standard contracts
// are never re-verified, so a raised FeePerByte or ExecFeeFactor goes
// unnoticed). Transactions that became invalid because of a committee
// decision stay in the pool, the next proposal made from the pool contains
// them, the node itself (and every node that has them in its pool: AddBlock
// and consensus verifyBlock skip verification for pooled transactions) accepts
// the block, but a node that has to verify the block (the transaction is not
// in its pool) rejects it.
package core_test

import (
	"testing"

	"github.com/nspcc-dev/neo-go/pkg/config/netmode"
	"github.com/nspcc-dev/neo-go/pkg/core"
	"github.com/nspcc-dev/neo-go/pkg/core/block"
	"github.com/nspcc-dev/neo-go/pkg/core/fee"
	"github.com/nspcc-dev/neo-go/pkg/core/native/nativenames"
	"github.com/nspcc-dev/neo-go/pkg/core/transaction"
	"github.com/nspcc-dev/neo-go/pkg/io"
	"github.com/nspcc-dev/neo-go/pkg/neotest"
	"github.com/nspcc-dev/neo-go/pkg/neotest/chain"
	"github.com/nspcc-dev/neo-go/pkg/vm/opcode"
	"github.com/nspcc-dev/neo-go/pkg/vm/stackitem"
	"github.com/stretchr/testify/require"
)

func d2RoundTripBlock(t *testing.T, b *block.Block) *block.Block {
	bw := io.NewBufBinWriter()
	b.EncodeBinary(bw.BinWriter)
	require.NoError(t, bw.Err)
	res := block.New(b.StateRootEnabled)
	br := io.NewBinReaderFromBuf(bw.Bytes())
	res.DecodeBinary(br)
	require.NoError(t, br.Err)
	return res
}

func d2Sync(t *testing.T, from, to *core.Blockchain) {
	for to.BlockHeight() < from.BlockHeight() {
		b, err := from.GetBlock(from.GetHeaderHash(to.BlockHeight() + 1))
		require.NoError(t, err)
		require.NoError(t, to.AddBlock(d2RoundTripBlock(t, b)))
	}
}

// d2Check pools an exactly-paid transaction of a fresh account, lets the
// committee do `change`, then proposes a block from the pool and gives it to a
// replica.
func d2Check(t *testing.T, change func(t *testing.T, e *neotest.Executor, sender neotest.Signer)) {
	bc, acc := chain.NewSingle(t)
	e := neotest.NewExecutor(t, bc, acc, acc)
	replica, _ := chain.NewSingle(t)
	require.Equal(t, bc.GetHeaderHash(0), replica.GetHeaderHash(0))

	sender := e.NewAccount(t)

	tx := transaction.New([]byte{byte(opcode.PUSH1)}, 1_000_000)
	tx.Nonce = neotest.Nonce()
	tx.ValidUntilBlock = bc.BlockHeight() + 10
	tx.Signers = []transaction.Signer{{Account: sender.ScriptHash(), Scopes: transaction.CalledByEntry}}
	verificationFee, witnessSize := fee.Calculate(bc.GetBaseExecFee(), sender.Script())
	tx.NetworkFee = int64(io.GetVarSize(tx)+witnessSize)*bc.FeePerByte() + verificationFee // exact.
	require.NoError(t, sender.SignTx(netmode.UnitTestNet, tx))
	require.NoError(t, bc.PoolTx(tx))

	change(t, e, sender)
	d2Sync(t, bc, replica)

	// The transaction is not valid any more.
	require.Error(t, bc.VerifyTx(tx))
	require.Error(t, replica.VerifyTx(tx))

	// Proposal from the pool.
	txs := bc.ApplyPolicyToTxSet(bc.GetMemPool().GetVerifiedTransactions())
	b := e.NewUnsignedBlock(t, txs...)
	e.SignBlock(b)
	require.NoError(t, replica.AddBlock(d2RoundTripBlock(t, b)),
		"block made of %d pooled transaction(s) is rejected by the ledger of a peer", len(txs))
}

func TestC07Defect_D2_BlockedAccountStaysInPool(t *testing.T) {
	d2Check(t, func(t *testing.T, e *neotest.Executor, sender neotest.Signer) {
		e.CommitteeInvoker(e.NativeHash(t, nativenames.Policy)).Invoke(t, true, "blockAccount", sender.ScriptHash())
	})
}

func TestC07Defect_D2_RaisedFeePerByteIsNotReapplied(t *testing.T) {
	d2Check(t, func(t *testing.T, e *neotest.Executor, sender neotest.Signer) {
		// NetworkFee/size of the pooled transaction is about 5000, so it passes
		// the mempool filter, but it doesn't pay for its witness any more.
		e.CommitteeInvoker(e.NativeHash(t, nativenames.Policy)).Invoke(t, stackitem.Null{}, "setFeePerByte", 3000)
	})
}

func TestC07Defect_D2_RaisedExecFeeFactorIsNotReapplied(t *testing.T) {
	d2Check(t, func(t *testing.T, e *neotest.Executor, sender neotest.Signer) {
		p := e.CommitteeInvoker(e.NativeHash(t, nativenames.Policy))
		p.Invoke(t, stackitem.Null{}, "setExecFeeFactor", 2*e.Chain.GetBaseExecFee())
	})
}
