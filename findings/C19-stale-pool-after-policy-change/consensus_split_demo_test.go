// Copy to pkg/consensus/ ; run: go test ./pkg/consensus/ -run 'TestC19Defect_BlockedAccountTxSplitsLedgers' -count=1
package consensus

// Defect of the unmodified code (C19, "every block a validator commits is accepted
// by every other node's ledger", mempool contents differing between validators).
//
// Both the proposal check of the consensus service (service.verifyBlock) and the
// ledger (Blockchain.AddBlock) skip the verification of a transaction that is
// present in the local mempool. The mempool is cleaned after every block
// (Blockchain.IsTxStillRelevant + mempool.RemoveStale), but this cleaning never
// repeats the Policy check made by verifyAndPoolTx (blocked signers): a
// transaction of an account that the committee has just blocked stays in the
// pools that had it before. As a result the validators that have the transaction
// in their pools propose, approve, commit and persist a block with it, while any
// node that does not have it in the pool (another validator, any ordinary node,
// any node that syncs later) verifies it in full and rejects the committed block.
//
// Four real services on four real ledgers (VerifyTransactions is on, as in the
// unit test network), a loss-free scripted network.

import (
	"fmt"
	"testing"

	"github.com/nspcc-dev/dbft"
	"github.com/nspcc-dev/neo-go/internal/testchain"
	"github.com/nspcc-dev/neo-go/pkg/config"
	"github.com/nspcc-dev/neo-go/pkg/config/netmode"
	"github.com/nspcc-dev/neo-go/pkg/core"
	coreb "github.com/nspcc-dev/neo-go/pkg/core/block"
	"github.com/nspcc-dev/neo-go/pkg/core/native/nativehashes"
	"github.com/nspcc-dev/neo-go/pkg/core/storage"
	"github.com/nspcc-dev/neo-go/pkg/core/transaction"
	"github.com/nspcc-dev/neo-go/pkg/crypto/keys"
	"github.com/nspcc-dev/neo-go/pkg/io"
	npayload "github.com/nspcc-dev/neo-go/pkg/network/payload"
	"github.com/nspcc-dev/neo-go/pkg/smartcontract"
	"github.com/nspcc-dev/neo-go/pkg/util"
	"github.com/nspcc-dev/neo-go/pkg/vm/emit"
	"github.com/nspcc-dev/neo-go/pkg/vm/opcode"
	"github.com/stretchr/testify/require"
	"go.uber.org/zap"
)

type c19d1Msg struct {
	from, to int
	raw      []byte
	typ      dbft.MessageType
}

type c19d1Node struct {
	id      int
	bc      *core.Blockchain
	srv     *service
	outbox  [][]byte
	txReqs  []util.Uint256
	addErrs []error
}

type c19d1Net struct {
	t        *testing.T
	nodes    []*c19d1Node
	inflight []*c19d1Msg
	blocks   map[uint32]*coreb.Block
}

type c19d1Queue struct {
	n   *c19d1Node
	net *c19d1Net
}

func (q c19d1Queue) Put(b *coreb.Block) error {
	if err := q.n.bc.AddBlock(b); err != nil {
		q.n.addErrs = append(q.n.addErrs, fmt.Errorf("node %d, own block %d: %w", q.n.id, b.Index, err))
		return err
	}
	if old, ok := q.net.blocks[b.Index]; ok {
		require.Equal(q.net.t, old.Hash(), b.Hash(), "two different blocks at height %d", b.Index)
	} else {
		q.net.blocks[b.Index] = b
	}
	return nil
}

func newC19d1Net(t *testing.T, stateRootInHeader bool) *c19d1Net {
	var (
		net       = &c19d1Net{t: t, blocks: make(map[uint32]*coreb.Block)}
		passwords = []string{"one", "two", "three", "four"}
		nodes     = make([]*c19d1Node, 4)
	)
	for i := range 4 {
		cfg, err := config.Load("../../config", netmode.UnitTestNet)
		require.NoError(t, err)
		cfg.ProtocolConfiguration.StateRootInHeader = stateRootInHeader
		bc, err := core.NewBlockchain(storage.NewMemoryStore(), cfg.Blockchain(), zap.NewNop())
		require.NoError(t, err)
		go bc.Run()
		t.Cleanup(bc.Close)
		n := &c19d1Node{bc: bc}
		srv, err := NewService(Config{
			Logger: zap.NewNop(),
			Broadcast: func(e *npayload.Extensible) {
				w := io.NewBufBinWriter()
				e.EncodeBinary(w.BinWriter)
				require.NoError(t, w.Err)
				n.outbox = append(n.outbox, w.Bytes())
			},
			Chain:                 bc,
			BlockQueue:            c19d1Queue{n: n, net: net},
			ProtocolConfiguration: bc.GetConfig().ProtocolConfiguration,
			RequestTx:             func(hs ...util.Uint256) { n.txReqs = append(n.txReqs, hs...) },
			StopTxFlow:            func() {},
			Wallet: config.Wallet{
				Path:     fmt.Sprintf("./testdata/wallet%d.json", i+1),
				Password: passwords[i],
			},
		})
		require.NoError(t, err)
		n.srv = srv.(*service)
		// Learn the validator index of this wallet.
		idx, _, _ := n.srv.getKeyPair(n.srv.getValidators())
		require.True(t, idx >= 0 && idx < 4 && nodes[idx] == nil)
		n.id = idx
		nodes[idx] = n
	}
	net.nodes = nodes
	return net
}

// start does what Service.Start does except for running the event loop.
func (net *c19d1Net) start() {
	for _, n := range net.nodes {
		b, err := n.bc.GetBlock(n.bc.CurrentBlockHash())
		require.NoError(net.t, err)
		n.srv.lastTimestamp = b.Timestamp
		n.srv.dbft.Start(n.srv.lastTimestamp * nsInMs)
		net.pump(n)
	}
}

func (net *c19d1Net) decode(n *c19d1Node, raw []byte) *Payload {
	ext := npayload.NewExtensible()
	r := io.NewBinReaderFromBuf(raw)
	ext.DecodeBinary(r)
	require.NoError(net.t, r.Err)
	// The same steps Service.OnPayload makes.
	p := n.srv.payloadFromExtensible(ext)
	if err := p.decodeData(); err != nil {
		net.t.Logf("node %d can't decode a payload: %v", n.id, err)
		return nil
	}
	if !n.srv.validatePayload(p) {
		return nil
	}
	return p
}

// pump sends out what the node has broadcasted, serves its transaction requests
// and notifies it about new blocks of its chain.
func (net *c19d1Net) pump(n *c19d1Node) {
	for progress := true; progress; {
		progress = false
		for len(n.outbox) > 0 {
			raw := n.outbox[0]
			n.outbox = n.outbox[1:]
			typ := dbft.MessageType(0xff)
			// Data[0] is the message type.
			ext := npayload.NewExtensible()
			r := io.NewBinReaderFromBuf(raw)
			ext.DecodeBinary(r)
			require.NoError(net.t, r.Err)
			if len(ext.Data) > 0 {
				typ = dbft.MessageType(ext.Data[0])
			}
			for _, o := range net.nodes {
				if o != n {
					net.inflight = append(net.inflight, &c19d1Msg{from: n.id, to: o.id, raw: raw, typ: typ})
				}
			}
			progress = true
		}
		if len(n.txReqs) > 0 {
			reqs := n.txReqs
			n.txReqs = nil
			for _, h := range reqs {
				for _, o := range net.nodes {
					if tx, ok := o.bc.GetMemPool().TryGetValue(h); ok {
						n.srv.dbft.OnTransaction(tx)
						break
					}
				}
			}
			progress = true
		}
		if n.bc.BlockHeight() >= n.srv.dbft.BlockIndex {
			b, err := n.bc.GetBlock(n.bc.CurrentBlockHash())
			require.NoError(net.t, err)
			n.srv.handleChainBlock(b)
			progress = true
		}
	}
}

func (net *c19d1Net) deliver(m *c19d1Msg) {
	n := net.nodes[m.to]
	p := net.decode(n, m.raw)
	if p == nil {
		return
	}
	msg := *p
	// The same preprocessing the event loop does.
	if msg.Type() == dbft.RecoveryMessageType {
		rec := msg.GetRecoveryMessage().(*recoveryMessage)
		if rec.preparationHash == nil {
			req := rec.GetPrepareRequest(&msg, n.srv.dbft.Validators, uint16(n.srv.dbft.PrimaryIndex))
			if req != nil {
				h := req.Hash()
				rec.preparationHash = &h
			}
		}
	}
	n.srv.dbft.OnReceive(&msg)
	net.pump(n)
}

// deliverIf delivers (once) all in-flight messages matching the filter, including
// the ones produced in the process.
func (net *c19d1Net) deliverIf(f func(*c19d1Msg) bool) {
	for {
		var ms, rest []*c19d1Msg
		for _, m := range net.inflight {
			if f(m) {
				ms = append(ms, m)
			} else {
				rest = append(rest, m)
			}
		}
		net.inflight = rest
		if len(ms) == 0 {
			return
		}
		for _, m := range ms {
			net.deliver(m)
		}
	}
}

func (net *c19d1Net) timeout(i int) {
	n := net.nodes[i]
	n.srv.dbft.OnTimeout(n.srv.dbft.BlockIndex, n.srv.dbft.ViewNumber)
	net.pump(n)
}

func (net *c19d1Net) minHeight() uint32 {
	h := net.nodes[0].bc.BlockHeight()
	for _, n := range net.nodes {
		h = min(h, n.bc.BlockHeight())
	}
	return h
}

// synchrony delivers everything that is in flight; when there is nothing left,
// blocks are relayed to those who lack them and then all timers fire.
func (net *c19d1Net) synchrony(target uint32, rounds int) {
	for r := 0; r < rounds && net.minHeight() < target; r++ {
		net.deliverIf(func(*c19d1Msg) bool { return true })
		for _, n := range net.nodes {
			for b, ok := net.blocks[n.bc.BlockHeight()+1]; ok; b, ok = net.blocks[n.bc.BlockHeight()+1] {
				require.NoError(net.t, n.bc.AddBlock(b), "node %d doesn't accept the block %d committed by another validator", n.id, b.Index)
			}
			net.pump(n)
		}
		if net.minHeight() >= target {
			break
		}
		for i := range net.nodes {
			net.timeout(i)
		}
	}
}

// produce runs the network synchronously until every node has the block `target`.
func (net *c19d1Net) produce(target uint32) {
	net.synchrony(target, 30)
	for _, n := range net.nodes {
		require.Empty(net.t, n.addErrs)
		require.Equal(net.t, target, n.bc.BlockHeight(), "node %d", n.id)
	}
}

func TestC19Defect_BlockedAccountTxSplitsLedgers(t *testing.T) {
	net := newC19d1Net(t, false)
	bc0 := net.nodes[0].bc

	// Block 1: some GAS for the account X.
	x, err := keys.NewPrivateKey()
	require.NoError(t, err)
	b := smartcontract.NewBuilder()
	b.InvokeWithAssert(nativehashes.GasToken, "transfer", neoOwner, x.GetScriptHash(), int64(100_0000_0000), nil)
	script, err := b.Script()
	require.NoError(t, err)
	fund := transaction.New(script, 1_0000_0000)
	fund.Nonce = 1
	fund.ValidUntilBlock = 10
	fund.Signers = []transaction.Signer{{Account: neoOwner, Scopes: transaction.CalledByEntry}}
	signTx(t, bc0, fund)
	for _, n := range net.nodes {
		require.NoError(t, n.bc.PoolTx(fund))
	}
	net.start()
	net.produce(1)
	require.Equal(t, int64(100_0000_0000), bc0.GetUtilityTokenBalance(x.GetScriptHash(), util.Uint160{}).Int64())
	// Blocks 2 and 3 are empty.
	net.produce(3)

	// X sends a transaction, it reaches validators 1, 2 and 3, but not 0.
	txX := transaction.New([]byte{byte(opcode.PUSH1)}, 1000_0000)
	txX.Nonce = 2
	txX.ValidUntilBlock = 20
	txX.NetworkFee = 1000_0000
	txX.Signers = []transaction.Signer{{Account: x.GetScriptHash(), Scopes: transaction.CalledByEntry}}
	inv := io.NewBufBinWriter()
	emit.Bytes(inv.BinWriter, x.SignHashable(uint32(testchain.Network()), txX))
	txX.Scripts = []transaction.Witness{{InvocationScript: inv.Bytes(), VerificationScript: x.PublicKey().GetVerificationScript()}}
	for _, n := range net.nodes[1:] {
		require.NoError(t, n.bc.PoolTx(txX))
	}

	// The committee blocks X, this transaction reaches the speaker of the block 4 (validator 0).
	b.Reset()
	b.InvokeWithAssert(nativehashes.PolicyContract, "blockAccount", x.GetScriptHash())
	script, err = b.Script()
	require.NoError(t, err)
	blockX := transaction.New(script, 1_0000_0000)
	blockX.Nonce = 3
	blockX.ValidUntilBlock = 20
	blockX.NetworkFee = 1_0000_0000
	blockX.Signers = []transaction.Signer{
		{Account: neoOwner, Scopes: transaction.CalledByEntry},
		{Account: testchain.CommitteeScriptHash(), Scopes: transaction.CalledByEntry},
	}
	blockX.Scripts = []transaction.Witness{
		{InvocationScript: testchain.Sign(blockX), VerificationScript: testchain.MultisigVerificationScript()},
		{InvocationScript: testchain.SignCommittee(blockX), VerificationScript: testchain.CommitteeVerificationScript()},
	}
	require.NoError(t, net.nodes[0].bc.PoolTx(blockX))
	require.True(t, net.nodes[0].srv.dbft.IsPrimary())
	net.produce(4)
	aer, err := bc0.GetAppExecResults(blockX.Hash(), 0x40 /* trigger.Application */)
	require.NoError(t, err)
	require.Equal(t, "HALT", aer[0].VMState.String())

	// X is blocked now on every ledger, its transaction is not acceptable any more...
	for _, n := range net.nodes {
		require.ErrorIs(t, n.bc.VerifyTx(txX), core.ErrPolicy, "node %d", n.id)
		_, _, err := n.bc.GetTransaction(txX.Hash())
		if n.id != 0 {
			// ...but it is still in the mempools.
			t.Logf("node %d still has the transaction of the blocked account in its mempool: %v", n.id, err == nil)
		}
	}

	// Block 5 is proposed by validator 1.
	net.synchrony(5, 30)
	blk, ok := net.blocks[5]
	require.True(t, ok, "no block 5 is committed")
	for _, n := range net.nodes {
		if n.bc.BlockHeight() < 5 {
			err := n.bc.AddBlock(blk)
			require.NoError(t, err, "node %d doesn't accept the block 5 (%d transactions) committed and persisted by other validators", n.id, len(blk.Transactions))
		}
	}
}
