// Copy to pkg/core/ (package core_test); run: go test ./pkg/core/ -run 'TestC06Defect_MempooledTransactionOfBlockedAccount' -count=1
package core_test

import (
	"testing"

	"github.com/nspcc-dev/neo-go/pkg/core/native/nativenames"
	"github.com/nspcc-dev/neo-go/pkg/neotest"
	"github.com/nspcc-dev/neo-go/pkg/neotest/chain"
	"github.com/nspcc-dev/neo-go/pkg/vm/opcode"
	"github.com/stretchr/testify/require"
)

// TestC06Defect_MempooledTransactionOfBlockedAccount: IsTxStillRelevant (used
// to refresh the mempool after every block) doesn't re-check Policy, so a
// transaction whose signer gets blocked stays in the mempool. AddBlock trusts
// the mempool and doesn't verify in-block transactions found there, so a block
// with a transaction of a blocked account (invalid per VerifyTx) is accepted.
func TestC06Defect_MempooledTransactionOfBlockedAccount(t *testing.T) {
	bc, acc := chain.NewSingle(t)
	e := neotest.NewExecutor(t, bc, acc, acc)
	user := e.NewAccount(t)

	tx := e.PrepareInvocation(t, []byte{byte(opcode.PUSH1)}, []neotest.Signer{user}, bc.BlockHeight()+10)
	require.NoError(t, bc.PoolTx(tx))

	policy := e.CommitteeInvoker(e.NativeHash(t, nativenames.Policy))
	policy.Invoke(t, true, "blockAccount", user.ScriptHash())
	require.Error(t, bc.VerifyTx(tx), "the account is blocked, its transaction is invalid")
	t.Logf("the transaction is still in the mempool: %v", bc.GetMemPool().ContainsKey(tx.Hash()))

	b := e.NewUnsignedBlock(t, tx)
	e.SignBlock(b)
	require.Error(t, bc.AddBlock(b), "a block with a transaction of a blocked account must be rejected")
	require.Equal(t, b.Index-1, bc.BlockHeight())
}
