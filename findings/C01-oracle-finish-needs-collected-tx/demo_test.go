// Copy to pkg/core/ (package core_test); run: go test ./pkg/core/ -count=1 -run 'TestC01Defect_OracleFinishNeedsCollectedRequestTx'
package core_test

import (
	"path/filepath"
	"testing"
	"time"

	"github.com/nspcc-dev/neo-go/internal/contracts"
	"github.com/nspcc-dev/neo-go/pkg/config"
	"github.com/nspcc-dev/neo-go/pkg/core/native"
	"github.com/nspcc-dev/neo-go/pkg/core/native/nativenames"
	"github.com/nspcc-dev/neo-go/pkg/core/native/noderoles"
	"github.com/nspcc-dev/neo-go/pkg/core/transaction"
	"github.com/nspcc-dev/neo-go/pkg/crypto/keys"
	"github.com/nspcc-dev/neo-go/pkg/neotest"
	"github.com/nspcc-dev/neo-go/pkg/neotest/chain"
	"github.com/nspcc-dev/neo-go/pkg/smartcontract/trigger"
	"github.com/nspcc-dev/neo-go/pkg/vm/stackitem"
	"github.com/stretchr/testify/require"
)

// TestC01Defect_OracleFinishNeedsCollectedRequestTx: native Oracle.finish loads the
// transaction that made the request with DAO.GetTransaction (oracle.go, finishDeferrable)
// to reuse its signers. Nothing checks that this transaction is still traceable, and
// a node with RemoveUntraceableBlocks=true deletes it from its database once the block
// is older than MaxTraceableBlocks. So an oracle response that comes later than that
// HALTs on an archival node (and on the C# node) and FAULTs ("oracle request not
// found") on a node that collects old blocks: same blocks, different execution results,
// different GAS of the callback contract's users, different state roots.
func TestC01Defect_OracleFinishNeedsCollectedRequestTx(t *testing.T) {
	const (
		headerBatchCount = 2000
		mtb              = 3
	)
	proto := func(c *config.Blockchain) {
		c.MaxTraceableBlocks = mtb
	}
	// Replica A keeps everything.
	bcA, acc := chain.NewSingleWithCustomConfig(t, proto)
	// Replica G differs in node-local settings only: it removes untraceable blocks.
	bcG, _ := chain.NewSingleWithCustomConfig(t, func(c *config.Blockchain) {
		proto(c)
		c.RemoveUntraceableBlocks = true
		c.GarbageCollectionPeriod = 1
	})
	require.Equal(t, bcA.GetHeaderHash(0), bcG.GetHeaderHash(0))

	e := neotest.NewExecutor(t, bcA, acc, acc)
	sync := func() {
		for h := bcG.BlockHeight() + 1; h <= bcA.BlockHeight(); h++ {
			require.NoError(t, bcG.AddBlock(e.GetBlockByIndex(t, h)))
		}
	}

	oracleHash := e.NativeHash(t, nativenames.Oracle)
	designationCommitteeInvoker := e.CommitteeInvoker(e.NativeHash(t, nativenames.Designation))
	gasCommitteeInvoker := e.CommitteeInvoker(e.NativeHash(t, nativenames.Gas))

	// A contract that makes oracle requests and handles responses.
	cs := contracts.GetOracleContractState(t, filepath.Join("..", "..", "internal", "contracts"), e.Validator.ScriptHash(), 1)
	e.DeployContract(t, &neotest.Contract{Hash: cs.Hash, NEF: &cs.NEF, Manifest: &cs.Manifest}, nil)
	helper := e.ValidatorInvoker(cs.Hash)

	// A single oracle node.
	oracleNode := e.NewAccount(t)
	oracleNodeKey := oracleNode.(neotest.SingleSigner).Account().PublicKey()
	designationCommitteeInvoker.Invoke(t, stackitem.Null{}, "designateAsRole", int(noderoles.Oracle), []any{oracleNodeKey.Bytes()})
	require.NoError(t, oracleNode.(neotest.SingleSigner).Account().ConvertMultisig(1, []*keys.PublicKey{oracleNodeKey}))
	oracleNodeMulti := neotest.NewMultiSigner(oracleNode.(neotest.SingleSigner).Account())
	gasCommitteeInvoker.Invoke(t, true, "transfer", gasCommitteeInvoker.CommitteeHash, oracleNodeMulti.ScriptHash(), 100_0000_0000, nil)

	// The first page of header hashes has to be complete for the old blocks to be removed.
	e.GenerateNewBlocks(t, headerBatchCount-mtb-1-int(bcA.BlockHeight()))
	sync()

	// The request.
	reqTx := helper.Invoke(t, stackitem.Null{}, "requestURL", "url", nil, "handle", []byte("custom info"), int64(2000_1234))
	reqHeight := bcA.BlockHeight()
	for bcA.BlockHeight() < reqHeight+mtb+2 {
		e.AddNewBlock(t)
	}
	sync()
	require.Greater(t, bcA.BlockHeight(), uint32(headerBatchCount))

	// Replica G collects the block with the request.
	require.Eventually(t, func() bool {
		_, _, err := bcG.GetTransaction(reqTx)
		return err != nil
	}, 10*time.Second, 10*time.Millisecond, "the block with the request is expected to be removed by GC")
	_, _, err := bcA.GetTransaction(reqTx)
	require.NoError(t, err)

	// The response signed by the oracle node. The request is still pending, so the
	// transaction is perfectly valid.
	tx := transaction.New(native.CreateOracleResponseScript(oracleHash), 1000_0000)
	tx.Nonce = neotest.Nonce()
	tx.ValidUntilBlock = bcA.BlockHeight() + 1
	tx.Attributes = []transaction.Attribute{{
		Type: transaction.OracleResponseT,
		Value: &transaction.OracleResponse{
			ID:     0,
			Code:   transaction.Success,
			Result: []byte{4, 8, 15, 16, 23, 42},
		},
	}}
	tx.Signers = []transaction.Signer{
		{Account: oracleNodeMulti.ScriptHash(), Scopes: transaction.None},
		{Account: oracleHash, Scopes: transaction.None},
	}
	tx.NetworkFee = 1000_1234
	tx.Scripts = []transaction.Witness{
		{
			InvocationScript:   oracleNodeMulti.SignHashable(uint32(bcA.GetConfig().Magic), tx),
			VerificationScript: oracleNodeMulti.Script(),
		},
		{InvocationScript: []byte{}, VerificationScript: []byte{}},
	}
	require.NoError(t, bcA.VerifyTx(tx))
	require.NoError(t, bcG.VerifyTx(tx))
	e.AddNewBlock(t, tx)
	sync()

	aerA, err := bcA.GetAppExecResults(tx.Hash(), trigger.Application)
	require.NoError(t, err)
	aerG, err := bcG.GetAppExecResults(tx.Hash(), trigger.Application)
	require.NoError(t, err)
	require.Equal(t, aerA[0].VMState, aerG[0].VMState,
		"oracle response execution differs: archival node %q, node with RemoveUntraceableBlocks %q", aerA[0].FaultException, aerG[0].FaultException)

	e.AddNewBlock(t)
	sync()
	srA, err := bcA.GetStateRoot(bcA.BlockHeight())
	require.NoError(t, err)
	srG, err := bcG.GetStateRoot(bcG.BlockHeight())
	require.NoError(t, err)
	require.Equal(t, srA.Root, srG.Root)
}
