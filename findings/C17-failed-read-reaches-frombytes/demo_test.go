// Copy to pkg/vm/stackitem/ ; run: go test ./pkg/vm/stackitem/ -run 'TestC17Defect2' -count=1
package stackitem

import (
	"testing"

	"github.com/nspcc-dev/neo-go/pkg/io"
	"github.com/stretchr/testify/require"
)

// DEFECT (unmodified tree): the stack item decoder panics instead of returning
// an error on an Integer whose length prefix exceeds 32: ReadVarBytes(32) sets
// the reader's error and returns nil, bigint.FromBytes(nil) panics ("nil slice
// provided to `FromBytes`"). Inside the VM (StdLib.deserialize) the panic is
// recovered into a FAULT, everywhere else (Deserialize of stored items,
// NotificationEvent/AppExecResult.DecodeBinary, DeserializeConvertible,
// ContractInvocation.MarshalJSON...) it propagates.
// state.NEP17Transfer.DecodeBinary has the same pattern.
func TestC17Defect2_DeserializeIntegerTooLongPanics(t *testing.T) {
	data := append([]byte{byte(IntegerT), 33}, make([]byte, 33)...)
	require.NotPanics(t, func() {
		_, err := Deserialize(data)
		require.Error(t, err)
	})
	require.NotPanics(t, func() {
		r := io.NewBinReaderFromBuf(append([]byte{byte(ArrayT), 1}, data...))
		_ = DecodeBinaryProtected(r)
		require.Error(t, r.Err)
	})
}
