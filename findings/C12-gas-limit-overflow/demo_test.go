// Copy to pkg/vm/ (package vm); run: go test -count=1 -run TestDemoC12_HugeGasLimitStillBounds ./pkg/vm/
// Fails on the tree before the fix (the limit becomes -9223372036854771616 picoGAS = unlimited), passes after it.
package vm

import (
	"math"
	"testing"

	"github.com/nspcc-dev/neo-go/pkg/vm/opcode"
	"github.com/nspcc-dev/neo-go/pkg/vm/vmstate"
	"github.com/stretchr/testify/require"
)

// A finite gas limit above MaxInt64/ExecFeeFactorMultiplier Datoshi (~9.2M GAS, e.g. the system fee of a transaction)
// must still bound the execution: an endless loop has to FAULT on gas, not run forever.
func TestDemoC12_HugeGasLimitStillBounds(t *testing.T) {
	v := New()
	v.SetPriceGetter(func(opcode.Opcode, []byte) int64 { return math.MaxInt64 / 8 }) // picoGAS per instruction
	v.SetGasLimit(math.MaxInt64/ExecFeeFactorMultiplier + 1)
	require.Positive(t, v.GasLimit(), "a positive limit must stay a limit")
	v.LoadScript([]byte{byte(opcode.JMP), 0}) // JMP 0: endless loop
	for i := 0; i < 1000 && !v.HasStopped(); i++ {
		_ = v.Step()
	}
	require.Equal(t, vmstate.Fault, v.State(), "1000 instructions at MaxInt64/8 picoGAS each were executed under a finite limit")
}
