// Copy to pkg/core/ (package core_test); run: go test ./pkg/core/ -run 'TestC06Defect_TwoOracleResponsesInBlock' -count=1
package core_test

import (
	"testing"

	"github.com/nspcc-dev/neo-go/internal/contracts"
	"github.com/nspcc-dev/neo-go/pkg/config/netmode"
	"github.com/nspcc-dev/neo-go/pkg/core/fee"
	"github.com/nspcc-dev/neo-go/pkg/core/native"
	"github.com/nspcc-dev/neo-go/pkg/core/native/nativenames"
	"github.com/nspcc-dev/neo-go/pkg/core/native/noderoles"
	"github.com/nspcc-dev/neo-go/pkg/core/transaction"
	"github.com/nspcc-dev/neo-go/pkg/crypto/hash"
	"github.com/nspcc-dev/neo-go/pkg/crypto/keys"
	"github.com/nspcc-dev/neo-go/pkg/io"
	"github.com/nspcc-dev/neo-go/pkg/neotest"
	"github.com/nspcc-dev/neo-go/pkg/neotest/chain"
	"github.com/nspcc-dev/neo-go/pkg/smartcontract"
	"github.com/nspcc-dev/neo-go/pkg/vm/stackitem"
	"github.com/nspcc-dev/neo-go/pkg/wallet"
	"github.com/stretchr/testify/require"
)

// AddBlock (and the consensus service's verifyBlock) run the transactions of a
// block through a scratch pool. Pool.Add does not fail on a second transaction
// answering the same oracle request if its network fee is bigger: it silently
// REPLACES the first one in the scratch pool. So a block with two responses to
// one request passes verification, both are executed and BOTH HALT (the request
// is removed in Oracle's PostPersist only), i.e. the requesting contract's
// callback runs twice, with two different results, for a single request. The
// reference implementation's TransactionVerificationContext refuses the second
// response (oracleResponses.ContainsKey), i.e. the two transactions are
// mutually incompatible and the block (or the proposal) must be rejected.
func TestC06Defect_TwoOracleResponsesInBlock(t *testing.T) {
	bc, validator, committee := chain.NewMulti(t)
	e := neotest.NewExecutor(t, bc, validator, committee)

	oracleAcc, err := wallet.NewAccount()
	require.NoError(t, err)
	oraclePubs := keys.PublicKeys{oracleAcc.PublicKey()}
	require.NoError(t, oracleAcc.ConvertMultisig(1, oraclePubs))
	oracleScript, err := smartcontract.CreateMajorityMultiSigRedeemScript(oraclePubs)
	require.NoError(t, err)
	oracleMultisigHash := hash.Hash160(oracleScript)

	gasHash := e.NativeHash(t, nativenames.Gas)
	oracleHash := e.NativeHash(t, nativenames.Oracle)
	designateHash := e.NativeHash(t, nativenames.Designation)
	e.ValidatorInvoker(gasHash).Invoke(t, true, "transfer", validator.ScriptHash(), oracleMultisigHash, int64(1_000_000_000), nil)

	cs := contracts.GetOracleContractState(t, pathToInternalContracts, validator.ScriptHash(), 0)
	e.DeployContract(t, &neotest.Contract{Hash: cs.Hash, NEF: &cs.NEF, Manifest: &cs.Manifest}, nil)
	const gasForResponse int64 = 10_000_000
	e.ValidatorInvoker(cs.Hash).Invoke(t, stackitem.Null{}, "requestURL", "https://get.1234", "", "handle", []byte{}, gasForResponse)

	e.NewInvoker(designateHash, validator, committee).Invoke(t, stackitem.Null{}, "designateAsRole",
		int64(noderoles.Oracle), []any{oraclePubs[0].Bytes()})

	respScript := native.CreateOracleResponseScript(oracleHash)
	newResp := func(t *testing.T, extraNetFee int64, result []byte) *transaction.Transaction {
		tx := transaction.New(respScript, 0)
		tx.Nonce = neotest.Nonce()
		tx.ValidUntilBlock = bc.BlockHeight() + 1
		tx.Attributes = []transaction.Attribute{{
			Type:  transaction.OracleResponseT,
			Value: &transaction.OracleResponse{ID: 0, Code: transaction.Success, Result: result},
		}}
		tx.Signers = []transaction.Signer{{Account: oracleMultisigHash, Scopes: transaction.None}}
		size := io.GetVarSize(tx)
		netFee, sizeDelta := fee.Calculate(bc.GetBaseExecFee(), oracleScript)
		tx.NetworkFee = 4_000_000 + netFee + int64(size+sizeDelta)*bc.FeePerByte() + extraNetFee
		tx.SystemFee = gasForResponse
		require.NoError(t, oracleAcc.SignTx(netmode.UnitTestNet, tx))
		return tx
	}
	r1 := newResp(t, 0, []byte{1, 2, 3})
	r2 := newResp(t, 1_000_000, []byte{4, 5, 6})
	require.NoError(t, bc.VerifyTx(r1))
	require.NoError(t, bc.VerifyTx(r2))
	require.Greater(t, r2.NetworkFee, r1.NetworkFee)

	height := bc.BlockHeight()
	b := e.NewUnsignedBlock(t, r1, r2)
	e.SignBlock(b)
	err = bc.AddBlock(b)
	if err == nil {
		for _, tx := range []*transaction.Transaction{r1, r2} {
			aer, aerr := bc.GetAppExecResults(tx.Hash(), 0x40) // trigger.Application
			require.NoError(t, aerr)
			t.Logf("tx %s: %s %s", tx.Hash().StringLE(), aer[0].VMState, aer[0].FaultException)
		}
	}
	require.Error(t, err, "a block with two responses to one oracle request was accepted")
	require.Equal(t, height, bc.BlockHeight())
}
