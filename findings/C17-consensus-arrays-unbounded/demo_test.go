// Copy to pkg/consensus/ (package consensus); run: go test -count=1 -run TestDemoC17_RecoveryArraysAreBounded ./pkg/consensus/
// Fails on the tree before fix e297e36 (the decoder allocates the announced 16M elements - several hundred megabytes -
// and then reports EOF), passes after it (the count is refused before anything is allocated).
package consensus

import (
	"runtime"
	"testing"

	"github.com/nspcc-dev/dbft"
	"github.com/nspcc-dev/neo-go/pkg/io"
	"github.com/stretchr/testify/require"
)

func TestDemoC17_RecoveryArraysAreBounded(t *testing.T) {
	// varuint 0x00ffffff (the largest count ReadArray accepts by default) and nothing after it
	data := []byte{0xfe, 0xff, 0xff, 0xff, 0x00}
	var before, after runtime.MemStats
	runtime.GC()
	runtime.ReadMemStats(&before)
	m := new(recoveryMessage)
	r := io.NewBinReaderFromBuf(data)
	m.DecodeBinary(r)
	runtime.ReadMemStats(&after)
	require.Error(t, r.Err)
	allocated := after.TotalAlloc - before.TotalAlloc
	require.Less(t, allocated, uint64(1<<20), "5 bytes of input made the decoder allocate %d bytes", allocated)

	cv := new(changeView)
	r = io.NewBinReaderFromBuf(append([]byte{0, 0, 0, 0, 0, 0, 0, 0, byte(dbft.CVTxInvalid)}, data...))
	runtime.ReadMemStats(&before)
	cv.DecodeBinary(r)
	runtime.ReadMemStats(&after)
	require.Error(t, r.Err)
	allocated = after.TotalAlloc - before.TotalAlloc
	require.Less(t, allocated, uint64(1<<20), "14 bytes of input made the decoder allocate %d bytes", allocated)
}
