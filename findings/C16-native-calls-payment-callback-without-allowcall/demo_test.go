// Copy to pkg/core/interop/contract/ ; run: go test ./pkg/core/interop/contract/ -run 'TestC16Defect_NativeCallsContractWithoutAllowCall' -count=1
//
// NOTE: protocol-inherited (the reference C# node behaves the same), most likely a
// "won't fix", but the property as worded ("code running without the allow-call flag
// never calls a contract") does not hold because of it.
package contract_test

import (
	"github.com/nspcc-dev/neo-go/pkg/io"
	"github.com/nspcc-dev/neo-go/pkg/smartcontract/callflag"
	"github.com/nspcc-dev/neo-go/pkg/vm/emit"
	"github.com/stretchr/testify/require"
	"strings"
	"testing"

	"github.com/nspcc-dev/neo-go/pkg/compiler"
	"github.com/nspcc-dev/neo-go/pkg/core/native/nativenames"
	"github.com/nspcc-dev/neo-go/pkg/neotest"
	"github.com/nspcc-dev/neo-go/pkg/neotest/chain"
	"github.com/nspcc-dev/neo-go/pkg/smartcontract/manifest"
	"github.com/nspcc-dev/neo-go/pkg/vm/stackitem"
)

// NEO.vote requires States|AllowNotify (no AllowCall), yet it distributes the voter's
// unclaimed GAS via GAS mint with callOnPayment=true, i.e. it calls the voter's
// onNEP17Payment (contract.CallFromNative) from a context that has no AllowCall.
// The same holds for Policy.blockAccount (post-Faun, States|AllowNotify) and
// Management.destroy (post-Gorgon, States|AllowNotify) which revoke votes, and, before
// Echidna, NEO.vote/registerCandidate/unregisterCandidate required only States while
// emitting Transfer/CandidateStateChanged notifications (no AllowNotify).
func TestC16Defect_NativeCallsContractWithoutAllowCall(t *testing.T) {
	bc, acc := chain.NewSingle(t)
	e := neotest.NewExecutor(t, bc, acc, acc)

	src := `package voter
	import (
		"github.com/nspcc-dev/neo-go/pkg/interop"
		"github.com/nspcc-dev/neo-go/pkg/interop/contract"
		"github.com/nspcc-dev/neo-go/pkg/interop/native/gas"
		"github.com/nspcc-dev/neo-go/pkg/interop/native/neo"
		"github.com/nspcc-dev/neo-go/pkg/interop/runtime"
		"github.com/nspcc-dev/neo-go/pkg/interop/storage"
	)
	func OnNEP17Payment(from interop.Hash160, amount int, data any) {
		if runtime.GetCallingScriptHash().Equals(interop.Hash160(gas.Hash)) && from == nil {
			ctx := storage.GetContext()
			n := 0
			v := storage.Get(ctx, []byte("mints"))
			if v != nil {
				n = v.(int)
			}
			storage.Put(ctx, []byte("mints"), n+1)
		}
	}
	func ResetMints() {
		storage.Delete(storage.GetContext(), []byte("mints"))
	}
	func Mints() int {
		v := storage.Get(storage.GetContext(), []byte("mints"))
		if v == nil {
			return 0
		}
		return v.(int)
	}
	// DoVote calls NEO.vote handing it everything but AllowCall.
	func DoVote() bool {
		return contract.Call(interop.Hash160(neo.Hash), "vote", contract.States|contract.AllowNotify, runtime.GetExecutingScriptHash(), nil).(bool)
	}`
	ctr := neotest.CompileSource(t, acc.ScriptHash(), strings.NewReader(src), &compiler.Options{
		Name:               "voter",
		NoPermissionsCheck: true,
		SafeMethods:        []string{"mints"},
		Permissions:        []manifest.Permission{*manifest.NewPermission(manifest.PermissionWildcard)},
	})
	e.DeployContract(t, ctr, nil)
	cInv := e.CommitteeInvoker(ctr.Hash)

	neoInv := e.ValidatorInvoker(e.NativeHash(t, nativenames.Neo))
	neoInv.Invoke(t, true, "transfer", e.Validator.ScriptHash(), ctr.Hash, 1000, nil)
	e.GenerateNewBlocks(t, 5) // let some GAS accrue for the contract's NEO
	cInv.Invoke(t, stackitem.Null{}, "resetMints")
	cInv.Invoke(t, stackitem.Make(0), "mints")

	cInv.Invoke(t, true, "doVote")
	// NEO.vote ran without AllowCall, so it must not have called any contract.
	cInv.Invoke(t, stackitem.Make(0), "mints")
}

// The same through Policy.blockAccount (post-Faun: it revokes the votes of the blocked account, which distributes
// its unclaimed GAS with the payment callback on) called by the committee with States|AllowNotify only.
func TestC16Defect_BlockAccountCallsContractWithoutAllowCall(t *testing.T) {
	bc, acc := chain.NewSingle(t)
	e := neotest.NewExecutor(t, bc, acc, acc)
	src := `package voter2
	import (
		"github.com/nspcc-dev/neo-go/pkg/interop"
		"github.com/nspcc-dev/neo-go/pkg/interop/contract"
		"github.com/nspcc-dev/neo-go/pkg/interop/native/gas"
		"github.com/nspcc-dev/neo-go/pkg/interop/native/neo"
		"github.com/nspcc-dev/neo-go/pkg/interop/runtime"
		"github.com/nspcc-dev/neo-go/pkg/interop/storage"
	)
	func OnNEP17Payment(from interop.Hash160, amount int, data any) {
		if runtime.GetCallingScriptHash().Equals(interop.Hash160(gas.Hash)) && from == nil {
			ctx := storage.GetContext()
			n := 0
			v := storage.Get(ctx, []byte("mints"))
			if v != nil {
				n = v.(int)
			}
			storage.Put(ctx, []byte("mints"), n+1)
		}
	}
	func ResetMints() {
		storage.Delete(storage.GetContext(), []byte("mints"))
	}
	func Mints() int {
		v := storage.Get(storage.GetContext(), []byte("mints"))
		if v == nil {
			return 0
		}
		return v.(int)
	}
	func DoVote(pub interop.PublicKey) bool {
		return contract.Call(interop.Hash160(neo.Hash), "vote", contract.All, runtime.GetExecutingScriptHash(), pub).(bool)
	}`
	ctr := neotest.CompileSource(t, acc.ScriptHash(), strings.NewReader(src), &compiler.Options{
		Name:               "voter2",
		NoPermissionsCheck: true,
		SafeMethods:        []string{"mints"},
		Permissions:        []manifest.Permission{*manifest.NewPermission(manifest.PermissionWildcard)},
	})
	e.DeployContract(t, ctr, nil)
	cInv := e.CommitteeInvoker(ctr.Hash)
	neoHash := e.NativeHash(t, nativenames.Neo)
	neoInv := e.ValidatorInvoker(neoHash)
	neoInv.Invoke(t, true, "transfer", e.Validator.ScriptHash(), ctr.Hash, 1000, nil)
	// a candidate to vote for
	cand := e.NewAccount(t, 2000_0000_0000)
	pub := cand.(neotest.SingleSigner).Account().PublicKey()
	candInv := e.NewInvoker(neoHash, cand)
	candInv.Invoke(t, true, "registerCandidate", pub.Bytes())
	cInv.Invoke(t, true, "doVote", pub.Bytes())
	e.GenerateNewBlocks(t, 5) // let some GAS accrue for the contract's NEO
	cInv.Invoke(t, stackitem.Null{}, "resetMints")
	cInv.Invoke(t, stackitem.Make(0), "mints")

	// the committee blocks the contract, handing Policy.blockAccount everything but AllowCall
	w := io.NewBufBinWriter()
	emit.AppCall(w.BinWriter, e.NativeHash(t, nativenames.Policy), "blockAccount", callflag.States|callflag.AllowNotify, ctr.Hash)
	require.NoError(t, w.Err)
	tx := e.PrepareInvocation(t, w.Bytes(), []neotest.Signer{e.Committee})
	e.AddNewBlock(t, tx)
	e.CheckHalt(t, tx.Hash(), stackitem.Make(true))
	// Policy.blockAccount ran without AllowCall, so it must not have called any contract.
	cs := bc.GetContractState(ctr.Hash)
	require.NotNil(t, cs)
	v := bc.GetStorageItem(cs.ID, []byte("mints"))
	require.Nil(t, v, "onNEP17Payment of the blocked contract was called by a method running without AllowCall")
}
