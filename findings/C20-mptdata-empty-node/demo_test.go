// package dir: pkg/core/statesync ; go test -run TestC20Defect_ ./pkg/core/statesync/
package statesync_test

import (
	"testing"

	"github.com/nspcc-dev/neo-go/pkg/config"
	"github.com/nspcc-dev/neo-go/pkg/core/mpt"
	"github.com/nspcc-dev/neo-go/pkg/neotest"
	"github.com/nspcc-dev/neo-go/pkg/neotest/chain"
	"github.com/stretchr/testify/require"
)

// A peer answering with MPTData that contains a serialized EmptyNode (the single
// byte 0x04) makes the syncing node panic in restoreNode (EmptyNode.Hash()
// panics) instead of rejecting the data.
func TestC20Defect_EmptyNodeInMPTDataPanics(t *testing.T) {
	const (
		stateSyncInterval = 2
		maxTraceable      = 3
	)
	spoutCfg := func(c *config.Blockchain) {
		c.StateRootInHeader = true
		c.StateSyncInterval = stateSyncInterval
		c.MaxTraceableBlocks = maxTraceable
	}
	bcSpout, validators, committee := chain.NewMultiWithCustomConfig(t, spoutCfg)
	e := neotest.NewExecutor(t, bcSpout, validators, committee)
	for range 2*stateSyncInterval + maxTraceable + 2 {
		e.AddNewBlock(t)
	}
	boltCfg := func(c *config.Blockchain) {
		spoutCfg(c)
		c.P2PStateExchangeExtensions = true
		c.KeepOnlyLatestState = true
		c.RemoveUntraceableBlocks = true
	}
	bcBolt, _, _ := chain.NewMultiWithCustomConfig(t, boltCfg)
	module := bcBolt.GetStateSyncModule()
	require.NoError(t, module.Init(bcSpout.BlockHeight()))
	for i := uint32(1); i <= bcSpout.HeaderHeight(); i++ {
		h, err := bcSpout.GetHeader(bcSpout.GetHeaderHash(i))
		require.NoError(t, err)
		require.NoError(t, module.AddHeaders(h))
	}
	require.True(t, module.NeedStorageData())
	require.NotPanics(t, func() {
		_ = module.AddMPTNodes([][]byte{{byte(mpt.EmptyT)}})
	})
}
