// Copy to pkg/consensus/ (it is a ledger-level test, any test package that can import neotest will do) ; run: go test ./pkg/consensus/ -run 'TestC19Defect_PrimaryRewardAfterValidatorsCountShrinks' -count=1
package consensus

import (
	"testing"

	"github.com/nspcc-dev/neo-go/pkg/config"
	"github.com/nspcc-dev/neo-go/pkg/core/native/nativehashes"
	"github.com/nspcc-dev/neo-go/pkg/neotest"
	"github.com/nspcc-dev/neo-go/pkg/neotest/chain"
	"github.com/stretchr/testify/require"
)

// The configuration (ValidatorsHistory) is allowed to reduce the number of
// validators at an epoch boundary H. Block H is still made by the old (bigger)
// set, its PrimaryIndex is an index in that set ((H - view) % oldN, that's what
// dBFT's context has and newBlockFromContext copies). When block H is
// persisted NEO.OnPersist switches nextValidators to the new (smaller) set and
// then GAS.OnPersist takes validators[block.PrimaryIndex] from the new set to
// pay the network fees to the primary. With transactions in the block (there is
// nothing to pay otherwise) and PrimaryIndex >= newN this is an index out of
// range: the block every honest validator has signed is rejected by every
// ledger, the validators that collected the commits wait for it forever.
// (With a growing number of validators the fees of block H just go to a node
// that wasn't the primary.)
func TestC19Defect_PrimaryRewardAfterValidatorsCountShrinks(t *testing.T) {
	const newEpoch = 6 // committee is 6 in this chain, 4 validators.
	bc, validators, committee := chain.NewMultiWithCustomConfig(t, func(cfg *config.Blockchain) {
		cfg.ValidatorsCount = 0
		cfg.ValidatorsHistory = map[uint32]uint32{0: 4, newEpoch: 1}
	})
	e := neotest.NewExecutor(t, bc, validators, committee)
	e.GenerateNewBlocks(t, newEpoch-1)
	require.EqualValues(t, newEpoch-1, bc.BlockHeight())

	tx := e.NewTx(t, []neotest.Signer{validators}, nativehashes.GasToken, "transfer",
		validators.ScriptHash(), committee.ScriptHash(), 1, nil)
	b := e.NewUnsignedBlock(t, tx)
	b.PrimaryIndex = newEpoch % 4 // view 0 primary among 4 validators: 2.
	e.SignBlock(b)
	require.NoError(t, bc.AddBlock(b), "block %d made by the 4 validators of the finished epoch", newEpoch)
}
