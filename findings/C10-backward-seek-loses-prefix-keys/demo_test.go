// Copy into pkg/core/mpt/ and run: go test ./pkg/core/mpt/ -run 'TestC10Defect_TrieStoreSeekBackwardsFromStart' -count=1
package mpt_test

import (
	"testing"

	"github.com/nspcc-dev/neo-go/pkg/core/mpt"
	"github.com/nspcc-dev/neo-go/pkg/core/storage"
	"github.com/stretchr/testify/require"
)

// TrieStore.Seek with Backwards and a non-empty Start loses items that every other
// Store returns for the same range (MemoryStore is used as the reference here, its
// behaviour is what the storage test suite pins for all backends: a backwards seek
// returns the keys with the prefix that are <= Prefix+Start or start with Prefix+Start).
//
//  1. A value whose key is a proper prefix of Prefix+Start (so it is smaller than the
//     start) is skipped: Billet.traverse reaches its leaf (directly, under an extension,
//     or as the "last child" of a branch whose start nibble is 0) with a non-empty rest
//     of `from` and calls process only when len(from) == 0. That is right forwards, wrong
//     backwards. (For a start nibble > 0 the loop over the lower children happens to clear
//     `from` before the last child is visited, that is why it shows up only with nibble 0.)
//  2. A subtree hanging on an extension node whose key goes on after the rest of `from`
//     (all its keys start with Prefix+Start) is skipped by the
//     "bytes.Compare(n.key, from) > 0 != backwards" test, while TrieStore.Seek itself treats
//     the same situation at the top level as "take everything".
func TestC10Defect_TrieStoreSeekBackwardsFromStart(t *testing.T) {
	check := func(t *testing.T, keys [][]byte, prefix, start []byte, expected [][]byte) {
		st := storage.NewMemCachedStore(storage.NewMemoryStore())
		tr := mpt.NewTrie(nil, mpt.ModeAll, st)
		ref := storage.NewMemoryStore()
		m := map[string][]byte{}
		for i, k := range keys {
			require.NoError(t, tr.Put(k, []byte{byte(i)}))
			m[string(append([]byte{byte(storage.STStorage)}, k...))] = []byte{byte(i)}
		}
		require.NoError(t, ref.PutChangeSet(nil, m))
		tr.Flush(0)

		rng := storage.SeekRange{
			Prefix:    append([]byte{byte(storage.STStorage)}, prefix...),
			Start:     start,
			Backwards: true,
		}
		var refRes, res [][]byte
		ref.Seek(rng, func(k, _ []byte) bool {
			refRes = append(refRes, k[1:])
			return true
		})
		require.Equal(t, expected, refRes, "reference store")

		ts := mpt.NewTrieStore(tr.StateRoot(), mpt.ModeAll, st)
		ts.Seek(rng, func(k, _ []byte) bool {
			res = append(res, k[1:])
			return true
		})
		require.Equal(t, expected, res, "TrieStore")
	}
	t.Run("key is a prefix of the start, last child of a branch, start nibble 0", func(t *testing.T) {
		check(t, [][]byte{{0x03}, {0x03, 0x11}}, nil, []byte{0x03, 0x05}, [][]byte{{0x03}})
	})
	t.Run("key is a prefix of the start, leaf under extension", func(t *testing.T) {
		check(t, [][]byte{{0x00, 0xab}, {0x01, 0xab}, {0xab}}, nil, []byte{0xab, 0x03},
			[][]byte{{0xab}, {0x01, 0xab}, {0x00, 0xab}})
	})
	t.Run("key is the seek prefix itself", func(t *testing.T) {
		check(t, [][]byte{{0x11}, {0xab}, {0x03}}, []byte{0xab}, []byte{0xab, 0x00}, [][]byte{{0xab}})
	})
	t.Run("extension key continues after the start", func(t *testing.T) {
		check(t, [][]byte{{0x01, 0x00, 0x03}, {0x01, 0xab}}, nil, []byte{0x01, 0x00}, [][]byte{{0x01, 0x00, 0x03}})
	})
}
