// Copy to pkg/core/interop/contract/ ; run: go test ./pkg/core/interop/contract/ -run 'TestC16Defect_PermissionWithoutMethods' -count=1
package contract_test

import (
	"encoding/json"
	"strings"
	"testing"

	"github.com/nspcc-dev/neo-go/pkg/compiler"
	"github.com/nspcc-dev/neo-go/pkg/core/native/nativehashes"
	"github.com/nspcc-dev/neo-go/pkg/core/native/nativenames"
	"github.com/nspcc-dev/neo-go/pkg/neotest"
	"github.com/nspcc-dev/neo-go/pkg/neotest/chain"
	"github.com/nspcc-dev/neo-go/pkg/smartcontract/manifest"
	"github.com/nspcc-dev/neo-go/pkg/util"
	"github.com/nspcc-dev/neo-go/pkg/vm/stackitem"
	"github.com/nspcc-dev/neo-go/pkg/vm/vmstate"
	"github.com/stretchr/testify/require"
)

// End-to-end variant of TestC16Defect_PermissionWithoutMethods: a manifest
// whose only permission is {"contract": <GAS>, "methods": null} is deployed
// (the reference implementation refuses it with FormatException) and then lets
// the contract call the non-safe GAS.transfer although no method was named.
func TestC16Defect_PermissionWithoutMethods_OnChain(t *testing.T) {
	bc, acc := chain.NewSingle(t)
	e := neotest.NewExecutor(t, bc, acc, acc)

	src := `package c16nullperm
	import (
		"github.com/nspcc-dev/neo-go/pkg/interop"
		"github.com/nspcc-dev/neo-go/pkg/interop/contract"
		"github.com/nspcc-dev/neo-go/pkg/interop/native/gas"
		"github.com/nspcc-dev/neo-go/pkg/interop/runtime"
	)
	func Drain(to interop.Hash160) bool {
		me := runtime.GetExecutingScriptHash()
		return contract.Call(interop.Hash160(gas.Hash), "transfer", contract.All, me, to, 1, nil).(bool)
	}
	func OnNEP17Payment(from interop.Hash160, amount int, data any) {
	}`
	perm := manifest.NewPermission(manifest.PermissionHash, nativehashes.GasToken)
	perm.Methods = manifest.WildStrings{Value: []string{"PLACEHOLDER"}}
	c := neotest.CompileSource(t, e.CommitteeHash, strings.NewReader(src), &compiler.Options{
		Name:               "c16nullperm",
		NoEventsCheck:      true,
		NoPermissionsCheck: true,
		Permissions:        []manifest.Permission{*perm},
	})
	rawManifest, err := json.Marshal(c.Manifest)
	require.NoError(t, err)
	require.Equal(t, 1, strings.Count(string(rawManifest), `["PLACEHOLDER"]`))
	rawManifest = []byte(strings.Replace(string(rawManifest), `["PLACEHOLDER"]`, `null`, 1))
	rawNef, err := c.NEF.Bytes()
	require.NoError(t, err)

	mgmt := e.CommitteeInvoker(e.NativeHash(t, nativenames.Management))
	tx := mgmt.PrepareInvoke(t, "deploy", rawNef, rawManifest)
	e.AddNewBlock(t, tx)
	aer := e.GetTxExecResult(t, tx.Hash())
	t.Logf("deploy with \"methods\":null: %s %s", aer.VMState, aer.FaultException)
	if aer.VMState != vmstate.Halt {
		return // refused, as it should be.
	}

	gasInv := e.CommitteeInvoker(nativehashes.GasToken)
	gasInv.Invoke(t, true, "transfer", e.CommitteeHash, c.Hash, 100, nil)
	thief := util.Uint160{0xc1, 0x6}
	e.CommitteeInvoker(c.Hash).InvokeFail(t, "disallowed method call", "drain", thief)
	gasInv.Invoke(t, stackitem.Make(0), "balanceOf", thief)
}

// A permission matches a call only if it matches the callee AND the method
// name (by wildcard "*" or by an explicit list). A permission that has no
// method list at all ("methods" is null or the field is absent) names no
// method and is not the "*" wildcard, yet WildStrings keeps "wildcard" as
// Value == nil, so both inputs silently become "all methods". The reference
// implementation (WildcardContainer.FromJson) throws FormatException for
// anything but "*" or an array, i.e. the manifest is refused at deployment.
func TestC16Defect_PermissionWithoutMethods(t *testing.T) {
	callee := util.Uint160{1, 2, 3}
	for name, perm := range map[string]string{
		"null methods":   `{"contract":"0x0000000000000000000000000000000000030201","methods":null}`,
		"absent methods": `{"contract":"0x0000000000000000000000000000000000030201"}`,
		"null, wildcard": `{"contract":"*","methods":null}`,
	} {
		t.Run(name, func(t *testing.T) {
			js := `{"name":"Test","groups":[],"features":{},"supportedstandards":[],` +
				`"abi":{"methods":[{"name":"main","offset":0,"parameters":[],"returntype":"Void","safe":false}],"events":[]},` +
				`"permissions":[` + perm + `],"trusts":[],"extra":null}`
			m := new(manifest.Manifest)
			err := json.Unmarshal([]byte(js), m)
			if err != nil {
				return // refused by the parser, fine.
			}
			if m.IsValid(util.Uint160{}, true) != nil {
				return // refused by the validity check, fine.
			}
			// Accepted: then it must not grant anything, no method was named.
			require.False(t, m.CanCall(callee, manifest.NewManifest("callee"), "transfer"),
				"permission without a method list allows any method")
		})
	}
}
