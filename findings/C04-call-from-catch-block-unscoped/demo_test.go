// Copy to pkg/core/interop/contract/ ; run: go test ./pkg/core/interop/contract/ -run 'TestC04Defect_' -count=1
package contract_test

import (
	"strings"
	"testing"

	"github.com/nspcc-dev/neo-go/pkg/compiler"
	"github.com/nspcc-dev/neo-go/pkg/core/interop/interopnames"
	"github.com/nspcc-dev/neo-go/pkg/core/state"
	"github.com/nspcc-dev/neo-go/pkg/io"
	"github.com/nspcc-dev/neo-go/pkg/neotest"
	"github.com/nspcc-dev/neo-go/pkg/neotest/chain"
	"github.com/nspcc-dev/neo-go/pkg/smartcontract"
	"github.com/nspcc-dev/neo-go/pkg/smartcontract/callflag"
	"github.com/nspcc-dev/neo-go/pkg/smartcontract/manifest"
	"github.com/nspcc-dev/neo-go/pkg/smartcontract/nef"
	"github.com/nspcc-dev/neo-go/pkg/vm/emit"
	"github.com/nspcc-dev/neo-go/pkg/vm/opcode"
	"github.com/nspcc-dev/neo-go/pkg/vm/vmstate"
	"github.com/stretchr/testify/assert"
	"github.com/stretchr/testify/require"
)

// TestC04Defect_ThrownCalleeKeptWhenCalledFromCatchBlock shows that the effects of
// a callee that THROWS are kept in a HALTed transaction when the caller invoked it
// from a CATCH block (not from a TRY block) of a handler that has a FINALLY block
// which leaves the method with RET.
//
// callExFromNative gives the callee its own rollback scope only if the calling
// contract has a handler in the TRY state (VM.ContractHasTryBlock). A call made
// from a catch block gets none. When the callee throws, the handler (state CATCH,
// has FINALLY) is entered at its finally block with the exception still pending;
// the callee's context is unloaded with commit=false, but there is no scope to
// drop. The finally block then simply RETurns: nothing ever rethrows, the
// transaction HALTs and everything the thrown callee wrote/notified is persisted.
// The very same call made from the TRY block of the same handler is rolled back,
// so whether a trace of a failed callee leaks depends on the handler state at
// the moment of the call.
func TestC04Defect_ThrownCalleeKeptWhenCalledFromCatchBlock(t *testing.T) {
	bc, acc := chain.NewSingle(t)
	e := neotest.NewExecutor(t, bc, acc, acc)

	srcB := `package c04b
		import (
			"github.com/nspcc-dev/neo-go/pkg/interop/runtime"
			"github.com/nspcc-dev/neo-go/pkg/interop/storage"
		)
		func WriteAndThrow(key, value []byte) {
			storage.Put(storage.GetContext(), key, value)
			runtime.Notify("FromB", key)
			panic("B failed")
		}`
	ctrB := neotest.CompileSource(t, acc.ScriptHash(), strings.NewReader(srcB), &compiler.Options{
		Name: "c04b",
		ContractEvents: []compiler.HybridEvent{
			{Name: "FromB", Parameters: []compiler.HybridParameter{{Parameter: manifest.Parameter{Name: "key", Type: smartcontract.ByteArrayType}}}},
		},
	})
	e.DeployContract(t, ctrB, nil)
	bID := bc.GetContractState(ctrB.Hash).ID

	// callB emits `System.Contract.Call(arg0, "writeAndThrow", All, [arg1, arg2])`.
	callB := func(w *io.BinWriter) {
		emit.Opcodes(w, opcode.LDARG2, opcode.LDARG1, opcode.PUSH2, opcode.PACK)
		emit.Int(w, int64(callflag.All))
		emit.String(w, "writeAndThrow")
		emit.Opcodes(w, opcode.LDARG0)
		emit.Syscall(w, interopnames.SystemContractCall)
	}
	segment := func(f func(w *io.BinWriter)) []byte {
		w := io.NewBufBinWriter()
		f(w.BinWriter)
		require.NoError(t, w.Err)
		return w.Bytes()
	}

	// viaCatch(b, key, value):
	//   INITSLOT 0, 3
	//   TRY catch, finally
	//     PUSHDATA "x"; THROW
	//   catch:   DROP; call B; ENDTRY end
	//   finally: RET
	//   end:     RET
	tryBody := segment(func(w *io.BinWriter) {
		emit.String(w, "x")
		emit.Opcodes(w, opcode.THROW)
	})
	catchBody := segment(func(w *io.BinWriter) {
		emit.Opcodes(w, opcode.DROP)
		callB(w)
	})
	const tryLen, endtryLen = 3, 2
	viaCatch := segment(func(w *io.BinWriter) {
		emit.Instruction(w, opcode.INITSLOT, []byte{0, 3})
		emit.Instruction(w, opcode.TRY, []byte{byte(tryLen + len(tryBody)), byte(tryLen + len(tryBody) + len(catchBody) + endtryLen)})
		w.WriteBytes(tryBody)
		w.WriteBytes(catchBody)
		emit.Instruction(w, opcode.ENDTRY, []byte{endtryLen + 1}) // -> end
		emit.Opcodes(w, opcode.RET)                               // finally
		emit.Opcodes(w, opcode.RET)                               // end
	})

	// viaTry(b, key, value): the same call, but made from the TRY block.
	//   INITSLOT 0, 3
	//   TRY (no catch), finally
	//     call B; ENDTRY end
	//   finally: RET
	//   end:     RET
	tryBody2 := segment(callB)
	viaTry := segment(func(w *io.BinWriter) {
		emit.Instruction(w, opcode.INITSLOT, []byte{0, 3})
		emit.Instruction(w, opcode.TRY, []byte{0, byte(tryLen + len(tryBody2) + endtryLen)})
		w.WriteBytes(tryBody2)
		emit.Instruction(w, opcode.ENDTRY, []byte{endtryLen + 1})
		emit.Opcodes(w, opcode.RET)
		emit.Opcodes(w, opcode.RET)
	})

	script := append(append([]byte{}, viaCatch...), viaTry...)
	ne, err := nef.NewFile(script)
	require.NoError(t, err)
	m := manifest.NewManifest("c04a")
	params := []manifest.Parameter{
		manifest.NewParameter("b", smartcontract.Hash160Type),
		manifest.NewParameter("key", smartcontract.ByteArrayType),
		manifest.NewParameter("value", smartcontract.ByteArrayType),
	}
	m.ABI.Methods = []manifest.Method{
		{Name: "viaCatch", Offset: 0, Parameters: params, ReturnType: smartcontract.VoidType},
		{Name: "viaTry", Offset: len(viaCatch), Parameters: params, ReturnType: smartcontract.VoidType},
	}
	m.Permissions = []manifest.Permission{*manifest.NewPermission(manifest.PermissionWildcard)}
	ctrA := &neotest.Contract{
		Hash:     state.CreateContractHash(acc.ScriptHash(), ne.Checksum, m.Name),
		NEF:      ne,
		Manifest: m,
	}
	e.DeployContract(t, ctrA, nil)
	aInv := e.NewInvoker(ctrA.Hash, acc)

	check := func(t *testing.T, method string, key string) {
		tx := aInv.PrepareInvoke(t, method, ctrB.Hash, []byte(key), []byte("value"))
		e.AddNewBlock(t, tx)
		aer := e.GetTxExecResult(t, tx.Hash())
		if aer.VMState != vmstate.Halt {
			// FAULT is fine from the atomicity point of view: nothing is persisted then.
			require.Nil(t, bc.GetStorageItem(bID, []byte(key)))
			return
		}
		// HALT: B has thrown, no one has seen it return, its effects must be gone.
		for _, ev := range aer.Events {
			assert.NotEqual(t, "FromB", ev.Name, "notification of the callee that threw is kept in a HALTed transaction")
		}
		assert.Nil(t, bc.GetStorageItem(bID, []byte(key)), "storage write of the callee that threw is kept in a HALTed transaction")
	}

	t.Run("called from the try block", func(t *testing.T) {
		check(t, "viaTry", "k-try") // passes: the callee has a rollback scope.
	})
	t.Run("called from the catch block", func(t *testing.T) {
		check(t, "viaCatch", "k-catch") // fails on the unmodified tree.
	})
}
