// Copy to pkg/core/ ; go test -race -run 'TestC03Defect_HistoricFindGetRace' ./pkg/core/
package core_test

import (
	"strings"
	"testing"

	"github.com/nspcc-dev/neo-go/pkg/compiler"
	"github.com/nspcc-dev/neo-go/pkg/core/transaction"
	"github.com/nspcc-dev/neo-go/pkg/io"
	"github.com/nspcc-dev/neo-go/pkg/neotest"
	"github.com/nspcc-dev/neo-go/pkg/neotest/chain"
	"github.com/nspcc-dev/neo-go/pkg/smartcontract/callflag"
	"github.com/nspcc-dev/neo-go/pkg/smartcontract/trigger"
	"github.com/nspcc-dev/neo-go/pkg/vm/emit"
	"github.com/stretchr/testify/require"
)

const c03RaceSrc = `package foo
import (
	"github.com/nspcc-dev/neo-go/pkg/interop/storage"
	"github.com/nspcc-dev/neo-go/pkg/interop/iterator"
)
func Fill(from, to int) {
	ctx := storage.GetContext()
	for i := from; i < to; i++ {
		storage.Put(ctx, []byte{byte(i / 256), byte(i % 256)}, i+1)
	}
}
func Walk() int {
	ctx := storage.GetReadOnlyContext()
	if storage.Get(ctx, []byte{0, 0}) == nil { // expands the trie down to the contract's items
		return -1
	}
	it := storage.Find(ctx, []byte{}, storage.KeysOnly)
	c := 0
	for iterator.Next(it) {
		k := iterator.Value(it).([]byte)
		if storage.Get(ctx, k) != nil {
			c++
		}
	}
	return c
}`

// A storage iterator of a historic invocation walks the MPT in a goroutine of its
// own (MemCachedStore.SeekAsync over mpt.TrieStore) while the VM goes on reading
// from the same TrieStore; both expand/collapse nodes of the same in-memory trie.
func TestC03Defect_HistoricFindGetRace(t *testing.T) {
	bc, acc := chain.NewSingle(t)
	e := neotest.NewExecutor(t, bc, acc, acc)
	c := neotest.CompileSource(t, acc.ScriptHash(), strings.NewReader(c03RaceSrc), &compiler.Options{Name: "Walker"})
	e.DeployContract(t, c, nil)
	inv := e.CommitteeInvoker(c.Hash)
	for i := 0; i < 600; i += 100 {
		inv.Invoke(t, nil, "fill", i, i+100)
	}
	h := bc.BlockHeight()
	e.AddNewBlock(t)

	w := io.NewBufBinWriter()
	emit.AppCall(w.BinWriter, c.Hash, "walk", callflag.All)
	require.NoError(t, w.Err)
	script := w.Bytes()
	for range 5 {
		ic, err := bc.GetTestHistoricVM(trigger.Application, &transaction.Transaction{Script: script}, h+1)
		require.NoError(t, err)
		ic.VM.LoadScriptWithFlags(script, callflag.All)
		require.NoError(t, ic.VM.Run())
		require.Equal(t, 1, ic.VM.Estack().Len(), ic.VM.State().String())
		require.Equal(t, int64(600), ic.VM.Estack().Pop().BigInt().Int64())
		ic.Finalize()
	}
}
