// Copy to pkg/core/native/native_test/ (e.g. as c01_defect_historic_vm_test.go); run: go test ./pkg/core/native/native_test/ -run 'TestC01Defect_HistoricVMAtHardforkHeight' -count=1
package native_test

import (
	"testing"

	"github.com/nspcc-dev/neo-go/pkg/config"
	"github.com/nspcc-dev/neo-go/pkg/core/transaction"
	"github.com/nspcc-dev/neo-go/pkg/neotest"
	"github.com/nspcc-dev/neo-go/pkg/neotest/chain"
	"github.com/nspcc-dev/neo-go/pkg/smartcontract/trigger"
	"github.com/stretchr/testify/require"
)

// TestC01Defect_HistoricVMAtHardforkHeight: Blockchain.GetTestHistoricVM builds
// native caches over the state of block N-1 with initializeNativeCache(N, ...),
// i.e. it tells InitializeCache of every native that the height is N. If N is
// the height a hardfork is enabled at, the natives expect the records created
// by the hardfork's Initialize (run in OnPersist of block N) to be in the
// storage already: Policy.fillCacheFromDAO and Notary.InitializeCache panic in
// getIntWithKey (Echidna), for Faun the exec fee factor of state N-1 is taken
// as if it were already multiplied (10000 times cheaper execution).
// It's outside of what C01 observes (the historic VM serves RPC only), but it
// is the same "cache rebuilt from storage" machinery.
func TestC01Defect_HistoricVMAtHardforkHeight(t *testing.T) {
	const hfHeight = 3
	bc, acc := chain.NewSingleWithCustomConfig(t, func(c *config.Blockchain) {
		c.Hardforks = map[string]uint32{
			config.HFEchidna.String(): hfHeight,
		}
	})
	e := neotest.NewExecutor(t, bc, acc, acc)
	e.GenerateNewBlocks(t, hfHeight+2)

	tx := transaction.New([]byte{0x11}, 0) // PUSH1
	for _, next := range []uint32{hfHeight - 1, hfHeight + 1, hfHeight} {
		require.NotPanics(t, func() {
			_, err := bc.GetTestHistoricVM(trigger.Application, tx, next)
			require.NoError(t, err)
		}, "historic VM for the next block %d", next)
	}
}
