// Copy to pkg/core/state/ (package state); run: go test -count=1 -run TestC17Defect_EncodeMutatesVMState ./pkg/core/state/ ; core_demo_test.go (pkg/core, package core_test) shows the lost transfers. Both fail before fix df3ad72.
package state

import (
	"testing"

	"github.com/nspcc-dev/neo-go/internal/testserdes"
	"github.com/nspcc-dev/neo-go/pkg/util"
	"github.com/nspcc-dev/neo-go/pkg/vm/stackitem"
	"github.com/nspcc-dev/neo-go/pkg/vm/vmstate"
	"github.com/stretchr/testify/require"
)

func TestC17Defect_EncodeMutatesVMState(t *testing.T) {
	args, err := stackitem.Serialize(stackitem.NewArray([]stackitem.Item{stackitem.Make(1)}))
	require.NoError(t, err)
	aer := &AppExecResult{
		Container: util.Uint256{1},
		Execution: Execution{
			Trigger:     0x40,
			VMState:     vmstate.Halt,
			Stack:       []stackitem.Item{},
			Events:      []NotificationEvent{},
			Invocations: []ContractInvocation{*NewContractInvocation(util.Uint160{1}, "m", args, 1)},
		},
	}
	bs, err := testserdes.EncodeBinary(aer)
	require.NoError(t, err)
	dec := new(AppExecResult)
	require.NoError(t, testserdes.DecodeBinary(bs, dec))
	require.Equal(t, vmstate.Halt, dec.VMState)
	t.Logf("source VMState after encode: %#x", byte(aer.VMState))
	require.Equal(t, vmstate.Halt, aer.VMState) // what blockchain.go:2014 and rpcsrv/notification_comparator.go:44 test for
}
