// Copy into pkg/core/ ; run: go test ./pkg/core/ -run 'TestC17Defect_' -count=1  (each test FAILS on the unmodified tree: it asserts the property)
package core_test

import (
	"math/big"
	"testing"

	"github.com/nspcc-dev/neo-go/pkg/config"
	"github.com/nspcc-dev/neo-go/pkg/core/native/nativenames"
	"github.com/nspcc-dev/neo-go/pkg/core/state"
	"github.com/nspcc-dev/neo-go/pkg/neotest"
	"github.com/nspcc-dev/neo-go/pkg/neotest/chain"
	"github.com/nspcc-dev/neo-go/pkg/util"
	"github.com/stretchr/testify/require"
)

func c17countTransfers(t *testing.T, save bool) int {
	bc, acc := chain.NewSingleWithCustomConfig(t, func(c *config.Blockchain) {
		c.SaveInvocations = save
	})
	e := neotest.NewExecutor(t, bc, acc, acc)
	gas := e.NewInvoker(e.NativeHash(t, nativenames.Gas), acc)
	to := util.Uint160{1, 2, 3}
	gas.Invoke(t, true, "transfer", acc.ScriptHash(), to, 1000, nil)
	var n int
	require.NoError(t, bc.ForEachNEP17Transfer(to, e.TopBlock(t).Timestamp+1, func(tr *state.NEP17Transfer) (bool, error) {
		if tr.Amount.Cmp(big.NewInt(1000)) == 0 {
			n++
		}
		return true, nil
	}))
	return n
}

func TestC17Defect_SaveInvocationsLosesTransfers(t *testing.T) {
	require.Equal(t, 1, c17countTransfers(t, false))
	require.Equal(t, 1, c17countTransfers(t, true))
}
