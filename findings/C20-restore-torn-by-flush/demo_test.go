// package dir: pkg/core/statesync ; go test -run TestC20Defect_CrashBetween ./pkg/core/statesync/
package statesync

import (
	"bytes"
	"encoding/binary"
	"errors"
	"fmt"
	"math/rand"
	"sync"
	"testing"

	"github.com/nspcc-dev/neo-go/pkg/config"
	"github.com/nspcc-dev/neo-go/pkg/core/block"
	"github.com/nspcc-dev/neo-go/pkg/core/dao"
	"github.com/nspcc-dev/neo-go/pkg/core/mpt"
	"github.com/nspcc-dev/neo-go/pkg/core/storage"
	"github.com/nspcc-dev/neo-go/pkg/core/transaction"
	"github.com/nspcc-dev/neo-go/pkg/crypto/hash"
	"github.com/nspcc-dev/neo-go/pkg/util"
	"github.com/stretchr/testify/require"
	"go.uber.org/zap"
)

// c20Ledger is a minimal Ledger: headers are in sync, header P+1 carries the root.
type c20Ledger struct {
	p    uint32
	root util.Uint256
}

func (l c20Ledger) AddHeaders(...*block.Header) error { return nil }
func (l c20Ledger) BlockHeight() uint32               { return 0 }
func (l c20Ledger) IsHardforkEnabled(*config.Hardfork, uint32) bool {
	return false
}
func (l c20Ledger) GetConfig() config.Blockchain {
	return config.Blockchain{
		ProtocolConfiguration: config.ProtocolConfiguration{MaxTraceableBlocks: 3, StateRootInHeader: true, P2PStateExchangeExtensions: true},
		Ledger:                config.Ledger{KeepOnlyLatestState: true, RemoveUntraceableBlocks: true},
	}
}
func (l c20Ledger) GetHeader(util.Uint256) (*block.Header, error) {
	return &block.Header{Index: l.p + 1, PrevStateRoot: l.root, StateRootEnabled: true}, nil
}
func (l c20Ledger) GetHeaderHash(uint32) util.Uint256 { return util.Uint256{} }
func (l c20Ledger) HeaderHeight() uint32              { return l.p + 1 }
func (l c20Ledger) NativePolicyID() int32             { return -7 }
func (l c20Ledger) VerifyWitness(util.Uint160, hash.Hashable, *transaction.Witness, int64) (int64, error) {
	return 0, errors.New("unused")
}

func c20NewModule(lower storage.Store, l c20Ledger) *Module {
	return &Module{
		log:          zap.NewNop(),
		syncPoint:    l.p,
		syncStage:    initialized,
		syncInterval: 10,
		dao:          dao.NewSimple(lower, true),
		mptpool:      NewPool(),
		bc:           l,
		jumpCallback: func(uint32) error { return nil },
	}
}

func c20Clone(s *storage.MemoryStore) *storage.MemoryStore {
	res := storage.NewMemoryStore()
	puts, stores := map[string][]byte{}, map[string][]byte{}
	for p := range 256 {
		s.Seek(storage.SeekRange{Prefix: []byte{byte(p)}}, func(k, v []byte) bool {
			m := puts
			if p == int(storage.STStorage) || p == int(storage.STTempStorage) {
				m = stores
			}
			m[string(k)] = bytes.Clone(v)
			return true
		})
	}
	_ = res.PutChangeSet(puts, stores)
	return res
}

// The node's DB is persisted periodically by another goroutine (Blockchain.Run,
// once a second) that doesn't synchronise with AddMPTNodes. Billet.RestoreHashNode
// first Puts the leaf MPT node (incrementRefAndStore) and only then Puts the
// contract storage item of this leaf. If the periodic persist takes its snapshot
// between these two Puts and the node dies before the next persist, then after
// the restart defineSyncStage finds the leaf node in the DB, considers it restored
// and never writes the storage item: state sync "completes" with the proper
// state root, but with a contract storage item missing.
func TestC20Defect_CrashBetweenLeafNodeAndStorageItem(t *testing.T) {
	const (
		p      = 100
		leaves = 400
	)
	// Source trie.
	rnd := rand.New(rand.NewSource(20))
	src := storage.NewMemCachedStore(storage.NewMemoryStore())
	tr := mpt.NewTrie(nil, mpt.ModeLatest, src)
	expected := make(map[string][]byte)
	for i := range leaves {
		k := make([]byte, 8)
		rnd.Read(k)
		v := fmt.Appendf(nil, "value %d", i) // unique => every leaf has exactly one path.
		require.NoError(t, tr.Put(k, v))
		expected[string(k)] = v
	}
	root := tr.StateRoot()
	tr.Flush(p)
	nodes := make(map[util.Uint256][]byte)
	src.Seek(storage.SeekRange{Prefix: []byte{byte(storage.DataMPT)}}, func(k, v []byte) bool {
		h, err := util.Uint256DecodeBytesBE(k[1:])
		require.NoError(t, err)
		nodes[h] = bytes.Clone(v[:len(v)-5])
		return true
	})
	ledger := c20Ledger{p: p, root: root}

	// finish completes the synchronisation over the given DB image (a restart)
	// and returns the keys missing from the restored contract storage.
	finish := func(img *storage.MemoryStore) []string {
		m := c20NewModule(img, ledger)
		require.NoError(t, m.defineSyncStage())
		for m.syncStage&mptSynced == 0 {
			for _, h := range m.GetUnknownMPTNodesBatch(50) {
				require.NoError(t, m.AddMPTNodes([][]byte{nodes[h]}))
			}
		}
		var missing []string
		for k, v := range expected {
			got, err := m.dao.Store.Get(append([]byte{byte(storage.STTempStorage)}, k...))
			if err != nil || !bytes.Equal(got, v) {
				missing = append(missing, fmt.Sprintf("%x", k))
			}
		}
		return missing
	}
	// Sanity check: a sync without crashes restores everything.
	require.Empty(t, finish(storage.NewMemoryStore()))

	// isTorn tells whether the image has more leaf nodes than storage items (every leaf has one path here).
	isTorn := func(img *storage.MemoryStore) bool {
		var leafNodes, items int
		img.Seek(storage.SeekRange{Prefix: []byte{byte(storage.DataMPT)}}, func(k, v []byte) bool {
			if mpt.NodeType(v[0]) == mpt.LeafT {
				leafNodes++
			}
			return true
		})
		img.Seek(storage.SeekRange{Prefix: []byte{byte(storage.STTempStorage)}}, func(k, v []byte) bool {
			items++
			return true
		})
		return leafNodes > items
	}

	for attempt := range 200 {
		lower := storage.NewMemoryStore()
		m := c20NewModule(lower, ledger)
		require.NoError(t, m.defineSyncStage())

		var (
			wg   sync.WaitGroup
			done = make(chan struct{})
			torn *storage.MemoryStore
		)
		wg.Add(1)
		go func() { // the "persist timer" of Blockchain.Run.
			defer wg.Done()
			for {
				select {
				case <-done:
					return
				default:
				}
				_, _ = m.dao.Store.Persist()
				if torn == nil {
					if img := c20Clone(lower); isTorn(img) { // what is on disk if the node dies now.
						torn = img
					}
				}
			}
		}()
		for m.syncStage&mptSynced == 0 {
			for _, h := range m.GetUnknownMPTNodesBatch(50) {
				require.NoError(t, m.AddMPTNodes([][]byte{nodes[h]}))
			}
		}
		close(done)
		wg.Wait()
		if torn == nil {
			continue
		}
		t.Logf("attempt %d: the persist landed between the leaf node and its storage item", attempt)
		missing := finish(torn)
		require.Empty(t, missing, "contract storage items lost after the restart")
		return
	}
	t.Skip("the window was not hit")
}

var _ = binary.LittleEndian
