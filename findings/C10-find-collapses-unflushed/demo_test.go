// Copy to: pkg/core/mpt/   run: go test ./pkg/core/mpt/ -run 'TestC10DefectFind_' -count=1
//
// Defect of the UNMODIFIED code (low severity, production callers only run Find
// on tries loaded from a persisted root): Trie.Find is not a read-only
// operation. It walks the trie's own in-memory nodes with Billet.traverse, which
// "collapses" every visited leaf/branch/extension into a HashNode and stores the
// HashNode back into the parent (n.Children[i] = r / n.next = r). When the
// trie has changes that are not flushed yet those hashes are not in the store, so
// after a Find every key it visited is reported as missing by Get/GetProof until
// the next Flush.
package mpt

import (
	"testing"

	"github.com/stretchr/testify/require"
)

func TestC10DefectFind_FindOnUnflushedTrieLosesKeys(t *testing.T) {
	tr := NewTrie(nil, ModeAll, newTestStore())
	require.NoError(t, tr.Put([]byte("aa"), []byte("1")))
	require.NoError(t, tr.Put([]byte("ab"), []byte("2")))
	root := tr.StateRoot()

	res, err := tr.Find([]byte("a"), nil, 10)
	require.NoError(t, err)
	require.Len(t, res, 2)

	require.Equal(t, root, tr.StateRoot())
	v, err := tr.Get([]byte("aa")) // fails with "item not found"
	require.NoError(t, err)
	require.Equal(t, []byte("1"), v)
}
