package storage

import (
	"path/filepath"
	"testing"

	"github.com/nspcc-dev/neo-go/pkg/core/storage/dbconfig"
	"github.com/stretchr/testify/require"
)

// Keys of the transfer logs are prefix|timestamp(8)|index(4); the logs are read
// backwards with Start = timestamp (dao.SeekNEP17TransferLog). A key that
// *extends* the start is returned by BoltDB/LevelDB (their range is
// [prefix, successor(prefix+start))) and dropped by the in-memory layers
// (key <= start): the answer of the same Seek changes when the layer is flushed,
// and differs between the in-memory backend and the disk ones.
func TestHEAD_BackwardSeekFromStartExtensionKeys(t *testing.T) {
	prefix := []byte{0x10, 0xAA}
	start := []byte{0, 0, 0, 0, 0, 0, 0, 7}        // timestamp 7
	older := append(append([]byte{}, prefix...), 0, 0, 0, 0, 0, 0, 0, 5, 0, 0, 0, 1)
	same := append(append([]byte{}, prefix...), 0, 0, 0, 0, 0, 0, 0, 7, 0, 0, 0, 0) // extends the start
	newer := append(append([]byte{}, prefix...), 0, 0, 0, 0, 0, 0, 0, 9, 0, 0, 0, 0)

	seek := func(s Store) [][]byte {
		var res [][]byte
		s.Seek(SeekRange{Prefix: prefix, Start: start, Backwards: true}, func(k, v []byte) bool {
			res = append(res, append([]byte{}, k...))
			return true
		})
		return res
	}
	fill := func(s *MemCachedStore) {
		s.Put(older, []byte{1})
		s.Put(same, []byte{2})
		s.Put(newer, []byte{3})
	}

	bolt, err := NewBoltDBStore(dbconfig.BoltDBOptions{FilePath: filepath.Join(t.TempDir(), "bolt.db")})
	require.NoError(t, err)
	defer bolt.Close()
	backends := map[string]Store{"memory": NewMemoryStore(), "bolt": bolt}
	results := map[string][][]byte{}
	for name, ps := range backends {
		c := NewMemCachedStore(ps)
		fill(c)
		before := seek(c)
		_, err := c.Persist()
		require.NoError(t, err)
		after := seek(c)
		require.Equal(t, before, after, "%s: flushing the layer changed the answer", name)
		results[name] = after
	}
	require.Equal(t, results["memory"], results["bolt"], "backends disagree")
}
