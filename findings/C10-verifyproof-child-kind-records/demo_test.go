// Copy to pkg/core/mpt/ (package mpt); run: go test -count=1 -run 'TestDemoC10_' ./pkg/core/mpt/
// Both tests fail on the tree before fix db98599 (the second one with "fatal error: stack overflow" in a child process).
package mpt

import (
	"fmt"
	"os"
	"os/exec"
	"runtime/debug"
	"testing"

	"github.com/nspcc-dev/neo-go/pkg/crypto/hash"
	"github.com/nspcc-dev/neo-go/pkg/util"
	"github.com/stretchr/testify/require"
)

// A proof item that is a serialized Empty node (the single byte 0x04): VerifyProof must say "not proven", not panic.
func TestDemoC10_VerifyProofEmptyNodeItem(t *testing.T) {
	item := []byte{byte(EmptyT)}
	require.NotPanics(t, func() {
		_, ok := VerifyProof(hash.DoubleSha256(item), []byte{0x01}, [][]byte{item})
		require.False(t, ok)
	})
}

// A proof item that is a serialized Hash node whose own hash is the root: Trie.getFromStore gives the decoded node
// the hash of its record, the node points at itself and getWithPath recurses until "fatal error: stack overflow"
// (not recoverable; reachable through the verifyproof RPC). Run in a child process.
func TestDemoC10_VerifyProofHashNodeItem(t *testing.T) {
	if os.Getenv("C10_DEMO_CHILD") == "1" {
		debug.SetMaxStack(16 << 20)
		item := append([]byte{byte(HashT)}, util.Uint256{1, 2, 3}.BytesBE()...)
		_, ok := VerifyProof(hash.DoubleSha256(item), []byte{0x01}, [][]byte{item})
		fmt.Println("returned", ok)
		return
	}
	cmd := exec.Command(os.Args[0], "-test.run", "^TestDemoC10_VerifyProofHashNodeItem$")
	cmd.Env = append(os.Environ(), "C10_DEMO_CHILD=1")
	out, err := cmd.CombinedOutput()
	require.NoError(t, err, "child crashed: %.300s", out)
	require.Contains(t, string(out), "returned false")
}
