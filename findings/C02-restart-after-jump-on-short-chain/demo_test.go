// Copy to pkg/core/ (package core, internal test); run: go test ./pkg/core/ -run 'TestC02Defect_' -count=1
// All the tests of this file FAIL on the unmodified tree, each of them shows a separate defect.
package core

import (
	"bytes"
	"encoding/hex"
	"maps"
	"sync"
	"sync/atomic"
	"testing"

	"github.com/nspcc-dev/neo-go/internal/testchain"
	"github.com/nspcc-dev/neo-go/pkg/config"
	"github.com/nspcc-dev/neo-go/pkg/core/block"
	"github.com/nspcc-dev/neo-go/pkg/core/mpt"
	"github.com/nspcc-dev/neo-go/pkg/core/state"
	"github.com/nspcc-dev/neo-go/pkg/core/storage"
	"github.com/nspcc-dev/neo-go/pkg/core/transaction"
	"github.com/nspcc-dev/neo-go/pkg/io"
	"github.com/nspcc-dev/neo-go/pkg/util"
	"github.com/stretchr/testify/assert"
	"github.com/stretchr/testify/require"
	"go.uber.org/zap"
)

// c02dCommit is a single atomic commit of the database (PutChangeSet or SeekGC).
type c02dCommit struct {
	kv   map[string][]byte // nil value means deletion
	kind string
}

// c02dStore is an in-memory database that behaves like the real ones (values
// are copied on the way in and out), survives Close() and records every atomic
// commit, so that the database content after any number of commits (a power
// loss point) can be reconstructed.
type c02dStore struct {
	*storage.MemoryStore
	mu      sync.Mutex
	commits []c02dCommit
	// beforeCommit (if set) is called from PutChangeSet before the batch is
	// applied, it models things happening while the flush is in progress.
	beforeCommit func()
}

func newC02dStore() *c02dStore { return &c02dStore{MemoryStore: storage.NewMemoryStore()} }

func (s *c02dStore) Close() error { return nil }

func (s *c02dStore) Get(k []byte) ([]byte, error) {
	v, err := s.MemoryStore.Get(k)
	return bytes.Clone(v), err
}

func (s *c02dStore) Seek(rng storage.SeekRange, f func(k, v []byte) bool) {
	s.MemoryStore.Seek(rng, func(k, v []byte) bool { return f(bytes.Clone(k), bytes.Clone(v)) })
}

func (s *c02dStore) PutChangeSet(puts map[string][]byte, stores map[string][]byte) error {
	if f := s.beforeCommit; f != nil {
		s.beforeCommit = nil
		f()
	}
	var (
		c  = c02dCommit{kv: make(map[string][]byte, len(puts)+len(stores)), kind: "batch"}
		cm = make(map[string][]byte, len(puts))
		cs = make(map[string][]byte, len(stores))
	)
	for k, v := range puts {
		if v != nil {
			v = bytes.Clone(v)
		}
		c.kv[k], cm[k] = v, v
	}
	for k, v := range stores {
		if v != nil {
			v = bytes.Clone(v)
		}
		c.kv[k], cs[k] = v, v
	}
	err := s.MemoryStore.PutChangeSet(cm, cs)
	s.mu.Lock()
	s.commits = append(s.commits, c)
	s.mu.Unlock()
	return err
}

func (s *c02dStore) SeekGC(rng storage.SeekRange, keepCont func(k, v []byte) (bool, bool)) error {
	c := c02dCommit{kv: make(map[string][]byte), kind: "gc"}
	err := s.MemoryStore.SeekGC(rng, func(k, v []byte) (bool, bool) {
		keep, cont := keepCont(k, v)
		if !keep {
			c.kv[string(k)] = nil
		}
		return keep, cont
	})
	s.mu.Lock()
	s.commits = append(s.commits, c)
	s.mu.Unlock()
	return err
}

func (s *c02dStore) numCommits() int {
	s.mu.Lock()
	defer s.mu.Unlock()
	return len(s.commits)
}

// after returns a new database with the content this one had after the first n commits.
func (s *c02dStore) after(n int) *c02dStore {
	s.mu.Lock()
	defer s.mu.Unlock()
	all := make(map[string][]byte)
	for _, c := range s.commits[:n] {
		maps.Copy(all, c.kv)
	}
	var (
		res  = newC02dStore()
		mem  = make(map[string][]byte)
		stor = make(map[string][]byte)
	)
	for k, v := range all {
		if v == nil {
			continue
		}
		switch storage.KeyPrefix(k[0]) {
		case storage.STStorage, storage.STTempStorage:
			stor[k] = bytes.Clone(v)
		default:
			mem[k] = bytes.Clone(v)
		}
	}
	_ = res.MemoryStore.PutChangeSet(mem, stor)
	return res
}

// c02dOpen opens a non-running Blockchain, flushes are done explicitly with bc.persist().
func c02dOpen(t *testing.T, st storage.Store, f func(*config.Config)) (*Blockchain, error) {
	bc, err := initTestChainNoCheck(t, st, f)
	if err != nil {
		return nil, err
	}
	bc.log = zap.NewNop()
	done := make(chan struct{})
	t.Cleanup(func() { close(done) })
	go func() { // Run() is not started, nobody reads the events.
		for {
			select {
			case <-bc.events:
			case <-done:
				return
			}
		}
	}()
	return bc, nil
}

// c02dHistory keeps blocks and state roots of the reference (uninterrupted) run.
type c02dHistory struct {
	blocks []*block.Block // blocks[i] has index i+1
	roots  []util.Uint256 // roots[i] is the state root of height i
	nonce  uint32
}

func (h *c02dHistory) add(t *testing.T, bc *Blockchain, n int, withTx bool) {
	if len(h.roots) == 0 {
		h.roots = append(h.roots, bc.stateRoot.CurrentLocalStateRoot())
	}
	for range n {
		var txs []*transaction.Transaction
		if withTx {
			h.nonce++
			tx, err := testchain.NewTransferFromOwner(bc, bc.UtilityTokenHash(), util.Uint160{1, 2, 3}, 1, h.nonce, bc.BlockHeight()+10)
			require.NoError(t, err)
			txs = append(txs, tx)
		}
		b := bc.newBlock(txs...)
		require.NoError(t, bc.AddBlock(b))
		h.blocks = append(h.blocks, b)
		h.roots = append(h.roots, bc.stateRoot.CurrentLocalStateRoot())
	}
}

// recover opens the database, checks that it's some consistent prefix of the
// history and feeds the rest of blocks to the node.
func (h *c02dHistory) recover(t *testing.T, st storage.Store, f func(*config.Config)) *Blockchain {
	bc, err := c02dOpen(t, st, f)
	require.NoError(t, err, "the node must start after the crash")
	height := bc.BlockHeight()
	require.LessOrEqual(t, int(height), len(h.blocks))
	sr, err := bc.GetStateRoot(height)
	require.NoError(t, err)
	require.Equal(t, h.roots[height], sr.Root)
	for _, b := range h.blocks[height:] {
		require.NoError(t, bc.AddBlock(b))
		require.Equal(t, h.roots[b.Index], bc.stateRoot.CurrentLocalStateRoot())
	}
	return bc
}

// c02dBadTransferLogs returns keys of NEP-17 transfer log batches with the
// number of entries that differs from the batch counter.
func c02dBadTransferLogs(s *c02dStore) []string {
	var res []string
	s.Seek(storage.SeekRange{Prefix: []byte{byte(storage.STNEP17Transfers)}}, func(k, v []byte) bool {
		var (
			r = io.NewBinReaderFromBuf(v[1:])
			n int
		)
		for r.Len() > 0 && r.Err == nil {
			var tr state.NEP17Transfer
			tr.DecodeBinary(r)
			n++
		}
		if r.Err != nil || n != int(v[0]) {
			res = append(res, hex.EncodeToString(k))
		}
		return true
	})
	return res
}

// Defect 1 (ordinary persistence): dao.GetTokenTransferLog returns the very
// slice that is kept in the MemCachedStore layers and TokenTransferLog.Append
// increments its first byte (the counter) in place. If the value belongs to the
// batch that is being flushed right now (blocks are accepted while flushing), the
// database gets a transfer log batch with the counter that is bigger than the
// number of entries together with the old SYSCurrentBlock. A crash before the next
// flush leaves this batch in the database forever.
func TestC02Defect_TransferLogCounterChangedInPlaceDuringFlush(t *testing.T) {
	var (
		st = newC02dStore()
		h  c02dHistory
	)
	bc, err := c02dOpen(t, st, nil)
	require.NoError(t, err)
	h.add(t, bc, 60, true)
	// One more block is accepted while the flush is in progress.
	st.beforeCommit = func() { h.add(t, bc, 1, true) }
	_, err = bc.persist()
	require.NoError(t, err)
	require.EqualValues(t, 60, bc.persistedHeight)

	// Power loss.
	crashed := st.after(st.numCommits())
	assert.Empty(t, c02dBadTransferLogs(crashed), "transfer log batch counter doesn't match the batch in the crashed DB")
	rec := h.recover(t, crashed, nil)
	_, err = rec.persist()
	require.NoError(t, err)
	assert.Empty(t, c02dBadTransferLogs(crashed), "transfer log batch counter doesn't match the batch in the recovered DB")
	err = rec.ForEachNEP17Transfer(util.Uint160{1, 2, 3}, 0xffffffffffff, func(*state.NEP17Transfer) (bool, error) { return true, nil })
	assert.NoError(t, err, "transfers of the account can't be iterated over on the recovered node")
}

func c02dRUBCfg(c *config.Config) {
	c.ProtocolConfiguration.MaxTraceableBlocks = 100
	c.ApplicationConfiguration.RemoveUntraceableBlocks = true
	c.ApplicationConfiguration.GarbageCollectionPeriod = 100
}

// c02dTick does what Blockchain.Run() does on every timer tick.
func c02dTick(t *testing.T, bc *Blockchain, duringGC func()) {
	oldPersisted := atomic.LoadUint32(&bc.persistedHeight)
	_, err := bc.persist()
	require.NoError(t, err)
	if duringGC != nil {
		duringGC()
	}
	bc.tryRunGC(oldPersisted)
}

// Defect 2 (garbage collection): removeOldHeaderHashes keeps "the last complete
// page" relative to the in-memory header height, but a restart needs the last
// complete page relative to the persisted one. Blocks accepted after the flush
// and before the header hash GC (transfer and MPT GC can take a long time) move
// the in-memory header height to the next page, GC removes the page the persisted
// header height needs and the node can't start after a power loss.
func TestC02Defect_HeaderHashGCBoundedByInMemoryHeaderHeight(t *testing.T) {
	var (
		st = newC02dStore()
		h  c02dHistory
	)
	bc, err := c02dOpen(t, st, c02dRUBCfg)
	require.NoError(t, err)
	h.add(t, bc, 4000, false)
	c02dTick(t, bc, nil)
	h.add(t, bc, 150, false)
	c02dTick(t, bc, func() {
		// Blocks keep coming while GC is in progress.
		h.add(t, bc, 1900, false)
	})
	require.EqualValues(t, 4150, bc.persistedHeight)
	require.EqualValues(t, 6050, bc.HeaderHeight())

	// Power loss right after GC.
	h.recover(t, st.after(st.numCommits()), c02dRUBCfg)
}

// Defect 3 (garbage collection): untraceable blocks are removed via the write
// cache (they reach the DB with the next flush), but the header hash pages
// needed to find these blocks are removed from the DB immediately. A power loss
// between these two events leaves the blocks in the DB forever: the restarted
// node starts block removal from the first stored header hash page.
func TestC02Defect_UntraceableBlocksLeakAfterCrashInGC(t *testing.T) {
	var (
		st = newC02dStore()
		h  c02dHistory
	)
	bc, err := c02dOpen(t, st, c02dRUBCfg)
	require.NoError(t, err)
	h.add(t, bc, 6050, false)
	c02dTick(t, bc, nil)
	crashPoint := st.numCommits() // Right after header hashes GC.

	// The uninterrupted node goes on.
	h.add(t, bc, 200, false)
	c02dTick(t, bc, nil)
	c02dTick(t, bc, nil)
	_, err = bc.GetBlock(h.blocks[10].Hash())
	require.Error(t, err)

	// The crashed one does the same.
	crashed := st.after(crashPoint)
	rec := h.recover(t, crashed, c02dRUBCfg)
	c02dTick(t, rec, nil)
	c02dTick(t, rec, nil)
	require.Equal(t, bc.BlockHeight(), rec.BlockHeight())
	count := func(s *c02dStore) int {
		var n int
		s.Seek(storage.SeekRange{Prefix: []byte{byte(storage.DataExecutable)}}, func(_, _ []byte) bool {
			n++
			return true
		})
		return n
	}
	assert.Equal(t, count(st), count(crashed), "number of blocks/transactions in the DB")
	_, err = rec.GetBlock(h.blocks[10].Hash())
	assert.Error(t, err, "untraceable block 11 is still available on the recovered node")
}

// Defect 4 (state reset): blocks above the target height are removed (with
// their headers) at the first stage of the reset, but SYSCurrentHeader is
// updated only two stages later. HeaderHashes.init() (it's called before the
// reset is resumed) walks from SYSCurrentHeader down to the last stored page and
// fails on the removed headers, so a reset interrupted between these stages
// can't be resumed, the node doesn't start at all.
func TestC02Defect_InterruptedResetCantBeResumed(t *testing.T) {
	var (
		st = newC02dStore()
		h  c02dHistory
	)
	bc, err := c02dOpen(t, st, nil)
	require.NoError(t, err)
	h.add(t, bc, 40, true)
	_, err = bc.persist()
	require.NoError(t, err)
	base := st.numCommits()

	bc, err = c02dOpen(t, st, nil)
	require.NoError(t, err)
	require.NoError(t, bc.Reset(17))
	require.EqualValues(t, 17, bc.BlockHeight())

	for n := base + 1; n <= st.numCommits(); n++ {
		stage := st.commits[n-1].kv[string([]byte{byte(storage.SYSStateChangeStage)})]
		rec, err := c02dOpen(t, st.after(n), nil)
		if !assert.NoError(t, err, "restart after commit %d of the reset (stage marker %x)", n-base, stage) {
			continue
		}
		assert.EqualValues(t, 17, rec.BlockHeight())
		assert.Equal(t, h.roots[17], rec.stateRoot.CurrentLocalStateRoot())
	}
}

// Defect 7 (minor, start-up): with StateRootInHeader every stored block makes
// its state root validated (Module.UpdateCurrentLocal), but this is never
// written to the DB, so a restarted node reports validated height 0 (or the one
// left by the last state jump/reset) until the next block is added.
func TestC02Defect_ValidatedHeightLostOnRestart(t *testing.T) {
	f := func(c *config.Config) { c.ProtocolConfiguration.StateRootInHeader = true }
	st := newC02dStore()
	bc, err := c02dOpen(t, st, f)
	require.NoError(t, err)
	for range 5 {
		require.NoError(t, bc.AddBlock(bc.newBlock()))
	}
	_, err = bc.persist()
	require.NoError(t, err)
	require.EqualValues(t, 5, bc.stateRoot.CurrentValidatedHeight())

	rec, err := c02dOpen(t, st.after(st.numCommits()), f)
	require.NoError(t, err)
	require.EqualValues(t, 5, rec.BlockHeight())
	require.Equal(t, bc.stateRoot.CurrentValidatedHeight(), rec.stateRoot.CurrentValidatedHeight())
}

// Defect 8 (state jump, short chains only): jumpToStateInternal removes the
// genesis block when P > MaxTraceableBlocks, but while the header height is below
// one header hash page (2000) HeaderHashes.init() has to walk through all the
// headers down to the genesis one (unless TrustedHeader is configured). So after
// a COMPLETED state jump on a short chain (small StateSyncInterval) the database
// can't be opened any more. The existing state sync tests never reopen the DB.
func TestC02Defect_RestartAfterStateJumpOnShortChain(t *testing.T) {
	const (
		stateSyncInterval = 4
		maxTraceable      = 6
		stateSyncPoint    = 24
	)
	spoutCfg := func(c *config.Config) {
		c.ProtocolConfiguration.StateRootInHeader = true
		c.ProtocolConfiguration.StateSyncInterval = stateSyncInterval
		c.ProtocolConfiguration.MaxTraceableBlocks = maxTraceable
		c.ProtocolConfiguration.P2PStateExchangeExtensions = true
	}
	boltCfg := func(c *config.Config) {
		spoutCfg(c)
		c.ApplicationConfiguration.KeepOnlyLatestState = true
		c.ApplicationConfiguration.RemoveUntraceableBlocks = true
	}
	var h c02dHistory
	spout, err := c02dOpen(t, newC02dStore(), spoutCfg)
	require.NoError(t, err)
	h.add(t, spout, stateSyncPoint+2, true)

	nodes := make(map[util.Uint256][]byte)
	hdr, err := spout.GetHeader(spout.GetHeaderHash(stateSyncPoint + 1))
	require.NoError(t, err)
	require.NoError(t, spout.GetStateSyncModule().Traverse(hdr.PrevStateRoot, func(n mpt.Node, nodeBytes []byte) bool {
		nodes[n.Hash()] = nodeBytes
		return false
	}))

	st := newC02dStore()
	bolt, err := c02dOpen(t, st, boltCfg)
	require.NoError(t, err)
	module := bolt.GetStateSyncModule()
	require.NoError(t, module.Init(spout.BlockHeight()))
	var headers []*block.Header
	for _, b := range h.blocks {
		headers = append(headers, &b.Header)
	}
	require.NoError(t, module.AddHeaders(headers...))
	for module.NeedStorageData() {
		need := module.GetUnknownMPTNodesBatch(10)
		require.NotEmpty(t, need)
		add := make([][]byte, len(need))
		for i := range need {
			add[i] = nodes[need[i]]
		}
		require.NoError(t, module.AddMPTNodes(add))
	}
	for module.NeedBlocks() {
		require.NoError(t, module.AddBlock(h.blocks[module.BlockHeight()]))
	}
	require.False(t, module.IsActive())
	require.EqualValues(t, stateSyncPoint, bolt.BlockHeight())
	for _, b := range h.blocks[stateSyncPoint:] {
		require.NoError(t, bolt.AddBlock(b))
	}
	_, err = bolt.persist()
	require.NoError(t, err)
	require.Equal(t, spout.stateRoot.CurrentLocalStateRoot(), bolt.stateRoot.CurrentLocalStateRoot())

	// Everything is done and flushed. Restart.
	rec, err := c02dOpen(t, st, boltCfg)
	require.NoError(t, err, "the node must start after a completed state jump")
	require.Equal(t, bolt.BlockHeight(), rec.BlockHeight())
}
