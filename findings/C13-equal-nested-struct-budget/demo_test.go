// Copy into pkg/vm/ (external test package vm_test); run: go test ./pkg/vm/ -run 'TestC13Defect_EqualNestedStructComparableSize' -count=1
//
// Defect of the UNMODIFIED code: (*stackitem.Struct).equalStruct declares
// `var maxComparableSize = MaxByteArrayComparableSize` inside the (recursive)
// function, so the "comparable size" budget of EQUAL/NOTEQUAL is reset to 65536
// for every nested Struct. In the reference NeoVM (Struct.Equals(other, limits))
// nested structs are flattened into one explicit stack and a single
// `maxComparableSize` counter (passed by ref to ByteString.Equals) is shared by
// the whole comparison, so the total number of compared bytes per EQUAL is
// bounded by 65536. With neo-go one fixed-price EQUAL can compare up to
// ~2047 * 65536 bytes and, more importantly for this property, HALTs with
// `true` where the reference FAULTs.
//
// The first subtest (flat struct, 2 * 40000 bytes) FAULTs as expected and passes;
// the second one (same bytes, but each ByteString wrapped into a nested Struct)
// HALTs with `true` and fails.
package vm_test

import (
	"testing"

	"github.com/nspcc-dev/neo-go/pkg/io"
	"github.com/nspcc-dev/neo-go/pkg/vm"
	"github.com/nspcc-dev/neo-go/pkg/vm/emit"
	"github.com/nspcc-dev/neo-go/pkg/vm/opcode"
	"github.com/nspcc-dev/neo-go/pkg/vm/stackitem"
	"github.com/stretchr/testify/require"
)

func TestC13Defect_EqualNestedStructComparableSize(t *testing.T) {
	const bsLen = 40000 // 2*bsLen > stackitem.MaxByteArrayComparableSize (65536)

	// emitBS emits code creating a zero-filled ByteString of bsLen bytes.
	emitBS := func(w *io.BinWriter) {
		emit.Int(w, bsLen)
		emit.Opcodes(w, opcode.NEWBUFFER)
		emit.Instruction(w, opcode.CONVERT, []byte{byte(stackitem.ByteArrayT)})
	}
	run := func(t *testing.T, nested bool) {
		w := io.NewBufBinWriter()
		for range 2 { // Two separate (not reference-equal) top-level structs.
			for range 2 {
				emitBS(w.BinWriter)
				if nested {
					emit.Opcodes(w.BinWriter, opcode.PUSH1, opcode.PACKSTRUCT) // Struct{bs}
				}
			}
			emit.Opcodes(w.BinWriter, opcode.PUSH2, opcode.PACKSTRUCT) // Struct{x, x}
		}
		emit.Opcodes(w.BinWriter, opcode.EQUAL, opcode.RET)
		require.NoError(t, w.Err)

		v := vm.New()
		v.SetGasLimit(-1)
		v.LoadScript(w.Bytes())
		err := v.Run()
		require.Error(t, err, "EQUAL compared %d bytes of ByteStrings (limit is %d) and HALTed with %s",
			2*bsLen, stackitem.MaxByteArrayComparableSize, v.DumpEStack())
		require.True(t, v.HasFailed())
	}
	t.Run("flat", func(t *testing.T) { run(t, false) })
	t.Run("nested", func(t *testing.T) { run(t, true) })
}
