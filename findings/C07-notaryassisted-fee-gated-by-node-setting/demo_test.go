// Copy to pkg/core/ (package core_test); run: go test ./pkg/core/ -run 'TestC07Defect_' -count=1
//
// Three tests, each FAILS on the unmodified tree (each shows a violation of
// property C07 by the unmodified code):
//   - TestC07Defect_StaleFeeAfterFeePerByteRaise
//   - TestC07Defect_NonCanonicalEncodingHash
//   - TestC07Defect_NotaryAssistedFeeWithoutP2PSigExtensions
package core_test

import (
	"testing"

	"github.com/nspcc-dev/neo-go/pkg/config"
	"github.com/nspcc-dev/neo-go/pkg/config/netmode"
	"github.com/nspcc-dev/neo-go/pkg/core"
	"github.com/nspcc-dev/neo-go/pkg/core/block"
	"github.com/nspcc-dev/neo-go/pkg/core/fee"
	"github.com/nspcc-dev/neo-go/pkg/core/native/nativenames"
	"github.com/nspcc-dev/neo-go/pkg/core/native/noderoles"
	"github.com/nspcc-dev/neo-go/pkg/core/transaction"
	"github.com/nspcc-dev/neo-go/pkg/crypto/keys"
	"github.com/nspcc-dev/neo-go/pkg/io"
	"github.com/nspcc-dev/neo-go/pkg/neotest"
	"github.com/nspcc-dev/neo-go/pkg/neotest/chain"
	"github.com/nspcc-dev/neo-go/pkg/vm/opcode"
	"github.com/nspcc-dev/neo-go/pkg/vm/stackitem"
	"github.com/nspcc-dev/neo-go/pkg/wallet"
	"github.com/stretchr/testify/assert"
	"github.com/stretchr/testify/require"
)

// c07RoundTrip serialises the block and parses it again the way peers get it.
func c07RoundTrip(t *testing.T, b *block.Block) *block.Block {
	w := io.NewBufBinWriter()
	b.EncodeBinary(w.BinWriter)
	require.NoError(t, w.Err)
	rb := block.New(b.StateRootEnabled)
	r := io.NewBinReaderFromBuf(w.Bytes())
	rb.DecodeBinary(r)
	require.NoError(t, r.Err)
	return rb
}

// c07Replica creates the second node with the same configuration and feeds it
// with all the blocks of bc (each through the wire format).
func c07Replica(t *testing.T, bc *core.Blockchain, hook func(*config.Blockchain)) *core.Blockchain {
	bc2, _ := chain.NewSingleWithCustomConfig(t, hook)
	for i := uint32(1); i <= bc.BlockHeight(); i++ {
		b, err := bc.GetBlock(bc.GetHeaderHash(i))
		require.NoError(t, err)
		require.NoError(t, bc2.AddBlock(c07RoundTrip(t, b)))
	}
	return bc2
}

// A pooled transaction with a standard signature witness pays exactly
// size*FeePerByte + verification cost. The committee then raises FeePerByte a
// bit. IsTxStillRelevant (the filter the pool is passed through after every
// block) compares NetworkFee with size*FeePerByte + attribute fees only, the
// cost of witness verification is not counted (and standard witnesses are not
// re-verified), so the transaction stays pooled although it is not valid any
// more: VerifyTx refuses the very same transaction, and the block built from the
// pool is refused by every node that doesn't have the transaction in its pool.
func TestC07Defect_StaleFeeAfterFeePerByteRaise(t *testing.T) {
	bc, acc := chain.NewSingle(t)
	e := neotest.NewExecutor(t, bc, acc, acc)
	user := e.NewAccount(t, 100_0000_0000)

	tx := e.PrepareInvocation(t, []byte{byte(opcode.PUSH1)}, []neotest.Signer{user}, bc.BlockHeight()+10)
	require.NoError(t, bc.PoolTx(tx)) // the fee is exact, see neotest.AddNetworkFee.

	policy := e.CommitteeInvoker(e.NativeHash(t, nativenames.Policy))
	policy.Invoke(t, stackitem.Null{}, "setFeePerByte", bc.FeePerByte()+100)

	if !bc.GetMemPool().ContainsKey(tx.Hash()) {
		return // dropped, fine.
	}
	// Still pooled, so it must still be a valid transaction...
	fresh, err := transaction.NewTransactionFromBytes(tx.Bytes())
	require.NoError(t, err)
	assert.NoError(t, bc.VerifyTx(fresh), "the transaction is kept in the pool, but is not valid any more")

	// ... and the block proposed from the pool must be fine for the others.
	bc2 := c07Replica(t, bc, nil)
	txs := bc.ApplyPolicyToTxSet(bc.GetMemPool().GetVerifiedTransactions())
	require.Len(t, txs, 1)
	b := e.NewUnsignedBlock(t, txs...)
	e.SignBlock(b)
	require.NoError(t, bc2.AddBlock(c07RoundTrip(t, b)), "block made of pooled transactions is refused by a replica")
}

// The hash (and size) of a transaction created by NewTransactionFromBytes (P2P
// `tx` message, `sendrawtransaction`) are taken from the received bytes, while
// a transaction decoded as a part of a block gets them from re-encoding its
// fields. BinReader accepts non-minimal variable-length integers (and some more
// non-canonical forms: uncompressed group keys, non-0/1 booleans), so for such
// bytes the two differ. The sender signs the hash of the bytes it sends, the
// transaction is admitted to the pool under this hash, gets proposed, and the
// block is refused by everyone (the proposer included, once it has parsed its
// own block): Merkle root mismatch, and the witness doesn't match the new hash
// either.
func TestC07Defect_NonCanonicalEncodingHash(t *testing.T) {
	bc, acc := chain.NewSingle(t)
	e := neotest.NewExecutor(t, bc, acc, acc)
	user := e.NewAccount(t, 100_0000_0000)

	tx := transaction.New([]byte{byte(opcode.PUSH1)}, 1_0000)
	tx.Nonce = neotest.Nonce()
	tx.ValidUntilBlock = bc.BlockHeight() + 10
	tx.Signers = []transaction.Signer{{Account: user.ScriptHash(), Scopes: transaction.CalledByEntry}}
	neotest.AddNetworkFee(t, bc, tx, user)
	tx.NetworkFee += 2 * bc.FeePerByte() // two more bytes below.

	canon, err := tx.EncodeHashableFields()
	require.NoError(t, err)
	// version(1) nonce(4) sysfee(8) netfee(8) vub(4), then the number of signers.
	const nSignersOff = 1 + 4 + 8 + 8 + 4
	require.EqualValues(t, 1, canon[nSignersOff])
	var nc []byte
	nc = append(nc, canon[:nSignersOff]...)
	nc = append(nc, 0xfd, 0x01, 0x00) // the same 1 as a two-byte integer.
	nc = append(nc, canon[nSignersOff+1:]...)

	mk := func(inv []byte) *transaction.Transaction {
		w := io.NewBufBinWriter()
		w.WriteBytes(nc)
		w.WriteVarUint(1)
		(&transaction.Witness{InvocationScript: inv, VerificationScript: user.Script()}).EncodeBinary(w.BinWriter)
		require.NoError(t, w.Err)
		res, err := transaction.NewTransactionFromBytes(w.Bytes())
		require.NoError(t, err, "non-canonical encoding is not accepted at all, fine")
		return res
	}
	unsigned := mk(make([]byte, 66))
	// What the sender signs is the hash of what it sends.
	received := mk(user.SignHashable(uint32(bc.GetConfig().Magic), unsigned))

	if err := bc.PoolTx(received); err != nil {
		return // not admitted, fine.
	}
	txs := bc.ApplyPolicyToTxSet(bc.GetMemPool().GetVerifiedTransactions())
	require.Len(t, txs, 1)
	b := e.NewUnsignedBlock(t, txs...) // Merkle root of the pooled transactions' hashes, as dBFT does.
	e.SignBlock(b)
	rb := c07RoundTrip(t, b)
	assert.Equal(t, b.Transactions[0].Hash(), rb.Transactions[0].Hash(), "transaction hash changes on the wire")

	bc2 := c07Replica(t, bc, nil)
	require.NoError(t, bc2.AddBlock(rb), "block made of pooled transactions is refused by a replica")
}

// Echidna enables the NotaryAssisted attribute and the native Notary contract
// (that mints (NKeys+1)*fee to the notary nodes for every such transaction in
// its OnPersist), the attribute fee is stored in the native Policy contract.
// Blockchain.CalculateAttributesFee counts it only if the node has
// P2PSigExtensions (a node-local "P2P payload + Notary module" setting according
// to docs/node-configuration.md) on, verifyTxAttributes accepts the attribute
// regardless. With P2PSigExtensions off a NotaryAssisted transaction enters the
// pool (and the chain) without paying the attribute fee.
func TestC07Defect_NotaryAssistedFeeWithoutP2PSigExtensions(t *testing.T) {
	bc, validator, committee := chain.NewMultiWithCustomConfig(t, func(c *config.Blockchain) {
		c.P2PSigExtensions = false
		c.Hardforks = map[string]uint32{config.HFEchidna.String(): 0}
	})
	e := neotest.NewExecutor(t, bc, validator, committee)
	notaryHash := e.NativeHash(t, nativenames.Notary)
	notary, err := wallet.NewAccount()
	require.NoError(t, err)
	e.NewInvoker(e.NativeHash(t, nativenames.Designation), validator, committee).Invoke(t, stackitem.Null{}, "designateAsRole",
		int64(noderoles.P2PNotary), []any{notary.PublicKey().Bytes()})
	e.AddNewBlock(t)

	const nKeys = 3
	policyFee := e.NewInvoker(e.NativeHash(t, nativenames.Policy), validator)
	policyFee.Invoke(t, 1000_0000, "getAttributeFee", int64(transaction.NotaryAssistedT)) // the on-chain fee per key.
	const attrFee = (nKeys + 1) * 1000_0000

	tx := transaction.New([]byte{byte(opcode.PUSH1)}, 1_0000)
	tx.Nonce = neotest.Nonce()
	tx.ValidUntilBlock = bc.BlockHeight() + 5
	tx.Attributes = []transaction.Attribute{{Type: transaction.NotaryAssistedT, Value: &transaction.NotaryAssisted{NKeys: nKeys}}}
	tx.Signers = []transaction.Signer{
		{Account: validator.ScriptHash(), Scopes: transaction.None},
		{Account: notaryHash, Scopes: transaction.None},
	}
	netFee, sizeDelta := fee.Calculate(bc.GetBaseExecFee(), validator.Script())
	size := io.GetVarSize(tx) + sizeDelta + 1 + 66 + 1 // Notary witness: 66 bytes of invocation script, empty verification script.
	// Size, witnesses (2_000_000 is more than enough for Notary's `verify`), but NOT the attribute.
	tx.NetworkFee = int64(size)*bc.FeePerByte() + netFee + 2_000_000
	require.Less(t, tx.NetworkFee, int64(size)*bc.FeePerByte()+int64(attrFee))
	tx.Scripts = []transaction.Witness{
		{InvocationScript: validator.SignHashable(uint32(netmode.UnitTestNet), tx), VerificationScript: validator.Script()},
		{InvocationScript: append([]byte{byte(opcode.PUSHDATA1), keys.SignatureLen}, notary.PrivateKey().SignHashable(uint32(netmode.UnitTestNet), tx)...)},
	}
	require.Equal(t, size, io.GetVarSize(tx))

	assert.EqualValues(t, attrFee, bc.CalculateAttributesFee(tx), "attribute fee of a NotaryAssisted transaction")
	require.ErrorIs(t, bc.VerifyTx(tx), core.ErrTxSmallNetworkFee, "NotaryAssisted transaction that doesn't pay for the attribute")
}
