// Copy to pkg/core/ (package core_test); run: go test ./pkg/core/ -run 'TestC06Defect_InBlockConflictingTransactions' -count=1
package core_test

import (
	"testing"

	"github.com/nspcc-dev/neo-go/pkg/core/transaction"
	"github.com/nspcc-dev/neo-go/pkg/neotest"
	"github.com/nspcc-dev/neo-go/pkg/neotest/chain"
	"github.com/nspcc-dev/neo-go/pkg/vm/opcode"
	"github.com/stretchr/testify/require"
)

// TestC06Defect_InBlockConflictingTransactions: a block that carries both A and
// B where B has Conflicts(A) (same signer, bigger network fee) is accepted: in
// the scratch pool of AddBlock B simply *replaces* A (mempool replacement
// semantics), no error is returned. Both transactions are then executed, and
// StoreAsTransaction(B) overwrites A's on-chain record with a conflict stub, so
// an executed transaction can't be found in the ledger any more.
func TestC06Defect_InBlockConflictingTransactions(t *testing.T) {
	bc, acc := chain.NewSingle(t)
	e := neotest.NewExecutor(t, bc, acc, acc)

	txA := e.PrepareInvocation(t, []byte{byte(opcode.PUSH1)}, []neotest.Signer{acc}, bc.BlockHeight()+5)
	txB := transaction.New([]byte{byte(opcode.PUSH2)}, 0)
	txB.Nonce = neotest.Nonce()
	txB.ValidUntilBlock = bc.BlockHeight() + 5
	txB.Attributes = []transaction.Attribute{{
		Type:  transaction.ConflictsT,
		Value: &transaction.Conflicts{Hash: txA.Hash()},
	}}
	txB.NetworkFee = 1000_0000 // Surely more than A pays.
	e.SignTx(t, txB, -1, acc)
	require.Greater(t, txB.NetworkFee, txA.NetworkFee)

	// Both are fine one by one.
	require.NoError(t, bc.VerifyTx(txA))
	require.NoError(t, bc.VerifyTx(txB))

	b := e.NewUnsignedBlock(t, txA, txB)
	e.SignBlock(b)
	err := bc.AddBlock(b)
	if err == nil {
		_, _, errA := bc.GetTransaction(txA.Hash())
		_, _, errB := bc.GetTransaction(txB.Hash())
		t.Logf("block with mutually conflicting transactions accepted; GetTransaction(A): %v, GetTransaction(B): %v", errA, errB)
	}
	require.Error(t, err, "a block with two mutually incompatible transactions must be rejected")
	require.Equal(t, b.Index-1, bc.BlockHeight())
}
