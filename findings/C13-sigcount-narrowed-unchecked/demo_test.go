// Copy to pkg/vm/ (package vm); run: go test ./pkg/vm/ -run TestDefect_PopSigElementsHugeCount -count=1
package vm

import (
	"math/big"
	"testing"

	"github.com/nspcc-dev/neo-go/pkg/vm/stackitem"
	"github.com/stretchr/testify/require"
)

// The number of elements CheckMultisig takes from the stack is an integer operand; 2^64+1 is not 1.
func TestDefect_PopSigElementsHugeCount(t *testing.T) {
	s := NewStack("test")
	s.PushItem(stackitem.NewByteArray([]byte{1, 2, 3}))
	n := new(big.Int).Lsh(big.NewInt(1), 64)
	n.Add(n, big.NewInt(1))
	s.PushItem(stackitem.NewBigInteger(n))
	_, err := s.PopSigElements()
	require.Error(t, err, "a count of 2^64+1 was taken for 1")
}
