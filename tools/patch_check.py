#!/usr/bin/env python3
"""patch_check.py PROP patch.diff [more props...] — run property checks against /repo + patch (in-memory overlay; /repo untouched)."""
import os, re, shutil, subprocess, sys, tempfile
patch = sys.argv[2]; props = [sys.argv[1]] + sys.argv[3:]
od = tempfile.mkdtemp(prefix="pc")
try:
    for f in re.findall(r"^\+\+\+ b/(\S+)", open(patch).read(), re.M):
        os.makedirs(os.path.dirname(f"{od}/{f}"), exist_ok=True)
        shutil.copy(f"/repo/{f}", f"{od}/{f}")
    r = subprocess.run(["patch", "-p1", "-s", "--no-backup-if-mismatch", "-d", od, "-i", patch], capture_output=True, text=True)
    if r.returncode != 0:
        print("STALE", r.stdout, r.stderr); sys.exit(3)
    for prop in props:
        r = subprocess.run([os.environ.get("NVCHECK", "/verif/bin/nvcheck"), "-property", prop, "-overlay-dir", od, "-out", od + "/out", "-known", "/verif/known_findings.json"], capture_output=True, text=True)
        lines = [l for l in r.stdout.splitlines() if "rule " in l and ("[violation]" in l or "[coverage-lost]" in l)]
        print(prop, "exit", r.returncode)
        for l in lines: print("   ", l.strip()[:300])
finally:
    shutil.rmtree(od, ignore_errors=True)
