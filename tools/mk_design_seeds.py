#!/usr/bin/env python3
"""Regenerates the seed tables of DESIGN.md §9 (between the markers) from /verif/seeded/*/meta.json."""
import json, glob, os, re
rows1, rows2, rows3, rows4, rows5, rows6, rows7, rows8, rows9, rows10, rows11 = [], [], [], [], [], [], [], [], [], [], []
for d in sorted(glob.glob('/verif/seeded/*')):
    m = json.load(open(d + '/meta.json'))
    n = os.path.basename(d)
    det = m.get('detection') == 'DETECTED'
    by = ('`' + (m.get('detected_by') or '') + '`') if det else '**missed**'
    if '-r2m' in n or '-r3m' in n or '-r4m' in n or '-r5m' in n or '-r6m' in n or '-r7m' in n or '-r8m' in n or '-r9m' in n or '-r10m' in n or '-r11m' in n:
        fs = m.get('first_sweep', '')
        first = 'detected' if fs.startswith('DETECTED') else 'missed'
        (rows2 if '-r2m' in n else rows3 if '-r3m' in n else rows4 if '-r4m' in n else rows5 if '-r5m' in n else rows6 if '-r6m' in n else rows7 if '-r7m' in n else rows8 if '-r8m' in n else rows9 if '-r9m' in n else rows10 if '-r10m' in n else rows11).append(f"| {n} | {m.get('what','')} | {first} | {by} | {m.get('history','')} |")
    else:
        rows1.append(f"| {n} | {m.get('what','')} | {by} | {m.get('history','')} |")
def count(rows, col):
    return sum(1 for r in rows if '**missed**' not in r.split('|')[col])
t1 = "| seed | what the change does | caught by | history |\n|---|---|---|---|\n" + "\n".join(rows1)
t2 = "| seed | what the change does | first sweep | caught by (now) | history |\n|---|---|---|---|---|\n" + "\n".join(rows2)
n1d = count(rows1, 3); n2d = count(rows2, 4)
n2first = sum(1 for r in rows2 if r.split('|')[3].strip() == 'detected')
t3 = "| seed | what the change does | first sweep | caught by (now) | history |\n|---|---|---|---|---|\n" + "\n".join(rows3)
n3d = count(rows3, 4)
n3first = sum(1 for r in rows3 if r.split('|')[3].strip() == 'detected')
t4 = "| seed | what the change does | first sweep | caught by (now) | history |\n|---|---|---|---|---|\n" + "\n".join(rows4)
n4d = count(rows4, 4)
n4first = sum(1 for r in rows4 if r.split('|')[3].strip() == 'detected')
t5 = "| seed | what the change does | first sweep | caught by (now) | history |\n|---|---|---|---|---|\n" + "\n".join(rows5)
n5d = count(rows5, 4)
n5first = sum(1 for r in rows5 if r.split('|')[3].strip() == 'detected')
t6 = "| seed | what the change does | first sweep | caught by (now) | history |\n|---|---|---|---|---|\n" + "\n".join(rows6)
n6d = count(rows6, 4)
n6first = sum(1 for r in rows6 if r.split('|')[3].strip() == 'detected')
t7 = "| seed | what the change does | first sweep | caught by (now) | history |\n|---|---|---|---|---|\n" + "\n".join(rows7)
n7d = count(rows7, 4)
n7first = sum(1 for r in rows7 if r.split('|')[3].strip() == 'detected')
t8 = "| seed | what the change does | first sweep | caught by (now) | history |\n|---|---|---|---|---|\n" + "\n".join(rows8)
n8d = count(rows8, 4)
n8first = sum(1 for r in rows8 if r.split('|')[3].strip() == 'detected')
t9 = "| seed | what the change does | first sweep | caught by (now) | history |\n|---|---|---|---|---|\n" + "\n".join(rows9)
n9d = count(rows9, 4)
n9first = sum(1 for r in rows9 if r.split('|')[3].strip() == 'detected')
t10 = "| seed | what the change does | first sweep | caught by (now) | history |\n|---|---|---|---|---|\n" + "\n".join(rows10)
n10d = count(rows10, 4)
n10first = sum(1 for r in rows10 if r.split('|')[3].strip() == 'detected')
t11 = "| seed | what the change does | first sweep | caught by (now) | history |\n|---|---|---|---|---|\n" + "\n".join(rows11)
n11d = count(rows11, 4)
n11first = sum(1 for r in rows11 if r.split('|')[3].strip() == 'detected')
s = open('/verif/DESIGN.md').read()
a = s.index('<!-- SEEDS:BEGIN -->'); b = s.index('<!-- SEEDS:END -->')
body = f"""<!-- SEEDS:BEGIN -->
### Round 1 ({len(rows1)} confirmed seeds; {n1d} detected now, {len(rows1)-n1d} missed)

{t1}

### Round 2 ({len(rows2)} confirmed seeds; {n2first} detected by the first sweep, {n2d} detected now, {len(rows2)-n2d} missed)

Round 2 was run to measure how the rules written during round 1 generalise: the agents were told what round 1 had
already produced and asked for other functions and mechanisms. *First sweep* is the verdict of the checks as they
stood when the seed arrived, before anything was changed because of it.

{t2}

### Round 3 ({len(rows3)} confirmed seeds; {n3first} detected by the first sweep, {n3d} detected now, {len(rows3)-n3d} missed)

Round 3 repeats the measurement after the generic rules of round 2 (err-discipline, loop-accumulator, enum-switch,
boundary tables, seek-orientation, the path-sensitive cache-pairing, rename-proof anchors) were in place; the agents
were told what rounds 1 and 2 had produced.

{t3}

### Round 4 ({len(rows4)} confirmed seeds; {n4first} detected by the first sweep, {n4d} detected now, {len(rows4)-n4d} missed)

Round 4 (the agents were told what rounds 1-3 had produced) was run in two halves, C01-C09 and C10-C20. The agents
were also asked to report defects of the *unmodified* code they came across; that request produced more findings
than any rule written before it (section 6, items 27-45).

{t4}

### Round 5 ({len(rows5)} confirmed seeds; {n5first} detected by the first sweep, {n5d} detected now, {len(rows5)-n5d} missed)

Round 5: every agent was given the list of all mutations of rounds 1-4 for its property "to avoid" and was again asked
for defects of the unmodified code (section 6, items 46-59). Four deliveries repeated an earlier mutation under another
property (the raw store read in `updateRefCount` for the fifth time - not kept; the empty method list that becomes a
wildcard, the failed flush that loses `stor`, the height read before `addLock` - kept, because they showed that a rule
existed but was registered for the sibling property only). *First sweep* "missed" for a seed whose rule existed under
another property is recorded as missed.

{t5}

### Round 6 ({len(rows6)} confirmed seeds; {n6first} detected by the first sweep, {n6d} detected now, {len(rows6)-n6d} missed)

Round 6 ran in two halves, with the instructions of round 5 (list of all earlier mutations of the property "to
avoid", defects of the unmodified code asked for): first C07, C09, C11, C12, C16, C20 - the properties that had received
most of the late rules - then the other twelve claimed properties. The first sweep caught 8 of the 36: by round 6 the
agents were past everything the existing rules had been written for, and delivered two-site slips (an argument order, a
carry test copied from the loop above, a value taken before the lock, a store moved behind a callback, a unit slip
between GC periods and heights). Each miss was answered by a rule or a clause that states the convention the mutation
broke, not the mutated line (section 3, "Rules written in round 6"); two agents delivered a mutation that another
property's agent had delivered before (the double-entrance lock of `persist`, the raw read in the trie), kept because
they measure the registration of an existing rule for a sibling property. One seed (C06-r6m1) had to be rebased after a
later fix touched the same loop; its demonstration was re-run. Defect reports of round 6 are findings 73-99.

{t6}

### Round 7 ({len(rows7)} confirmed seeds; {n7first} detected by the first sweep, {n7d} detected now, {len(rows7)-n7d} missed)

Round 7 ran in the last hours, in two batches (first the eight properties whose checks had changed most during
the day, then the other ten), with the instructions of rounds 5 and 6. Its first purpose was to measure the rules written
from round 6's *defect reports* (findings 83-99) - rules no seed had ever been run against. It showed what every round
has shown: ten of the 36 deliveries met an existing rule, one met a rule that existed for the sibling property only, the
rest went past everything and were each answered by a clause that states the broken convention (section 3, "Rules written
in round 7"). Two lanes of the confirmation run had to be repeated because a timing-sensitive existing test
(`TestNotary`) and a timing-sensitive demonstration failed once on the loaded machine; both were confirmed on the
second run. Its defect reports are findings 100-105.

{t7}

### Round 8 ({len(rows8)} confirmed seeds; {n8first} detected by the first sweep, {n8d} detected now, {len(rows8)-n8d} missed)

Round 8 (C04, C05, C08, C12, C13, C15, C19, C20, the instructions of rounds 5-7) was the last one the time allowed. One
of its sixteen deliveries met an existing rule; one was the third delivery of the failed-flush merge under yet another
property (kept: `swap-order` was not registered for C05); fourteen went past everything. By now the agents deliver
what a reviewer would wave through: an optimisation with a plausible comment (`clear()` before truncating, "don't copy
the native caches twice"), a de-duplication (`bc.GetStoragePrice()` for four lines that did the same over another DAO),
a reordered pair of range tests, a `>=` that became `>`. Every miss was answered by the convention it broke (section 3,
"Rules written in round 8"). One of those rules found finding 107 on its first run over the unchanged tree, and the
round's defect reports gave finding 108 and a report against one of *my own* repairs (finding 105, section 10).

{t8}

### Round 9 ({len(rows9)} confirmed seeds; {n9first} detected by the first sweep, {n9d} detected now, {len(rows9)-n9d} missed)

Round 9 covered the ten claimed properties round 8 had left out (C01, C02, C03, C06, C07, C09, C10, C11, C16, C17), with
the same instructions. One agent (C07) delivered one mutation only - every other candidate it tried was killed by the
existing suite, and it listed them. Two deliveries met an existing rule, one met a generic rule whose package scope for
its property was too narrow (`absent-is-nil` over package storage, registered for C09 and not for C01), the others
were answered by the convention they broke (section 3, "Rules written in round 9"). The round's defect reports
produced no new finding: every one was either recorded before (the two-snapshot `Seek`, the shallow trie copy, the
non-canonical transaction encodings), mirrors the reference, or needs a store that has already lost nodes (section 6,
"Round 9, not acted upon").

{t9}

### Round 10 ({len(rows10)} confirmed seeds; {n10first} detected by the first sweep, {n10d} detected now, {len(rows10)-n10d} missed)

Round 10 went back to the eight properties of round 8 in the last three hours. The C04 agent delivered nothing - every
candidate it built was caught by the existing suite, and it said which test caught which - and three agents delivered
one mutation instead of two for the same reason: after nine rounds the space of small changes that break a property
*and* survive the repository's own tests is visibly thinner for these properties. Three of the eleven deliveries met an
existing rule (one of them re-introduced the defect of finding 108, an hour after its repair). One is still missed and
is of the kind section 7 declares out of reach (counter arithmetic).

{t10}

### Round 11 ({len(rows11)} confirmed seeds; {n11first} detected by the first sweep, {n11d} detected now, {len(rows11)-n11d} missed)

Round 11 (the ten properties of round 9 again, in the last two and a half hours) is the first round in which the first
sweep caught about half of what was delivered: eight of seventeen, and two more met a rule that was registered for the
sibling property only. Four of the eight re-introduced a defect repaired earlier in the build (findings 49, 54, 90 and
the shortcut of 50/51) - the agents were told of earlier *mutations*, not of the repairs. The C06 agent delivered
nothing that survives the existing suite; the C03 agent one mutation. The round's defect reports changed one verdict:
the C07 agent showed that the non-canonical transaction encodings of finding 3 - a known finding since the first day -
stop block production, and the defect was repaired (`08e651e`).

{t11}

"""
s = s[:a] + body + s[b:]
open('/verif/DESIGN.md', 'w').write(s)
print(len(rows1), n1d, len(rows2), n2first, n2d, len(rows3), n3first, n3d, len(rows4), n4first, n4d, len(rows5), n5first, n5d, len(rows6), n6first, n6d)
