#!/usr/bin/env python3
"""meta.json for round 6 (C07, C09, C11, C12, C16, C20)."""
import json, os, subprocess, sys
T = {
 "C07-r6m1": ("verifyAndPoolTx takes the validity window from the node configuration instead of the Policy accessor", "Echidna active and the committee lowered MaxValidUntilBlockIncrement below the configured value; a transaction whose ValidUntilBlock lies between the two bounds", "pkg/core", "TestC07Demo_ValidityWindowFollowsPolicy", "DETECTED admit-dominators", "rule existed before the seed was looked at"),
 "C07-r6m2": ("Policy.fillCacheFromDAO decodes the blocked-account keys little-endian", "non-empty blocked-account list and a path that rebuilds the cache from the database (restart, state jump, historic invocation)", "pkg/core", "TestC07Demo_BlockedSignerAfterRestart", "missed", "endianness-agreement added after"),
 "C09-r6m1": ("persist takes the double-entrance lock only for asynchronous flushes", "PersistSync overlapping the backend write of an asynchronous Persist, with a write after the first swap", "pkg/core/storage", "TestC09Demo_SyncFlushDuringAsyncFlush", "DETECTED swap-order", "rule existed before the seed was looked at"),
 "C09-r6m2": ("PersistPrivate locks once per private layer (same mutation as C04-r5m1, delivered for C09)", "two private layers in one call and a reader or flush arriving between the two sections", "pkg/core/storage", "TestC09Demo_PersistPrivateIsOneBatch", "DETECTED publish-atomic", "rule existed before the seed was looked at"),
 "C11-r6m1": ("SeekStates opens its trie store with the module's mode unmasked (GC flag kept)", "RemoveUntraceableBlocks, a retained root that is not the latest: the result is silently empty", "pkg/core", "TestC11Demo_SeekStatesOnRetainedRoots", "missed", "historic-root left an unmasked module mode unclassified; it is 'bad' now, and the rule is registered for C11"),
 "C11-r6m2": ("statesync.Module.Init removes the genesis MPT records only in the MPT-based mode", "storage-item based sync on a genesis-only database: leftovers stay active outside any retained root, shared nodes keep the genesis counter", "pkg/core/statesync", "TestC11Demo_StorageSyncLeavesExactTrie", "missed", "clean-before-sync added after"),
 "C12-r6m1": ("Slot.clearRefs releases only the entries that hold an item", "a frame with more declared locals/statics than it assigns, unloaded ~2048/k times", "pkg/vm", "TestC12Demo_UnassignedLocals", "missed", "clear-unconditional clause of slot-scope added after"),
 "C12-r6m2": ("NEWARRAY/NEWSTRUCT no longer compare the element count with MaxStackSize before building", "an element count in (2048, 2^31-1]: gigabytes built and counted before the post-instruction check faults", "pkg/vm", "TestC12Demo_NewArrayBounded", "DETECTED limit-guards", "rule existed before the seed was looked at"),
 "C16-r6m1": ("System.Contract.Call looks the method up by name only (any arity) for the safe/permission decision", "a callee with overloaded method names carrying different safe marks, call to the overload that is not first in the ABI", "pkg/core/interop/contract", "TestC16Demo_M1", "missed", "method-lookup-arity added after"),
 "C16-r6m2": ("PermissionDesc.UnmarshalJSON decodes a hash without 0x big-endian", "a hand-written manifest using the bare-hex form of a hash permission", "pkg/core/interop/contract", "TestC16Demo_M2", "missed", "endianness-agreement added after"),
 "C20-r6m1": ("jumpToStateInternal stores the current-block record only when stale data is removed (P > MaxTraceableBlocks)", "a chain younger than MaxTraceableBlocks and a restart between the jump and the persist of block P+1", "pkg/core/statesync", "TestC20Demo_RestartAfterJumpYoungChain", "missed", "jump-tip-recorded clause of stage-machine added after"),
 "C20-r6m2": ("the blocking Put's wait loop ends when the queue has room instead of when the element is inside the window", "Blocking mode, one producer more than cacheSize ahead while the queue is not full, one timer tick", "pkg/network/bqueue", "TestC20Demo_BlockingPutFarAhead", "missed", "ring-window clause of sync-guards added after"),
}
sweep = subprocess.run(["/verif/tools/seed_sweep.py"] + sys.argv[1:], capture_output=True, text=True).stdout
det = {}
for line in sweep.splitlines():
    parts = line.split()
    if len(parts) >= 2:
        det[parts[0]] = (parts[1], " ".join(parts[2:]))
for name, row in sorted(T.items()):
    d = "/verif/seeded/" + name
    if not os.path.isfile(d + "/patch.diff") or name not in det:
        print(name, "skipped"); continue
    what, needs, demodir, test, first, hist = row
    status, rules = det[name]
    meta = {"property": name[:3], "round": 6, "what": what, "needs": needs,
            "demo": {"copy_to": demodir, "run": "go test -count=1 -run '%s' ./%s/" % (test, demodir)},
            "confirmed": open(d + "/verify.log").read().strip().splitlines() if os.path.isfile(d + "/verify.log") else [],
            "first_sweep": first, "detection": status, "detected_by": rules if status == "DETECTED" else None,
            "source": "fresh sub-agent given only the property text and the list of earlier mutations to avoid; confirmed by tools/verify_seed.sh in a scratch worktree",
            "history": hist}
    json.dump(meta, open(d + "/meta.json", "w"), indent=1)
    print("%-12s %-9s %s" % (name, status, rules))
