#!/usr/bin/env python3
"""Writes meta.json for every /verif/seeded/<name>/ from the table below plus the current detection sweep."""
import json, os, re, subprocess
NEEDS = {
 "C01-m1-reregister-keeps-cache-clean": ("RegisterCandidateInternal sets votesChanged only for a brand-new candidate", "voted candidate unregisters, registers back in a quiet epoch, one replica restarted inside that epoch => committee diverges", "pkg/core/native/native_test", "TestC01M1"),
 "C02-m1-reset-prefix-read-early": ("resetStateInternal reads the stale storage prefix before the stage switch", "crash after the 0x90 batch (new Version.StoragePrefix persisted), restart resumes and garbage-collects the live storage", "pkg/core", "TestVerifC02_ResetCrashAtEveryBatchBoundary"),
 "C02-m2-split-publish": ("storeBlock publishes aerCache before the lock/back-pressure wait and cache after it", "node lagging behind persistence so storeBlock waits, a flush lands between the two publications, power loss after that batch", "pkg/core", "TestVerifC02_PowerLossWhileBlockWaitsForPersist"),
 "C03-m1-backwards-traverse-order": ("Billet.traverse emits a branch's own value before its children when going backwards", "historic Find with FindBackwards over keys one of which is a proper prefix of another", "pkg/core", "TestDemoHistoricFindMatchesLive"),
 "C03-m2-raw-store-read-in-refcount": ("Trie.updateRefCount reads the store directly instead of the mode-aware getFromStore (rebased on the fixed tree; same mutation delivered independently for C01 and C10)", "RemoveUntraceableBlocks, store -> delete -> store identical item before GC, then GC sweep or restart", "pkg/core/stateroot", "TestDemoRecreatedValueSurvivesGC"),
 "C04-m1-tryblock-innermost-only": ("VM.ContractHasTryBlock inspects only the innermost handler", "call made from catch/finally of an inner try nested in an active outer try; callee writes then throws", "pkg/core/interop/contract", "TestDemoC04M1"),
 "C04-m2-reset-keeps-exception": ("VM.Reset no longer clears uncaughtException", "a tx faulting on an unhandled THROW followed in the same block by a tx doing a state-changing call from inside a try", "pkg/core/interop/contract", "TestDemoC04M2"),
 "C05-m1-reregister-drops-votes": ("RegisterCandidateInternal starts from a blank candidate record unless already registered", "register K, vote for K, unregister K while voted, register K again => Votes reset to 0", "pkg/core/native/native_test", "TestC05_ReRegisterVotedCandidate"),
 "C05-m2-burn-negates-shared-amount": ("nep17TokenNative.Burn leaves the caller's amount negated", "candidate registration by GAS payment: the emitted Transfer event shares the *big.Int and turns negative", "pkg/core/native/native_test", "TestC05_RegisterCandidateViaNEP27Events"),
 "C06-m1-pooled-tx-error-dropped": ("AddBlock drops the scratch-pool Add error for mempooled transactions", "tx already in the node's mempool + block with a duplicated trailing tx (same Merkle root)", "pkg/core", "TestC06M1"),
 "C06-m2-deferred-stateroot-offbyone": ("storeBlock's deferred PrevStateRoot check skips the topmost known header (> sr.Index+1)", "StateRootInHeader, headers-first delivery, corrupted header is the last one known", "pkg/core", "TestC06M2"),
 "C07-m1-stale-signer-short-circuit": ("dao.HasTransaction returns nil from inside the per-signer loop on a stale record", "two signers: stale conflict record of signer 1, fresh one of signer 2", "pkg/core", "TestC07M1"),
 "C07-m2-multisig-fee-table": ("fee.calculateMultisig prices PUSH0+n instead of the opcode emit.Int produces", "multisig with >= 18 keys: calculated fee minus one is still admitted", "pkg/core", "TestC07M2"),
 "C08-m1-conflict-credit-by-signer": ("checkTxConflicts credits a conflict's fee by HasSigner(author) instead of payer equality", "three txs: P by X near balance, E by Y co-signed by X, T by X conflicting with E", "pkg/core/mempool", "TestDemoConflictCosignedByPayerKeepsSolvency"),
 "C08-m2-stale-insert-index": ("Pool.Add removes conflicting txs after computing the insertion index", "Conflicts replacement where the new tx has lower priority than the one it replaces", "pkg/core/mempool", "TestDemoConflictReplacementKeepsOrder"),
 "C09-m1-failed-flush-loses-stor": ("MemCachedStore.persist no longer merges the fresh stor map into the old one on a failed flush", "lower PutChangeSet fails while a writer changed contract-storage keys during the flush", "pkg/core/storage", "TestC09M1"),
 "C09-m2-seek-prefix-aliases-keybuf": ("dao.Seek passes the reusable key buffer as seek prefix", "BoltDB backend + private DAO + callback touching the DAO + >= 2 flushed matching keys", "pkg/core/dao", "TestC09M2"),
 "C10-m2-traverse-extension-prefix": ("Billet.traverse compares an extension key with HasPrefix instead of Compare", "start key diverging strictly inside a multi-nibble extension key", "pkg/core/mpt", "TestDemoC10M2"),
 "C11-m1-inactive-data-returned": ("getFromStore returns the inactive record's data together with ErrKeyNotFound", "GC mode, node dropped to zero then re-created before GC, then reload or GC", "pkg/core/stateroot", "TestC11DropAndRecreateInGCMode"),
 "C11-m2-count-read-one-byte-early": ("Trie.getFromStore no longer skips the active byte before reading the count", "shared value resolved from the DB while its hash is already in the per-block refcount map", "pkg/core/stateroot", "TestC11SharedValueRefcount"),
 "C12-m1-static-slot-unref-early": ("unloadContext clears the static slot's refs on every frame unload", "INITSSLOT + internal CALL that returns + growth towards the 2048 limit", "pkg/vm", "TestC12StaticSlotSurvivesInternalCall"),
 "C12-m2-endtryl-unchecked": ("IsScriptCorrect no longer records ENDTRYL targets", "crafted script leaving a TRY via ENDTRYL to a non-boundary offset", "pkg/vm", "TestC12StaticCheckCoversEndTryLong"),
 "C13-m1-abs-unchecked-width": ("ABS pushes a raw (*BigInteger) cast", "operand exactly -2^255", "pkg/vm", "TestDemoC13ABSAt256BitBoundary"),
 "C13-m2-map-clear-stale-index": ("Map.Clear no longer clears the key index", "insert k, CLEARITEMS, use k again on the same map", "pkg/vm", "TestDemoC13MapSequences"),
 "C15-m1-dynamic-script-entry-relation": ("loadScriptWithCallingHash links callingContext only for NEF-backed contexts", "entry -> dynamic script -> contract chain with a CalledByEntry witness", "pkg/core/interop/runtime", "TestC15M1"),
 "C15-m2-group-cache-unkeyed": ("scopeContext caches the first fetched groups for all later group questions", "rules with both Group and CalledByGroup conditions over contracts with different groups", "pkg/core/interop/runtime", "TestC15M2"),
 "C16-m1-empty-methods-wildcard": ("Permission.FromStackItem builds the method list with var+append (nil when empty)", "manifest with an explicit empty method list, contract state rebuilt from storage after restart", "pkg/core/interop/contract", "TestC16DemoM1"),
 "C16-m2-update-flags-relaxed": ("native.Call: dropped parentheses relax required flags for Management.update at every height", "deployed contract invoking Management.update with States|AllowNotify after Aspidochelone", "pkg/core/interop/contract", "TestC16DemoM2"),
 "C17-m1-shared-map-undercounted": ("serialize caches 2*len+1 as element count of an already written Map", "same *Map referenced several times with compound values, real total > 2048", "pkg/vm/stackitem", "TestDemoC17SharedMapRoundTrip"),
 "C17-m2-condition-depth-not-decremented": ("readArrayOfConditions passes maxDepth instead of maxDepth-1", "Rules signer with And/Or nested more than two levels", "pkg/core/transaction", "TestDemoC17"),
 "C19-m1-stale-commit-in-witness": ("getBlockWitness no longer filters commits by the current view", "loss-only schedule: one validator commits in view 0, the others change view and commit in view 1", "pkg/consensus", "TestC19M1"),
 "C19-m2-limit-checked-before-growth": ("ApplyPolicyToTxSet checks the block limits before adding the current transaction", "mempool holding more than one block's worth of system fee", "pkg/consensus", "TestC19M2"),
 "C20-m1-slot-cleared-unconditionally": ("Queue.Run clears the ring slot without comparing it with the processed element", "block index+capacity put while its predecessor is being relayed", "pkg/network/bqueue", "TestC20Demo_BlockArrivingWhilePredecessorIsRelayed"),
 "C20-m2-shared-clone-restore": ("statesync restoreNode clones the node once for all paths", "source state with two identical non-leaf subtrees", "pkg/core/statesync", "TestC20Demo_IdenticalSubtreesConverge"),
}
STRENGTHENED = {  # rules added or reshaped after the seed was seen (honest record)
 "C01-m1": "derived-invalidation(candidate-state) added after", "C02-m1": "stage-machine stale-capture added after", "C04-m1": "unload-rollback try-scan added after", "C04-m2": "reset-complete added after",
 "C05-m1": "token-writers fresh-record gate added after", "C05-m2": "amount-immutable added after", "C06-m1": "gating made nil-aware after the first sweep missed it", "C07-m1": "signers-loop rule added after",
 "C07-m2": "fee/emitter agreement added after", "C08-m1": "payer-equality gate added after", "C08-m2": "index-fresh added after", "C13-m2": "map-index-comaintenance added after",
 "C15-m1": "calling-context must-pass added after", "C15-m2": "groups-fresh added after", "C16-m1": "wild-nonnil added after", "C19-m1": "current-view gate written with the seed known", "C19-m2": "limit-after-growth written with the seed known",
 "C20-m1": "slot-clear gate added after", "C20-m2": "restore-fresh-node added after", "C09-m1": "written with the seed known", "C09-m2": "written with the seed known", "C11-m1": "written with the seed known", "C11-m2": "written with the seed known",
}
sweep = subprocess.run(["/verif/tools/seed_sweep.py"], capture_output=True, text=True).stdout
det = {}
for line in sweep.splitlines():
    parts = line.split()
    if len(parts) >= 2:
        det[parts[0]] = (parts[1], parts[2] if len(parts) > 2 else "")
for name in sorted(os.listdir("/verif/seeded")):
    d = "/verif/seeded/" + name
    if not os.path.isfile(d + "/patch.diff"):
        continue
    what, needs, demodir, test = NEEDS.get(name, ("", "", "", ""))
    status, rules = det.get(name, ("?", ""))
    meta = {
        "property": name[:3],
        "what": what,
        "needs": needs,
        "demo": {"copy_to": demodir, "run": "go test -count=1 -run '%s' ./%s/" % (test, demodir)},
        "confirmed": open(d + "/verify.log").read().strip().splitlines() if os.path.isfile(d + "/verify.log") else [],
        "detection": status,
        "detected_by": rules if status == "DETECTED" else None,
        "history": STRENGTHENED.get(name[:6], "rule existed before the seed was looked at" if status == "DETECTED" else "not detected: value-level change (see DESIGN.md §9)"),
        "source": "independent sub-agent given only the property text and a scratch worktree",
    }
    json.dump(meta, open(d + "/meta.json", "w"), indent=1)
    print("%-45s %-9s %s" % (name, status, rules))
