#!/bin/bash
# verify_seed.sh <deliver-dir> <seed-name> <demo-pkg-dir> <test-regex> <pkgs-to-test...>
# Confirms in a scratch worktree: patch applies + builds, demo fails with it and passes without, existing tests pass with it.
# On success copies the seed to /verif/seeded/<seed-name>/ (patch.diff, demo, NOTES.md, verify.log); meta.json is written by hand afterwards.
set -u
D="$1"; NAME="$2"; DEMODIR="$3"; RE="$4"; shift 4; PKGS="$*"
WT=/tmp/vs/wt-$NAME
LOG=/tmp/vs/$NAME.log
mkdir -p /tmp/vs
exec > "$LOG" 2>&1
export GOFLAGS=-mod=mod
git -C /repo worktree remove --force "$WT" 2>/dev/null
git -C /repo worktree add -q --detach "$WT" HEAD || exit 9
cd "$WT"
cleanup() { cd /; git -C /repo worktree remove --force "$WT" 2>/dev/null; }
trap cleanup EXIT
echo "== apply"; git apply "$D/patch.diff" || { echo "RESULT: patch does not apply"; exit 1; }
echo "== build"; go build ./... || { echo "RESULT: build fails"; exit 1; }
go vet ./$DEMODIR/ >/dev/null 2>&1
cp "$D/demo_test.go" "$DEMODIR/zz_seed_demo_test.go"
echo "== demo with mutation (expect FAIL)"
go test -count=1 -run "$RE" ./$DEMODIR/ > /tmp/vs/$NAME.demo_mut.txt 2>&1; RC_MUT=$?
tail -15 /tmp/vs/$NAME.demo_mut.txt
rm "$DEMODIR/zz_seed_demo_test.go"
echo "== existing tests with mutation: $PKGS"
go test -count=1 -timeout 25m $PKGS > /tmp/vs/$NAME.tests.txt 2>&1; RC_T=$?
grep -v "^ok\|no test files" /tmp/vs/$NAME.tests.txt | grep -v "TestUT\|neo-vm tests should be available" | head -30
echo "== demo without mutation (expect PASS)"
git checkout -q -- .
cp "$D/demo_test.go" "$DEMODIR/zz_seed_demo_test.go"
go test -count=1 -run "$RE" ./$DEMODIR/ > /tmp/vs/$NAME.demo_head.txt 2>&1; RC_HEAD=$?
tail -5 /tmp/vs/$NAME.demo_head.txt
rm "$DEMODIR/zz_seed_demo_test.go"
# pkg/vm TestUT fails on HEAD too (missing submodule): tolerate exactly that
FAILS=$(grep -E "^(FAIL|--- FAIL)" /tmp/vs/$NAME.tests.txt | grep -v "TestUT" | grep -v "^FAIL	github.com/nspcc-dev/neo-go/pkg/vm	" | grep -v "^FAIL$" | wc -l)
echo "RC_MUT=$RC_MUT RC_HEAD=$RC_HEAD RC_T=$RC_T other_test_failures=$FAILS"
if [ $RC_MUT -ne 0 ] && [ $RC_HEAD -eq 0 ] && [ $FAILS -eq 0 ]; then
  mkdir -p /verif/seeded/$NAME
  cp "$D/patch.diff" "$D/demo_test.go" /verif/seeded/$NAME/
  [ -f "$D/NOTES.md" ] && cp "$D/NOTES.md" /verif/seeded/$NAME/
  { echo "verified $(date -u +%FT%TZ) at /repo $(git -C /repo rev-parse --short HEAD)"; echo "demo dir: $DEMODIR  run: go test -run '$RE' ./$DEMODIR/"; echo "demo with mutation: exit $RC_MUT (fails); demo on HEAD: exit $RC_HEAD (passes)"; echo "existing tests with mutation ($PKGS): no failures other than pkg/vm TestUT (missing submodule, fails on HEAD too)"; } > /verif/seeded/$NAME/verify.log
  echo "RESULT: CONFIRMED"
else
  echo "RESULT: NOT CONFIRMED"
fi
