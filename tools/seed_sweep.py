#!/usr/bin/env python3
"""seed_sweep.py [name-prefix] — run the property check of every seeded mutation (overlay, /repo untouched) and print which rules fire."""
import json, os, re, shutil, subprocess, sys, tempfile
from concurrent.futures import ThreadPoolExecutor
verif = "/verif"
pref = sys.argv[1] if len(sys.argv) > 1 else ""
seeds = sorted(d for d in os.listdir(verif + "/seeded") if d.startswith(pref) and os.path.isfile(f"{verif}/seeded/{d}/patch.diff"))
def run(name):
    prop = name[:3]
    patch = f"{verif}/seeded/{name}/patch.diff"
    od = tempfile.mkdtemp(prefix="sw")
    try:
        for f in re.findall(r"^\+\+\+ b/(\S+)", open(patch).read(), re.M):
            os.makedirs(os.path.dirname(f"{od}/{f}"), exist_ok=True)
            shutil.copy(f"/repo/{f}", f"{od}/{f}")
        r = subprocess.run(["patch", "-p1", "-s", "--no-backup-if-mismatch", "-d", od, "-i", patch], capture_output=True, text=True)
        if r.returncode != 0:
            return name, "STALE", []
        r = subprocess.run([f"{verif}/bin/nvcheck", "-property", prop, "-overlay-dir", od, "-out", od + "/out", "-known", f"{verif}/known_findings.json"], capture_output=True, text=True)
        rules = sorted(set(re.findall(r"rule (\S+) \[violation\]", r.stdout)))
        lost = sorted(set(re.findall(r"rule (\S+) \[coverage-lost\]", r.stdout)))
        if r.returncode == 0:
            return name, "missed", []
        if r.returncode == 1 and rules:
            return name, "DETECTED", rules
        return name, "exit%d lost=%s" % (r.returncode, lost), rules
    finally:
        shutil.rmtree(od, ignore_errors=True)
with ThreadPoolExecutor(max_workers=4) as ex:
    for name, res, rules in ex.map(run, seeds):
        print("%-45s %-10s %s" % (name, res, ",".join(rules)))
