#!/usr/bin/env python3
"""Regenerates /verif/controls/<name>/{patch.diff,meta.json}: hand-made negative controls (one broken instance each).
Each entry: (name, property, expected rule, what, [(file, old, new), ...]). Patches are produced against /repo's
current tree with difflib; an edit that no longer applies is skipped (reported)."""
import difflib, json, os, shutil, sys

C = [
 ("C06-merkle-weakened", "C06", "accept-dominators", "Merkle check conjoined with an escape hatch",
  [("pkg/core/blockchain.go", "if !block.MerkleRoot.Equals(merkle) {", "if !block.MerkleRoot.Equals(merkle) && len(block.Transactions) > 0 {")]),
 ("C06-timestamp-weakened", "C06", "accept-dominators", "timestamp check applies only with StateRootInHeader",
  [("pkg/core/blockchain.go", "if prevHeader.Timestamp >= currHeader.Timestamp {", "if prevHeader.Timestamp >= currHeader.Timestamp && bc.config.StateRootInHeader {")]),
 ("C07-attr-fee-dropped", "C07", "admit-dominators", "attribute fees no longer part of the required network fee",
  [("pkg/core/blockchain.go", "needNetworkFee := int64(size)*bc.FeePerByte() + bc.CalculateAttributesFee(t)", "needNetworkFee := int64(size) * bc.FeePerByte()")]),
 ("C02-tip-outside-batch", "C02", "block-single-publish", "current-block pointer written to the shared DAO instead of the published layer",
  [("pkg/core/blockchain.go", "\t\tkvcache.StoreAsCurrentBlock(block)", "\t\tbc.dao.StoreAsCurrentBlock(block)")]),
 ("C02-marker-names-wrong-stage", "C02", "stage-machine", "reset stage records the marker of its own stage instead of the next one",
  [("pkg/core/blockchain.go", "\t\tupperCache.Store.Put(resetStageKey, []byte{stateResetBit | byte(transfersReset)})", "\t\tupperCache.Store.Put(resetStageKey, []byte{stateResetBit | byte(headersReset)})")]),
 ("C03-postpersist-other-layer", "C03", "mpt-batch-source", "PostPersist executes on a layer the MPT batch is not taken from",
  [("pkg/core/blockchain.go", "aer, _, err = bc.runPersist(bc.contracts.GetPostPersistScript(), block, cache, trigger.PostPersist, v)", "aer, _, err = bc.runPersist(bc.contracts.GetPostPersistScript(), block, aerCache, trigger.PostPersist, v)")]),
 ("C04-persist-on-fault", "C04", "tx-commit-guard", "faulted transaction persisted when it emitted no notification",
  [("pkg/core/blockchain.go", "\t\tif !v.HasFailed() {\n\t\t\t_, err := systemInterop.DAO.Persist()", "\t\tif !v.HasFailed() || len(systemInterop.Notifications) == 0 {\n\t\t\t_, err := systemInterop.DAO.Persist()")]),
 ("C08-unlock-missing", "C08", "lock-pairing", "ErrOOM exit of Pool.Add returns with the lock held",
  [("pkg/core/mempool/mem_pool.go", "\t\tif n == len(mp.verifiedTxes) {\n\t\t\tmp.lock.Unlock()\n\t\t\treturn ErrOOM", "\t\tif n == len(mp.verifiedTxes) {\n\t\t\treturn ErrOOM")]),
 ("C09-pair-read-split", "C09", "lockset", "MemCachedStore.Get reads the map and ps in two critical sections",
  [("pkg/core/storage/memcached_store.go", "\ts.rlock()\n\tdefer s.runlock()\n\tm := s.chooseMap(key)\n\tif val, ok := m[string(key)]; ok {\n\t\tif val == nil {\n\t\t\treturn nil, ErrKeyNotFound\n\t\t}\n\t\treturn val, nil\n\t}\n\treturn s.ps.Get(key)",
    "\ts.rlock()\n\tm := s.chooseMap(key)\n\tval, ok := m[string(key)]\n\ts.runlock()\n\tif ok {\n\t\tif val == nil {\n\t\t\treturn nil, ErrKeyNotFound\n\t\t}\n\t\treturn val, nil\n\t}\n\ts.rlock()\n\tps := s.ps\n\ts.runlock()\n\treturn ps.Get(key)")]),
 ("C12-newbuffer-unbounded", "C12", "limit-guards", "NEWBUFFER no longer compares the size with MaxSize",
  [("pkg/vm/vm.go", "\t\tif n < 0 || n > stackitem.MaxSize {\n\t\t\tpanic(\"invalid size\")\n\t\t}\n\t\tv.estack.PushItem(stackitem.NewBuffer(make([]byte, n)))", "\t\tif n < 0 {\n\t\t\tpanic(\"invalid size\")\n\t\t}\n\t\tv.estack.PushItem(stackitem.NewBuffer(make([]byte, n)))")]),
 ("C12-call-depth-unchecked", "C12", "limit-guards", "VM.call no longer checks the invocation stack size",
  [("pkg/vm/vm.go", "\tv.checkInvocationStackSize()\n\tnewCtx := &Context{", "\tnewCtx := &Context{")]),
 ("C12-gas-check-escape", "C12", "gas-before-dispatch", "gas limit check skipped for NOP",
  [("pkg/vm/vm.go", "\t\tif v.gasLimit >= 0 && v.gasConsumed.GtUint64(uint64(v.gasLimit)) {", "\t\tif v.gasLimit > 0 && op != opcode.NOP && v.gasConsumed.GtUint64(uint64(v.gasLimit)) {")]),
 ("C15-depth-not-decremented", "C15", "cond-tables", "condition array decoder passes its own depth on",
  [("pkg/core/transaction/witness_condition.go", "\t\ta[i] = decodeBinaryCondition(r, maxDepth-1)", "\t\ta[i] = decodeBinaryCondition(r, maxDepth)")]),
 ("C15-json-arm-wrong-type", "C15", "cond-tables", "JSON decoder builds a Group condition for the CalledByGroup kind",
  [("pkg/core/transaction/witness_condition.go", "\t\tres = (*ConditionCalledByGroup)(aux.Group)", "\t\tres = (*ConditionGroup)(aux.Group)")]),
 ("C15-custom-contracts-calling-hash", "C15", "cond-context", "CustomContracts scope tested against the calling instead of the executing contract",
  [("pkg/core/interop/runtime/witness.go", "\t\t\t\tcurrentScriptHash := ic.VM.GetCurrentScriptHash()", "\t\t\t\tcurrentScriptHash := ic.VM.GetCallingScriptHash()")]),
 ("C16-storage-put-flags", "C16", "flags-effects", "System.Storage.Put requires ReadStates only",
  [("pkg/core/interops.go", "{Name: interopnames.SystemStoragePut, Func: storage.Put, Price: 1 << 15, RequiredFlags: callflag.WriteStates},", "{Name: interopnames.SystemStoragePut, Func: storage.Put, Price: 1 << 15, RequiredFlags: callflag.ReadStates},")]),
 ("C01-setter-through-ro-cache", "C01", "cache-ro", "setFeePerByte writes through a read-only cache",
  [("pkg/core/native/policy.go", "\tsetIntWithKey(p.ID, ic.DAO, feePerByteKey, value)\n\tcache := ic.DAO.GetRWCache(p.ID).(*PolicyCache)", "\tsetIntWithKey(p.ID, ic.DAO, feePerByteKey, value)\n\tcache := ic.DAO.GetROCache(p.ID).(*PolicyCache)")]),
 ("C01-copy-aliases-blocked-accounts", "C01", "cache-copy", "PolicyCache.Copy shares the blocked accounts slice",
  [("pkg/core/native/policy.go", "\tdst.blockedAccounts = slices.Clone(src.blockedAccounts)\n", "")]),
 ("C01-setter-forgets-cache", "C01", "cache-pairing", "setFeePerByte stores the record without updating the cache",
  [("pkg/core/native/policy.go", "\tsetIntWithKey(p.ID, ic.DAO, feePerByteKey, value)\n\tcache := ic.DAO.GetRWCache(p.ID).(*PolicyCache)\n\tcache.feePerByte = value", "\tsetIntWithKey(p.ID, ic.DAO, feePerByteKey, value)")]),
 ("C01-init-forgets-register-price", "C01", "cache-init", "NEO.InitializeCache no longer reads the register price",
  [("pkg/core/native/native_neo.go", "\tcache.registerPrice = getIntWithKey(n.ID, d, []byte{prefixRegisterPrice})\n\n\t// Update newEpoch* cache", "\t// Update newEpoch* cache")]),
 ("C01-node-local-setting-in-syscall", "C01", "cfg-local", "a syscall consults KeepOnlyLatestState",
  [("pkg/core/interop/runtime/engine.go", "func GetTime(ic *interop.Context) error {\n", "func GetTime(ic *interop.Context) error {\n\tif ic.Chain.GetConfig().KeepOnlyLatestState {\n\t\treturn errors.New(\"no time for you\")\n\t}\n")]),
 ("C17-header-timestamp-width", "C17", "codec-symmetry", "header encoder writes a 32-bit timestamp, decoder reads 64 bits",
  [("pkg/core/block/header.go", "bw.WriteU64LE(b.Timestamp)", "bw.WriteU32LE(uint32(b.Timestamp))")]),
 ("C17-mptroot-field-order", "C17", "codec-symmetry", "state root encoder swaps version and index",
  [("pkg/core/state/mpt_root.go", "\tw.WriteB(s.Version)\n\tw.WriteU32LE(s.Index)", "\tw.WriteU32LE(s.Index)\n\tw.WriteB(s.Version)")]),
 ("C20-stage-before-persist", "C20", "sync-guards", "blocksSynced set before the synchronous persist",
  [("pkg/core/statesync/module.go", "\t\t_, err := s.dao.Store.PersistSync()\n\t\tif err != nil {\n\t\t\treturn fmt.Errorf(\"failed to persist last batch of blocks: %w\", err)\n\t\t}\n\t\ts.syncStage |= blocksSynced", "\t\ts.syncStage |= blocksSynced\n\t\t_, err := s.dao.Store.PersistSync()\n\t\tif err != nil {\n\t\t\treturn fmt.Errorf(\"failed to persist last batch of blocks: %w\", err)\n\t\t}")]),
 ("C20-put-without-recheck", "C20", "chan-typestate", "blocking Put signals without re-checking discarded (the repaired defect)",
  [("pkg/network/bqueue/queue.go", "\t\t\t\t\t// The queue could have been discarded while we were not holding the lock.\n\t\t\t\t\tif bq.discarded.Load() {\n\t\t\t\t\t\treturn nil\n\t\t\t\t\t}\n", "")]),
 ("C16-group-permission-no-methods", "C16", "perm-method-check", "group permission returns membership without the method list (the repaired defect)",
  [("pkg/smartcontract/manifest/permission.go", "\t\tif !slices.ContainsFunc(m.Groups, func(manifestG Group) bool {\n\t\t\treturn contractG.Equal(manifestG.PublicKey)\n\t\t}) {\n\t\t\treturn false\n\t\t}", "\t\treturn slices.ContainsFunc(m.Groups, func(manifestG Group) bool {\n\t\t\treturn contractG.Equal(manifestG.PublicKey)\n\t\t})")]),
 ("C08-payer-self-comparison", "C08", "tautology", "payer secondary compared with itself (the repaired defect)",
  [("pkg/core/mempool/mem_pool.go", "conflictingPayer.secondary.Equals(p.secondary)", "conflictingPayer.secondary.Equals(conflictingPayer.secondary)")]),
 ("C01-gaspervote-prefixed-delete", "C01", "cache-key-shape", "gasPerVoteCache entry deleted by the prefixed key (the repaired defect)",
  [("pkg/core/native/native_neo.go", "delete(cache.gasPerVoteCache, string(voterKey[1:]))", "delete(cache.gasPerVoteCache, string(voterKey))")]),
 ("C10-append-to-extension-key", "C10", "append-alias", "getWithPath appends to the extension key in place (the repaired defect)",
  [("pkg/core/mpt/trie.go", "slices.Concat(n.key, prefix)", "append(n.key, prefix...)")]),
 ("C11-count-patched-in-place", "C11", "store-value-immutable", "updateRefCount patches the stored slice (the repaired defect)",
  [("pkg/core/mpt/trie.go", "\t\t\tdata = slices.Clone(data)\n", "")]),
 ("C03-seek-direction-inverted", "C03", "seek-orientation", "TrieStore.Seek skips/keeps the diverging subtree on the wrong side of Start (the repaired defect)",
  [("pkg/core/mpt/trie_store.go", "if cmp < 0 != rng.Backwards {", "if cmp < 0 == rng.Backwards {")]),
 ("C10-traverse-ignores-direction", "C10", "seek-orientation", "Billet.traverse decides on an extension node without regard to the scan direction (the repaired defect)",
  [("pkg/core/mpt/billet.go", "bytes.Compare(n.key, from) > 0 != backwards {", "bytes.Compare(n.key, from) > 0 {")]),
 ("C09-backward-filter-flipped", "C09", "seek-orientation", "the backward key filter of the memory layer keeps keys after the start",
  [("pkg/core/storage/memcached_store.go", "cmp.Compare(key[lPrefix:], sStart) <= 0 || strings", "cmp.Compare(key[lPrefix:], sStart) >= 0 || strings")]),
 ("C09-leveldb-backward-steps-next", "C09", "seek-orientation", "LevelDB backward scan steps with Next",
  [("pkg/core/storage/leveldb_store.go", "\t\tnext = iter.Prev", "\t\tnext = iter.Next")]),
 ("C01-whitelist-fee-reset-skips-cache", "C01", "cache-pairing", "re-setting a whitelisted method's fee stores the record but skips the cache (the repaired defect)",
  [("pkg/core/native/policy.go", "\t} else {\n\t\tcache.whitelistedContracts[i] = c\n\t}\n", "\t}\n")]),
 ("C03-historic-vm-gc-flag", "C03", "historic-root", "GetTestHistoricVM opens the historic trie store with ModeGCFlag (the repaired defect)",
  [("pkg/core/blockchain.go", "\t\tmode |= mpt.ModeLatest", "\t\tmode |= mpt.ModeGCFlag")]),
 ("C03-historic-window-underflow", "C03", "unsigned-window", "the retained-window test subtracts unsigned heights without testing their order (the repaired defect)",
  [("pkg/core/blockchain.go", "if h, mtb := bc.BlockHeight(), bc.GetMaxTraceableBlocks(); h > mtb && b.Index < h-mtb {", "if b.Index < bc.BlockHeight()-bc.GetMaxTraceableBlocks() {")]),
 ("C17-varuint-border-exclusive", "C17", "varint-agreement", "PutVarUint compares the 16- and 32-bit borders exclusively (the repaired defect)",
  [("pkg/io/binaryWriter.go", "\tif val <= 0xFFFF {", "\tif val < 0xFFFF {"), ("pkg/io/binaryWriter.go", "\tif val <= 0xFFFFFFFF {", "\tif val < 0xFFFFFFFF {")]),
 ("C17-estimator-border-exclusive", "C17", "varint-agreement", "the length-prefix estimator counts 0xFFFF as a 5-byte prefix while the writer puts 3",
  [("pkg/io/size.go", "\t} else if value <= 0xFFFF {", "\t} else if value < 0xFFFF {")]),
 ("C17-stackitem-count-signed", "C17", "signed-count", "stack item element count converted to int and only compared from above (the repaired defect)",
  [("pkg/vm/stackitem/serialization.go", "if size < 0 || size > r.limit {", "if size > r.limit {"), ("pkg/vm/stackitem/serialization.go", "if size < 0 || size > r.limit/2 {", "if size > r.limit/2 {")]),
 ("C17-merkleblock-count-signed", "C17", "signed-count", "MerkleBlock transaction count converted to int before the limit test (the repaired defect)",
  [("pkg/network/payload/merkleblock.go", "\tcount := br.ReadVarUint()\n\tif count > block.MaxTransactionsPerBlock {", "\ttxCount := int(br.ReadVarUint())\n\tif txCount > block.MaxTransactionsPerBlock {"), ("pkg/network/payload/merkleblock.go", "\ttxCount := int(count)\n", "")]),
 ("C20-restart-panics-on-equal-siblings", "C20", "traverse-callback", "the pool-rebuilding Traverse callback panics on the second occurrence of a hash (the repaired defect)",
  [("pkg/core/statesync/module.go", "\t\t\t\t\tif _, ok = seen[n.Hash()]; ok {\n\t\t\t\t\t\t// Equal subtrees have equal hashes: the node was already\n\t\t\t\t\t\t// processed with all of its paths when it was met first.\n\t\t\t\t\t\treturn false\n\t\t\t\t\t}\n", "")]),
 ("C17-map-key-unvalidated", "C17", "decoder-panics", "binary stack item decoder adds a map key without validating it (the repaired defect)",
  [("pkg/vm/stackitem/serialization.go", "\t\t\tif err := IsValidMapKey(key); err != nil {\n\t\t\t\tr.Err = err\n\t\t\t\treturn nil\n\t\t\t}\n", "")]),
 ("C17-json-map-key-unvalidated", "C17", "decoder-panics", "FromJSON adds a property name as map key without validating it (the repaired defect)",
  [("pkg/vm/stackitem/json.go", "\t\tif err = IsValidMapKey(keyItem); err != nil {\n\t\t\treturn nil, err\n\t\t}\n", "")]),
 ("C17-typed-json-integer-unchecked", "C17", "decoder-panics", "FromJSONWithTypes builds an Integer without the size check (the repaired defect)",
  [("pkg/vm/stackitem/json.go", "\t\tif err := CheckIntegerSize(val); err != nil {\n\t\t\treturn nil, mkErrValue(err)\n\t\t}\n", "")]),
 ("C17-json-number-unchecked", "C17", "decoder-panics", "FromJSON builds an Integer from a JSON number without the size check (the repaired defect)",
  [("pkg/vm/stackitem/json.go", "\t\tif err = CheckIntegerSize(num); err != nil {\n\t\t\treturn nil, fmt.Errorf(\"%w (%w)\", ErrInvalidValue, err)\n\t\t}\n", "")]),
 ("C17-compressed-flag-sticky", "C17", "compress-frame", "the Compressed flag survives from the previous encoding (the repaired defect)",
  [("pkg/network/message.go", "\tm.Flags &^= Compressed\n\tif enableCompression {", "\tif m.Flags&Compressed == 0 && enableCompression {")]),
 ("C09-memory-backward-drops-extensions", "C09", "seek-orientation", "the memory layer's backward filter drops keys extending the start (the repaired defect)",
  [("pkg/core/storage/memcached_store.go", " || strings.HasPrefix(key[lPrefix:], sStart))", ")")]),
 ("C06-duplicate-transactions-unchecked", "C06", "accept-dominators", "AddBlock no longer rejects a repeated transaction (the repaired defect)",
  [("pkg/core/blockchain.go", "\t\t\tif _, ok := seen[tx.Hash()]; ok {\n\t\t\t\treturn fmt.Errorf(\"invalid block: duplicate transaction %s\", tx.Hash().StringLE())\n\t\t\t}\n", "")]),
 ("C02-inactive-without-jump", "C20", "inactive-after-jump", "a restart that finds everything fetched marks the module inactive without jumping (the repaired defect)",
  [("pkg/core/statesync/module.go", "\ts.checkSyncIsCompleted()\n\treturn nil\n}", "\tif s.syncStage == headersSynced|blocksSynced|mptSynced {\n\t\ts.syncStage = inactive\n\t}\n\treturn nil\n}")]),
 ("C02-header-gc-ignores-header-height", "C02", "gc-keeps-startup-page", "the header-hash collector is bounded by the traceability index only (the repaired defect)",
  [("pkg/core/blockchain.go", "\ttill = min(till, (int32(bc.HeaderHeight()+1)/headerBatchCount-2)*headerBatchCount)\n", "")]),
 ("C07-policy-estimate-without-state-root", "C07", "context-construction", "ApplyPolicyToTxSet estimates the block size with a header without state root (the repaired defect)",
  [("pkg/core/blockchain.go", "Script: defaultWitness.(transaction.Witness), StateRootEnabled: bc.config.StateRootInHeader}}", "Script: defaultWitness.(transaction.Witness)}}")]),
]

root = "/verif/controls"
shutil.rmtree(root, ignore_errors=True)
bad = 0
for name, prop, rule, what, edits in C:
    diff = ""
    ok = True
    for f, old, new in edits:
        src = open("/repo/" + f).read()
        if src.count(old) != 1:
            print("SKIP %s: edit does not apply exactly once (%d) in %s" % (name, src.count(old), f))
            ok = False
            break
        dst = src.replace(old, new)
        diff += "".join(difflib.unified_diff(src.splitlines(True), dst.splitlines(True), "a/" + f, "b/" + f))
    if not ok:
        bad += 1
        continue
    d = os.path.join(root, name)
    os.makedirs(d)
    open(d + "/patch.diff", "w").write(diff)
    json.dump({"property": prop, "detected_by": rule, "what": what, "source": "hand-made by the author of the checker (one broken instance of one rule)"}, open(d + "/meta.json", "w"), indent=1)
print("%d controls written, %d skipped" % (len(C) - bad, bad))
